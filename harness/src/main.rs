//! jv - in-process harness for the just verification checks.
//!
//! Reads one JSON request per line on stdin and prints one JSON answer per line:
//!   {"op":"lex","src":S} | {"op":"compile","src":S} | {"op":"unindent","src":S}
//!   {"op":"positional","words":[..]} | {"op":"group","src":S,"words":[..]} | {"op":"widths","src":S}
//! Every call runs under catch_unwind on a worker thread with an 8 MiB stack (the size of the
//! main thread of the real binary); a panic is reported as {"panic": message}.
use std::io::{BufRead, Write};
use std::panic;

fn handle(line: &str) -> String {
  let request: serde_json::Value = match serde_json::from_str(line) {
    Ok(v) => v,
    Err(e) => return serde_json::json!({"fatal": format!("bad request: {e}")}).to_string(),
  };
  let op = request["op"].as_str().unwrap_or("").to_string();
  let src = request["src"].as_str().unwrap_or("").to_string();
  let words: Vec<String> = request["words"]
    .as_array()
    .map(|a| a.iter().map(|w| w.as_str().unwrap_or("").to_string()).collect())
    .unwrap_or_default();
  let result = panic::catch_unwind(move || match op.as_str() {
    "lex" => just::verif::lex(&src),
    "compile" => just::verif::compile(&src),
    "status" => {
      // compile (lex, parse, analyze, dump, format) but answer only whether it succeeded
      let answer = just::verif::compile(&src);
      if answer.starts_with("{\"dump\"") {
        serde_json::json!({"ok": true, "len": answer.len()}).to_string()
      } else {
        answer
      }
    }
    "unindent" => serde_json::json!({"text": just::verif::unindent_text(&src)}).to_string(),
    "positional" => just::verif::positional(&words),
    "widths" => {
      // display width of every character of `src` as the unicode-width crate reports it
      let widths: Vec<(u32, usize)> = src
        .chars()
        .map(|c| (c as u32, unicode_width::UnicodeWidthChar::width(c).unwrap_or(0)))
        .collect();
      serde_json::json!({"widths": widths}).to_string()
    }
    "group" => just::verif::group(&src, &words),
    _ => serde_json::json!({"fatal": "unknown op"}).to_string(),
  });
  match result {
    Ok(s) => s,
    Err(e) => {
      let msg = if let Some(s) = e.downcast_ref::<String>() {
        s.clone()
      } else if let Some(s) = e.downcast_ref::<&str>() {
        (*s).to_string()
      } else {
        "panic".to_string()
      };
      serde_json::json!({"panic": msg}).to_string()
    }
  }
}

fn main() {
  panic::set_hook(Box::new(|_| {}));
  let worker = std::thread::Builder::new()
    .stack_size(8 * 1024 * 1024)
    .spawn(|| {
      let stdin = std::io::stdin();
      let stdout = std::io::stdout();
      let mut out = std::io::BufWriter::new(stdout.lock());
      for line in stdin.lock().lines() {
        let Ok(line) = line else { break };
        let answer = handle(&line);
        out.write_all(answer.as_bytes()).ok();
        out.write_all(b"\n").ok();
        // flush per line so that an abort (stack overflow) loses at most the current case
        out.flush().ok();
      }
    })
    .unwrap();
  worker.join().ok();
}
