#!/usr/bin/env python3
"""add_seed.py <Cxx> <mutdir> <name> <seedlog line>: copy a verified seeded change into /verif/seeded/<name>/."""
import json, os, shutil, sys
prop, src, name, logline = sys.argv[1:5]
dst = os.path.join("/verif/seeded", name)
os.makedirs(dst, exist_ok=True)
for f in ("patch.diff", "demo.sh"):
    shutil.copy(os.path.join(src, f), os.path.join(dst, f))
meta = json.load(open(os.path.join(src, "meta.json")))
meta["property"] = prop
meta["verified_by_hand"] = {
    "how": "tools/verify_seeds.sh in a scratch worktree of /repo: git apply, cargo build, cargo test --workspace --no-fail-fast --offline, demo.sh against the unmodified and the modified binary",
    "result": logline,
}
json.dump(meta, open(os.path.join(dst, "meta.json"), "w"), indent=1)
print("added", dst)
