#!/bin/bash
# usage: try_patch.sh <Cxx> <patch.diff>: apply a change to /repo, run the quick check of the property, undo the change.
prop=$1; patch=$2; shift 2
test -z "$(git -C /repo status --porcelain)" || { echo "/repo not clean"; exit 2; }
git -C /repo apply "$patch" || exit 2
cd /verif && ./check $prop --tier quick "$@" 2>&1 | tail -${TAIL:-8}
echo "exit=${PIPESTATUS[0]}"
git -C /repo checkout -- .
