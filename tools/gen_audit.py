#!/usr/bin/env python3
"""gen_audit.py: make sure every theorem of every Props/CXX.lean is listed in Audit/CXX.lean (`#print axioms`).
Only appends lines; the order of the existing ones is kept."""
import os, re, sys
LEAN = os.path.join(os.path.dirname(os.path.dirname(os.path.abspath(__file__))), "lean", "Just")
for i in range(1, 21):
    pid = "C%02d" % i
    props = open(os.path.join(LEAN, "Props", pid + ".lean")).read()
    audit_path = os.path.join(LEAN, "Audit", pid + ".lean")
    audit = open(audit_path).read()
    have = set(re.findall(r"#print axioms ([^\s]+)", audit))
    names = re.findall(r"^theorem\s+([^\s:({\[]+)", props, re.M)
    add = []
    for n in names:
        if n not in have and ("Just.Props.%s.%s" % (pid, n)) not in have and n not in add:
            add.append(n)
    if add:
        with open(audit_path, "a") as f:
            if not audit.endswith("\n"):
                f.write("\n")
            for n in add:
                f.write("#print axioms %s\n" % n)
        print(pid, "added", len(add))
