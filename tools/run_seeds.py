#!/usr/bin/env python3
"""run_seeds.py [--seed N] [name...]: apply each seeded change to /repo, run the quick check of its property, undo.
Writes seeded/RESULTS.json (which check catches which change)."""
import json, os, subprocess, sys, time
ROOT = "/verif"
SEED = None
if len(sys.argv) > 2 and sys.argv[1] == "--seed":
    SEED = sys.argv[2]
    del sys.argv[1:3]
names = sys.argv[1:] or sorted(d for d in os.listdir(os.path.join(ROOT, "seeded")) if os.path.isdir(os.path.join(ROOT, "seeded", d)))
respath = os.path.join(ROOT, "seeded", "RESULTS.json" if SEED is None else "RESULTS.seed%s.json" % SEED)
results = json.load(open(respath)) if os.path.exists(respath) else {}
assert subprocess.run(["git", "-C", "/repo", "status", "--porcelain"], capture_output=True, text=True).stdout.strip() == "", "/repo not clean"
for n in names:
    d = os.path.join(ROOT, "seeded", n)
    meta = json.load(open(os.path.join(d, "meta.json")))
    prop = meta["property"]
    p = subprocess.run(["git", "-C", "/repo", "apply", os.path.join(d, "patch.diff")])
    if p.returncode != 0:
        results[n] = {"property": prop, "applied": False}
        continue
    t0 = time.time()
    try:
        p = subprocess.run(["./check", prop, "--tier", "quick"] + (["--seed", SEED] if SEED is not None else []), cwd=ROOT, capture_output=True, text=True)
    finally:
        subprocess.run(["git", "-C", "/repo", "checkout", "--", "."])
    lines = [l for l in p.stdout.split("\n") if l.startswith("VIOLATION")]
    results[n] = {"property": prop, "applied": True, "exit": p.returncode, "violations": len(lines),
                  "with_input": sum(1 for l in lines if "no-failing-input-found" not in l),
                  "first": lines[0] if lines else None, "wall_s": round(time.time() - t0, 1)}
    print(n, results[n], flush=True)
json.dump(results, open(respath, "w"), indent=1, sort_keys=True)
