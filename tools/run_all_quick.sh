#!/bin/bash
# run every quick check on /repo as it is (rewrites every evidence file); prints one line per property
cd /verif
for i in $(seq -w 1 20); do
  s=$(date +%s)
  out=$(./check C$i --tier quick "$@" 2>&1); rc=$?
  echo "C$i rc=$rc $(( $(date +%s) - s ))s violations=$(echo "$out" | grep -c '^VIOLATION') known=$(echo "$out" | grep -c '^KNOWN-FINDING')"
done
