#!/bin/bash
# usage: verify_seeds.sh <out-log> <mutdir>...   (each mutdir holds patch.diff demo.sh meta.json)
# Confirms in a scratch worktree that each seeded change compiles, passes the existing test suite
# (same result as the baseline: only functions::env_var_functions fails) and that its demo
# passes without / fails with the change.  Results are appended to <out-log>.
LOG=$1; shift
VW=${VW:-/tmp/vw}
export CARGO_NET_OFFLINE=true
if [ ! -d $VW ]; then git -C /repo worktree add --detach $VW HEAD >/dev/null 2>&1; fi
cd $VW && git checkout -q --detach $(git -C /repo rev-parse HEAD) && git checkout -- .
cargo build --offline >/dev/null 2>&1
cp target/debug/just $VW-just-orig
for d in "$@"; do
  cd $VW && git checkout -- .
  name=$(basename $(dirname $d))-$(basename $d)
  if ! git apply $d/patch.diff; then echo "$name APPLY-FAILED" >> $LOG; continue; fi
  if ! cargo build --offline >$VW-build.log 2>&1; then echo "$name BUILD-FAILED" >> $LOG; continue; fi
  cp target/debug/just $VW-just-mut
  cargo test --workspace --no-fail-fast --offline >$VW-test.log 2>&1
  failed=$(grep -E "^test .* FAILED$" $VW-test.log | sort -u | tr '\n' ' ')
  passed=$(grep -E "^test result:" $VW-test.log | awk '{s+=$4} END {print s}')
  bash $d/demo.sh $VW-just-orig >$VW-demo-orig.log 2>&1; ro=$?
  bash $d/demo.sh $VW-just-mut >$VW-demo-mut.log 2>&1; rm=$?
  echo "$name passed=$passed failed=[$failed] demo_orig=$ro demo_mut=$rm" >> $LOG
done
cd $VW && git checkout -- .
