#!/bin/bash
# usage: try_seed.sh <seed-name> [extra ./check args]: apply the seeded change to /repo, run the quick check of its
# property, undo the change.  For developing the checks; run_seeds.py is the recorded run.
s=$1; shift
prop=$(python3 -c "import json;print(json.load(open('/verif/seeded/$s/meta.json'))['property'])")
test -z "$(git -C /repo status --porcelain)" || { echo "/repo not clean"; exit 2; }
git -C /repo apply /verif/seeded/$s/patch.diff || exit 2
cd /verif && ./check $prop --tier quick "$@" 2>&1 | tail -${TAIL:-12}
echo "exit=${PIPESTATUS[0]}"
git -C /repo checkout -- .
