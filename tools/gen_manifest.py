#!/usr/bin/env python3
"""Regenerate MANIFEST.json from the table below (keeps the file valid and consistent)."""
import json
import os

ROOT = os.path.dirname(os.path.dirname(os.path.abspath(__file__)))

CLAIMED = {
    "C14": {
        "text": "Lean theorems over the Run model (echo decision = documented truth table on all flag combinations; echo text = spawned command; --dry-run executes nothing for every program, memo state and child behaviour; --quiet / --verbose / set quiet change nothing but echo events: same exit status, same processes, backticks, prompts and bodies in the same order, for every program, environment and command line; for backtick-free recipes and succeeding children the lines a dry run prints are exactly the commands and scripts a real run starts, in order) + correspondence: the full 480-row table and random recipe graphs run against the just binary built from the working tree, compared with the model and with direct oracles (dry vs real, --quiet vs plain).",
        "note": "Trusted: Lean kernel, the hand-written Run model (tied by the differential run), the fake shell vsh, the Python harness. --quiet with --dry-run is refused by clap (checked).",
        "technique": "Lean 4 proof over executable model + differential correspondence with the binary",
        "design": "4/C14",
    },
}

CLAIMED["C01"] = {
    "text": "Lean theorems over the Run model, for every acyclic program, command line, child behaviour, memo state and fuel: the executable runner refines the big-step specification Runs; run-once (top-level body starts are duplicate-free, never repeat the memo, and the memo grows by exactly them) for single invocations and whole command lines; a requested new (recipe, arguments) pair does run; every prior dependency call is in the memo or started before the caller's body, subsequents run right after the body from an empty memo in declared order; command-line and dependency lists run left to right; only reachable recipes run; the fuel bound is never hit. Correspondence: random and small-scope recipe graphs run against the binary, compared with an independent reference of the documented order and with the Lean model.",
    "note": "Trusted: Lean kernel; the Run model (tied by the differential run); fake shell vsh; Python harness and its reference order. Acyclicity is a hypothesis (the resolver's job, C03). Sequential execution of children is the OS's wait().",
    "technique": "Lean 4 proof (induction on a big-step spec refined by the executable model) + differential correspondence",
    "design": "4/C01",
}

CLAIMED["C02"] = {
    "text": "Lean theorems over the Run model, for every program, command line, fault plan and answer sequence: whenever a run ends with an error its event list ENDS with the command whose status is that error (or with the declined prompt) - nothing is started afterwards at any depth (later line, dependent, subsequent, later command-line recipe); the exit code is the status (128+n for signals, 1 for not confirmed); `-` lines never stop the run; a declined [confirm] recipe emits the prompt and nothing else; --yes never prompts. Correspondence / fault enumeration against the binary: all statuses 1..255 and 10 signals with/without `-`, every single failing command of random graphs, multi-fault plans with answer sequences, each compared with the cut of the all-succeed run, with an absolute reference order, and with the Lean model.",
    "note": "Trusted: Lean kernel; Run model (tied by the differential run); vsh (kills itself to produce signal deaths); Python harness. Core dumps / stopped children not modelled.",
    "technique": "Lean 4 proof (induction on big-step spec) + fault enumeration differential against the binary",
    "design": "4/C02",
}

CLAIMED["C07"] = {
    "text": "Lean theorems: for EVERY string x, quote(x) is read by the POSIX word recogniser as exactly one word equal to x; and in any command line pre ++ quote(x) ++ post where the interpolation is at a word position, the value cannot change the number of words or the parse (injection freedom). Correspondence: all strings of length <=2 (quick) / <=3 (thorough) over a 26-symbol metacharacter alphabet, injection payloads and random longer strings delivered through quote(), exported $param, \"$1\"/\"$@\"/$0 (linewise and shebang), variadic words and NAME=VALUE overrides with the real /bin/sh, a canary file, the quote() text compared with the Lean model through a logging shell, and the word model validated against dash.",
    "note": "Trusted: Lean kernel; the POSIX word model for the quoting subset (validated against dash every run); env/argv passing is the OS's and std::process::Command's; NUL / invalid UTF-8 excluded by the statement.",
    "technique": "Lean 4 proof (induction on the string, shape-simulation lemma) + exhaustive small-scope differential with real sh",
    "design": "4/C07",
}
CLAIMED["C13"] = {
    "text": "Lean theorems over a transition system of the handler bookkeeping, for every command sequence and EVERY interleaving of signal deliveries (universally quantified step lists): just never exits while a child is registered; once a fatal signal is processed while a non-`-` command runs no further command is ever spawned and just exits when it ends; exit code 128+signal / child's own status; idle delivery exits at once; only SIGTERM is forwarded; plus the witness that the pinned Linux handler (which did not record the signal) violates it - repaired by a fix: commit. Correspondence: ~380 forced schedules (8 program templates incl. --choose/--command/--evaluate x command index x during/idle x 4 signals x 3 child reactions) driven through the marker/gate hooks, no sleeps.",
    "note": "Trusted: kernel signal delivery, the self-pipe and handler thread; `arrives` = processed by the handler thread (marker hook). `-` lines are outside the claim (model correspondence only). --command failures exit 1 (only non-zero required).",
    "technique": "Lean 4 proof (invariants by induction over schedules) + forced-schedule differential through hooks",
    "design": "4/C13",
}

CLAIMED["C05"] = {
    "text": "Lean theorems over the argument-parser model, for every module tree and word vector: on success the groups' path words and arguments concatenated are exactly the command line (each word used once, in order); each group's argument count is within [min,max] of its recipe and greedy; the grouping loop terminates within its fuel; for every analyzer-valid parameter list and count in range binding succeeds with one value per parameter (never 'missing parameter'); singular/variadic/star/plus/default binding rules; a supplied word ignores the default; leading NAME=VALUE words are the overrides and nothing after the first other word is. Correspondence against the binary: every valid signature with <=3 parameters x 0..5 words x 4 command-line shapes (exhaustive) and random module trees x adversarial word vectors; groups, bound values, error kind, nothing-ran-on-error and number of default evaluations compared with the model.",
    "note": "Trusted: Lean kernel; Args model (tied by the differential run); clap option parsing (first word never starts with `-`); leading search-directory words belong to C16. Values observed through the logging shell.",
    "technique": "Lean 4 proof + exhaustive small-scope differential against the binary",
    "design": "4/C05",
}

CLAIMED["C08"] = {
    "text": "Lean theorems over the export model (environment = function, scopes outermost first): the environment set equation - for every name the child sees the innermost exported binding among the enclosing scopes, else nothing if unexported, else the dotenv entry (never shadowing the environment), else just's own value - for chains of any depth; the scope being defined never reaches the child; constants are never exported; plus the proved corner where a repeated removal hides an exported parameter (recorded as a known finding). Correspondence: random configurations (exports over colliding names in root, submodule and a sibling module on the same command line, `set export`, unexports, $/plain parameters shadowing variables, dotenv collisions) with the child environment dumped at 6 sites and compared with the statement written directly and with the Lean model.",
    "note": "Trusted: Lean kernel; export model (tied by the differential run); std::process::Command/OS environment passing; vsh environment dump. `set export`/`unexport` of the owning module apply to the whole chain as in the code. Child-module unexport of a parent-exported name is not generated (statement indeterminate).",
    "technique": "Lean 4 proof (induction over the scope chain) + differential correspondence of child environments",
    "design": "4/C08",
}

CLAIMED["C09"] = {
    "text": "Lean theorems over the working-directory model: the recipe cwd decision equals the documented rule on every combination; absolute attribute wins; relative attribute resolves against the setting-adjusted module directory; [no-cd] = invocation directory; backticks ignore attribute and [no-cd]; for ANY nesting of imports and modules the module directory is that of the last `mod` edge (imports inherit the importer's); --working-directory affects the root module only; directory functions are independent of module, setting and flags; source_directory() is the directory of the file containing the call. Correspondence: the product layout space (5 file positions x settings x flags x invocation directories x attribute x [no-cd] x linewise/shebang x direct/dependency; sampled in quick, complete in thorough) run against the binary; cwd of lines, scripts, interpolation and module-level backticks and the three directory functions compared with the statement and the model.",
    "note": "Trusted: Lean kernel; Workdir model (tied by the differential run); paths compared after realpath (symlinks / lexiclean are the OS's / a crate's); cwd observed through the logging shell.",
    "technique": "Lean 4 proof + product-space differential against the binary",
    "design": "4/C09",
}

CLAIMED["C16"] = {
    "text": "Lean theorems over the discovery model, for ancestor chains of ANY depth: nearest wins (every nearer directory has no candidate, the chosen one exactly one); two or more candidates in the nearest directory that has any is an error; not-found iff no ancestor has a candidate; candidate test ignores letter case and accepts the dot variant; the fallback climb ends only in 'ran at a level above' or an unknown-recipe error, stops at the first level that knows the recipe or lacks `set fallback`, climbs one justfile at a time; explicit --justfile disables both. Correspondence: random sample of directory chains (depth 3 quick / 4 thorough) x candidate placements x (knows, fallback) x invocation level x 5 invocation forms (plain, DIR/recipe, ../recipe, --justfile, --justfile + --working-directory) run against the binary; justfile used, cwd and error class compared with the statement and the model.",
    "note": "Trusted: Lean kernel; Search model (tied by the differential run); the scratch directory's ancestors contain no justfile; Linux case-sensitive file system; `DIR/recipe` splitting is compared behaviourally (no Lean theorem about string splitting).",
    "technique": "Lean 4 proof (induction over the ancestor chain) + differential against the binary on generated trees",
    "design": "4/C16",
}

CLAIMED["C18"] = {
    "text": "Lean theorems over the dotenv decision procedure (any ancestor depth): nothing is probed or loaded when no dotenv setting/flag is active; --no-dotenv disables loading; a flag behaves exactly like the setting with that value and the setting's own value is ignored; the file at dotenv-path wins when it exists, otherwise the nearest dotenv-filename (default .env) in the working directory or its ancestors, also when dotenv-path is set but missing; a missing file is an error only under dotenv-required; loaded entries never override the environment and new names are visible. Correspondence: product of settings x flags x file placements x invocation forms (sampled in quick, complete in thorough) against the binary, with decoy files in the justfile directory and a submodule with its own dotenv settings; the value seen by children and by env() at a module-level backtick, a root recipe and a submodule recipe; strace sample for 'no file is opened when inactive'.",
    "note": "Trusted: Lean kernel; Dotenv model (tied by the differential run); dotenvy's file syntax (plain K=V lines); strace support check is not a proof.",
    "technique": "Lean 4 proof of the decision procedure + product-space differential against the binary",
    "design": "4/C18",
}

CLAIMED["C19"] = {
    "text": "Lean theorems over the shared expression syntax and the gate: an expression records an unstable feature iff an unstable construct occurs at SOME syntactic position of it (every operand, argument index, condition side, branch, assert message, parentheses; any depth; by mutual structural induction); without a global opt-in the justfile is refused iff some module of the tree at any depth records a feature and does not itself `set unstable`; stable trees are never gated; the global opt-in admits everything; `set unstable` is per module; --summary is exempt; --fmt is gated; the documented falsy values are falsy, and the proved witness that the code's falsy set is larger than the README's (known finding). Correspondence: constructs x 12 positions (incl. imported file and submodule) x 17 opt-ins x 10 subcommands, plus stable decoy justfiles whose names and texts resemble the constructs, run against the binary (refused?, nothing ran before refusing).",
    "note": "Trusted: Lean kernel; Expr/Unstable models (tied by the differential run); clap's env handling apart from the compared falsy set. `refused` is recognised by the `currently unstable` message.",
    "technique": "Lean 4 proof (mutual structural induction, tree induction) + construct x position x opt-in differential",
    "design": "4/C19",
}

CLAIMED["C03"] = {
    "text": "Lean theorems: the variable walker (a stack machine mirroring Variables::next, incl. the UnaryOpt push order) reports a variable iff it occurs at SOME syntactic position (every operand, every argument index of every arity class, condition sides, branches, assert message, parentheses; any depth); the cycle-stack DFS shared by the assignment and recipe resolvers is sound for every graph: whatever it accepts is a duplicate-free topological order of known nodes, hence accepted assignments have a rank under which every variable at every position is a constant or a defined variable of smaller rank (no undefined name, no self or mutual reference) and accepted recipes have existing dependencies and a strictly decreasing rank along prior and subsequent edges (C01's Acyclic); defaults see only earlier parameters, dependency arguments and interpolations all of them; a wrong call (unknown function or arity outside its class, over the table REGENERATED from src/function.rs) at any position is rejected; README functions are in the regenerated table with their documented class; the resolver checks exactly the lines the evaluator evaluates (repaired by a fix: commit; the old gap is a proved witness). Correspondence against the binary: undefined name injected in 10 contexts x 36 constructor positions, all 3-node digraphs as variable and recipe graphs, dependency and function arity tables, duplicates, ignore-comments corners, random valid programs; every recipe is also RUN (rejected => nothing ran, accepted => no internal error).",
    "note": "Trusted: Lean kernel; Analyzer/Dfs models (tied by the differential run and the regenerated table); error messages mapped to (kind, offender) by pattern; duplicate detection compared behaviourally only. The DFS fuel (number of nodes + 1) is proved never to be exhausted (resolveAssignments_no_fuel / resolveRecipes_no_fuel: the stack of nodes in progress has no repetition).",
    "technique": "Lean 4 proof (fun_induction on the walker, invariant proof of the DFS, mutual structural induction) + defect-injection differential against the binary + regenerated table",
    "design": "4/C03",
}

CLAIMED["C20"] = {
    "text": "Lean theorems over a model in which every table of a compiled justfile is ordered except the unexports container: with an ordered set the dump is independent of the container's iteration order for ANY two orders of the same set and any totally ordered name type (via mergeSort uniqueness on permutations), and the proved witness that the pinned HashSet-based dump depended on it (repaired by a fix: commit). Tie to the source: a scan of every HashMap/HashSet occurrence in non-test code against a committed classification (a new or changed occurrence breaks the correspondence). Behavioural check: justfiles with several members in every collection, two-unstable-feature and compile-error justfiles x 24 non-executing command lines x 8 fresh processes each, outputs compared byte for byte; the failing JSON path / line is part of the finding signature.",
    "note": "Partial: determinism of std and absence of other entropy sources is established by the scan and repeated fresh processes (hash seeds differ per process), not by proof. Trusted: Lean kernel; the committed classification; path normalisation of the scratch directory.",
    "technique": "Lean 4 proof (order-independence of the ordered dump) + source scan + repeated fresh-process differential",
    "design": "4/C20",
}

CLAIMED["C17"] = {
    "text": "Lean theorems over the listing model: a recipe is listed iff it is in the (enabled-only) table and public, in sorted and in source order; --list, the JSON dump's public recipes and the module's part of --summary name the same recipes in the same order; --unsorted lists the same set; the chooser offers exactly the public recipes needing no arguments; every private name is still resolved by `just NAME`; `--show NAME` shows exactly what `just NAME` runs for recipes and aliases incl. aliases into submodules (repaired by a fix: commit; the old disagreement is a proved witness). Correspondence: random justfiles (public/[private]/underscore recipes, OS attributes, groups, docs, all parameter kinds, imports in root and in submodules, submodules, public/private aliases to own and submodule recipes) with --summary, --list (sorted/unsorted), JSON dump (incl. namepaths), --choose candidates and, for every name, --show vs the recipe `just NAME` actually runs (unique body marker), plus alias annotations.",
    "note": "Trusted: Lean kernel; Listing model (tied by the differential run); --list output parsed by indentation. Known finding: --show prints `alias a := name` without the submodule path. Aliases of private recipes and aliases into submodules are not annotated in --list (observation).",
    "technique": "Lean 4 proof + cross-view differential against the binary",
    "design": "4/C17",
}

CLAIMED["C15"] = {
    "text": "Lean theorems over the loader/merge model: every source that is ever loaded - for ANY file graph, cyclic or not, and any running time of the loader - has a repetition-free chain of files leading to it (a cyclic import or module chain is never followed) of length depth+1, hence nesting is bounded by the number of files; loader_terminates: on EVERY file graph (cyclic, dangling edges) the loop of Compiler::compile finishes within a bound depending only on the number of files and the largest number of items per file (weight W(N+1-chain length) per source; what a source pushes has longer repetition-free chains); a reference back into the chain is reported as circular for import and mod alike; missing optional edges are ignored and plain ones are errors; the duplicate-resolution table keeps each name exactly once with a definition of MINIMAL depth among all definitions processed (shallower wins) and every definition is represented; a module's recipes come only from files of its own import closure and every file of the closure contributes. Correspondence: random file graphs with 2-3 (quick) / 2-5 (thorough) files over import / import? / mod / mod? edges, self and mutual cycles, diamonds, edges to missing files, shared names in any file, allow-duplicate settings; merged module tree from the JSON dump (winner per name), error class, 10 s timeout, `a::r` vs `a r`, sibling modules on one command line, every module-file location alone and in pairs.",
    "note": "Partial: the override rule is proved as `minimal depth wins` over the depths the loader records; for files loaded along several paths the recorded depth is that of the last load (known findings c15-override-depth-of-last-load / c15-file-in-two-modules-runs-once, modelled faithfully). Trusted: Lean kernel; Imports model (tied by the differential run).",
    "technique": "Lean 4 proof (loop invariants of the loader and of the override table) + random small-graph differential against the binary",
    "design": "4/C15",
}

CLAIMED["C04"] = {
    "text": "Lean theorems over the evaluator model (mutual fuel recursion mirroring evaluate_expression / evaluate_assignment / evaluate_assignments): only the taken branch of if / && / || is evaluated and assert's message only on failure - the result equations do not mention the untaken expression at all (value, error, backtick log, bindings); + and / are concatenations; dry-run shows backticks unevaluated; override_irrelevant / override_skips_expression: with a variable overridden on the command line the WHOLE evaluation of the module (every value, the backtick log, the outcome) is the same whatever expression the justfile gives that variable - proved by simultaneous induction over all three evaluator functions; each_assignment_once: for every acyclically ranked table (what the resolver guarantees), any overrides, child behaviour and fuel, successful or failing, no assignment's expression starts evaluating twice (invariant: logged names are bound or rank above the current expression; new names rank below it and end up bound); the proved witness that the pinned lookup order made `A := HEX` and `Z := HEX` disagree (repaired by a fix: commit). Correspondence: random assignment sets over every expression form and 20 concrete functions, names unrelated to the dependency order (lazy forward evaluation), user variables named like constants, overrides by NAME=VALUE and --set, failing backticks; values and the ordered backtick log against the model; direct oracles: no backtick twice, overridden expressions never run, no internal error, same result with the assignments written in reverse order, submodule assignments once per invocation, parameter defaults only when omitted.",
    "note": "Partial: about fifty built-in functions (paths, hashes, heck case conversions, datetime, uuid, semver, file access) are outside the concrete set and not generated; regex operators only with literal patterns; ASCII letters/whitespace; string-literal cooking and unindent are modelled in C11 (Just.Cook, Just.Unindent), the evaluator model takes cooked strings. Trusted: Lean kernel; Eval model (tied by the differential run).",
    "technique": "Lean 4 proof (non-interference by simultaneous induction) + differential correspondence of values and backtick logs",
    "design": "4/C04",
}

CLAIMED["C12"] = {
    "text": "Lean theorems over a function-by-function port of the lexer and of Token's ColorDisplay, for EVERY source text (any length, tabs, CRLF, multi-byte and wide characters; display width an arbitrary function): every token the lexer emits and every error token it raises is a span pre++lex++post of the source whose offset/length are UTF-8 byte counts, whose line is the number of line feeds in pre and whose column is the bytes after the last one (invariant lifted through all 40 lexing functions by a Preserves combinator calculus); the tokens tile the source without gap or overlap; for a located token the printed line:column are its one-based coordinates, the echoed text is exactly its source line (CR of CRLF removed, tabs expanded), the carets start at the display width of the text before it and are as wide as the token is displayed, clipped to the first line for multi-line tokens; nothing is printed only at end of text (the `invalid line number` internal error is unreachable). Correspondence: ~41k (quick) / ~600k (thorough) enumerated, random and mutated sources lexed by model and implementation token for token; every compile error's printed context against the model; 40 kinds of injected errors at known places in files with tabs/CRLF/CJK/emoji/combining characters against an independent oracle, in root, imported, module, import-in-module and directory-module files with the real binary.",
    "note": "Partial: parser and analyzer are not modelled - that their errors carry the offending token is decided by the injected-error oracle (40 kinds) and by checking every reported token's coordinates against the text, not by a theorem. Display widths are the unicode-width crate's (read through jv). Colour output not covered. Trusted: Lean kernel; lexer/render models (tied token-for-token by the differential run); jv harness.",
    "technique": "Lean 4 proof (state invariant through a monadic combinator calculus; list lemmas for lines/scan) + token-level differential and injected-error oracle",
    "design": "4/C12",
}

CLAIMED["C11"] = {
    "text": "PARTIAL proof. Lean theorems over the lexer port (the component the property's assert/internal_error anchors live in): lexer_no_internal_error - for EVERY text tokenize returns tokens or an ordinary diagnostic: no internal_error site is reachable (advance past end, presume, Lexer::error fallback, invalid string start, empty interpolation stack, non-delimiter), by Hoare-style reasoning over the model (every advance/presume guarded by what the dispatch looked at, string scanner keeps `lexeme starts with its delimiter`, body scanner stops on text that is still there, advance_n within the leading white space); NONE of the lexer's four assert_eq!s can fail on any text (lex_dedent's current_token_length()==0 and the three at the end of tokenize), proved through loop invariants - idle at every loop head, indentation stack = empty string under non-empty strings, no text left at loop exit - lifted through all lexing functions by four small calculi (ends-idle, keeps-idle, keeps-stack, not-an-assert-error); byte-offset slicing never leaves the text at the three sites the property names: Token::lexeme (every token's slice is a run of whole characters of the source), unindent (the common indentation is a prefix of every line that is sliced and consists of spaces/tabs only - model of src/unindent.rs tied by an exhaustive differential), run_linewise's sigil strip (the stripped bytes are the leading @/- of the evaluated text); cook_unwrap_safe: the from_str_radix(..).unwrap() of \\u{..} escapes cannot fail on any string (model of cook_string tied by a differential over ~14k literals incl. surrogate and out-of-range escapes, indented strings); the main loop of Lexer::tokenize terminates on EVERY text - each round that continues consumes at least one character in normal, body and interpolation mode, for every lexer state, so the model's fuel (length+1) is never exhausted; no lexing function un-reads text; the diagnostic printer's `invalid line number` internal error is unreachable for every lexer error. The model turns each assert_eq!/internal_error site into an explicit Internal result, so sources on which the model says Internal are predicted crashes (this is how the backslash-at-EOF panic was found and fixed). Everything else is enumeration, not proof: in-process lex+compile (parse, analyze, dump, format) under catch_unwind of ~40k (quick) / ~500k (thorough) enumerated, random and mutated sources compared with the model; unindent on all strings <=7 (8) over a whitespace alphabet incl. form feed/NBSP; 31 constructs nested or chained 256/1000/30000(/100000) times; ~1900 command lines over 45 option templates x 43 hostile operands; all 73 built-in functions with hostile arguments; every parameter-list shape of length <=3 x 0..3 arguments x direct/dependency calls; 29 recipe-line shapes (sigils, shebangs, continuations) x 4 attribute/setting contexts.",
    "note": "Partial: theorems cover the lexer completely (total, no internal error, no assertion failure, located errors), the three byte-slicing sites, the cook_string unwrap, and termination of the parser (parser_loop_progress, parser_needs_no_fuel: on the token-level model of parse_ast and all it calls, every loop turn consumes a token and 8*tokens+12 fuel is as good as any - no hang); stack depth, analyzer/evaluator/CLI totality are decided by enumeration (testing). Known findings (recorded, not repaired): stack overflow on long +, /, &&, else-if chains and on long variable / recipe dependency chains; `#!` with empty interpreter reports an internal error. Fixed: backslash at EOF panic (lexer), --show ' ' panic, datetime(\"%Q\") panic, --timestamp-format panic.",
    "technique": "Lean 4 proof (termination by a strict-consumption calculus over the lexer model) + in-process and process-level enumeration for the unmodelled parts",
    "design": "4/C11",
}

CLAIMED["C06"] = {
    "text": "Lean theorems over the Body model (line.rs predicates, evaluate_line, the two nested loops of run_linewise, Executor::script, Settings::shell, run_script's interpreter choice), for EVERY body: a line is the plain concatenation of its fragments - text with {{{{ read as {{, interpolation values untouched wherever they stand; on a continuation line only leading white space of a leading TEXT fragment is dropped, a leading interpolated value is never trimmed; linewise_commands: the commands handed to the shell are exactly, in order, one per logical line (continuation group) - lines joined without the backslashes, sigils removed - and none for empty ones or comments under ignore-comments (loop = compositional specification, by simultaneous induction over the pending state); at most one process per logical line; in [script] and shebang script files every body line stands on its justfile line number (all bodies with increasing line numbers and newline-free lines); the full shell precedence table (--shell/--shell-arg over set shell over sh -cu), the script interpreter precedence (own command, script-interpreter, sh -eu), and that script recipes are independent of every shell flag and setting. Correspondence: 1500 (quick) / 20000 (thorough) generated recipes (sigils, escapes, interpolations with hostile values, continuations with extra indentation, blank and comment lines, tabs/spaces, LF/CRLF, multi-byte text) x 7 shell flag combinations x set shell x script-interpreter x ignore-comments x linewise/shebang/[script]/[script(cmd)] run through the binary with logging shells and interpreters; argv of every process and the script file compared with an oracle computed from the generator's construction and with the model fed with the body the binary parsed.",
    "note": "Trusted: Lean kernel; the Body model (tied by the differential run); vsh; the kernel's #! handling. Interpolations are taken by value (expression evaluation is C04); values with line feeds are excluded (they necessarily shift script lines). Body-mode lexing/parse_body are compared with the oracle, not proved (the lexer port is tied in C12). shell() passes the command again as $0 (observed, outside the statement). Windows paths not covered.",
    "technique": "Lean 4 proof (loop-to-specification refinement by simultaneous induction, list lemmas for script line numbers, decision tables by rfl) + argv/script-file differential with logging shells",
    "design": "4/C06",
}

CLAIMED["C10"] = {
    "text": "PARTIAL proof. Lean theorems over a token-level model of Display for Expression and of the recursive-descent expression parser (parse_expression / disjunct / conjunct / conditional / condition / value / sequence, mutual fuel recursion): roundtrip - for EVERY expression of the shapes the parser can produce (left operands of the right-recursive operators of lower level, `if`/`assert` not names), at every syntactic level, with any continuation that cannot extend the phrase and any fuel above 4*size+3, parsing the printed tokens returns exactly that expression and stops at the continuation (mutual structural induction over Expr/Exprs, incl. else-if chains, calls with any number of arguments, assert, groups); parsed_is_wellformed - whatever the parser returns, for any tokens and fuel, is of these shapes (7-way simultaneous induction on fuel), hence format_of_any_source: formatting any parseable source re-parses to the same tree and prints the same tokens again; corollaries parse_print, parse_print_fuel, parse_print_in_context (interpolations, defaults, dependency arguments), format_idempotent, group_keeps_parentheses. header_roundtrip: recipe header lines - quiet flag, name, positional parameters with `$` export and value defaults, the variadic parameter, prior and `&&` subsequent dependencies with expression arguments - print and parse back to exactly the header (models of parse_recipe up to expect_eol, parse_parameter, accept_dependency and of the matching Display code; list inductions over parameters, arguments and dependencies on top of the expression theorem). recipe_roundtrip: a whole recipe - header and body with text fragments, `{{ }}` interpolations and inner blank lines (model of parse_body incl. the trailing-blank-line pop) - round-trips; assignment_roundtrip ([export] name := expr); alias_roundtrip (targets with every `::` component, the thing seed C10-m1 drops). file_roundtrip: whole justfiles - model of parse_ast (attribute lines in both syntaxes with validity, duplicate detection and set order; parse_set in its three forms; keyword dispatch with all look-ahead guards; pop_doc_comment with eol_since_last_comment; expect_eol; import / mod / unexport / comments) and of Display for Ast with its blank-line layout as the lexer presents it: parse_ast(print items) = items minus the doc comment and attributes of `mod` items (Item.forget - the recorded finding as a theorem), for every well-formed item list; file_format_idempotent; parsed_file_is_wellformed (whatever parse_ast returns is well-formed) and the capstone format_of_any_file: if parse_ast accepts the tokens, the formatted file parses to the same items and formats to itself. Shell-expanded literals x'…' are modelled; the continuation condition of the expression theorem is exact (After). Statement oracle: ~8600 (quick) / ~100k (thorough) justfiles - a grammar covering every item kind, all 17 attributes in three syntaxes, every setting, every expression form, eight string flavours, linewise/shebang/script bodies with sigils, escapes, continuations, CRLF, missing final newline; exhaustive expression trees of depth 2 (3) in assignment, default, dependency-argument and interpolation position; the repository's 170 justfiles and README examples with mutations - compiled in-process: format(x) compiles, JSON dump equal, format(format(x)) = format(x); on files with the binary: --fmt --check exits 0 exactly on fixed points (incl. CRLF and missing-final-newline variants) and never writes, --fmt leaves the formatter's output; modules, imports, aliases into modules. Model tie: 3400 (60k) expressions 2500 (40k) recipe header lines 2500 (40k) whole items and 4500 (70k) whole files (every item kind, 25 % malformed) parsed by model and parser.rs (accept/reject, trees / parameters / dependencies / items equal) and printed by model and Display (tokens equal, blank-line layout included).",
    "note": "Partial: everything is at token level (white space inside lines and the lexing of the printed text are checked by the differential, not proved); parsed_file_is_wellformed proves that parse_ast only returns items of the shapes file_roundtrip assumes, so format_of_any_file holds for every token list the parser accepts; the recursion-depth guard is not modelled. Known findings (recorded): doc comment / [doc] / [group] of a `mod` item are dropped by the formatter; a lone carriage return ending the last body line of a file is turned into CRLF. Fixed: [private] on aliases was dropped. The JSON dump is transparent for parentheses, so `same meaning` is equality of trees modulo groups.",
    "technique": "Lean 4 proof (print/parse round trip by mutual structural induction) + statement oracle on generated, enumerated and mutated justfiles + token-level differential of parser and printer",
    "design": "4/C10",
}

PENDING = "check not built yet in this session (see DESIGN.md build order); no claim is made"


def main():
    props = [json.loads(l) for l in open(os.path.join(ROOT, "properties.jsonl"))]
    checks = []
    na = []
    for p in props:
        pid = p["id"]
        if pid in CLAIMED:
            c = CLAIMED[pid]
            checks.append({
                "property_id": pid,
                "quick_cmd": "./check %s --tier quick" % pid,
                "thorough_cmd": "./check %s --tier thorough" % pid,
                "evidence_file": "/verif/evidence/%s.json" % pid,
                "replay_cmd_template": "./check %s --replay {path}" % pid,
                "engine": "lean-model+correspondence",
                "level_claimed": {"category": c.get("category", "proof"), "text": c["text"], "design_ref": "DESIGN.md section " + c["design"]},
                "level_note": c["note"],
                "technique": c["technique"],
            })
        else:
            na.append({"property_id": pid, "reason": PENDING})
    m = {
        "version": 1,
        "setup_cmd": "./setup",
        "hooks": {
            "guard": "just_verif",
            "enable": "cargo build --offline --config 'build.rustflags=[\"--cfg\",\"just_verif\"]' (done by ./setup and by every check)",
            "baseline_off_cmd": "cd /repo && cargo test --workspace --no-fail-fast --offline",
            "source_commits": ["f1b4ead", "e8706e4"],
            "add_only": True,
        },
        "engines": [
            {"name": "lean-model+correspondence", "path": "/verif/lean, /verif/vlib, /verif/check",
             "serves_properties": sorted(CLAIMED),
             "kind_free_text": "Lean 4 model + theorems (lake build, #print axioms audit) tied to /repo by a differential correspondence harness (Python + fake shell vsh + in-process Rust harness)"},
        ],
        "checks": checks,
        "not_applicable": na,
        "notes": "See DESIGN.md. known_findings.json lists recorded genuine defects and fixed ones.",
    }
    with open(os.path.join(ROOT, "MANIFEST.json"), "w") as f:
        json.dump(m, f, indent=1)
    print("claimed", len(checks), "pending", len(na))


if __name__ == "__main__":
    main()
