import Just.Json
import Just.Model.Quote
import Just.Model.Path
import Just.Model.Words
import Just.Model.Percent
import Just.Model.Case
import Just.Model.Loader
import Just.Model.Determinism
import Just.Generated.Tables
import Just.Model.Lexer
import Just.Model.Render
import Just.Model.Body
import Just.Model.Syntax
import Just.Model.Unindent
import Just.Model.Header
import Just.Model.Items
import Just.Model.Cook
import Just.Model.Ast
open Lean Just

/-- first entry whose key occurs in `k` (the fake shell's matching rule) -/
def lookupD {α} (m : List (String × α)) (d : α) (k : String) : α :=
  match m.find? (fun e => (k.splitOn e.1).length > 1) with
  | some (_, v) => v
  | none => d

def handleRun (j : Json) : Except String Json := do
  let prog : Run.Prog ← fromJson? (← j.getObjVal? "prog")
  let cfg : Run.Cfg ← fromJson? (← j.getObjVal? "cfg")
  let invs : List (Nat × List String) ← fromJson? (← j.getObjVal? "invs")
  let status : List (String × Run.Status) ← fromJson? (← j.getObjVal? "status")
  let outs : List (String × String) ← fromJson? (← j.getObjVal? "outs")
  let ans : List Bool ← fromJson? (← j.getObjVal? "ans")
  let env : Run.Env := {
    status := lookupD status .ok
    btOut := lookupD outs ""
    ans := fun k => ans.getD k false }
  let (evs, code) := Run.runMain prog cfg env invs
  return Json.mkObj [("events", toJson evs), ("exit", toJson code)]

def handleSignals (j : Json) : Except String Json := do
  let cmds : List Signals.Cmd ← fromJson? (← j.getObjVal? "cmds")
  let steps : List Signals.Step ← fromJson? (← j.getObjVal? "steps")
  let record : Bool ← fromJson? (← j.getObjVal? "record")
  let s := Signals.run record (Signals.init cmds) steps
  return Json.mkObj [("spawned", toJson s.spawned), ("exited", toJson s.exited),
    ("forwarded", toJson s.forwarded), ("running", toJson s.running.isSome)]

def handleQuote (j : Json) : Except String Json := do
  let s ← j.getObjValAs? String "s"
  return Json.mkObj [("q", String.ofList (Quote.quote s.toList))]

def handleShSplit (j : Json) : Except String Json := do
  let s ← j.getObjValAs? String "s"
  match Quote.shSplit s.toList with
  | none => return Json.mkObj [("words", Json.null)]
  | some ws => return Json.mkObj [("words", toJson (ws.map String.ofList))]

def handleArgs (j : Json) : Except String Json := do
  let root ← Args.modFromJson (← j.getObjVal? "root")
  let words : List String ← fromJson? (← j.getObjVal? "words")
  let vars : List String ← fromJson? (← j.getObjVal? "variables")
  let pos := Args.positional words {}
  let unknown := pos.overrides.filter (fun o => !vars.contains o.1)
  if !unknown.isEmpty then
    return Json.mkObj [("error", "UnknownOverrides")]
  match Args.parseArguments root pos.args with
  | .error e => return Json.mkObj [("error", toJson e), ("overrides", toJson pos.overrides)]
  | .ok gs =>
    let out ← gs.mapM (fun g =>
      match Args.bindArgs g.sig.params g.args [] with
      | .ok vs => pure (Json.mkObj [("id", g.sig.id), ("values", toJson vs), ("path", toJson g.path),
        ("nargs", toJson g.args.length), ("args", toJson g.args)])
      | .error e => throw s!"bind failed: {repr e}")
    return Json.mkObj [("groups", Json.arr out.toArray), ("overrides", toJson pos.overrides),
      ("searchDir", toJson pos.searchDir)]

def handleChildEnv (j : Json) : Except String Json := do
  let base : List (String × String) ← fromJson? (← j.getObjVal? "base")
  let dotenv : List (String × String) ← fromJson? (← j.getObjVal? "dotenv")
  let se : Bool ← fromJson? (← j.getObjVal? "setExport")
  let un : List String ← fromJson? (← j.getObjVal? "unexports")
  let chain : List (List EnvExport.Binding) ← fromJson? (← j.getObjVal? "chain")
  let names : List String ← fromJson? (← j.getObjVal? "names")
  let e := EnvExport.childEnv (fun n => base.lookup n) dotenv se un chain
  return Json.mkObj [("env", Json.mkObj (names.map (fun n => (n, toJson (e n)))))]

/-- {"op":"channels","params":[{name,exported,p:{kind,default}}],"words":[..],"positional":B,"shell":[..],
    "command":S,"name":S,"script":B,"base":[[k,v]],"dotenv":[[k,v]],"setExport":B,"unexports":[..],"outer":[[binding]],
    "names":[..]} → argv of the child and its environment at the names asked for -/
def handleChannels (j : Json) : Except String Json := do
  let qs : List Channels.NParam ← fromJson? (← j.getObjVal? "params")
  let words : List String ← fromJson? (← j.getObjVal? "words")
  let positional ← j.getObjValAs? Bool "positional"
  let shell : List String ← fromJson? (← j.getObjVal? "shell")
  let command ← j.getObjValAs? String "command"
  let name ← j.getObjValAs? String "name"
  let script ← j.getObjValAs? Bool "script"
  let base : List (String × String) ← fromJson? (← j.getObjVal? "base")
  let dotenv : List (String × String) ← fromJson? (← j.getObjVal? "dotenv")
  let se ← j.getObjValAs? Bool "setExport"
  let un : List String ← fromJson? (← j.getObjVal? "unexports")
  let outer : List (List EnvExport.Binding) ← fromJson? (← j.getObjVal? "outer")
  let names : List String ← fromJson? (← j.getObjVal? "names")
  match Channels.evalParams qs words [] with
  | none => return Json.mkObj [("error", "missingParameter")]
  | some (sc, pos) =>
    let argv := if script then Channels.scriptArgv shell command positional pos
      else Channels.linewiseArgv shell command positional name pos
    let e := Channels.recipeEnv (fun n => base.lookup n) dotenv se un outer sc
    return Json.mkObj [("argv", toJson argv), ("values", toJson (sc.map (·.value))),
      ("env", Json.mkObj (names.map (fun n => (n, toJson (e n)))))]

/-- {"op":"define","items":[{name,kind}],"vars":[..],"allowRecipes":B,"allowVars":B} -/
def handleDefine (j : Json) : Except String Json := do
  let items : List Define.Def ← fromJson? (← j.getObjVal? "items")
  let vars : List String ← fromJson? (← j.getObjVal? "vars")
  let ar ← j.getObjValAs? Bool "allowRecipes"
  let av ← j.getObjValAs? Bool "allowVars"
  return Json.mkObj [("accepts", toJson (Define.accepts ar av items vars))]

/-- {"op":"table","keys":[..]} → the key order of the `Table` after inserting the keys in the given order -/
def handleTable (j : Json) : Except String Json := do
  let keys : List String ← fromJson? (← j.getObjVal? "keys")
  return Json.mkObj [("order", toJson (Determinism.keysOf (Determinism.build (keys.map (fun k => (k, ()))))))]

/-- {"op":"display","root":[components],"path":[components]} → the name of the file in a diagnostic -/
def handleDisplay (j : Json) : Except String Json := do
  let root : List String ← fromJson? (← j.getObjVal? "root")
  let path : List String ← fromJson? (← j.getObjVal? "path")
  return Json.mkObj [("shown", (Loader.display root path).text)]

/-- {"op":"suggest","recipes":[[name,dist]..],"aliases":[[name,dist]..]} → the name `suggest_recipe` proposes (definitions in any order) -/
def handleSuggest (j : Json) : Except String Json := do
  let rs : List (String × Nat) ← fromJson? (← j.getObjVal? "recipes")
  let as : List (String × Nat) ← fromJson? (← j.getObjVal? "aliases")
  let dist (n : String) : Nat := ((rs ++ as).lookup n).getD 99
  return Json.mkObj [("suggestion", toJson (Determinism.suggestRecipe dist rs as))]

/-- {"op":"clean","p":S} → `clean(p)` and `Path::new(p).lexiclean()` as text -/
def handleClean (j : Json) : Except String Json := do
  let p ← j.getObjValAs? String "p"
  let o (x : Option (List Char)) : Json := match x with | some l => Json.str (String.ofList l) | none => Json.null
  let q := p.toList
  let parts := (p.splitOn "|").map String.toList
  return Json.mkObj [("clean", String.ofList (Path.cleanFn q)), ("lexiclean", String.ofList (Path.lexiclean q)),
    ("file_name", o (Path.fileName q)), ("extension", o (Path.extensionOf q)), ("file_stem", o (Path.fileStem q)),
    ("parent_directory", o (Path.parentStr q)), ("without_extension", o (Path.withoutExtension q)),
    ("join", match parts with | b :: ws => Json.str (String.ofList (Path.joinPaths b ws)) | [] => Json.null),
    ("searchClean", match parts with | [inv, rel] => Json.str (String.ofList (Path.searchClean inv rel)) | _ => Json.null),
    ("absolute_path", match j.getObjValAs? String "wd" with
      | .ok wd => Json.str (String.ofList (Path.absolutePath wd.toList q)) | _ => Json.null)]

/-- {"op":"case","s":S} → the seven case conversions of S (null outside the model: non-ASCII text) -/
def handleCase (j : Json) : Except String Json := do
  let t ← j.getObjValAs? String "s"
  let cs := t.toList.map Char.toNat
  let o (fn : String) : String × Json := (fn, match Case.apply fn cs with
    | some l => Json.str (String.ofList (l.map Char.ofNat)) | none => Json.null)
  return Json.mkObj (["kebabcase", "snakecase", "shoutykebabcase", "shoutysnakecase", "titlecase", "uppercamelcase",
    "lowercamelcase"].map o)

/-- {"op":"entries","decls":[Decl],"aliases":[AliasOf]} → the `--list` entries of each recipe -/
def handleEntries (j : Json) : Except String Json := do
  -- "docAttr": null = no attribute, {"v": null} = bare `[doc]`, {"v": S} = `[doc(S)]`
  let dsJ ← (← j.getObjVal? "decls").getArr?
  let ds ← dsJ.toList.mapM (fun dj => do
    let docAttr : Option (Option String) ← match dj.getObjVal? "docAttr" with
      | .ok (.obj _) => do
        let v : Option String ← fromJson? ((dj.getObjVal? "docAttr" >>= (·.getObjVal? "v")).toOption.getD Json.null)
        pure (some v)
      | _ => pure none
    pure ({ name := ← dj.getObjValAs? String "name", params := ← fromJson? (← dj.getObjVal? "params"),
            comment := ← fromJson? (← dj.getObjVal? "comment"), docAttr := docAttr,
            groups := ← fromJson? (← dj.getObjVal? "groups"), isPrivate := ← dj.getObjValAs? Bool "isPrivate" } : Listing.Decl))
  let as : List Listing.AliasOf ← fromJson? (← j.getObjVal? "aliases")
  let mg : List String := (j.getObjVal? "moduleGroups" >>= fromJson?).toOption.getD []
  let placedJ : Array Json := ((j.getObjVal? "placed") >>= (·.getArr?)).toOption.getD #[]
  let placed ← placedJ.toList.mapM (fun pj => do
    pure ({ name := ← pj.getObjValAs? String "name", imports := ← fromJson? (← pj.getObjVal? "imports"),
            offset := ← pj.getObjValAs? Nat "offset" } : Listing.Placed))
  return Json.mkObj [("entries", toJson (ds.map (fun d => Listing.entriesOf as d))), ("groups", toJson (Listing.publicGroups ds mg)),
    ("unsorted", toJson ((Listing.unsortedOrder placed).map Listing.Placed.name))]

/-- {"op":"percent","s":S} → encode_uri_component(S) -/
def handlePercent (j : Json) : Except String Json := do
  let t ← j.getObjValAs? String "s"
  let out := Percent.encode (t.toUTF8.toList.map UInt8.toNat)
  return Json.mkObj [("encoded", String.ofList (out.map Char.ofNat)),
    ("roundtrip", toJson (Percent.decode out == some (t.toUTF8.toList.map UInt8.toNat)))]

/-- {"op":"confirm","line":S} → does `Recipe::confirm` take the typed line for a yes? -/
def handleConfirm (j : Json) : Except String Json := do
  let l ← j.getObjValAs? String "line"
  return Json.mkObj [("accepts", toJson (Run.confirmAccepts l))]

/-- {"op":"validparams","params":[Param]} → does the analyzer accept the parameter list? -/
def handleValidParams (j : Json) : Except String Json := do
  let ps : List Args.Param ← fromJson? (← j.getObjVal? "params")
  return Json.mkObj [("valid", toJson (Args.validParams ps))]

/-- {"op":"positional","words":[..]} → `Positional::from_values` -/
def handlePositional (j : Json) : Except String Json := do
  let words : List String ← fromJson? (← j.getObjVal? "words")
  let pos := Args.positional words {}
  -- the character-level reading of the first word (`Just.Words.classify`), for comparison with the above
  let first : Json := match words with
    | [] => Json.null
    | w :: _ => match Words.classify w.toList with
      | .override n v => Json.mkObj [("override", toJson [String.ofList n, String.ofList v])]
      | .searchDir d f => Json.mkObj [("searchDir", toJson (String.ofList d)), ("first", toJson (f.map String.ofList))]
      | .argument a => Json.mkObj [("argument", toJson (String.ofList a))]
  return Json.mkObj [("overrides", toJson (pos.overrides.map (fun o => [o.1, o.2]))), ("search_directory", toJson pos.searchDir),
    ("arguments", toJson pos.args), ("first_word", first)]

def handleWorkdir (j : Json) : Except String Json := do
  let c : Workdir.Ctx ← fromJson? (← j.getObjVal? "ctx")
  let a : Workdir.Attrs ← fromJson? (← j.getObjVal? "attrs")
  let rootCtx : Workdir.Ctx ← fromJson? (← j.getObjVal? "rootCtx")
  return Json.mkObj [("recipe", toJson (Workdir.recipeCwd c a)), ("backtick", toJson (Workdir.backtickCwd c)),
    ("rootBacktick", toJson (Workdir.backtickCwd rootCtx)),
    ("invocation_directory", toJson (Workdir.invocationDirectory c)),
    ("justfile_directory", toJson (Workdir.justfileDirectory c)),
    ("source_directory", toJson (Workdir.sourceDirectory c))]

def handleSearch (j : Json) : Except String Json := do
  let ds : List Search.Level ← fromJson? (← j.getObjVal? "levels")
  let explicit : Bool ← fromJson? (← j.getObjVal? "explicit")
  if explicit then
    match ds with
    | d :: _ => return Json.mkObj [("outcome", toJson (Search.runExplicit d))]
    | [] => throw "explicit needs one level"
  else
    return Json.mkObj [("outcome", toJson (Search.run ds))]

def handleDotenv (j : Json) : Except String Json := do
  let c : Dotenv.Cfg ← fromJson? (← j.getObjVal? "cfg")
  let files : List String ← fromJson? (← j.getObjVal? "pathFiles")
  let anc : List (List String) ← fromJson? (← j.getObjVal? "ancestors")
  return Json.mkObj [("res", toJson (Dotenv.load c ⟨fun p => files.contains p, anc⟩))]

def handleUnstable (j : Json) : Except String Json := do
  let m ← unstableModuleFromJson (← j.getObjVal? "root")
  let flag ← j.getObjValAs? Bool "flag"
  let env : Option String ← fromJson? (← j.getObjVal? "env")
  let cmdS ← j.getObjValAs? String "cmd"
  let cmd := match cmdS with
    | "run" => Unstable.Cmd.run
    | "summary" => .summary
    | "fmt" => .fmt
    | _ => .other
  -- justfiles tried before this one through `set fallback` (innermost first): {"root":…, "fallback":B}, none has the recipe
  let below : List Unstable.Level ← match j.getObjVal? "below" with
    | .ok (.arr a) => a.toList.mapM (fun lj => do
        let r ← unstableModuleFromJson (← lj.getObjVal? "root")
        let fb ← lj.getObjValAs? Bool "fallback"
        pure (⟨r, false, fb⟩ : Unstable.Level))
    | _ => pure []
  let outcome := match Unstable.runFallback flag env (below ++ [⟨m, true, false⟩]) 0 with
    | .refused k => s!"refused:{k}"
    | .ran k => s!"ran:{k}"
    | .unknownRecipe => "unknown"
  return Json.mkObj [("proceeds", toJson (Unstable.proceeds flag env cmd m)), ("fallback", toJson outcome),
    ("docTruthy", toJson (Unstable.envTruthyDoc env)), ("implTruthy", toJson (Unstable.envTruthyImpl env))]

def handleAnalyze (j : Json) : Except String Json := do
  let m ← Analyzer.moduleFromJson (← j.getObjVal? "module")
  match Analyzer.analyze m with
  | .ok () => return Json.mkObj [("ok", true)]
  | .error e => return Json.mkObj [("ok", false), ("error", toJson e)]

def handleListing (j : Json) : Except String Json := do
  let m ← Listing.modFromJson (← j.getObjVal? "root")
  let names : List String ← fromJson? (← j.getObjVal? "names")
  let byName ← j.getObjValAs? Bool "showByName"
  let targets := names.map (fun (n : String) => Json.mkObj [("name", Json.str n),
    ("run", toJson ((Listing.runTarget m n).map (·.id))),
    ("show", toJson ((Listing.showTarget byName m n).map (·.id)))])
  return Json.mkObj [("summary", toJson (Listing.summary false "" m)),
    ("summaryUnsorted", toJson (Listing.summary true "" m)),
    ("list", toJson (Listing.listNames false m)), ("listUnsorted", toJson (Listing.listNames true m)),
    ("choose", toJson ((Listing.chooseHere false m).map (·.name))), ("targets", Json.arr targets.toArray)]

partial def analyzeTree (fs : Imports.FS) (depths : List (Nat × Nat)) (root : Nat) (name : String) :
    Except Imports.Err Json := do
  let t ← Imports.analyzeModule fs depths root
  let subs ← t.subs.mapM (fun (n, r) => analyzeTree fs depths r n)
  return Json.mkObj [("name", name), ("root", toJson root), ("files", toJson t.files),
    ("recipes", toJson (t.recipes.map (fun d => (d.name, d.file)))),
    ("vars", toJson (t.vars.map (fun d => (d.name, d.file)))), ("subs", Json.arr subs.toArray)]

def handleImports (j : Json) : Except String Json := do
  let fs : Imports.FS ← fromJson? (← j.getObjVal? "files")
  match Imports.load fs 5000 with
  | .error e => return Json.mkObj [("error", toJson e)]
  | .ok (depths, log) =>
    match analyzeTree fs depths 0 "" with
    | .error e => return Json.mkObj [("error", toJson e)]
    | .ok t => return Json.mkObj [("tree", t), ("loads", toJson log.length), ("depths", toJson depths)]

def handleEvaluate (j : Json) : Except String Json := do
  let assignsJ ← (← j.getObjVal? "assigns").getArr?
  let assigns ← assignsJ.toList.mapM (fun a => do
    let n ← (← a.getArrVal? 0).getStr?
    let e ← exprFromJson (← a.getArrVal? 1)
    return (n, e))
  let overrides : List (String × String) ← fromJson? (← j.getObjVal? "overrides")
  let bts : List (String × Option String) ← fromJson? (← j.getObjVal? "backticks")
  let env : List (String × String) ← fromJson? (← j.getObjVal? "env")
  let ownFirst ← j.getObjValAs? Bool "ownFirst"
  let ctx : Eval.Ctx := {
    bt := fun c => match bts.find? (fun e => (c.splitOn e.1).length > 1) with
      | some (_, o) => o
      | none => some ""
    envVar := fun k => env.lookup k
    parent := fun x => Generated.constantTable.lookup x
    ownFirst := ownFirst
    dryRun := (j.getObjValAs? Bool "dryRun").toOption.getD false }
  let (st, r) := Eval.evaluateAssignments ctx assigns overrides 100000
  let values := assigns.map (fun (n, _) => (n, st.scope.lookup n))
  let bts := st.log.filterMap (fun e => match e with | .bt c => some c | _ => none)
  let evals := st.log.filterMap (fun e => match e with | .evalAssign n => some n | _ => none)
  match r with
  | .ok () => return Json.mkObj [("values", toJson values), ("backticks", toJson bts), ("evaluated", toJson evals)]
  | .error e => return Json.mkObj [("error", toJson e), ("backticks", toJson bts), ("evaluated", toJson evals)]

def tokJson (t : Lexer.Tok) : Json :=
  Json.mkObj [("kind", t.kind.name), ("offset", toJson t.offset), ("length", toJson t.length),
    ("line", toJson t.line), ("column", toJson t.column)]

def handleLex (j : Json) : Except String Json := do
  let src ← j.getObjValAs? String "src"
  match Lexer.tokenize src.toList with
  | .ok toks => return Json.mkObj [("tokens", Json.arr (toks.map tokJson).toArray)]
  | .error e => return Json.mkObj [("error", e.kind.name), ("token", tokJson e.tok)]

def tokFromJson (j : Json) : Except String Lexer.Tok := do
  return ⟨.unspecified, ← j.getObjValAs? Nat "offset", ← j.getObjValAs? Nat "length", ← j.getObjValAs? Nat "line",
    ← j.getObjValAs? Nat "column"⟩

/-- {"op":"context","src":S,"token":{..},"widths":[[codepoint,width],..]}: the source context the
model prints for the token; characters missing from `widths` have width 1 -/
def handleContext (j : Json) : Except String Json := do
  let src ← j.getObjValAs? String "src"
  let tok ← tokFromJson (← j.getObjVal? "token")
  let widths : List (Nat × Nat) ← fromJson? (← j.getObjVal? "widths")
  let w : Char → Nat := fun c => (widths.lookup c.toNat).getD 1
  match Render.context w src.toList tok with
  | none => return Json.mkObj [("context", Json.null)]
  | some c => return Json.mkObj [("context", Json.mkObj [("line", toJson c.lineNumber), ("column", toJson c.columnNumber),
      ("echoed", String.ofList c.echoed), ("caretOffset", toJson c.caretOffset), ("caretCount", toJson c.caretCount)])]

def optField (j : Json) (k : String) : Option Json :=
  match j.getObjVal? k with
  | .ok Json.null => none
  | .ok v => some v
  | .error _ => none

def interpFromJson (j : Json) : Except String Body.Interp := do
  return ⟨← j.getObjValAs? String "command", ← fromJson? (← j.getObjVal? "args")⟩

def optInterp (j : Json) (k : String) : Except String (Option Body.Interp) :=
  match optField j k with
  | none => pure none
  | some v => do return some (← interpFromJson v)

/-- {"op":"body", "lines":[{"number":N,"frags":[{"t":S}|{"v":S}]}], "ignoreComments":B,
    "script": null | {"own": null|{command,args}}, "cliShell": S?, "cliArgs": [S]?, "setShell": I?, "setScript": I?} -/
def handleBody (j : Json) : Except String Json := do
  let linesJ ← (← j.getObjVal? "lines").getArr?
  let lines ← linesJ.toList.mapM (fun lj => do
    let number ← lj.getObjValAs? Nat "number"
    let fragsJ ← (← lj.getObjVal? "frags").getArr?
    let frags ← fragsJ.toList.mapM (fun fj =>
      match fj.getObjValAs? String "t" with
      | .ok t => pure (Body.Frag.text t.toList)
      | .error _ => do
        let v ← fj.getObjValAs? String "v"
        pure (Body.Frag.interp v.toList))
    pure (⟨frags, number⟩ : Body.Line))
  let ic ← j.getObjValAs? Bool "ignoreComments"
  let scriptAttr : Option (Option Body.Interp) ← match optField j "script" with
    | none => pure none
    | some sj => do pure (some (← optInterp sj "own"))
  let cliShell : Option String ← match optField j "cliShell" with
    | none => pure none
    | some v => do pure (some (← v.getStr?))
  let cliArgs : Option (List String) ← match optField j "cliArgs" with
    | none => pure none
    | some v => do pure (some (← fromJson? v))
  let setShell ← optInterp j "setShell"
  let setScript ← optInterp j "setScript"
  match Body.execute ⟨lines, scriptAttr⟩ ic cliShell cliArgs setShell setScript with
  | .shellLines sh cmds =>
    return Json.mkObj [("kind", "lines"), ("shell", toJson (sh.command :: sh.args)),
      ("cmds", Json.arr (cmds.map (fun c => Json.mkObj [("text", String.ofList c.text), ("quiet", c.quiet),
        ("infallible", c.infallible)])).toArray)]
  | .script interp text =>
    return Json.mkObj [("kind", "script"),
      ("interp", match interp with | some i => toJson (i.command :: i.args) | none => Json.null),
      ("text", String.ofList text)]

def tkFromJson (j : Json) : Except String Syntax.Tk := do
  let k ← j.getObjValAs? String "k"
  let s := (j.getObjValAs? String "s").toOption.getD ""
  match k with
  | "str" => pure (.str s) | "strAdj" => pure (.strAdj s) | "bt" => pure (.bt s) | "ident" => pure (.ident s)
  | "plus" => pure .plus | "slash" => pure .slash | "andand" => pure .andand | "barbar" => pure .barbar
  | "lparen" => pure .lparen | "rparen" => pure .rparen | "comma" => pure .comma
  | "lbrace" => pure .lbrace | "rbrace" => pure .rbrace
  | "Text" => pure (.text s)
  | "Comment" => pure (.comment s.toList)
  | "eqeq" => pure (.op .eq) | "bangeq" => pure (.op .ne) | "eqtilde" => pure (.op .match) | "bangtilde" => pure (.op .nomatch)
  | other => pure (.other other)

def tkToJson : Syntax.Tk → Json
  | .str s => Json.mkObj [("k", "str"), ("s", s)]
  | .strAdj s => Json.mkObj [("k", "strAdj"), ("s", s)]
  | .bt s => Json.mkObj [("k", "bt"), ("s", s)]
  | .ident s => Json.mkObj [("k", "ident"), ("s", s)]
  | .plus => Json.mkObj [("k", "plus")] | .slash => Json.mkObj [("k", "slash")]
  | .andand => Json.mkObj [("k", "andand")] | .barbar => Json.mkObj [("k", "barbar")]
  | .lparen => Json.mkObj [("k", "lparen")] | .rparen => Json.mkObj [("k", "rparen")]
  | .comma => Json.mkObj [("k", "comma")] | .lbrace => Json.mkObj [("k", "lbrace")] | .rbrace => Json.mkObj [("k", "rbrace")]
  | .op .eq => Json.mkObj [("k", "eqeq")] | .op .ne => Json.mkObj [("k", "bangeq")]
  | .op .match => Json.mkObj [("k", "eqtilde")] | .op .nomatch => Json.mkObj [("k", "bangtilde")]
  | .text s => Json.mkObj [("k", "Text"), ("s", s)]
  | .comment c => Json.mkObj [("k", "Comment"), ("s", String.ofList c)]
  | .other k => Json.mkObj [("k", k)]

def opStr : CondOp → String
  | .eq => "==" | .ne => "!=" | .match => "=~" | .nomatch => "!~"

/-- strip the delimiters of a plain one-line literal (the generator of the correspondence check only
uses `'…'` and one-tick backticks) -/
def inner (lexeme : String) : String :=
  let cs := match lexeme.toList with
    | 'x' :: cs => cs      -- a shell-expanded literal: the generator uses texts that expand to themselves
    | cs => cs
  match cs with
  | a :: b :: c :: rest => if a == b && b == c && (a == '\'' || a == '"' || a == '`') && rest.length ≥ 3 then String.ofList (rest.take (rest.length - 3))
                         else String.ofList ((cs.drop 1).dropLast)
  | _ => String.ofList ((cs.drop 1).dropLast)

mutual
/-- the JSON the dump prints for an expression (groups are transparent there) -/
partial def exprDump : Expr → Json
  | .str s => Json.str (inner s)
  | .var n => Json.arr #["variable", n]
  | .backtick s => Json.arr #["evaluate", inner s]
  | .call f args => Json.arr (#[Json.str "call", Json.str f] ++ (args.toList.map exprDump).toArray)
  | .concat l r => Json.arr #["concatenate", exprDump l, exprDump r]
  | .joinL l r => Json.arr #["join", exprDump l, exprDump r]
  | .joinR r => Json.arr #["join", Json.null, exprDump r]
  | .and l r => Json.arr #["and", exprDump l, exprDump r]
  | .or l r => Json.arr #["or", exprDump l, exprDump r]
  | .cond a o b t e => Json.arr #["if", Json.arr #[Json.str (opStr o), exprDump a, exprDump b], exprDump t, exprDump e]
  | .assert a o b m => Json.arr #["assert", Json.arr #[Json.str (opStr o), exprDump a, exprDump b], exprDump m]
  | .group e => exprDump e
end

/-- {"op":"syntax","tokens":[{"k":..,"s":..}]}: parse the tokens as an expression, print it back -/
def handleSyntax (j : Json) : Except String Json := do
  let toksJ ← (← j.getObjVal? "tokens").getArr?
  let toks ← toksJ.toList.mapM tkFromJson
  match Syntax.parseExpression (4 * toks.length + 16) toks with
  | none => return Json.mkObj [("parse", Json.null)]
  | some (e, rest) =>
    let printed := Syntax.printE e
    let again := Syntax.parseExpression (4 * printed.length + 16) printed
    let same := match again with
      | some (e2, []) => (repr e2).pretty == (repr e).pretty
      | _ => false
    return Json.mkObj [("ast", exprDump e), ("rest", toJson rest.length), ("printed", Json.arr (printed.map tkToJson).toArray),
      ("reparse_same", same)]

def paramJson (p : Header.Param) : Json :=
  Json.mkObj [("name", p.name), ("export", p.exported),
    ("kind", match p.kind with | .singular => "singular" | .plus => "plus" | .star => "star"),
    ("default", match p.default with | some d => exprDump d | none => Json.null)]

def depJson (d : Header.Dep) : Json :=
  Json.mkObj [("recipe", d.recipe), ("arguments", Json.arr (d.args.map exprDump).toArray)]

/-- {"op":"header","tokens":[..]}: parse a recipe header line, print it back, parse again -/
def handleHeader (j : Json) : Except String Json := do
  let toksJ ← (← j.getObjVal? "tokens").getArr?
  let toks ← toksJ.toList.mapM tkFromJson
  let fuel := 4 * toks.length + 16
  match Header.parseHeader fuel toks with
  | none => return Json.mkObj [("parse", Json.null)]
  | some (h, rest) =>
    let printed := Header.printHeader h
    let again := Header.parseHeader (4 * printed.length + 16) printed
    let same := match again with
      | some (h2, []) => (repr h2).pretty == (repr h).pretty
      | _ => false
    let ps := h.params ++ (match h.variadic with | some v => [v] | none => [])
    return Json.mkObj [("name", h.name), ("quiet", h.quiet), ("parameters", Json.arr (ps.map paramJson).toArray),
      ("dependencies", Json.arr ((h.priors ++ h.subsequents).map depJson).toArray), ("priors", toJson h.priors.length),
      ("rest", toJson rest.length), ("printed", Json.arr (printed.map tkToJson).toArray), ("reparse_same", same)]

def fragJson : Items.Frag → Json
  | .text s => Json.str s
  | .interp e => Json.arr #[exprDump e]

/-- {"op":"item","tokens":[..]}: parse a recipe (header + body), an assignment or an alias; print it back -/
def handleItem (j : Json) : Except String Json := do
  let toksJ ← (← j.getObjVal? "tokens").getArr?
  let toks ← toksJ.toList.mapM tkFromJson
  let fuel := 4 * toks.length + 16
  match Items.parseAlias fuel toks with
  | some (a, rest) =>
    let printed := Items.printAlias a
    let same := match Items.parseAlias (4 * printed.length + 16) printed with
      | some (a2, []) => (repr a2).pretty == (repr a).pretty
      | _ => false
    return Json.mkObj [("kind", "alias"), ("name", a.name), ("target", toJson (a.target :: a.path)), ("rest", toJson rest.length),
      ("printed", Json.arr (printed.map tkToJson).toArray), ("reparse_same", same)]
  | none =>
  match Items.parseAssignment fuel toks with
  | some (a, rest) =>
    let printed := Items.printAssignment a
    let same := match Items.parseAssignment (4 * printed.length + 16) printed with
      | some (a2, []) => (repr a2).pretty == (repr a).pretty
      | _ => false
    return Json.mkObj [("kind", "assignment"), ("name", a.name), ("export", a.exported), ("value", exprDump a.value),
      ("rest", toJson rest.length), ("printed", Json.arr (printed.map tkToJson).toArray), ("reparse_same", same)]
  | none =>
  match Items.parseRecipe fuel toks with
  | some (r, rest) =>
    let h := r.header
    let printed := Items.printRecipe r
    let same := match Items.parseRecipe (4 * printed.length + 16) printed with
      | some (r2, []) => (repr r2).pretty == (repr r).pretty
      | _ => false
    let ps := h.params ++ (match h.variadic with | some v => [v] | none => [])
    return Json.mkObj [("kind", "recipe"), ("name", h.name), ("quiet", h.quiet), ("parameters", Json.arr (ps.map paramJson).toArray),
      ("dependencies", Json.arr ((h.priors ++ h.subsequents).map depJson).toArray), ("priors", toJson h.priors.length),
      ("body", Json.arr (r.body.map (fun l => Json.arr (l.map fragJson).toArray)).toArray),
      ("rest", toJson rest.length), ("printed", Json.arr (printed.map tkToJson).toArray), ("reparse_same", same)]
  | none => return Json.mkObj [("parse", Json.null)]

def attrJson (a : Ast.Attr) : Json := Json.mkObj [("name", a.name), ("args", toJson (a.args.map inner))]

def optChars : Option (List Char) → Json
  | some d => Json.str (String.ofList d)
  | none => Json.null

def itemJson : Ast.Item → Json
  | .alias p a => Json.mkObj [("kind", "alias"), ("private", p), ("name", a.name), ("target", toJson (a.target :: a.path))]
  | .assignment p a => Json.mkObj [("kind", "assignment"), ("private", p), ("name", a.name), ("export", a.exported), ("value", exprDump a.value)]
  | .comment c => Json.mkObj [("kind", "comment"), ("text", String.ofList c)]
  | .import o p => Json.mkObj [("kind", "import"), ("optional", o), ("path", inner p)]
  | .module o n p d as => Json.mkObj [("kind", "module"), ("optional", o), ("name", n),
      ("path", match p with | some l => Json.str (inner l) | none => Json.null), ("doc", optChars d), ("attributes", Json.arr (as.map attrJson).toArray)]
  | .recipe d as r =>
    let h := r.header
    let ps := h.params ++ (match h.variadic with | some v => [v] | none => [])
    Json.mkObj [("kind", "recipe"), ("doc", optChars d), ("attributes", Json.arr (as.map attrJson).toArray), ("name", h.name), ("quiet", h.quiet),
      ("parameters", Json.arr (ps.map paramJson).toArray),
      ("dependencies", Json.arr ((h.priors ++ h.subsequents).map depJson).toArray), ("priors", toJson h.priors.length),
      ("body", Json.arr (r.body.map (fun l => Json.arr (l.map fragJson).toArray)).toArray)]
  | .set s => Json.mkObj [("kind", "set"), ("name", s.name), ("value", match s.value with
      | .flag b => toJson b | .lit l => Json.str (inner l) | .interp c as => toJson ((c :: as).map inner))]
  | .unexport n => Json.mkObj [("kind", "unexport"), ("name", n)]

/-- the order of two `[group(…)]` literals: by their text (the generator of the correspondence check uses plain
one-line literals, whose cooked text is the text between the delimiters) -/
def litLeInner (a b : String) : Bool := inner a ≤ inner b

/-- {"op":"ast","tokens":[..]}: parse a whole justfile, print it back, parse again -/
def handleAst (j : Json) : Except String Json := do
  let toksJ ← (← j.getObjVal? "tokens").getArr?
  let toks ← toksJ.toList.mapM tkFromJson
  let fuel := 4 * toks.length + 16
  match Ast.parseAst litLeInner fuel toks with
  | none => return Json.mkObj [("parse", Json.null)]
  | some items =>
    let printed := Ast.printAst items
    let same := match Ast.parseAst litLeInner (4 * printed.length + 16) printed with
      | some items2 => (repr items2).pretty == (repr (items.map Ast.Item.forget)).pretty
      | none => false
    return Json.mkObj [("items", Json.arr (items.map itemJson).toArray), ("printed", Json.arr (printed.map tkToJson).toArray),
      ("reparse_same", same)]

def cookErrName : Cook.Err → String
  | .invalidEscape _ => "InvalidEscapeSequence" | .unicodeDelimiter _ => "UnicodeEscapeDelimiter"
  | .unicodeEmpty => "UnicodeEscapeEmpty" | .unicodeRange => "UnicodeEscapeRange" | .unicodeLength => "UnicodeEscapeLength"
  | .unicodeCharacter _ => "UnicodeEscapeCharacter" | .unicodeUnterminated => "UnicodeEscapeUnterminated"
  | .unwrapFailed => "UNWRAP-FAILED"

/-- {"op":"cook","raw":S,"indented":B,"escapes":B} -/
def handleCook (j : Json) : Except String Json := do
  let raw ← j.getObjValAs? String "raw"
  let indented ← j.getObjValAs? Bool "indented"
  let escapes ← j.getObjValAs? Bool "escapes"
  match Cook.cookLiteral indented escapes raw.toList with
  | .ok cooked => return Json.mkObj [("cooked", String.ofList cooked)]
  | .error e => return Json.mkObj [("error", cookErrName e)]

def handleUnindent (j : Json) : Except String Json := do
  let src ← j.getObjValAs? String "src"
  return Json.mkObj [("text", String.ofList (Unindent.unindent src.toList))]

def handle (line : String) : Json :=
  match Json.parse line with
  | .error e => Json.mkObj [("fatal", s!"parse: {e}")]
  | .ok j =>
    let r : Except String Json := do
      let op ← j.getObjValAs? String "op"
      match op with
      | "run" => handleRun j
      | "signals" => handleSignals j
      | "quote" => handleQuote j
      | "channels" => handleChannels j
      | "define" => handleDefine j
      | "table" => handleTable j
      | "suggest" => handleSuggest j
      | "display" => handleDisplay j
      | "clean" => handleClean j
      | "entries" => handleEntries j
      | "percent" => handlePercent j
      | "case" => handleCase j
      | "confirm" => handleConfirm j
      | "validparams" => handleValidParams j
      | "positional" => handlePositional j
      | "args" => handleArgs j
      | "childenv" => handleChildEnv j
      | "workdir" => handleWorkdir j
      | "search" => handleSearch j
      | "dotenv" => handleDotenv j
      | "unstable" => handleUnstable j
      | "analyze" => handleAnalyze j
      | "listing" => handleListing j
      | "imports" => handleImports j
      | "evaluate" => handleEvaluate j
      | "shsplit" => handleShSplit j
      | "lex" => handleLex j
      | "header" => handleHeader j
      | "cook" => handleCook j
      | "item" => handleItem j
      | "ast" => handleAst j
      | "unindent" => handleUnindent j
      | "syntax" => handleSyntax j
      | "body" => handleBody j
      | "context" => handleContext j
      | _ => throw s!"unknown op {op}"
    match r with
    | .ok v => v
    | .error e => Json.mkObj [("fatal", e)]

partial def loop (h : IO.FS.Stream) (out : IO.FS.Stream) : IO Unit := do
  let line ← h.getLine
  if line.isEmpty then return ()
  out.putStrLn (handle line).compress
  loop h out

def main : IO Unit := do
  loop (← IO.getStdin) (← IO.getStdout)
