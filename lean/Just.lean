import Just.Model.Run
import Just.Json
import Just.Lemmas.RunSpec
import Just.Lemmas.RunLeaf
import Just.Props.C01
import Just.Props.C14
import Just.Props.C02
