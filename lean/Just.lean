import Just.Model.Run
import Just.Json
