import Just.Model.Eval
namespace Just.Eval

theorem trimStartMatchesL_spec (pat : List Char) (hp : pat ≠ []) : ∀ (fuel : Nat) (s : List Char), s.length < fuel →
    ∃ k, s = (List.replicate k pat).flatten ++ trimStartMatchesL pat fuel s ∧
      pat.isPrefixOf (trimStartMatchesL pat fuel s) = false
  | 0, _, h => by omega
  | fuel + 1, s, h => by
    unfold trimStartMatchesL
    by_cases hpre : pat.isPrefixOf s = true
    · simp only [hpre, if_true]
      have heq : pat ++ s.drop pat.length = s := List.prefix_iff_eq_append.mp (List.isPrefixOf_iff_prefix.mp hpre)
      have hlen : 0 < pat.length := List.length_pos_iff.mpr hp
      have hsl : pat.length ≤ s.length := by
        have := congrArg List.length heq; simp at this; omega
      obtain ⟨k, hk, hn⟩ := trimStartMatchesL_spec pat hp fuel (s.drop pat.length) (by simp; omega)
      refine ⟨k + 1, ?_, hn⟩
      rw [List.replicate_succ, List.flatten_cons, List.append_assoc, ← hk, heq]
    · simp only [hpre, Bool.false_eq_true, if_false]
      exact ⟨0, by simp, by simp⟩

theorem trimEndMatchesL_spec (pat : List Char) (hp : pat ≠ []) : ∀ (fuel : Nat) (s : List Char), s.length < fuel →
    ∃ k, s = trimEndMatchesL pat fuel s ++ (List.replicate k pat).flatten ∧
      ¬ pat <:+ trimEndMatchesL pat fuel s
  | 0, _, h => by omega
  | fuel + 1, s, h => by
    unfold trimEndMatchesL
    by_cases hpre : pat.reverse.isPrefixOf s.reverse = true
    · simp only [hpre, if_true]
      have hsuf : pat <:+ s := List.reverse_prefix.mp (List.isPrefixOf_iff_prefix.mp hpre)
      have heq : s.take (s.length - pat.length) ++ pat = s := List.suffix_iff_eq_append.mp hsuf
      have hlen : 0 < pat.length := List.length_pos_iff.mpr hp
      have hsl : pat.length ≤ s.length := hsuf.length_le
      obtain ⟨k, hk, hn⟩ := trimEndMatchesL_spec pat hp fuel (s.take (s.length - pat.length)) (by simp; omega)
      refine ⟨k + 1, ?_, hn⟩
      have hrep : (List.replicate (k + 1) pat).flatten = (List.replicate k pat).flatten ++ pat := by
        rw [show k + 1 = k + 1 from rfl, List.replicate_succ', List.flatten_append]; simp
      rw [hrep, ← List.append_assoc, ← hk, heq]
    · simp only [hpre, Bool.false_eq_true, if_false]
      refine ⟨0, by simp, ?_⟩
      intro hs
      exact hpre (List.isPrefixOf_iff_prefix.mpr (List.reverse_prefix.mpr hs))

theorem trimStartL_idem (l : List Char) : trimStartL (trimStartL l) = trimStartL l := by
  unfold trimStartL
  induction l with
  | nil => rfl
  | cons c l ih =>
    by_cases h : isWs c = true
    · simpa [List.dropWhile_cons, h] using ih
    · simp [h]

theorem trimStartL_head (l : List Char) : ∀ c, (trimStartL l).head? = some c → isWs c = false := by
  intro c h
  unfold trimStartL at h
  have := List.head?_dropWhile_not isWs l
  rw [h] at this
  simpa using this

end Just.Eval
