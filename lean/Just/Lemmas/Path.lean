import Just.Model.Path
namespace Just.Path

/-- the root can only be the first component -/
def NoInnerRoot : List Comp → Prop
  | [] => True
  | _ :: rest => ∀ c ∈ rest, c ≠ .root

theorem partsComps_no_root : ∀ (parts : List (List Char)) (first : Bool), ∀ c ∈ partsComps first parts, c ≠ .root := by
  intro parts
  induction parts with
  | nil => intro _ c hc; simp [partsComps] at hc
  | cons s rest ih =>
    intro first c hc
    simp only [partsComps] at hc
    split at hc
    · rename_i c0 hpc
      rcases List.mem_cons.mp hc with rfl | hc
      · unfold partComp at hpc
        repeat' split at hpc
        all_goals first
          | (cases hpc; done)
          | (cases hpc; intro h; cases h)
      · exact ih false c hc
    · exact ih false c hc

theorem components_noInnerRoot (p : List Char) : NoInnerRoot (components p) := by
  unfold components
  split
  · exact fun c hc => partsComps_no_root _ false c hc
  · cases h : partsComps true (splitSlash p []) with
    | nil => trivial
    | cons c rest =>
      intro x hx
      exact partsComps_no_root (splitSlash p []) true x (by rw [h]; exact List.mem_cons_of_mem _ hx)

/-! shape of lexiclean's vector, last element first: normal components, below them `..`s, below
them possibly the root — and no `..` directly above a root -/

def shapeP : List Comp → Bool
  | [] => true
  | .parent :: rest => shapeP rest
  | _ => false

def shapeN : List Comp → Bool
  | .normal _ :: rest => shapeN rest
  | [] => true
  | [.root] => true
  | .parent :: rest => shapeP rest
  | _ => false

theorem shapeN_of_shapeP : ∀ (l : List Comp), shapeP l = true → shapeN l = true
  | [], _ => rfl
  | .parent :: rest, h => by simpa [shapeN, shapeP] using h
  | .root :: _, h => by simp [shapeP] at h
  | .cur :: _, h => by simp [shapeP] at h
  | .normal _ :: _, h => by simp [shapeP] at h

theorem shapeN_tail (c : Comp) (rest : List Comp) (h : shapeN (c :: rest) = true) : shapeN rest = true := by
  cases c with
  | normal s => simpa [shapeN] using h
  | parent => exact shapeN_of_shapeP rest (by simpa [shapeN] using h)
  | root =>
    cases rest with
    | nil => rfl
    | cons _ _ => simp [shapeN] at h
  | cur => simp [shapeN] at h

theorem cleanStep_shape (acc : List Comp) (c : Comp) (h : shapeN acc = true) (hc : c = .root → acc = []) :
    shapeN (cleanStep acc c) = true := by
  cases c with
  | cur => simpa [cleanStep] using h
  | normal s => simpa [cleanStep, shapeN] using h
  | root => simp [cleanStep, hc rfl, shapeN]
  | parent =>
    cases acc with
    | nil => simp [cleanStep, shapeN, shapeP]
    | cons a rest =>
      cases a with
      | normal s => simpa [cleanStep, shapeN] using h
      | parent =>
        have : shapeP rest = true := by simpa [shapeN] using h
        simp [cleanStep, shapeN, shapeP, this]
      | root => simpa [cleanStep] using h
      | cur => simp [shapeN] at h

theorem foldl_shape : ∀ (cs acc : List Comp), shapeN acc = true → (∀ c ∈ cs, c ≠ .root) →
    shapeN (cs.foldl cleanStep acc) = true := by
  intro cs
  induction cs with
  | nil => intro acc h _; exact h
  | cons c rest ih =>
    intro acc h hnr
    exact ih _ (cleanStep_shape acc c h (fun hc => absurd hc (hnr c (by simp))))
      (fun x hx => hnr x (List.mem_cons_of_mem _ hx))

theorem clean_shape (cs : List Comp) (h : NoInnerRoot cs) : shapeN (cs.foldl cleanStep []) = true := by
  cases cs with
  | nil => rfl
  | cons c rest =>
    simp only [List.foldl_cons]
    exact foldl_shape rest _ (cleanStep_shape [] c rfl (fun _ => rfl)) h

/-- on a vector of that shape the loop changes nothing -/
theorem foldr_fixed : ∀ (acc : List Comp), shapeN acc = true →
    acc.foldr (fun c a => cleanStep a c) [] = acc := by
  intro acc
  induction acc with
  | nil => intro _; rfl
  | cons c rest ih =>
    intro h
    simp only [List.foldr_cons]
    rw [ih (shapeN_tail c rest h)]
    cases c with
    | normal s => rfl
    | cur => simp [shapeN] at h
    | root =>
      cases rest with
      | nil => rfl
      | cons _ _ => simp [shapeN] at h
    | parent =>
      cases rest with
      | nil => rfl
      | cons a rest' =>
        cases a with
        | parent => rfl
        | normal s => simp [shapeN, shapeP] at h
        | root => simp [shapeN, shapeP] at h
        | cur => simp [shapeN, shapeP] at h

theorem shape_no_cur : ∀ (acc : List Comp), shapeN acc = true → .cur ∉ acc := by
  intro acc
  induction acc with
  | nil => intro _ h; cases h
  | cons c rest ih =>
    intro h hm
    rcases List.mem_cons.mp hm with heq | hm
    · subst heq; simp [shapeN] at h
    · exact ih (shapeN_tail c rest h) hm

theorem shape_root_only_last : ∀ (acc : List Comp), shapeN acc = true →
    ∀ c ∈ acc.dropLast, c ≠ .root := by
  intro acc
  induction acc with
  | nil => intro _ c hc; simp at hc
  | cons a rest ih =>
    intro h c hc
    cases rest with
    | nil => simp at hc
    | cons b rest' =>
      simp only [List.dropLast_cons_cons] at hc
      rcases List.mem_cons.mp hc with rfl | hc
      · intro heq; subst heq; simp [shapeN] at h
      · exact ih (shapeN_tail a _ h) c hc

/-! ### the two scanners agree; stem and extension recompose the file name -/

theorem scan_fst : ∀ (cs : List Char) (first : Bool) (i : Nat) (cur : List Char),
    (scan first i cur cs).map Prod.fst = partsComps first (splitSlash cs cur) := by
  intro cs
  induction cs with
  | nil =>
    intro first i cur
    simp only [scan, emit, splitSlash, partsComps]
    cases partComp first cur.reverse <;> simp
  | cons c rest ih =>
    intro first i cur
    simp only [scan, splitSlash]
    split
    · simp only [List.map_append, ih, emit, partsComps]
      cases partComp first cur.reverse <;> simp
    · exact ih first (i + 1) (c :: cur)

theorem componentsPos_fst (p : List Char) : (componentsPos p).map Prod.fst = components p := by
  unfold componentsPos components
  split
  · simp [scan_fst]
  · exact scan_fst p true 0 []

theorem mem_takeWhile_ne (l : List Char) : '.' ∉ l.takeWhile (· ≠ '.') := by
  induction l with
  | nil => simp
  | cons x xs ih =>
    by_cases hx : x = '.'
    · simp [List.takeWhile, hx]
    · simp only [List.takeWhile, ne_eq, hx, not_false_eq_true, decide_true, List.mem_cons, not_or]
      exact ⟨fun h => hx h.symm, ih⟩

theorem splitLastDot_spec (f before after : List Char) (h : splitLastDot f = some (before, after)) :
    f = before ++ '.' :: after ∧ '.' ∉ after := by
  unfold splitLastDot at h
  split at h
  · cases h
  · rename_i c beforeRev hd
    simp only [Option.some.injEq, Prod.mk.injEq] at h
    obtain ⟨rfl, rfl⟩ := h
    have hc : c = '.' := by
      have := List.head?_dropWhile_not (· ≠ '.') f.reverse
      rw [hd] at this
      simpa using this
    subst hc
    constructor
    · have h1 : f.reverse = f.reverse.takeWhile (· ≠ '.') ++ f.reverse.dropWhile (· ≠ '.') :=
        List.takeWhile_append_dropWhile.symm
      rw [hd] at h1
      have := congrArg List.reverse h1
      simpa using this
    · intro hm; exact mem_takeWhile_ne f.reverse (List.mem_reverse.mp hm)

theorem searchClean_foldl_no_parent : ∀ (cs acc : List Comp), .parent ∉ acc →
    .parent ∉ cs.foldl searchCleanStep acc := by
  intro cs
  induction cs with
  | nil => intro acc h; exact h
  | cons c rest ih =>
    intro acc h
    apply ih
    cases c with
    | parent =>
      simp only [searchCleanStep]
      split
      · rename_i s rest' ; intro hm; exact h (List.mem_cons_of_mem _ hm)
      · exact h
    | root => simpa [searchCleanStep] using h
    | cur => simpa [searchCleanStep] using h
    | normal s => simpa [searchCleanStep] using h

end Just.Path
