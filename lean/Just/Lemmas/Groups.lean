/-
Lemmas about `Just.Listing.publicGroups` (`Justfile::public_groups`): sorting and keeping first occurrences
neither lose nor invent a name.
-/
import Just.Model.Listing
namespace Just.Listing

theorem mem_insertStr (s x : String) : ∀ l : List String, x ∈ insertStr s l ↔ x = s ∨ x ∈ l
  | [] => by simp [insertStr]
  | t :: ts => by
    unfold insertStr
    split
    · simp
    · simp only [List.mem_cons, mem_insertStr s x ts]
      constructor
      · rintro (h | h | h)
        · exact Or.inr (Or.inl h)
        · exact Or.inl h
        · exact Or.inr (Or.inr h)
      · rintro (h | h | h)
        · exact Or.inr (Or.inl h)
        · exact Or.inl h
        · exact Or.inr (Or.inr h)

theorem mem_sortStr (x : String) : ∀ l : List String, x ∈ sortStr l ↔ x ∈ l
  | [] => by simp [sortStr]
  | a :: l => by
    have ih := mem_sortStr x l
    simp only [sortStr, List.foldr_cons] at ih ⊢
    rw [mem_insertStr, ih]; simp

theorem mem_dedupAux (x : String) : ∀ (l seen : List String), x ∈ dedupAux seen l ↔ x ∈ l ∧ x ∉ seen
  | [], seen => by simp [dedupAux]
  | a :: l, seen => by
    unfold dedupAux
    split
    · rename_i h
      rw [mem_dedupAux x l seen]
      constructor
      · rintro ⟨h1, h2⟩; exact ⟨List.mem_cons_of_mem _ h1, h2⟩
      · rintro ⟨h1, h2⟩
        rcases List.mem_cons.mp h1 with rfl | h1
        · exact absurd h h2
        · exact ⟨h1, h2⟩
    · rename_i h
      simp only [List.mem_cons]
      rw [mem_dedupAux x l (a :: seen)]
      simp only [List.mem_cons, not_or]
      constructor
      · rintro (rfl | ⟨h1, h2, h3⟩)
        · exact ⟨Or.inl rfl, h⟩
        · exact ⟨Or.inr h1, h3⟩
      · rintro ⟨h1 | h1, h2⟩
        · exact Or.inl h1
        · by_cases hxa : x = a
          · exact Or.inl hxa
          · exact Or.inr ⟨h1, hxa, h2⟩

theorem nodup_dedupAux : ∀ (l seen : List String), (dedupAux seen l).Nodup
  | [], _ => by simp [dedupAux]
  | a :: l, seen => by
    unfold dedupAux
    split
    · exact nodup_dedupAux l seen
    · refine List.nodup_cons.mpr ⟨?_, nodup_dedupAux l (a :: seen)⟩
      intro hmem
      have := (mem_dedupAux a l (a :: seen)).mp hmem
      exact this.2 (by simp)

/-- in name order: no later element is smaller than an earlier one -/
def Ascending (l : List String) : Prop := l.Pairwise (fun a b => ¬ b < a)

theorem insertStr_ascending (s : String) : ∀ l : List String, Ascending l → Ascending (insertStr s l)
  | [], _ => by simp [insertStr, Ascending]
  | t :: ts, h => by
    unfold insertStr
    have ht := List.pairwise_cons.mp h
    split
    · rename_i hlt
      refine List.pairwise_cons.mpr ⟨?_, h⟩
      intro x hx
      rcases List.mem_cons.mp hx with rfl | hx
      · exact String.lt_asymm hlt
      · intro hxs
        exact ht.1 x hx (String.lt_trans hxs hlt)
    · rename_i hnlt
      refine List.pairwise_cons.mpr ⟨?_, insertStr_ascending s ts ht.2⟩
      intro x hx
      rcases (mem_insertStr s x ts).mp hx with rfl | hx
      · exact hnlt
      · exact ht.1 x hx

theorem sortStr_ascending : ∀ l : List String, Ascending (sortStr l)
  | [] => by simp [sortStr, Ascending]
  | a :: l => by
    have ih := sortStr_ascending l
    simp only [sortStr, List.foldr_cons] at ih ⊢
    exact insertStr_ascending a _ ih

theorem dedupAux_sublist : ∀ (l seen : List String), (dedupAux seen l).Sublist l
  | [], _ => by simp [dedupAux]
  | a :: l, seen => by
    unfold dedupAux
    split
    · exact (dedupAux_sublist l seen).cons a
    · exact (dedupAux_sublist l (a :: seen)).cons_cons a

end Just.Listing
