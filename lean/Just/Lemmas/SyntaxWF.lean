import Just.Lemmas.Syntax
/-
Whatever the expression parser returns is well-formed (`WF`): the round-trip theorem therefore
applies to every expression that can come out of a justfile.
-/
namespace Just.Syntax
open Just

structure ParserWF (f : Nat) : Prop where
  value : ∀ ts e r, parseValue f ts = some (e, r) → ts.head? ≠ some (.ident "if") → WF e ∧ level e = 0
  conjunct : ∀ ts e r, parseConjunct f ts = some (e, r) → WF e ∧ level e ≤ 1
  disjunct : ∀ ts e r, parseDisjunct f ts = some (e, r) → WF e ∧ level e ≤ 2
  expression : ∀ ts e r, parseExpression f ts = some (e, r) → WF e
  conditional : ∀ ts e r, parseConditional f ts = some (e, r) → WF e ∧ level e = 1
  condition : ∀ ts a o b r, parseCondition f ts = some ((a, o, b), r) → WF a ∧ WF b
  sequence : ∀ ts es r, parseSequence f ts = some (es, r) → WFs es

theorem parserWF_zero : ParserWF 0 := by
  constructor <;> intros <;> simp_all [parseValue, parseConjunct, parseDisjunct, parseExpression, parseConditional,
    parseCondition, parseSequence]

theorem parserWF_succ (f : Nat) (ih : ParserWF f) : ParserWF (f + 1) := by
  constructor
  · -- parse_value
    intro ts e r h hhead
    unfold parseValue at h
    split at h
    · cases h; simp [WF, level]
    · cases h; simp [WF, level]
    · cases h; simp [WF, level]
    · cases h; simp [WF, level]
    · -- assert
      split at h
      · split at h
        · cases h
        · rename_i a o b r2 hc
          split at h
          · split at h
            · cases h
            · rename_i m r4 hm
              split at h
              · cases h
                have h1 := ih.condition _ _ _ _ _ hc
                have h2 := ih.expression _ _ _ hm
                exact ⟨by simp only [WF]; exact ⟨h1.1, h1.2, h2⟩, by simp [level]⟩
              · cases h
          · cases h
      · cases h
    · -- call
      rename_i n r' _ hna
      split at h
      · cases h
      · rename_i args r2 hs
        split at h
        · rename_i hfn
          cases h
          have := ih.sequence _ _ _ hs
          refine ⟨?_, by simp [level]⟩
          simp only [WF, okName]
          refine ⟨⟨?_, ?_⟩, hfn, this⟩
          · intro hn; subst hn; exact hhead (by simp)
          · intro hn; exact hna hn
        · cases h
    · -- variable
      rename_i n r' _ hna _
      cases h
      refine ⟨?_, by simp [level]⟩
      simp only [WF, okName]
      refine ⟨?_, ?_⟩
      · intro hn; subst hn; exact hhead (by simp)
      · intro hn; exact hna hn
    · -- group
      split at h
      · cases h
      · rename_i e' r1 he
        split at h
        · cases h
          have := ih.expression _ _ _ he
          exact ⟨by simp only [WF]; exact this, by simp [level]⟩
        · cases h
    · cases h
  · -- parse_conjunct
    intro ts e r h
    unfold parseConjunct at h
    split at h
    · have := ih.conditional _ _ _ h
      exact ⟨this.1, by omega⟩
    · split at h
      · cases h
      · rename_i x ts2 hx
        cases h
        have := ih.conjunct _ _ _ hx
        exact ⟨by simp only [WF]; exact ⟨this.2, this.1⟩, by simp [level]⟩
    · rename_i hnif hnslash
      split at h
      · cases h
      · rename_i v ts1 hv
        have hvw := ih.value _ _ _ hv (by
          intro hh
          cases ts with
          | nil => simp at hh
          | cons t tl =>
            simp only [List.head?_cons, Option.some.injEq] at hh
            subst hh
            exact hnif tl rfl)
        split at h
        · split at h
          · cases h
          · rename_i x ts3 hx
            cases h
            have := ih.conjunct _ _ _ hx
            exact ⟨by simp only [WF]; exact ⟨hvw.2, this.2, hvw.1, this.1⟩, by simp [level]⟩
        · split at h
          · cases h
          · rename_i x ts3 hx
            cases h
            have := ih.conjunct _ _ _ hx
            exact ⟨by simp only [WF]; exact ⟨hvw.2, this.2, hvw.1, this.1⟩, by simp [level]⟩
        · cases h
          exact ⟨hvw.1, by omega⟩
  · -- parse_disjunct
    intro ts e r h
    unfold parseDisjunct at h
    split at h
    · cases h
    · rename_i c ts1 hc
      have hcw := ih.conjunct _ _ _ hc
      split at h
      · split at h
        · cases h
        · rename_i x ts3 hx
          cases h
          have := ih.disjunct _ _ _ hx
          exact ⟨by simp only [WF]; exact ⟨hcw.2, this.2, hcw.1, this.1⟩, by simp [level]⟩
      · cases h
        exact ⟨hcw.1, by omega⟩
  · -- parse_expression
    intro ts e r h
    unfold parseExpression at h
    split at h
    · cases h
    · rename_i d ts1 hd
      have hdw := ih.disjunct _ _ _ hd
      split at h
      · split at h
        · cases h
        · rename_i x ts3 hx
          cases h
          have := ih.expression _ _ _ hx
          simp only [WF]; exact ⟨hdw.2, hdw.1, this⟩
      · cases h
        exact hdw.1
  · -- parse_conditional
    intro ts e r h
    unfold parseConditional at h
    split at h
    · cases h
    · rename_i a o b ts1 hc
      have hcw := ih.condition _ _ _ _ _ hc
      split at h
      · split at h
        · cases h
        · rename_i t ts3 ht
          have htw := ih.expression _ _ _ ht
          split at h
          · split at h
            · cases h
            · rename_i x ts5 hx
              cases h
              have := ih.conditional _ _ _ hx
              exact ⟨by simp only [WF]; exact ⟨hcw.1, hcw.2, htw, this.1⟩, by simp [level]⟩
          · split at h
            · cases h
            · rename_i x ts5 hx
              have hxw := ih.expression _ _ _ hx
              split at h
              · cases h
                exact ⟨by simp only [WF]; exact ⟨hcw.1, hcw.2, htw, hxw⟩, by simp [level]⟩
              · cases h
          · cases h
      · cases h
  · -- parse_condition
    intro ts a o b r h
    unfold parseCondition at h
    split at h
    · cases h
    · rename_i a' ts1 ha
      split at h
      · split at h
        · cases h
        · rename_i b' ts3 hb
          simp only [Option.some.injEq, Prod.mk.injEq] at h
          obtain ⟨⟨rfl, rfl, rfl⟩, rfl⟩ := h
          exact ⟨ih.expression _ _ _ ha, ih.expression _ _ _ hb⟩
      · cases h
  · -- parse_sequence
    intro ts es r h
    unfold parseSequence at h
    split at h
    · cases h; simp [WFs]
    · split at h
      · cases h
      · rename_i e r1 he
        have hew := ih.expression _ _ _ he
        split at h
        · split at h
          · cases h
          · rename_i es' r3 hs
            cases h
            have := ih.sequence _ _ _ hs
            simp only [WFs]; exact ⟨hew, this⟩
        · cases h
          simp only [WFs]; exact ⟨hew, trivial⟩
        · cases h

theorem parserWF (f : Nat) : ParserWF f := by
  induction f with
  | zero => exact parserWF_zero
  | succ f ih => exact parserWF_succ f ih

end Just.Syntax
