import Just.Model.Lexer
/-
Position invariant of the lexer model and the combinator lemmas that lift it through every
lexing function.
-/
namespace Just.Lexer

/-- position after the characters `rev` (given newest first) -/
def posR : List Char → Pos
  | [] => ⟨0, 0, 0⟩
  | c :: r => stepPos (posR r) c

/-- position after the prefix `pre` -/
def posOf (pre : List Char) : Pos := posR pre.reverse

/-- the token `t` is a span of `src`: it starts after some prefix `pre`, covers `lex`, and its
offset / line / column are the position reached by scanning `pre` -/
def Spans (src : List Char) (t : Tok) : Prop :=
  ∃ pre lex post, src = pre ++ lex ++ post ∧ t.offset = (posOf pre).offset ∧ t.line = (posOf pre).line
    ∧ t.column = (posOf pre).column ∧ t.length = utf8Len lex

/-- tokens (newest first) tile the text up to byte `n` -/
def Tiled : List Tok → Nat → Prop
  | [], n => n = 0
  | t :: ts, n => n = t.offset + t.length ∧ Tiled ts t.offset

structure Inv (src : List Char) (s : St) : Prop where
  split : src = s.consumed.reverse ++ s.rest
  tokEnd : s.tokEnd = posR s.consumed
  tokStart : s.tokStart = posR s.startConsumed
  cur : s.consumed = s.cur ++ s.startConsumed
  tokens : ∀ t ∈ s.tokens, Spans src t
  interp : ∀ t ∈ s.interp, Spans src t
  tiled : Tiled s.tokens s.tokStart.offset

@[simp] theorem utf8Len_nil : utf8Len [] = 0 := rfl
@[simp] theorem utf8Len_cons (c : Char) (cs : List Char) : utf8Len (c :: cs) = c.utf8Size + utf8Len cs := by
  simp [utf8Len]
@[simp] theorem utf8Len_append (a b : List Char) : utf8Len (a ++ b) = utf8Len a + utf8Len b := by
  simp [utf8Len]
@[simp] theorem utf8Len_reverse (a : List Char) : utf8Len a.reverse = utf8Len a := by
  induction a with
  | nil => rfl
  | cons c cs ih => simp [ih]; omega

theorem posR_offset (r : List Char) : (posR r).offset = utf8Len r := by
  induction r with
  | nil => rfl
  | cons c cs ih => simp only [posR, stepPos]; split <;> simp [ih] <;> omega

theorem posOf_offset (pre : List Char) : (posOf pre).offset = utf8Len pre := by
  simp [posOf, posR_offset]

theorem initial_inv (src : List Char) : Inv src (initial src) := by
  constructor <;> simp [initial, posR, Tiled]

/-- result of a lexing action is good: the invariant still holds, or the error token is a span -/
def Good (src : List Char) {α : Type} : Except Err (α × St) → Prop
  | .ok (_, s') => Inv src s'
  | .error e => Spans src e.tok

structure Preserves (src : List Char) {α : Type} (m : M α) : Prop where
  run : ∀ s, Inv src s → Good src (m s)

variable {src : List Char}

theorem Preserves.pure {α : Type} (a : α) : Preserves src (pure a : M α) := by
  constructor; intro s hs; exact hs

theorem Preserves.bind {α β : Type} {x : M α} {f : α → M β} (hx : Preserves src x)
    (hf : ∀ a, Preserves src (f a)) : Preserves src (x >>= f) := by
  constructor
  intro s hs
  have h1 := hx.run s hs
  show Good src ((x >>= f) s)
  simp only [Bind.bind, StateT.bind]
  cases h : x s with
  | error e => simp only [h, Good] at h1 ⊢; exact h1
  | ok p =>
    obtain ⟨a, s'⟩ := p
    simp only [h, Good] at h1
    exact (hf a).run s' h1

/-- reading the state: the continuation may use the invariant of the snapshot -/
theorem Preserves.getBind {β : Type} {f : St → M β} (hf : ∀ s0, Inv src s0 → Preserves src (f s0)) :
    Preserves src (get >>= f) := by
  constructor
  intro s hs
  exact (hf s hs).run s hs

theorem Preserves.ite {α : Type} {c : Prop} [Decidable c] {x y : M α} (hx : Preserves src x)
    (hy : Preserves src y) : Preserves src (if c then x else y) := by
  split <;> assumption

theorem Preserves.failWith {α : Type} {e : St → Err} (h : ∀ s, Inv src s → Spans src (e s).tok) :
    Preserves src (failWith e : M α) := by
  constructor; intro s hs; exact h s hs

theorem Preserves.throw {α : Type} {e : Err} (h : Spans src e.tok) :
    Preserves src (throw e : M α) := by
  constructor; intro s _; exact h

/-- the zero-length token at `tokEnd` used by internal errors -/
theorem spans_at_end {s : St} (hs : Inv src s) (k : Kind) :
    Spans src ⟨k, s.tokEnd.offset, 0, s.tokEnd.line, s.tokEnd.column⟩ := by
  refine ⟨s.consumed.reverse, [], s.rest, ?_, ?_, ?_, ?_, ?_⟩ <;> simp [posOf, hs.tokEnd, ← hs.split]

theorem internalError_spans (msg : String) {s : St} (hs : Inv src s) : Spans src (internalError msg s).tok :=
  spans_at_end hs _

theorem fuelError_spans {s : St} (hs : Inv src s) : Spans src (fuelError s).tok :=
  spans_at_end hs _

/-- a token starting at `tokStart` that covers a prefix `l` of the in-progress lexeme -/
theorem spans_at_start {s : St} (hs : Inv src s) (k : Kind) (l m : List Char) (h : s.cur.reverse = l ++ m) :
    Spans src ⟨k, s.tokStart.offset, utf8Len l, s.tokStart.line, s.tokStart.column⟩ := by
  refine ⟨s.startConsumed.reverse, l, m ++ s.rest, ?_, ?_, ?_, ?_, ?_⟩
  · have := hs.split
    rw [hs.cur, List.reverse_append, h] at this
    simpa [List.append_assoc] using this
  all_goals simp [posOf, hs.tokStart]

theorem prefix_split {p cs : List Char} (h : p.isPrefixOf cs = true) : ∃ m, cs = p ++ m := by
  obtain ⟨m, hm⟩ := List.isPrefixOf_iff_prefix.mp h
  exact ⟨m, hm.symm⟩

theorem isDelimiterStart_prefix {cs d : List Char} {k : Kind} {b : Bool}
    (h : isDelimiterStart cs = some (d, k, b)) : ∃ m, cs = d ++ m := by
  unfold isDelimiterStart at h
  split at h
  · cases h; exact prefix_split ‹_›
  split at h
  · cases h; exact prefix_split ‹_›
  split at h
  · cases h; exact prefix_split ‹_›
  split at h
  · cases h; exact prefix_split ‹_›
  split at h
  · cases h; exact prefix_split ‹_›
  split at h
  · cases h; exact prefix_split ‹_›
  cases h

theorem mkError_spans (kind : ErrKind) {s : St} (hs : Inv src s) : Spans src (mkError kind s).tok := by
  unfold mkError
  cases h : errorLexeme kind s.cur.reverse with
  | none => exact internalError_spans _ hs
  | some l =>
    simp only
    have : ∃ m, s.cur.reverse = l ++ m := by
      unfold errorLexeme at h
      split at h
      · split at h
        · rename_i d _ _ hd
          simp only [Option.some.injEq] at h
          subst h
          exact isDelimiterStart_prefix hd
        · cases h
      · split at h
        · rename_i d _ _ hd
          simp only [Option.some.injEq] at h
          subst h
          exact isDelimiterStart_prefix hd
        · cases h
      · simp only [Option.some.injEq] at h
        exact ⟨[], by simp [h]⟩
    obtain ⟨m, hm⟩ := this
    exact spans_at_start hs _ l m hm

theorem Preserves.advance : Preserves src advance := by
  constructor
  intro s hs
  unfold Lexer.advance
  split
  · rename_i c cs hrest
    simp only [Good]
    constructor
    · simp [hs.split, hrest]
    · simp [posR, hs.tokEnd]
    · exact hs.tokStart
    · simp [hs.cur]
    · exact hs.tokens
    · exact hs.interp
    · exact hs.tiled
  · exact internalError_spans _ hs

theorem Preserves.token (k : Kind) : Preserves src (token k) := by
  constructor
  intro s hs
  simp only [Lexer.token, Good]
  have hle : s.tokStart.offset ≤ s.tokEnd.offset := by
    rw [hs.tokStart, hs.tokEnd, posR_offset, posR_offset, hs.cur]; simp
  constructor
  · exact hs.split
  · exact hs.tokEnd
  · exact hs.tokEnd
  · simp
  · intro t ht
    simp only [List.mem_cons] at ht
    rcases ht with rfl | ht
    · have := spans_at_start hs k s.cur.reverse [] (by simp)
      have hlen : s.tokEnd.offset - s.tokStart.offset = utf8Len s.cur.reverse := by
        rw [hs.tokStart, hs.tokEnd, posR_offset, posR_offset, hs.cur]; simp
      rw [hlen]; exact this
    · exact hs.tokens t ht
  · exact hs.interp
  · simp only [Tiled]
    exact ⟨by omega, hs.tiled⟩

theorem Preserves.setFrame (f : St → Frame) : Preserves src (setFrame f) := by
  constructor
  intro s hs
  unfold Lexer.setFrame
  split
  · rename_i hok
    simp only [Good, St.setFrame]
    constructor
    · exact hs.split
    · exact hs.tokEnd
    · exact hs.tokStart
    · exact hs.cur
    · exact hs.tokens
    · intro t ht
      simp only [okInterp, List.all_eq_true] at hok
      have := hok t ht
      simp only [Bool.or_eq_true, List.contains_iff_mem, decide_eq_true_eq] at this
      rcases this with h | h
      · exact hs.interp t h
      · apply hs.tokens
        cases hT : s.tokens with
        | nil => simp [hT] at h
        | cons a as => simp [hT] at h; simp [h]
    · exact hs.tiled
  · exact internalError_spans _ hs

macro "pres_step" : tactic => `(tactic| first
  | with_reducible exact Preserves.pure _
  | with_reducible exact Preserves.advance
  | with_reducible exact Preserves.token _
  | with_reducible exact Preserves.setFrame _
  | with_reducible exact Preserves.failWith (fun _ h => mkError_spans _ h)
  | with_reducible exact Preserves.failWith (fun _ h => internalError_spans _ h)
  | with_reducible exact Preserves.failWith (fun _ h => fuelError_spans h)
  | with_reducible apply_assumption
  | (with_reducible apply Preserves.getBind; intro _ _)
  | with_reducible apply Preserves.bind
  | with_reducible apply Preserves.ite
  | intro _
  | split)
macro "pres" : tactic => `(tactic| repeat pres_step)

theorem Preserves.presume (c : Char) : Preserves src (presume c) := by unfold Lexer.presume; pres
theorem Preserves.accepted (c : Char) : Preserves src (accepted c) := by unfold Lexer.accepted; pres

theorem Preserves.presumeStr (cs : List Char) : Preserves src (presumeStr cs) := by
  have := @Preserves.presume src
  induction cs with
  | nil => unfold Lexer.presumeStr; pres
  | cons c cs ih => unfold Lexer.presumeStr; pres

theorem Preserves.advanceWhileAux (p : Char → Bool) (cs : List Char) : Preserves src (advanceWhileAux p cs) := by
  induction cs with
  | nil => unfold Lexer.advanceWhileAux; pres
  | cons c cs ih => unfold Lexer.advanceWhileAux; pres

theorem Preserves.advanceWhile (p : Char → Bool) : Preserves src (advanceWhile p) := by
  have := @Preserves.advanceWhileAux src
  unfold Lexer.advanceWhile; pres

theorem Preserves.advanceN (n : Nat) : Preserves src (advanceN n) := by
  induction n with
  | zero => unfold Lexer.advanceN; pres
  | succ n ih => unfold Lexer.advanceN; pres

theorem Preserves.lexSingle (k : Kind) : Preserves src (lexSingle k) := by unfold Lexer.lexSingle; pres
theorem Preserves.lexDouble (k : Kind) : Preserves src (lexDouble k) := by unfold Lexer.lexDouble; pres

theorem Preserves.lexWhitespace : Preserves src lexWhitespace := by
  have := @Preserves.advanceWhile src
  unfold Lexer.lexWhitespace; pres

theorem Preserves.lexDedent : Preserves src lexDedent := by unfold Lexer.lexDedent; pres

theorem Preserves.dedentUntil (ws : List Char) (st : List (List Char)) : Preserves src (dedentUntil ws st) := by
  have := @Preserves.lexDedent src
  induction st with
  | nil => unfold Lexer.dedentUntil; pres
  | cons c cs ih => unfold Lexer.dedentUntil; pres

theorem Preserves.advanceToEolAux (cs : List Char) : Preserves src (advanceToEolAux cs) := by
  induction cs with
  | nil => unfold Lexer.advanceToEolAux; pres
  | cons c cs ih => unfold Lexer.advanceToEolAux; pres

theorem Preserves.lexComment : Preserves src lexComment := by
  have := @Preserves.presume src
  have := @Preserves.advanceToEolAux src
  unfold Lexer.lexComment; pres

theorem Preserves.lexIdentifier : Preserves src lexIdentifier := by
  have := @Preserves.advanceWhile src
  unfold Lexer.lexIdentifier; pres

theorem Preserves.openDelimiter (d : Delim) : Preserves src (openDelimiter d) := by
  unfold Lexer.openDelimiter; pres

theorem Preserves.closeDelimiter (d : Delim) : Preserves src (closeDelimiter d) := by
  unfold Lexer.closeDelimiter; pres

theorem Preserves.delimiterAction (k : Kind) : Preserves src (delimiterAction k) := by
  have := @Preserves.openDelimiter src
  have := @Preserves.closeDelimiter src
  unfold Lexer.delimiterAction; pres

theorem Preserves.lexDelimiter (k : Kind) : Preserves src (lexDelimiter k) := by
  have := @Preserves.delimiterAction src
  have := @Preserves.lexSingle src
  unfold Lexer.lexDelimiter; pres

theorem Preserves.unexpectedSecond : Preserves src unexpectedSecond := by
  unfold Lexer.unexpectedSecond; pres

theorem Preserves.tryChoices (cs : List (Char × Kind)) : Preserves src (tryChoices cs) := by
  have := @Preserves.accepted src
  induction cs with
  | nil => unfold Lexer.tryChoices; pres
  | cons c cs ih => unfold Lexer.tryChoices; pres

theorem Preserves.lexChoices (f : Char) (cs : List (Char × Kind)) (o : Option Kind) :
    Preserves src (lexChoices f cs o) := by
  have := @Preserves.presume src
  have := @Preserves.tryChoices src
  have := @Preserves.unexpectedSecond src
  unfold Lexer.lexChoices; pres

theorem Preserves.lexDigraph (l r : Char) (k : Kind) : Preserves src (lexDigraph l r k) := by
  have := @Preserves.presume src
  have := @Preserves.accepted src
  have := @Preserves.unexpectedSecond src
  unfold Lexer.lexDigraph; pres

theorem Preserves.lexColon : Preserves src lexColon := by
  have := @Preserves.presume src
  have := @Preserves.accepted src
  unfold Lexer.lexColon; pres

theorem Preserves.lexEscape : Preserves src lexEscape := by
  have := @Preserves.presume src
  have := @Preserves.accepted src
  have := @Preserves.advanceWhile src
  unfold Lexer.lexEscape; pres

theorem Preserves.lexEolHead : Preserves src lexEolHead := by
  have := @Preserves.presume src
  have := @Preserves.accepted src
  unfold Lexer.lexEolHead; pres

theorem Preserves.lexEol : Preserves src lexEol := by
  have := @Preserves.lexEolHead src
  unfold Lexer.lexEol; pres

theorem Preserves.stringLoop (d : List Char) (e : Bool) (k : ErrKind) (cs : List Char) (esc : Bool) :
    Preserves src (stringLoop d e k cs esc) := by
  induction cs generalizing esc with
  | nil => unfold Lexer.stringLoop; pres
  | cons c cs ih => unfold Lexer.stringLoop; pres

theorem Preserves.lexString : Preserves src lexString := by
  have := @Preserves.presumeStr src
  have := @Preserves.stringLoop src
  unfold Lexer.lexString; pres

theorem Preserves.lexOther (s : St) (c : Char) : Preserves src (lexOther s c) := by
  have := @Preserves.lexWhitespace src
  have := @Preserves.lexChoices src
  have := @Preserves.lexComment src
  have := @Preserves.lexSingle src
  have := @Preserves.lexDigraph src
  have := @Preserves.lexDelimiter src
  have := @Preserves.lexColon src
  have := @Preserves.lexEscape src
  have := @Preserves.lexEol src
  have := @Preserves.lexString src
  have := @Preserves.lexIdentifier src
  unfold Lexer.lexOther; pres

theorem Preserves.lexNormal (c : Char) : Preserves src (lexNormal c) := by
  have := @Preserves.lexWhitespace src
  have := @Preserves.lexOther src
  unfold Lexer.lexNormal; pres

theorem Preserves.lexInterpolation (t : Tok) (c : Char) (ht : Spans src t) :
    Preserves src (lexInterpolation t c) := by
  have := @Preserves.lexNormal src
  have := @Preserves.lexDouble src
  have : Preserves src (MonadExcept.throw ({ kind := .unterminatedInterpolation, tok := t } : Err) : M Unit) :=
    Preserves.throw (e := { kind := .unterminatedInterpolation, tok := t }) ht
  unfold Lexer.lexInterpolation; pres

theorem Preserves.bodyLoop (cs : List Char) (n : Nat) : Preserves src (bodyLoop cs n) := by
  induction cs generalizing n with
  | nil => unfold Lexer.bodyLoop; pres
  | cons c cs ih => unfold Lexer.bodyLoop; pres

theorem Preserves.flushText : Preserves src flushText := by unfold Lexer.flushText; pres
theorem Preserves.pushInterpolation : Preserves src pushInterpolation := by unfold Lexer.pushInterpolation; pres

theorem Preserves.bodyTerminator (t : Terminator) : Preserves src (bodyTerminator t) := by
  have := @Preserves.lexSingle src
  have := @Preserves.lexDouble src
  have := @Preserves.pushInterpolation src
  unfold Lexer.bodyTerminator; pres

theorem Preserves.lexBody : Preserves src lexBody := by
  have := @Preserves.bodyLoop src
  have := @Preserves.flushText src
  have := @Preserves.bodyTerminator src
  unfold Lexer.lexBody; pres

theorem Preserves.lexLineStart : Preserves src lexLineStart := by
  have := @Preserves.advanceWhile src
  have := @Preserves.advanceN src
  have := @Preserves.dedentUntil src
  unfold Lexer.lexLineStart; pres

theorem Preserves.lineStartIfNeeded : Preserves src lineStartIfNeeded := by
  have := @Preserves.lexLineStart src
  unfold Lexer.lineStartIfNeeded; pres

theorem Preserves.dispatch (c : Char) : Preserves src (dispatch c) := by
  have := @Preserves.lexBody src
  have := @Preserves.lexNormal src
  unfold Lexer.dispatch
  apply Preserves.getBind
  intro s0 h0
  split
  · rename_i istart _ hi
    exact Preserves.lexInterpolation _ _ (h0.interp _ (by simp [hi]))
  · pres

theorem Preserves.stepMain : Preserves src stepMain := by
  have := @Preserves.lineStartIfNeeded src
  have := @Preserves.dispatch src
  unfold Lexer.stepMain; pres

theorem Preserves.mainLoop (n : Nat) : Preserves src (mainLoop n) := by
  have := @Preserves.stepMain src
  induction n with
  | zero => unfold Lexer.mainLoop; pres
  | succ n ih => unfold Lexer.mainLoop; pres

theorem Preserves.dedentAll (st : List (List Char)) : Preserves src (dedentAll st) := by
  have := @Preserves.lexDedent src
  induction st with
  | nil => unfold Lexer.dedentAll; pres
  | cons c cs ih => unfold Lexer.dedentAll; pres

theorem Preserves.finish : Preserves src finish := by
  have := @Preserves.dedentAll src
  unfold Lexer.finish
  apply Preserves.getBind
  intro s0 h0
  split
  · rename_i istart _ hi
    exact Preserves.throw (e := { kind := .unterminatedInterpolation, tok := istart }) (h0.interp _ (by simp [hi]))
  · pres

theorem Preserves.tokenizeM (t : List Char) : Preserves src (tokenizeM t) := by
  have := @Preserves.mainLoop src
  have := @Preserves.finish src
  unfold Lexer.tokenizeM; pres

end Just.Lexer
