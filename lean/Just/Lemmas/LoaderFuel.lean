import Just.Lemmas.LoaderChain
/-
The loader terminates on every file graph: a source with a chain of length L can make the loader
do at most W (N + 1 - L) steps (N files, at most B items per file), because every source it pushes
has a longer repetition-free chain.
-/
namespace Just.Imports

/-- steps needed below a source whose chain may still grow by `d` files, with at most `b` items per file -/
def W (b : Nat) : Nat → Nat
  | 0 => 1
  | d + 1 => 1 + b * W b d

theorem W_pos (b d : Nat) : 0 < W b d := by cases d <;> simp [W]; omega

/-- the largest number of items in a file -/
def maxItems : FS → Nat
  | [] => 0
  | f :: fs => max f.items.length (maxItems fs)

theorem items_le_max (fs : FS) (i : Nat) (f : File) (h : fs[i]? = some f) : f.items.length ≤ maxItems fs := by
  induction fs generalizing i with
  | nil => simp at h
  | cons x xs ih =>
    cases i with
    | zero => simp at h; subst h; simp [maxItems]; omega
    | succ j =>
      simp at h
      have := ih j h
      simp [maxItems]; omega

def weight (fs : FS) (s : Source) : Nat := W (maxItems fs) (fs.length + 1 - s.chain.length)

def total (fs : FS) : List Source → Nat
  | [] => 0
  | s :: ss => weight fs s + total fs ss

theorem total_append (fs : FS) (a b : List Source) : total fs (a ++ b) = total fs a + total fs b := by
  induction a with
  | nil => simp [total]
  | cons x xs ih => simp [total, ih]; omega

theorem total_reverse (fs : FS) (a : List Source) : total fs a.reverse = total fs a := by
  induction a with
  | nil => rfl
  | cons x xs ih => simp [total, total_append, ih]; omega

/-- every file of the chain but the last exists; the chain has no repetition -/
structure Valid (fs : FS) (s : Source) : Prop where
  good : GoodSource s
  exist : ∀ f ∈ s.chain.dropLast, f < fs.length

/-- what one file pushes: at most one source per item, each with the chain extended by one file -/
theorem pushes_spec (cur : Source) : ∀ (items : List Item) (ss : List Source), pushes cur items = .ok ss →
    ss.length ≤ items.length ∧ ∀ s ∈ ss, ∃ t, s.chain = cur.chain ++ [t] := by
  intro items
  induction items with
  | nil => intro ss h; simp [pushes] at h; subst h; simp
  | cons it rest ih =>
    intro ss h
    cases it with
    | «import» t opt =>
      cases t with
      | some t =>
        simp only [pushes] at h
        split at h
        · cases h
        · split at h
          · cases h
          · rename_i ss' hss'
            cases h
            obtain ⟨h1, h2⟩ := ih ss' hss'
            refine ⟨by simp; omega, ?_⟩
            intro s hs
            rcases List.mem_cons.mp hs with rfl | hs
            · exact ⟨t, rfl⟩
            · exact h2 s hs
      | none =>
        simp only [pushes] at h
        split at h
        · obtain ⟨h1, h2⟩ := ih ss h; exact ⟨by simp; omega, h2⟩
        · cases h
    | module name t opt =>
      cases t with
      | some t =>
        simp only [pushes] at h
        split at h
        · cases h
        · split at h
          · cases h
          · rename_i ss' hss'
            cases h
            obtain ⟨h1, h2⟩ := ih ss' hss'
            refine ⟨by simp; omega, ?_⟩
            intro s hs
            rcases List.mem_cons.mp hs with rfl | hs
            · exact ⟨t, rfl⟩
            · exact h2 s hs
      | none =>
        simp only [pushes] at h
        split at h
        · obtain ⟨h1, h2⟩ := ih ss h; exact ⟨by simp; omega, h2⟩
        · cases h
    | recipe n => simp only [pushes] at h; obtain ⟨h1, h2⟩ := ih ss h; exact ⟨by simp; omega, h2⟩
    | «variable» n => simp only [pushes] at h; obtain ⟨h1, h2⟩ := ih ss h; exact ⟨by simp; omega, h2⟩

theorem pushes_ne_fuel (cur : Source) : ∀ (items : List Item), pushes cur items ≠ .error .fuel := by
  intro items
  induction items with
  | nil => simp [pushes]
  | cons it rest ih =>
    intro h
    cases it with
    | «import» t opt =>
      cases t with
      | some t =>
        simp only [pushes] at h
        split at h
        · cases h
        · split at h
          · rename_i e he; cases h; exact ih he
          · cases h
      | none =>
        simp only [pushes] at h
        split at h
        · exact ih h
        · cases h
    | module name t opt =>
      cases t with
      | some t =>
        simp only [pushes] at h
        split at h
        · cases h
        · split at h
          · rename_i e he; cases h; exact ih he
          · cases h
      | none =>
        simp only [pushes] at h
        split at h
        · exact ih h
        · cases h
    | recipe n => simp only [pushes] at h; exact ih h
    | «variable» n => simp only [pushes] at h; exact ih h

theorem total_children (fs : FS) (cur : Source) (ss : List Source) (w : Nat)
    (h : ∀ s ∈ ss, weight fs s = w) : total fs ss = ss.length * w := by
  induction ss with
  | nil => simp [total]
  | cons x xs ih =>
    simp only [total, List.length_cons]
    rw [h x (by simp), ih (fun s hs => h s (by simp [hs]))]
    rw [Nat.succ_mul]; omega

/-- with more fuel than the total weight of the stack, the loader never runs out of fuel -/
theorem loadLoop_no_fuel (fs : FS) : ∀ (fuel : Nat) (stack : List Source) (depths : List (Nat × Nat)) (log : List Source),
    (∀ s ∈ stack, Valid fs s) → total fs stack < fuel → loadLoop fs fuel stack depths log ≠ .error .fuel := by
  intro fuel
  induction fuel with
  | zero => intro stack depths log _ hf; omega
  | succ n ih =>
    intro stack depths log hst hf h
    cases stack with
    | nil => simp [loadLoop] at h
    | cons cur stack =>
      simp only [loadLoop] at h
      split at h
      · cases h
      · rename_i file hfile
        split at h
        · rename_i e hpe; cases h; exact pushes_ne_fuel cur file.items hpe
        · rename_i ss hss
          have hcur := hst cur (List.mem_cons_self ..)
          have hcurfile : cur.file < fs.length := by
            have := List.getElem?_eq_some_iff.mp hfile
            exact this.1
          -- every file of the current chain exists
          have hall : ∀ f ∈ cur.chain, f < fs.length := by
            intro f hf'
            have hne : cur.chain ≠ [] := by
              intro e; have := hcur.good.len; rw [e] at this; simp at this
            rw [← List.dropLast_concat_getLast hne] at hf'
            rcases List.mem_append.mp hf' with h1 | h1
            · exact hcur.exist f h1
            · simp only [List.mem_singleton] at h1
              have hl := hcur.good.last
              rw [List.getLast?_eq_getLast hne] at hl
              simp only [Option.some.injEq] at hl
              rw [h1, hl]; exact hcurfile
          have hL : cur.chain.length ≤ fs.length := by
            have hsub : cur.chain ⊆ List.range fs.length := fun f hf' => List.mem_range.mpr (hall f hf')
            have := List.Nodup.length_le_of_subset hcur.good.nodup hsub
            simpa using this
          obtain ⟨hlen, hchain⟩ := pushes_spec cur file.items ss hss
          have hgood := pushes_good cur hcur.good file.items ss hss
          -- the children are valid and each weighs W (N - L)
          have hvalid : ∀ s ∈ ss, Valid fs s := by
            intro s hs
            obtain ⟨t, ht⟩ := hchain s hs
            refine ⟨(hgood s hs).1, ?_⟩
            rw [ht, List.dropLast_concat]
            exact hall
          have hw : ∀ s ∈ ss, weight fs s = W (maxItems fs) (fs.length - cur.chain.length) := by
            intro s hs
            obtain ⟨t, ht⟩ := hchain s hs
            simp only [weight, ht, List.length_append, List.length_singleton]
            congr 1
            omega
          have hcurw : weight fs cur = 1 + maxItems fs * W (maxItems fs) (fs.length - cur.chain.length) := by
            simp only [weight]
            rw [show fs.length + 1 - cur.chain.length = (fs.length - cur.chain.length) + 1 by omega]
            rfl
          have hitems := items_le_max fs cur.file file hfile
          have htot : total fs (ss.reverse ++ stack) < n := by
            rw [total_append, total_reverse, total_children fs cur ss _ hw]
            simp only [total] at hf
            rw [hcurw] at hf
            have : ss.length * W (maxItems fs) (fs.length - cur.chain.length)
                ≤ maxItems fs * W (maxItems fs) (fs.length - cur.chain.length) :=
              Nat.mul_le_mul_right _ (by omega)
            omega
          refine ih (ss.reverse ++ stack) _ _ ?_ htot h
          intro s hs
          rcases List.mem_append.mp hs with hs | hs
          · exact hvalid s (List.mem_reverse.mp hs)
          · exact hst s (List.mem_cons_of_mem _ hs)

/-- **The loader terminates on every file graph**, cyclic or not: with fuel above `W (N + 1 - 1)` - a
bound that depends only on the number of files and the largest number of items in a file - the
model's loop never runs out of fuel. -/
theorem load_no_fuel (fs : FS) (fuel : Nat) (hf : W (maxItems fs) fs.length < fuel) : load fs fuel ≠ .error .fuel := by
  unfold load
  apply loadLoop_no_fuel fs fuel
  · intro s hs
    simp only [List.mem_singleton] at hs
    subst hs
    exact ⟨⟨by simp, by simp, by simp⟩, by simp⟩
  · simp only [total, weight, List.length_singleton]
    simpa using hf

end Just.Imports
