import Just.Model.Imports
/-
Chains of loaded sources: the invariant used by the C15 theorems and by the termination proof.
-/
namespace Just.Imports

/-- a source's chain ends with its own file, has no repetition and as many entries as its depth + 1 -/
structure GoodSource (s : Source) : Prop where
  nodup : s.chain.Nodup
  last : s.chain.getLast? = some s.file
  len : s.chain.length = s.depth + 1

theorem pushes_good (cur : Source) (hc : GoodSource cur) : ∀ (items : List Item) (ss : List Source),
    pushes cur items = .ok ss → ∀ s ∈ ss, GoodSource s ∧ s.file ∉ cur.chain := by
  intro items
  induction items with
  | nil => intro ss h; simp [pushes] at h; subst h; intro s hs; cases hs
  | cons it rest ih =>
    intro ss h s hs
    cases it with
    | «import» t opt =>
      cases t with
      | some t =>
        simp only [pushes] at h
        split at h
        · cases h
        · rename_i hnin
          split at h
          · cases h
          · rename_i ss' hss'
            cases h
            rcases List.mem_cons.mp hs with rfl | hs
            · refine ⟨⟨?_, by simp, by simp [hc.len]⟩, hnin⟩
              exact List.nodup_append.mpr ⟨hc.nodup, by simp, by
                intro a ha b hb; simp at hb; subst hb; intro hab; subst hab; exact hnin ha⟩
            · exact ih ss' hss' s hs
      | none =>
        simp only [pushes] at h
        split at h
        · exact ih ss h s hs
        · cases h
    | module name t opt =>
      cases t with
      | some t =>
        simp only [pushes] at h
        split at h
        · cases h
        · rename_i hnin
          split at h
          · cases h
          · rename_i ss' hss'
            cases h
            rcases List.mem_cons.mp hs with rfl | hs
            · refine ⟨⟨?_, by simp, by simp [hc.len]⟩, hnin⟩
              exact List.nodup_append.mpr ⟨hc.nodup, by simp, by
                intro a ha b hb; simp at hb; subst hb; intro hab; subst hab; exact hnin ha⟩
            · exact ih ss' hss' s hs
      | none =>
        simp only [pushes] at h
        split at h
        · exact ih ss h s hs
        · cases h
    | recipe n => simp only [pushes] at h; exact ih ss h s hs
    | «variable» n => simp only [pushes] at h; exact ih ss h s hs

end Just.Imports
