import Just.Model.Unindent
namespace Just.Unindent

theorem common_prefix_left (a b : List Char) : common a b <+: a := by
  induction a generalizing b with
  | nil => simp [common]
  | cons x xs ih =>
    cases b with
    | nil => simp [common]
    | cons y ys =>
      simp only [common]
      split
      · exact List.cons_prefix_cons.mpr ⟨rfl, ih ys⟩
      · exact List.nil_prefix

theorem common_prefix_right (a b : List Char) : common a b <+: b := by
  induction a generalizing b with
  | nil => simp [common]
  | cons x xs ih =>
    cases b with
    | nil => simp [common]
    | cons y ys =>
      simp only [common]
      split
      · rename_i h; subst h
        exact List.cons_prefix_cons.mpr ⟨rfl, ih ys⟩
      · exact List.nil_prefix

theorem indentation_prefix (l : List Char) : indentation l <+: l := List.takeWhile_prefix _

/-- the fold only ever shrinks its accumulator, and ends below the indentation of every non-blank line -/
theorem foldCommon_spec (acc : Option (List Char)) (ls : List (List Char)) :
    (∀ c, acc = some c → ∃ r, foldCommon acc ls = some r ∧ r <+: c)
    ∧ (∀ l ∈ ls, blank l = false → ∃ r, foldCommon acc ls = some r ∧ r <+: indentation l) := by
  induction ls generalizing acc with
  | nil =>
    refine ⟨fun c hc => ⟨c, by simp [foldCommon, hc], List.prefix_refl _⟩, fun l hl => by cases hl⟩
  | cons x xs ih =>
    by_cases hb : blank x = true
    · simp only [foldCommon, hb, if_true]
      refine ⟨(ih acc).1, ?_⟩
      intro l hl hnb
      rcases List.mem_cons.mp hl with rfl | hl
      · rw [hb] at hnb; cases hnb
      · exact (ih acc).2 l hl hnb
    · simp only [foldCommon, hb, if_false, Bool.false_eq_true]
      cases acc with
      | none =>
        simp only
        refine ⟨fun c hc => (by cases hc), ?_⟩
        intro l hl hnb
        rcases List.mem_cons.mp hl with rfl | hl
        · exact (ih (some (indentation l))).1 _ rfl
        · exact (ih (some (indentation x))).2 l hl hnb
      | some c =>
        simp only
        refine ⟨?_, ?_⟩
        · intro c' hc'
          cases hc'
          obtain ⟨r, hr, hp⟩ := (ih (some (common c (indentation x)))).1 _ rfl
          exact ⟨r, hr, hp.trans (common_prefix_left _ _)⟩
        · intro l hl hnb
          rcases List.mem_cons.mp hl with rfl | hl
          · obtain ⟨r, hr, hp⟩ := (ih (some (common c (indentation l)))).1 _ rfl
            exact ⟨r, hr, hp.trans (common_prefix_right _ _)⟩
          · exact (ih (some (common c (indentation x)))).2 l hl hnb

theorem mem_takeWhile_pred (p : Char → Bool) (l : List Char) (c : Char) (h : c ∈ l.takeWhile p) : p c = true := by
  induction l with
  | nil => simp at h
  | cons x xs ih =>
    simp only [List.takeWhile_cons] at h
    split at h
    · rcases List.mem_cons.mp h with rfl | h'
      · assumption
      · exact ih h'
    · simp at h

end Just.Unindent
