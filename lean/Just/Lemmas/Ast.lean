import Just.Model.Ast
import Just.Lemmas.Items
set_option linter.unusedSimpArgs false
set_option linter.unusedVariables false
/-
Round trip of whole justfiles: parse_ast (Display for Ast) = the items, up to what the printer forgets.
Part 1: literals, attribute lines, settings, doc comments.
-/
namespace Just.Ast
open Just Just.Syntax Just.Header Just.Items

/-! ### literals -/

theorem parseLit_rt (l : String) (rest : List Tk) : parseLit (litTokens l ++ rest) = some (l, rest) := by
  rcases litTokens_cases l with ⟨cs, hcs, h⟩ | h
  · rw [h]; simp [parseLit, xLit_ofList hcs]
  · rw [h]; simp [parseLit]

theorem litTokens_ne_nil (l : String) : litTokens l ≠ [] := by
  rcases litTokens_cases l with ⟨cs, _, h⟩ | h <;> simp [h]

/-- the first token of a literal is an identifier or a string: none of the tokens the callers test for -/
theorem litTokens_head (l : String) (rest : List Tk) :
    (∃ r, litTokens l ++ rest = Tk.ident "x" :: r) ∨ (∃ r, litTokens l ++ rest = Tk.str l :: r) := by
  rcases litTokens_cases l with ⟨cs, _, h⟩ | h
  · left; exact ⟨_, by rw [h]; rfl⟩
  · right; exact ⟨rest, by rw [h]; rfl⟩

theorem parseLitList_rt (ls : List String) (hne : ls ≠ []) (rest : List Tk) (hrest : ∀ r, rest ≠ Tk.comma :: r)
    (f : Nat) (hf : ls.length ≤ f) : parseLitList f (printLits ls ++ rest) = some (ls, rest) := by
  induction ls generalizing f with
  | nil => exact absurd rfl hne
  | cons l ls ih =>
    obtain ⟨f', rfl⟩ : ∃ f', f = f' + 1 := ⟨f - 1, by simp at hf; omega⟩
    cases ls with
    | nil =>
      simp only [printLits, parseLitList, parseLit_rt]
    | cons l' ls' =>
      have hrec := ih (by simp) f' (by simp at hf ⊢; omega)
      simp only [printLits, List.append_assoc, List.cons_append, parseLitList, parseLit_rt, hrec]


/-! ### attributes -/

/-- two attributes that may stand in this order in one attribute set: sorted, and not duplicates of each other -/
def Compatible (litLe : String → String → Bool) (b a : Attr) : Prop :=
  attrLe litLe b a = true ∧ (b.name == a.name && (a.name != "group" || b.args == a.args)) = false

theorem insertAttr_end (litLe : String → String → Bool) (a : Attr) (acc : List Attr) (h : ∀ b ∈ acc, attrLe litLe b a = true) :
    insertAttr litLe a acc = acc ++ [a] := by
  induction acc with
  | nil => rfl
  | cons b l ih =>
    simp only [insertAttr, h b (by simp), if_true, List.cons_append]
    rw [ih (fun x hx => h x (by simp [hx]))]

theorem isDup_false (a : Attr) (acc : List Attr)
    (h : ∀ b ∈ acc, (b.name == a.name && (a.name != "group" || b.args == a.args)) = false) : isDup a acc = false := by
  unfold isDup
  rw [List.any_eq_false]
  intro b hb
  simp [h b hb]

theorem parseAttrArgs_rt (fuel : Nat) (args : List String) (hf : args.length ≤ fuel) (rest : List Tk) :
    parseAttrArgs fuel (printAttrArgs args ++ tBracketR :: rest) = some (args, tBracketR :: rest) := by
  cases args with
  | nil => simp [parseAttrArgs, printAttrArgs, tBracketR]
  | cons l ls =>
    have := parseLitList_rt (l :: ls) (by simp) (Tk.rparen :: tBracketR :: rest) (fun r h => by simp at h) fuel hf
    simp only [printAttrArgs, List.cons_append, List.append_assoc, List.nil_append, List.singleton_append] at this ⊢
    simp only [parseAttrArgs, this]

/-- one printed attribute line, read after its `[` -/
theorem parseAttrGroup_rt (litLe : String → String → Bool) (fuel f : Nat) (a : Attr) (acc : List Attr) (rest : List Tk)
    (hf : a.args.length ≤ fuel) (hv : attrValid a = true) (hc : ∀ b ∈ acc, Compatible litLe b a) :
    parseAttrGroup litLe fuel (f + 1) acc ((printAttr a).tail ++ rest) = some (acc ++ [a], rest) := by
  obtain ⟨name, args⟩ := a
  have hargs := parseAttrArgs_rt fuel args hf (tEol :: rest)
  have hdup := isDup_false ⟨name, args⟩ acc (fun b hb => (hc b hb).2)
  have hins := insertAttr_end litLe ⟨name, args⟩ acc (fun b hb => (hc b hb).1)
  simp only [tBracketR, tEol] at hargs
  simp only [printAttr, List.tail_cons, List.cons_append, List.append_assoc, List.nil_append, tBracketR, tEol]
  simp only [parseAttrGroup, hargs, hv, hdup, hins, expectEol_eol]
  simp

theorem printAttr_cons (a : Attr) : printAttr a = tBracketL :: (printAttr a).tail := by
  simp [printAttr]

/-- the attribute lines of an item: valid attributes, in order, no duplicates -/
structure WFAttrs (litLe : String → String → Bool) (as : List Attr) : Prop where
  valid : ∀ a ∈ as, attrValid a = true
  sorted : as.Pairwise (Compatible litLe)

theorem parseAttributes_rt (litLe : String → String → Bool) (fuel : Nat) (as : List Attr) (hw : WFAttrs litLe as)
    (hfuel : ∀ a ∈ as, a.args.length ≤ fuel) (hfuel1 : 1 ≤ fuel)
    (acc : List Attr) (hacc : ∀ b ∈ acc, ∀ a ∈ as, Compatible litLe b a) (rest : List Tk) (hrest : ∀ r, rest ≠ tBracketL :: r)
    (f : Nat) (hf : as.length < f) :
    parseAttributes litLe fuel f acc (printAttrs as ++ rest) = some (acc ++ as, rest) := by
  induction as generalizing acc f with
  | nil =>
    obtain ⟨f', rfl⟩ : ∃ f', f = f' + 1 := ⟨f - 1, by omega⟩
    have h' : ∀ r, rest ≠ Tk.other "BracketL" :: r := hrest
    simp only [printAttrs, List.nil_append, parseAttributes, List.append_nil]
  | cons a as ih =>
    obtain ⟨f', rfl⟩ : ∃ f', f = f' + 1 := ⟨f - 1, by simp at hf; omega⟩
    obtain ⟨fuel', rfl⟩ : ∃ fuel', fuel = fuel' + 1 := ⟨fuel - 1, by omega⟩
    have hg := parseAttrGroup_rt litLe (fuel' + 1) fuel' a acc (printAttrs as ++ rest) (hfuel a (by simp)) (hw.valid a (by simp))
      (fun b hb => hacc b hb a (by simp))
    have hsorted := List.pairwise_cons.mp hw.sorted
    have hrec := ih ⟨fun x hx => hw.valid x (by simp [hx]), hsorted.2⟩ (fun x hx => hfuel x (by simp [hx])) (acc ++ [a])
      (by
        intro b hb x hx
        simp only [List.mem_append, List.mem_singleton] at hb
        rcases hb with hb | rfl
        · exact hacc b hb x (by simp [hx])
        · exact hsorted.1 x hx)
      f' (by simp at hf; omega)
    rw [printAttrs, printAttr_cons a]
    simp only [tBracketL, List.cons_append, List.append_assoc, parseAttributes]
    simp only [hg, hrec, List.append_assoc, List.singleton_append]


/-! ### settings -/

/-- the value has the form `parse_set` reads for this setting -/
def WFSetting (s : Setting) : Prop :=
  match s.value with
  | .flag _ => settingForm s.name = some "bool"
  | .lit _ => settingForm s.name = some "string"
  | .interp _ _ => settingForm s.name = some "interpreter"

theorem parseInterpArgs_rt (args : List String) (hne : args ≠ []) (rest : List Tk) (f : Nat) (hf : args.length ≤ f) :
    parseInterpArgs f ((printInterpArgs args).tail ++ tBracketR :: rest) = some (args, tBracketR :: rest) := by
  induction args generalizing f with
  | nil => exact absurd rfl hne
  | cons a as ih =>
    obtain ⟨f', rfl⟩ : ∃ f', f = f' + 1 := ⟨f - 1, by simp at hf; omega⟩
    have hnb : ∀ r, litTokens a ++ (printInterpArgs as ++ tBracketR :: rest) ≠ Tk.other "BracketR" :: r := by
      intro r h
      rcases litTokens_head a (printInterpArgs as ++ tBracketR :: rest) with ⟨r', h'⟩ | ⟨r', h'⟩ <;> rw [h'] at h <;> simp at h
    simp only [printInterpArgs, List.tail_cons, List.append_assoc]
    cases as with
    | nil =>
      simp only [printInterpArgs, List.nil_append, tBracketR] at hnb ⊢
      simp only [parseInterpArgs, parseLit_rt]
    | cons b bs =>
      have hrec := ih (by simp) f' (by simp at hf ⊢; omega)
      simp only [printInterpArgs, List.tail_cons, List.append_assoc, List.cons_append] at hrec hnb ⊢
      simp only [parseInterpArgs, parseLit_rt, hrec]

theorem parseInterpreter_rt (fuel : Nat) (cmd : String) (args : List String) (hf : args.length ≤ fuel) (rest : List Tk) :
    parseInterpreter fuel (printSetVal (.interp cmd args) ++ rest) = some (.interp cmd args, rest) := by
  cases args with
  | nil =>
    simp only [printSetVal, printInterpArgs, tBracketL, tBracketR, List.cons_append, List.append_assoc, List.nil_append,
      List.append_nil, List.singleton_append]
    simp only [parseInterpreter, parseLit_rt]
  | cons a as =>
    have h := parseInterpArgs_rt (a :: as) (by simp) rest fuel hf
    simp only [printInterpArgs, List.tail_cons, tBracketR, List.append_assoc] at h
    simp only [printSetVal, printInterpArgs, tBracketL, tBracketR, List.cons_append, List.append_assoc, List.nil_append,
      List.singleton_append]
    simp only [parseInterpreter, parseLit_rt, h]

theorem parseSet_rt (fuel : Nat) (s : Setting) (hw : WFSetting s) (hf : ∀ c as, s.value = .interp c as → as.length ≤ fuel) (rest : List Tk) :
    parseSet fuel (printSetting s ++ rest) = some (s, rest) := by
  obtain ⟨name, value⟩ := s
  cases value with
  | flag b =>
    simp only [WFSetting] at hw
    cases b <;> simp [printSetting, printSetVal, parseSet, hw, parseSetBool, tColonEquals]
  | lit l =>
    simp only [WFSetting] at hw
    simp only [printSetting, printSetVal, tColonEquals, List.cons_append]
    simp [parseSet, hw, parseLit_rt]
  | interp c as =>
    simp only [WFSetting] at hw
    have h := parseInterpreter_rt fuel c as (hf c as rfl) rest
    simp only [printSetting, tColonEquals, List.cons_append]
    simp [parseSet, hw, h]

/-! ### comments -/

theorem trimEnd_eq_self (cs : List Char) (h : ∀ c, cs.getLast? = some c → Body.isWhite c = false) : trimEnd cs = cs := by
  unfold trimEnd
  cases hr : cs.reverse with
  | nil => simp at hr; subst hr; rfl
  | cons c r =>
    have hl : cs.getLast? = some c := by
      rw [List.getLast?_eq_head?_reverse, hr]; rfl
    have hc := h c hl
    simp only [List.dropWhile, hc]
    rw [← hr, List.reverse_reverse]

/-- a doc comment as `parse_recipe` keeps it: not empty, no white space at either end -/
structure WFDoc (d : List Char) : Prop where
  nonempty : d ≠ []
  first : ∀ c, d.head? = some c → Body.isWhite c = false
  last : ∀ c, d.getLast? = some c → Body.isWhite c = false

theorem docOf_printed (d : List Char) (h : WFDoc d) : docOf ('#' :: ' ' :: d) = d := by
  unfold docOf
  simp only [List.drop_succ_cons, List.drop_zero]
  have hsp : Body.isWhite ' ' = true := by decide
  simp only [List.dropWhile, hsp]
  cases d with
  | nil => rfl
  | cons c cs => simp only [List.dropWhile, h.first c rfl]

theorem trimEnd_printed (d : List Char) (h : WFDoc d) : trimEnd ('#' :: ' ' :: d) = '#' :: ' ' :: d := by
  apply trimEnd_eq_self
  intro c hc
  cases d with
  | nil => exact absurd rfl h.nonempty
  | cons x xs =>
    apply h.last c
    simpa [List.getLast?_cons_cons] using hc


/-! ### a recipe body followed by an empty line -/

theorem printLines_snoc_empty (ls : List BLine) : printLines (ls ++ [[]]) = printLines ls ++ [tEol] := by
  induction ls with
  | nil => simp [printLines, printLine]
  | cons l ls ih => simp [printLines, ih]

theorem dropTrailingEmpty_snoc_empty (ls : List BLine) (h : NoTrailingEmpty ls) : dropTrailingEmpty (ls ++ [[]]) = ls := by
  induction ls with
  | nil => simp [dropTrailingEmpty]
  | cons l ls ih =>
    cases ls with
    | nil =>
      simp only [NoTrailingEmpty] at h
      cases l with
      | nil => exact absurd rfl h
      | cons x xs => simp [dropTrailingEmpty]
    | cons l' ls' =>
      have := ih h
      simp only [List.cons_append, dropTrailingEmpty] at this ⊢
      rw [this]

/-- the body of a recipe, with or without the empty line `Display for Ast` puts after it -/
theorem parseBodyBlock_rt (fuel : Nat) (ls : List BLine) (blank : Bool) (hw : ∀ l ∈ ls, ∀ f ∈ l, WFFrag f) (hne : NoTrailingEmpty ls)
    (hf : BodyFuel fuel ls) (hf1 : ls.length + 1 < fuel) (rest : List Tk) (hrest : ∀ r, rest ≠ Tk.other "Indent" :: r) :
    parseBody fuel (printBodyBlock ls blank ++ rest) = some (ls, if ls.isEmpty && blank then tEol :: rest else rest) := by
  cases ls with
  | nil =>
    cases blank
    · simp only [printBodyBlock, Bool.false_eq_true, if_false, List.nil_append, parseBody, List.isEmpty_nil, Bool.and_false]
    · simp [printBodyBlock, parseBody, tEol]
  | cons l ls' =>
    cases blank
    · have h := parseLines_rt fuel fuel (l :: ls') hw hf.exprs hf.frags rest fuel hf.lines
      simp only [printBodyBlock, tIndent, tDedent, Bool.false_eq_true, if_false, List.cons_append, List.append_assoc, List.singleton_append,
        List.nil_append] at h ⊢
      simp [parseBody, h, dropTrailingEmpty_id (l :: ls') hne]
    · have h := parseLines_rt fuel fuel ((l :: ls') ++ [[]])
        (by intro x hx; simp only [List.mem_append, List.mem_singleton] at hx; rcases hx with hx | rfl
            · exact hw x hx
            · intro f hf; simp at hf)
        (by intro x hx; simp only [List.mem_append, List.mem_singleton] at hx; rcases hx with hx | rfl
            · exact hf.exprs x hx
            · intro f hf; simp at hf)
        (by intro x hx; simp only [List.mem_append, List.mem_singleton] at hx; rcases hx with hx | rfl
            · exact hf.frags x hx
            · simp; omega)
        rest fuel (by simp at hf1 ⊢; omega)
      rw [printLines_snoc_empty] at h
      simp only [printBodyBlock, tIndent, tDedent, tEol, if_true, List.cons_append, List.append_assoc, List.singleton_append,
        List.nil_append] at h ⊢
      have hd := dropTrailingEmpty_snoc_empty (l :: ls') hne
      simp only [List.cons_append] at hd
      simp [parseBody, h, hd]


/-! ### one turn of the loop, item by item -/

theorem private_valid : attrValid ⟨"private", []⟩ = true := by decide

theorem parseAttributes_none (litLe : String → String → Bool) (fuel f : Nat) (ts : List Tk) (h : ∀ r, ts ≠ Tk.other "BracketL" :: r) :
    parseAttributes litLe fuel (f + 1) [] ts = some ([], ts) := by
  simp only [parseAttributes]

/-- the `[private]` line of an alias or an assignment -/
theorem parseAttributes_priv (litLe : String → String → Bool) (fuel : Nat) (p : Bool) (rest : List Tk)
    (hrest : ∀ r, rest ≠ Tk.other "BracketL" :: r) :
    parseAttributes litLe (fuel + 2) (fuel + 2) [] (privLine p ++ rest) = some (if p then [⟨"private", []⟩] else [], rest) := by
  cases p with
  | false => simp only [privLine, Bool.false_eq_true, if_false, List.nil_append]; exact parseAttributes_none litLe _ _ rest hrest
  | true =>
    have h := parseAttributes_rt litLe (fuel + 2) [⟨"private", []⟩]
      ⟨fun a ha => by simp at ha; subst ha; exact private_valid, by simp⟩ (fun a ha => by simp at ha; subst ha; simp) (by omega)
      [] (fun b hb => by simp at hb) rest hrest (fuel + 2) (by simp)
    simpa [printAttrs, printAttr, printAttrArgs, privLine] using h

theorem step_comment (litLe : String → String → Bool) (fuel : Nat) (acc : List Item) (eol : Bool) (c : List Char) (rest : List Tk) :
    step litLe (fuel + 1) acc eol (.comment c :: tEol :: rest) = some (.more (.comment (trimEnd c) :: acc) false rest) := by
  have ha := parseAttributes_none litLe (fuel + 1) fuel (.comment c :: tEol :: rest) (fun r h => by simp at h)
  simp only [tEol] at ha ⊢
  simp only [step, ha, expectEol_eol, List.isEmpty_nil, if_true]

theorem step_eol (litLe : String → String → Bool) (fuel : Nat) (acc : List Item) (eol : Bool) (rest : List Tk) :
    step litLe (fuel + 1) acc eol (tEol :: rest) = some (.more acc true rest) := by
  have ha := parseAttributes_none litLe (fuel + 1) fuel (tEol :: rest) (fun r h => by simp [tEol] at h)
  simp only [tEol] at ha ⊢
  simp only [step, ha, List.isEmpty_nil, if_true]

theorem step_eof (litLe : String → String → Bool) (fuel : Nat) (acc : List Item) (eol : Bool) :
    step litLe (fuel + 1) acc eol [tEof] = some (.done acc) := by
  have ha := parseAttributes_none litLe (fuel + 1) fuel [tEof] (fun r h => by simp [tEof] at h)
  simp only [tEof] at ha ⊢
  simp only [step, ha, List.isEmpty_nil, if_true]

theorem step_alias (litLe : String → String → Bool) (fuel : Nat) (acc : List Item) (eol : Bool) (p : Bool) (a : Alias)
    (hf : a.path.length < fuel + 2) (rest : List Tk) :
    step litLe (fuel + 2) acc eol (privLine p ++ (printAlias a ++ rest)) = some (.more (.alias p a :: acc) eol rest) := by
  have ha := parseAttributes_priv litLe fuel p (printAlias a ++ rest) (fun r h => by simp [printAlias] at h)
  have hp := parseAlias_rt (fuel + 2) a hf rest
  simp only [step, ha]
  simp only [printAlias, tColonEquals, List.cons_append, List.append_assoc, List.nil_append] at hp ⊢
  cases p <;> simp [identStep, guardIIC, hp, onlyPrivate]


theorem step_assignment (litLe : String → String → Bool) (fuel : Nat) (acc : List Item) (eol : Bool) (p : Bool) (a : Assignment)
    (hw : WF a.value) (hp : startsUnderscore a.name = true → p = true) (hf : 4 * a.value.size + 3 ≤ fuel + 2) (rest : List Tk) :
    step litLe (fuel + 2) acc eol (privLine p ++ (printAssignment a ++ rest)) = some (.more (.assignment p a :: acc) eol rest) := by
  have ha := parseAttributes_priv litLe fuel p (printAssignment a ++ rest)
    (fun r h => by cases hx : a.exported <;> simp [printAssignment, printExport, hx] at h)
  have hpa := parseAssignment_rt (fuel + 2) a hw hf rest
  simp only [step, ha]
  obtain ⟨exported, name, value⟩ := a
  cases exported with
  | true =>
    simp only [printAssignment, printExport, if_true, tColonEquals, List.cons_append, List.append_assoc, List.nil_append] at hpa ⊢
    cases p with
    | true => simp [identStep, guardIIC, hpa, onlyPrivate]
    | false =>
      have : startsUnderscore name = false := by
        cases h : startsUnderscore name with
        | false => rfl
        | true => exact absurd (hp h) (by simp)
      simp [identStep, guardIIC, hpa, onlyPrivate, this]
  | false =>
    simp only [printAssignment, printExport, Bool.false_eq_true, if_false, tColonEquals, List.cons_append, List.append_assoc, List.nil_append] at hpa ⊢
    cases p with
    | true => simp [identStep, guardIIC, guardUnexport, guardImport, guardMod, guardSet, guardAssign, hpa, onlyPrivate]
    | false =>
      have : startsUnderscore name = false := by
        cases h : startsUnderscore name with
        | false => rfl
        | true => exact absurd (hp h) (by simp)
      simp [identStep, guardIIC, guardUnexport, guardImport, guardMod, guardSet, guardAssign, hpa, onlyPrivate, this]

theorem step_unexport (litLe : String → String → Bool) (fuel : Nat) (acc : List Item) (eol : Bool) (n : String) (rest : List Tk) :
    step litLe (fuel + 1) acc eol (.ident "unexport" :: .ident n :: tEol :: rest) = some (.more (.unexport n :: acc) eol rest) := by
  have ha := parseAttributes_none litLe (fuel + 1) fuel (.ident "unexport" :: .ident n :: tEol :: rest) (fun r h => by simp at h)
  simp only [tEol] at ha ⊢
  simp only [step, ha]
  simp [identStep, guardIIC, guardUnexport, expectEol_eol]

theorem acceptQuestion_printed (o : Bool) (rest : List Tk) (h : ∀ r, rest ≠ Tk.other "QuestionMark" :: r) :
    acceptQuestion (printOptional o ++ rest) = (o, rest) := by
  cases o with
  | true => simp [printOptional, tQuestion, acceptQuestion]
  | false => simp only [printOptional, Bool.false_eq_true, if_false, List.nil_append, acceptQuestion]

theorem litTokens_not_question (l : String) (rest : List Tk) : ∀ r, litTokens l ++ rest ≠ Tk.other "QuestionMark" :: r := by
  intro r h
  rcases litTokens_head l rest with ⟨r', h'⟩ | ⟨r', h'⟩ <;> rw [h'] at h <;> simp at h

theorem guardImport_printed (o : Bool) (p : String) (rest : List Tk) :
    guardImport (.ident "import" :: (printOptional o ++ (litTokens p ++ rest))) = true := by
  cases o with
  | true => simp [printOptional, tQuestion, guardImport]
  | false =>
    simp only [printOptional, Bool.false_eq_true, if_false, List.nil_append]
    rcases litTokens_cases p with ⟨cs, _, h⟩ | h <;> simp [h, guardImport]

theorem step_import (litLe : String → String → Bool) (fuel : Nat) (acc : List Item) (eol : Bool) (o : Bool) (p : String) (rest : List Tk) :
    step litLe (fuel + 1) acc eol (.ident "import" :: (printOptional o ++ (litTokens p ++ rest))) = some (.more (.import o p :: acc) eol rest) := by
  have ha := parseAttributes_none litLe (fuel + 1) fuel (.ident "import" :: (printOptional o ++ (litTokens p ++ rest))) (fun r h => by simp at h)
  have hq := acceptQuestion_printed o (litTokens p ++ rest) (litTokens_not_question p rest)
  simp only [step, ha]
  simp [identStep, guardIIC, guardUnexport, guardImport_printed, importStep, hq, parseLit_rt]

theorem step_set (litLe : String → String → Bool) (fuel : Nat) (acc : List Item) (eol : Bool) (s : Setting) (hw : WFSetting s)
    (hf : ∀ c as, s.value = .interp c as → as.length ≤ fuel + 1) (rest : List Tk) :
    step litLe (fuel + 1) acc eol (printSetting s ++ rest) = some (.more (.set s :: acc) eol rest) := by
  have ha := parseAttributes_none litLe (fuel + 1) fuel (printSetting s ++ rest) (fun r h => by simp [printSetting] at h)
  have hs := parseSet_rt (fuel + 1) s hw hf rest
  simp only [step, ha]
  simp only [printSetting, tColonEquals, List.cons_append] at hs ⊢
  simp [identStep, guardIIC, guardUnexport, guardImport, guardMod, guardSet, hs]


/-! ### modules and recipes -/

theorem popDoc_none (acc : List Item) (eol : Bool) (h : eol = true ∨ ∀ c r, acc ≠ Item.comment c :: r) : popDoc acc eol = (none, acc) := by
  unfold popDoc
  rcases h with h | h
  · simp [h]
  · cases eol with
    | true => simp
    | false => simp only [Bool.false_eq_true, if_false]

theorem guardMod_printed (o : Bool) (n : String) (p : Option String) (rest : List Tk) :
    guardMod (.ident "mod" :: (printOptional o ++ (.ident n :: (printOptLit p ++ tEol :: rest)))) = true := by
  cases o with
  | true => simp [printOptional, tQuestion, guardMod]
  | false =>
    simp only [printOptional, Bool.false_eq_true, if_false, List.nil_append]
    cases p with
    | none => simp [printOptLit, tEol, guardMod]
    | some l => rcases litTokens_cases l with ⟨cs, _, h⟩ | h <;> simp [printOptLit, h, guardMod]

theorem parseModPath_printed (p : Option String) (rest : List Tk) :
    parseModPath (printOptLit p ++ tEol :: rest) = some (p, tEol :: rest) := by
  cases p with
  | none => simp [printOptLit, tEol, parseModPath]
  | some l =>
    have h := parseLit_rt l (tEol :: rest)
    rcases litTokens_cases l with ⟨cs, _, hl⟩ | hl
    · simp only [printOptLit, hl] at h ⊢
      simp only [List.cons_append, List.nil_append] at h ⊢
      simp only [parseModPath, h, Option.map]
    · simp only [printOptLit, hl] at h ⊢
      simp only [List.cons_append, List.nil_append] at h ⊢
      simp only [parseModPath, h, Option.map]

theorem step_module (litLe : String → String → Bool) (fuel : Nat) (acc : List Item) (eol : Bool) (o : Bool) (n : String) (p : Option String)
    (hg : eol = true ∨ ∀ c r, acc ≠ Item.comment c :: r) (rest : List Tk) :
    step litLe (fuel + 1) acc eol (.ident "mod" :: (printOptional o ++ (.ident n :: (printOptLit p ++ tEol :: rest))))
      = some (.more (.module o n p none [] :: acc) eol (tEol :: rest)) := by
  have ha := parseAttributes_none litLe (fuel + 1) fuel (.ident "mod" :: (printOptional o ++ (.ident n :: (printOptLit p ++ tEol :: rest))))
    (fun r h => by simp at h)
  have hq := acceptQuestion_printed o (.ident n :: (printOptLit p ++ tEol :: rest)) (fun r h => by simp at h)
  have hpd := popDoc_none acc eol hg
  simp only [step, ha]
  simp [identStep, guardIIC, guardUnexport, guardImport, guardMod_printed, modStep, hq, parseModPath_printed, hpd, hasAttr]

/-- the token after the name of a recipe is never `:=` -/
theorem printParam_head_ne (p : Param) (more : List Tk) : ∀ r, printParam p ++ more ≠ Tk.other "ColonEquals" :: r := by
  intro r h
  obtain ⟨kind, exported, name, default⟩ := p
  cases kind <;> cases exported <;> simp [printParam, printKind, printDollar, tDollar, tAsterisk] at h

theorem header_second (h : Header) (more : List Tk) :
    ∀ r, printParams h.params ++ (printVariadic h.variadic ++ (tColon :: more)) ≠ Tk.other "ColonEquals" :: r := by
  intro r hh
  cases hp : h.params with
  | cons p ps =>
    rw [hp] at hh
    simp only [printParams, List.append_assoc] at hh
    exact printParam_head_ne p _ r hh
  | nil =>
    rw [hp] at hh
    simp only [printParams, List.nil_append] at hh
    cases hv : h.variadic with
    | some v =>
      rw [hv] at hh
      simp only [printVariadic] at hh
      exact printParam_head_ne v _ r hh
    | none =>
      rw [hv] at hh
      simp [printVariadic, tColon] at hh

theorem printHeader_shape (h : Header) (more : List Tk) :
    printHeader h ++ more = printQuiet h.quiet ++ (.ident h.name :: (printParams h.params ++ (printVariadic h.variadic ++
      (tColon :: (printDeps h.priors ++ (printSubsequents h.subsequents ++ (tEol :: more))))))) := by
  simp [printHeader, List.append_assoc]

/-- tokens that follow a recipe name or a parameter name and stop every look-ahead guard -/
def safeTok (t : Tk) : Prop := t = tColon ∨ t = Tk.plus ∨ t = tAsterisk ∨ t = tDollar ∨ t = tEquals

/-- the parameter part of a printed header begins with a safe token or with the name of an un-exported positional parameter -/
theorem tail_first (ps : List Param) (v : Option Param) (more : List Tk)
    (hps : ∀ p ∈ ps, p.kind = .singular) (hv : ∀ x, v = some x → x.kind ≠ .singular) :
    (∃ t r, printParams ps ++ (printVariadic v ++ tColon :: more) = t :: r ∧ safeTok t)
    ∨ (∃ p ps', ps = p :: ps' ∧ printParams ps ++ (printVariadic v ++ tColon :: more)
          = Tk.ident p.name :: (printDefault p.default ++ (printParams ps' ++ (printVariadic v ++ tColon :: more)))) := by
  cases ps with
  | nil =>
    left
    cases v with
    | none => exact ⟨tColon, more, by simp [printParams, printVariadic], .inl rfl⟩
    | some x =>
      have hk := hv x rfl
      obtain ⟨kind, exported, name, default⟩ := x
      cases kind with
      | singular => exact absurd rfl hk
      | plus => exact ⟨Tk.plus, _, by simp only [printParams, printVariadic, printParam, printKind, printDollar, printDefault, tAsterisk, tDollar, tEquals, if_true, List.nil_append, List.cons_append, List.append_assoc, List.singleton_append]; rfl, .inr (.inl rfl)⟩
      | star => exact ⟨tAsterisk, _, by simp only [printParams, printVariadic, printParam, printKind, printDollar, printDefault, tAsterisk, tDollar, tEquals, if_true, List.nil_append, List.cons_append, List.append_assoc, List.singleton_append]; rfl, .inr (.inr (.inl rfl))⟩
  | cons p ps' =>
    have hk := hps p (by simp)
    cases hx : p.exported with
    | true =>
      left
      exact ⟨tDollar, _, by rw [printParams, printParam, hk, hx]; simp only [printParams, printVariadic, printParam, printKind, printDollar, printDefault, tAsterisk, tDollar, tEquals, if_true, List.nil_append, List.cons_append, List.append_assoc, List.singleton_append]; rfl, .inr (.inr (.inr (.inl rfl)))⟩
    | false =>
      right
      exact ⟨p, ps', rfl, by simp [printParams, printParam, printKind, printDollar, hk, hx, List.append_assoc]⟩

/-- … and what follows such a parameter name is not a string -/
theorem after_param_first (d : Option Expr) (ps : List Param) (v : Option Param) (more : List Tk)
    (hps : ∀ p ∈ ps, p.kind = .singular) (hv : ∀ x, v = some x → x.kind ≠ .singular) :
    ∃ t r, printDefault d ++ (printParams ps ++ (printVariadic v ++ tColon :: more)) = t :: r ∧ (safeTok t ∨ ∃ q, t = Tk.ident q) := by
  cases d with
  | some e => exact ⟨tEquals, _, by simp only [printParams, printVariadic, printParam, printKind, printDollar, printDefault, tAsterisk, tDollar, tEquals, if_true, List.nil_append, List.cons_append, List.append_assoc, List.singleton_append]; rfl, .inl (.inr (.inr (.inr (.inr rfl))))⟩
  | none =>
    simp only [printDefault, List.nil_append]
    rcases tail_first ps v more hps hv with ⟨t, r, h1, h2⟩ | ⟨p, ps', _, h1⟩
    · exact ⟨t, r, h1, .inl h2⟩
    · exact ⟨_, _, h1, .inr ⟨p.name, rfl⟩⟩

theorem guards_safe (n : String) (t : Tk) (r : List Tk) (ht : safeTok t) :
    guardIIC (.ident n :: t :: r) = false ∧ guardUnexport (.ident n :: t :: r) = false ∧ guardImport (.ident n :: t :: r) = false
    ∧ guardMod (.ident n :: t :: r) = false ∧ guardSet (.ident n :: t :: r) = false ∧ guardAssign (.ident n :: t :: r) = false := by
  rcases ht with rfl | rfl | rfl | rfl | rfl <;>
    simp [guardIIC, guardUnexport, guardImport, guardMod, guardSet, guardAssign, tColon, tAsterisk, tDollar, tEquals]

theorem guards_ident_safe (n p : String) (t : Tk) (r : List Tk) (ht : safeTok t) :
    guardIIC (.ident n :: .ident p :: t :: r) = false ∧ guardUnexport (.ident n :: .ident p :: t :: r) = false
    ∧ guardImport (.ident n :: .ident p :: t :: r) = false ∧ guardMod (.ident n :: .ident p :: t :: r) = false
    ∧ guardSet (.ident n :: .ident p :: t :: r) = false ∧ guardAssign (.ident n :: .ident p :: t :: r) = false := by
  rcases ht with rfl | rfl | rfl | rfl | rfl <;>
    simp [guardIIC, guardUnexport, guardImport, guardMod, guardSet, guardAssign, tColon, tAsterisk, tDollar, tEquals]

theorem guards_ident_ident (n p q : String) (t : Tk) (r : List Tk) (ht : safeTok t ∨ ∃ x, t = Tk.ident x) :
    guardIIC (.ident n :: .ident p :: .ident q :: t :: r) = false ∧ guardUnexport (.ident n :: .ident p :: .ident q :: t :: r) = false
    ∧ guardImport (.ident n :: .ident p :: .ident q :: t :: r) = false ∧ guardMod (.ident n :: .ident p :: .ident q :: t :: r) = false
    ∧ guardSet (.ident n :: .ident p :: .ident q :: t :: r) = false ∧ guardAssign (.ident n :: .ident p :: .ident q :: t :: r) = false := by
  rcases ht with (rfl | rfl | rfl | rfl | rfl) | ⟨x, rfl⟩ <;>
    simp [guardIIC, guardUnexport, guardImport, guardMod, guardSet, guardAssign, tColon, tAsterisk, tDollar, tEquals]

/-- no look-ahead guard of the keyword dispatch fires on a printed recipe header, whatever the recipe is called -/
theorem header_guards (h : Header) (hw : WFHeader h) (hq : h.quiet = false) (more : List Tk) :
    guardIIC (printHeader h ++ more) = false ∧ guardUnexport (printHeader h ++ more) = false ∧ guardImport (printHeader h ++ more) = false
    ∧ guardMod (printHeader h ++ more) = false ∧ guardSet (printHeader h ++ more) = false ∧ guardAssign (printHeader h ++ more) = false := by
  rw [printHeader_shape, hq]
  simp only [printQuiet, Bool.false_eq_true, if_false, List.nil_append]
  have hps := fun p hp => (hw.params p hp).1
  have hv := fun x hx => (hw.variadic x hx).1
  rcases tail_first h.params h.variadic _ hps hv with ⟨t, r, h1, h2⟩ | ⟨p, ps', hpe, h1⟩
  · rw [h1]; exact guards_safe _ t r h2
  · rw [h1]
    have hps' : ∀ x ∈ ps', x.kind = .singular := fun x hx => hps x (by rw [hpe]; simp [hx])
    cases hd : p.default with
    | some e => simp only [printDefault, List.cons_append]; exact guards_ident_safe _ _ tEquals _ (.inr (.inr (.inr (.inr rfl))))
    | none =>
      simp only [printDefault, List.nil_append]
      rcases tail_first ps' h.variadic _ hps' hv with ⟨t, r, h3, h4⟩ | ⟨q, ps'', hqe, h3⟩
      · rw [h3]; exact guards_ident_safe _ _ t r h4
      · rw [h3]
        have hps'' : ∀ x ∈ ps'', x.kind = .singular := fun x hx => hps' x (by rw [hqe]; simp [hx])
        obtain ⟨t, r, h5, h6⟩ := after_param_first q.default ps'' h.variadic _ hps'' hv
        rw [h5]
        exact guards_ident_ident _ _ _ t r h6

/-- `parse_recipe` on a printed header and body block -/
theorem parseRecipeBlock_rt (fuel : Nat) (r : Recipe) (blank : Bool) (hw : WFRecipe r) (hf : RecipeFuel fuel r) (hf1 : r.body.length + 1 < fuel)
    (rest : List Tk) (hrest : ∀ t, rest ≠ Tk.other "Indent" :: t) :
    parseRecipe fuel (printHeader r.header ++ (printBodyBlock r.body blank ++ rest))
      = some (r, if r.body.isEmpty && blank then tEol :: rest else rest) := by
  have hh := parseHeader_rt r.header hw.header fuel hf.header (printBodyBlock r.body blank ++ rest)
  have hb := parseBodyBlock_rt fuel r.body blank hw.body hw.noTrailingEmpty hf.body hf1 rest hrest
  simp only [parseRecipe, hh, hb]


structure WFRecipeItem (litLe : String → String → Bool) (attrs : List Attr) (r : Recipe) : Prop where
  wfAttrs : WFAttrs litLe attrs
  recipe : WFRecipe r
  conflict : recipeConflict attrs r.body = false

structure RecipeItemFuel (fuel : Nat) (attrs : List Attr) (r : Recipe) : Prop where
  args : ∀ a ∈ attrs, a.args.length ≤ fuel
  attrs : attrs.length < fuel
  recipe : RecipeFuel fuel r
  lines : r.body.length + 1 < fuel

theorem guardAssign_false (n : String) (ts : List Tk) (h : ∀ r, ts ≠ Tk.other "ColonEquals" :: r) : guardAssign (.ident n :: ts) = false := by
  unfold guardAssign
  split
  · rename_i heq
    simp only [List.cons.injEq] at heq
    exact absurd heq.2 (h _)
  · rfl

theorem identStep_recipe (fuel : Nat) (attrs : List Attr) (acc : List Item) (eol : Bool) (h : Header) (more : List Tk)
    (hq : h.quiet = false) (hw : WFHeader h) :
    identStep fuel h.name attrs acc eol (printHeader h ++ more) = recipeStep fuel attrs acc eol (printHeader h ++ more) := by
  obtain ⟨g1, g2, g3, g4, g5, g6⟩ := header_guards h hw hq more
  simp [identStep, g1, g2, g3, g4, g5, g6]

theorem step_recipe_core (litLe : String → String → Bool) (fuel : Nat) (acc : List Item) (eol : Bool) (attrs : List Attr) (r : Recipe)
    (blank : Bool) (hw : WFRecipeItem litLe attrs r) (hf : RecipeItemFuel fuel attrs r) (rest : List Tk)
    (hrest : ∀ t, rest ≠ Tk.other "Indent" :: t) :
    step litLe fuel acc eol (printAttrs attrs ++ (printHeader r.header ++ (printBodyBlock r.body blank ++ rest)))
      = some (.more (.recipe (if hasAttr "doc" attrs then none else ((popDoc acc eol).1).filter (fun d => !d.isEmpty)) attrs r
                :: (popDoc acc eol).2) eol (if r.body.isEmpty && blank then tEol :: rest else rest)) := by
  have hfuel1 : 1 ≤ fuel := by have := hf.attrs; omega
  have hhead : ∀ x, printHeader r.header ++ (printBodyBlock r.body blank ++ rest) ≠ tBracketL :: x := by
    intro x hx
    rw [printHeader_shape] at hx
    cases hq : r.header.quiet <;> simp [hq, printQuiet, tAt, tBracketL] at hx
  have ha := parseAttributes_rt litLe fuel attrs hw.wfAttrs hf.args hfuel1 [] (fun b hb => by simp at hb)
    (printHeader r.header ++ (printBodyBlock r.body blank ++ rest)) hhead fuel hf.attrs
  have hr := parseRecipeBlock_rt fuel r blank hw.recipe hf.recipe hf.lines rest hrest
  have hrs : recipeStep fuel attrs acc eol (printHeader r.header ++ (printBodyBlock r.body blank ++ rest))
      = some (.more (.recipe (if hasAttr "doc" attrs then none else ((popDoc acc eol).1).filter (fun d => !d.isEmpty)) attrs r
                :: (popDoc acc eol).2) eol (if r.body.isEmpty && blank then tEol :: rest else rest)) := by
    simp only [recipeStep, hr, hw.conflict]
    simp
  simp only [step, ha, List.nil_append]
  cases hq : r.header.quiet with
  | true =>
    have hs : ∃ more, printHeader r.header ++ (printBodyBlock r.body blank ++ rest) = Tk.other "At" :: more := by
      rw [printHeader_shape, hq]
      simp only [printQuiet, if_true, tAt, List.cons_append, List.nil_append]
      exact ⟨_, rfl⟩
    obtain ⟨more, hm⟩ := hs
    rw [hm] at hrs ⊢
    simp only [hrs]
  | false =>
    have hs : ∃ more, printHeader r.header ++ (printBodyBlock r.body blank ++ rest) = Tk.ident r.header.name :: more := by
      rw [printHeader_shape, hq]
      simp only [printQuiet, Bool.false_eq_true, if_false, List.nil_append]
      exact ⟨_, rfl⟩
    obtain ⟨more, hm⟩ := hs
    have hid := identStep_recipe fuel attrs acc eol r.header (printBodyBlock r.body blank ++ rest) hq hw.recipe.header
    rw [hm] at hrs hid ⊢
    simp only [hid, hrs]


/-! ### the loop -/

/-- what the round trip asks of an item (everything `parse_ast` returns has these properties) -/
def WFItem (litLe : String → String → Bool) : Item → Prop
  | .alias _ _ => True
  | .assignment p a => WF a.value ∧ (startsUnderscore a.name = true → p = true)
  | .comment c => trimEnd c = c
  | .import _ _ => True
  | .module _ _ _ _ _ => True
  | .recipe doc attrs r => WFRecipeItem litLe attrs r ∧ (hasAttr "doc" attrs = true → doc = none) ∧ (∀ d, doc = some d → WFDoc d)
  | .set s => WFSetting s
  | .unexport _ => True

def ItemFuel (fuel : Nat) : Item → Prop
  | .alias _ a => a.path.length < fuel
  | .assignment _ a => 4 * a.value.size + 3 ≤ fuel
  | .recipe _ attrs r => RecipeItemFuel fuel attrs r
  | .set s => ∀ c as, s.value = .interp c as → as.length + 1 ≤ fuel
  | _ => True

/-- the doc comment line is printed -/
def printsDoc : Item → Bool
  | .recipe (some _) attrs _ => !hasAttr "doc" attrs
  | _ => false

/-- turns of the loop an item takes -/
def cost (it : Item) (blank : Bool) : Nat :=
  match it with
  | .import .. => 2 + blank.toNat
  | .module .. => 2 + blank.toNat
  | .set .. => 2 + blank.toNat
  | .recipe _ _ r => (printsDoc it).toNat + 1 + (r.body.isEmpty && blank).toNat
  | _ => 1 + blank.toNat

/-- `eol_since_last_comment` after the item -/
def eolAfter (it : Item) (blank : Bool) (eol : Bool) : Bool :=
  match it with
  | .import .. => true
  | .module .. => true
  | .set .. => true
  | .comment _ => blank
  | .recipe _ _ r => if r.body.isEmpty && blank then true else (if printsDoc it then false else eol)
  | _ => if blank then true else eol

/-- nothing would be popped as a doc comment -/
def NoPop (acc : List Item) (eol : Bool) : Prop := eol = true ∨ ∀ c r, acc ≠ Item.comment c :: r

/-- the item looks for a doc comment before it without printing one -/
def looksForDoc : Item → Bool
  | .module .. => true
  | .recipe .. => true
  | _ => false

theorem parseItems_more {litLe : String → String → Bool} {fuel : Nat} {acc acc' : List Item} {eol eol' : Bool} {ts r : List Tk}
    (h : step litLe fuel acc eol ts = some (.more acc' eol' r)) (f : Nat) :
    parseItems litLe fuel (f + 1) acc eol ts = parseItems litLe fuel f acc' eol' r := by
  simp only [parseItems, h]

theorem parseItems_eol (litLe : String → String → Bool) (fuel f : Nat) (acc : List Item) (eol : Bool) (rest : List Tk) :
    parseItems litLe (fuel + 1) (f + 1) acc eol (tEol :: rest) = parseItems litLe (fuel + 1) f acc true rest :=
  parseItems_more (step_eol litLe fuel acc eol rest) f

/-- an optional empty line -/
theorem parseItems_blank (litLe : String → String → Bool) (fuel f : Nat) (acc : List Item) (eol : Bool) (blank : Bool) (rest : List Tk) :
    parseItems litLe (fuel + 1) (f + blank.toNat) acc eol ((if blank then [tEol] else []) ++ rest)
      = parseItems litLe (fuel + 1) f acc (if blank then true else eol) rest := by
  cases blank with
  | false => simp
  | true => simpa using parseItems_eol litLe fuel f acc eol rest


theorem run_item (litLe : String → String → Bool) (F : Nat) (it : Item) (blank : Bool) (hw : WFItem litLe it) (hf : ItemFuel (F + 2) it)
    (acc : List Item) (eol : Bool) (hg : looksForDoc it = true → printsDoc it = false → NoPop acc eol)
    (rest : List Tk) (hrest : ∀ t, rest ≠ Tk.other "Indent" :: t) (f : Nat) :
    parseItems litLe (F + 2) (f + cost it blank) acc eol (printOne it blank ++ rest)
      = parseItems litLe (F + 2) f (it.forget :: acc) (eolAfter it blank eol) rest := by
  cases it with
  | alias p a =>
    simp only [ItemFuel] at hf
    simp only [cost, printOne, Item.forget, eolAfter, List.append_assoc]
    rw [show f + (1 + blank.toNat) = (f + blank.toNat) + 1 by omega]
    rw [parseItems_more (step_alias litLe F acc eol p a hf _) _]
    exact parseItems_blank litLe (F + 1) f _ eol blank rest
  | assignment p a =>
    simp only [ItemFuel] at hf
    simp only [WFItem] at hw
    simp only [cost, printOne, Item.forget, eolAfter, List.append_assoc]
    rw [show f + (1 + blank.toNat) = (f + blank.toNat) + 1 by omega]
    rw [parseItems_more (step_assignment litLe F acc eol p a hw.1 hw.2 hf _) _]
    exact parseItems_blank litLe (F + 1) f _ eol blank rest
  | comment c =>
    simp only [WFItem] at hw
    simp only [cost, printOne, Item.forget, eolAfter]
    rw [show f + (1 + blank.toNat) = (f + blank.toNat) + 1 by omega]
    have hs := step_comment litLe (F + 1) acc eol c ((if blank then [tEol] else []) ++ rest)
    rw [hw] at hs
    simp only [List.cons_append] at hs ⊢
    rw [parseItems_more hs _]
    have := parseItems_blank litLe (F + 1) f (Item.comment c :: acc) false blank rest
    cases blank <;> simpa using this
  | «import» o p =>
    simp only [cost, printOne, Item.forget, eolAfter, List.cons_append, List.append_assoc]
    rw [show f + (2 + blank.toNat) = (f + blank.toNat + 1) + 1 by omega]
    rw [parseItems_more (step_import litLe (F + 1) acc eol o p _) _]
    rw [parseItems_eol litLe (F + 1) _ _ eol _]
    have := parseItems_blank litLe (F + 1) f (Item.import o p :: acc) true blank rest
    cases blank <;> simpa using this
  | module o n p doc attrs =>
    have hnp : NoPop acc eol := hg rfl rfl
    simp only [cost, printOne, Item.forget, eolAfter, List.cons_append, List.append_assoc]
    rw [show f + (2 + blank.toNat) = (f + blank.toNat + 1) + 1 by omega]
    rw [parseItems_more (step_module litLe (F + 1) acc eol o n p hnp _) _]
    rw [parseItems_eol litLe (F + 1) _ _ eol _]
    have := parseItems_blank litLe (F + 1) f (Item.module o n p none [] :: acc) true blank rest
    cases blank <;> simpa using this
  | «set» s =>
    simp only [ItemFuel] at hf
    simp only [WFItem] at hw
    simp only [cost, printOne, Item.forget, eolAfter, List.append_assoc, List.cons_append]
    rw [show f + (2 + blank.toNat) = (f + blank.toNat + 1) + 1 by omega]
    rw [parseItems_more (step_set litLe (F + 1) acc eol s hw (fun c as h => by have := hf c as h; omega) _) _]
    rw [parseItems_eol litLe (F + 1) _ _ eol _]
    have := parseItems_blank litLe (F + 1) f (Item.set s :: acc) true blank rest
    cases blank <;> simpa using this
  | unexport n =>
    simp only [cost, printOne, Item.forget, eolAfter, List.cons_append]
    rw [show f + (1 + blank.toNat) = (f + blank.toNat) + 1 by omega]
    rw [parseItems_more (step_unexport litLe (F + 1) acc eol n _) _]
    exact parseItems_blank litLe (F + 1) f _ eol blank rest
  | recipe doc attrs r =>
    simp only [ItemFuel] at hf
    simp only [WFItem] at hw
    obtain ⟨hwr, hdocattr, hdocwf⟩ := hw
    -- the tail: an empty line that is not swallowed by the body
    have htail : ∀ (acc' : List Item) (eol' : Bool) (g : Nat),
        parseItems litLe (F + 2) (g + (r.body.isEmpty && blank).toNat) acc' eol' (if r.body.isEmpty && blank then tEol :: rest else rest)
          = parseItems litLe (F + 2) g acc' (if r.body.isEmpty && blank then true else eol') rest := by
      intro acc' eol' g
      cases hb : (r.body.isEmpty && blank) with
      | false => simp
      | true => simpa using parseItems_eol litLe (F + 1) g acc' eol' rest
    cases hpd : printsDoc (Item.recipe doc attrs r) with
    | false =>
      -- no doc comment line
      have hnp : NoPop acc eol := hg rfl hpd
      have hpop := popDoc_none acc eol hnp
      have hdoc : doc = none ∨ hasAttr "doc" attrs = true := by
        cases doc with
        | none => left; rfl
        | some d => right; simpa [printsDoc] using hpd
      have hnodoc : (if hasAttr "doc" attrs = true then [] else docLine doc) = [] := by
        rcases hdoc with h | h
        · simp [h, docLine]
        · simp [h]
      have hdoc' : (if hasAttr "doc" attrs = true then none else Option.filter (fun d => !d.isEmpty) (popDoc acc eol).1) = doc := by
        rw [hpop]
        rcases hdoc with h | h
        · simp [h]
        · simp [h, hdocattr h]
      have hs := step_recipe_core litLe (F + 2) acc eol attrs r blank hwr hf rest hrest
      rw [hdoc', hpop] at hs
      simp only [cost, hpd, printOne, hnodoc, List.nil_append, Item.forget, eolAfter, List.append_assoc, Bool.toNat_false, Nat.zero_add]
      rw [show f + (1 + (r.body.isEmpty && blank).toNat) = (f + (r.body.isEmpty && blank).toNat) + 1 by omega]
      rw [parseItems_more hs _, htail]
      simp
    | true =>
      -- `# doc` line, then the recipe pops it
      obtain ⟨d, rfl⟩ : ∃ d, doc = some d := by
        cases doc with
        | none => simp [printsDoc] at hpd
        | some d => exact ⟨d, rfl⟩
      have hna : hasAttr "doc" attrs = false := by simpa [printsDoc] using hpd
      have hwd := hdocwf d rfl
      have hc := step_comment litLe (F + 1) acc eol ('#' :: ' ' :: d)
        (printAttrs attrs ++ (printHeader r.header ++ (printBodyBlock r.body blank ++ rest)))
      rw [trimEnd_printed d hwd] at hc
      have hs := step_recipe_core litLe (F + 2) (Item.comment ('#' :: ' ' :: d) :: acc) false attrs r blank hwr hf rest hrest
      have hpop : popDoc (Item.comment ('#' :: ' ' :: d) :: acc) false = (some (docOf ('#' :: ' ' :: d)), acc) := by
        simp [popDoc]
      rw [hpop, docOf_printed d hwd] at hs
      have hfilter : Option.filter (fun d => !d.isEmpty) (some d) = some d := by
        have : d.isEmpty = false := by
          cases d with
          | nil => exact absurd rfl hwd.nonempty
          | cons _ _ => rfl
        simp [Option.filter, this]
      simp only [hna, Bool.false_eq_true, if_false, hfilter] at hs
      simp only [cost, hpd, printOne, hna, Bool.false_eq_true, if_false, docLine, Item.forget, eolAfter, List.cons_append, List.nil_append,
        List.append_assoc, Bool.toNat_true, if_true]
      rw [show f + (1 + 1 + (r.body.isEmpty && blank).toNat) = ((f + (r.body.isEmpty && blank).toNat) + 1) + 1 by omega]
      rw [parseItems_more hc _, parseItems_more hs _, htail]


/-! ### the whole file -/

def costs : List Item → Nat
  | [] => 0
  | [it] => cost it false
  | it :: nxt :: rest => cost it (sepBlank it nxt) + costs (nxt :: rest)

/-- the state of the loop does not make the next item swallow a comment that is an item of its own -/
def Guard (acc : List Item) (eol : Bool) : List Item → Prop
  | [] => True
  | it :: _ => looksForDoc it = true → printsDoc it = false → NoPop acc eol

/-- token kinds no printed item begins with -/
def Foreign (k : String) : Prop := k ≠ "At" ∧ k ≠ "BracketL" ∧ k ≠ "Eof"

theorem printAttrs_head (k : String) (hk : Foreign k) (as : List Attr) (more : List Tk) (h : ∀ t, more ≠ Tk.other k :: t) :
    ∀ t, printAttrs as ++ more ≠ Tk.other k :: t := by
  cases as with
  | nil => simpa [printAttrs] using h
  | cons a as => intro t ht; simp [printAttrs, printAttr, tBracketL] at ht; exact hk.2.1 ht.1.symm

theorem printOne_head (k : String) (hk : Foreign k) (it : Item) (blank : Bool) (more : List Tk) :
    ∀ t, printOne it blank ++ more ≠ Tk.other k :: t := by
  intro t ht
  cases it with
  | alias p a => cases p <;> simp [printOne, privLine, printAlias, tBracketL] at ht; exact hk.2.1 ht.1.symm
  | assignment p a =>
    cases p <;> cases hx : a.exported <;> simp [printOne, privLine, printAssignment, printExport, hx, tBracketL] at ht
    all_goals exact hk.2.1 ht.1.symm
  | comment c => simp [printOne] at ht
  | «import» o p => simp [printOne] at ht
  | module o n p d as => simp [printOne] at ht
  | «set» s => simp [printOne, printSetting] at ht
  | unexport n => simp [printOne] at ht
  | recipe doc attrs r =>
    have hh : ∀ t, printHeader r.header ++ (printBodyBlock r.body blank ++ more) ≠ Tk.other k :: t := by
      intro t ht
      rw [printHeader_shape] at ht
      cases hq : r.header.quiet <;> simp [hq, printQuiet, tAt] at ht
      exact hk.1 ht.1.symm
    have ha := printAttrs_head k hk attrs _ hh
    simp only [printOne, List.append_assoc] at ht
    cases hd : hasAttr "doc" attrs with
    | true => simp only [hd, if_true, List.nil_append] at ht; exact ha t ht
    | false =>
      simp only [hd, Bool.false_eq_true, if_false] at ht
      cases doc with
      | none => simp only [docLine, List.nil_append] at ht; exact ha t ht
      | some d => simp [docLine] at ht

theorem printItems_head (k : String) (hk : Foreign k) (items : List Item) : ∀ t, printItems items ++ [tEof] ≠ Tk.other k :: t := by
  intro t ht
  cases items with
  | nil => simp [printItems, tEof] at ht; exact hk.2.2 ht.1.symm
  | cons it items =>
    cases items with
    | nil => exact printOne_head k hk it false _ t (by simpa [printItems] using ht)
    | cons nxt rest => exact printOne_head k hk it _ _ t (by simpa [printItems, List.append_assoc] using ht)

theorem foreign_indent : Foreign "Indent" := by unfold Foreign; decide
theorem foreign_bom : Foreign "ByteOrderMark" := by unfold Foreign; decide

theorem forget_not_comment (it : Item) (h : it.kind ≠ 2) : ∀ c r acc, it.forget :: acc ≠ Item.comment c :: r := by
  intro c r acc hh
  cases it <;> simp [Item.forget, Item.kind] at hh h

theorem guard_next (it nxt : Item) (acc : List Item) (eol : Bool) (more : List Item) :
    Guard (it.forget :: acc) (eolAfter it (sepBlank it nxt) eol) (nxt :: more) := by
  intro hl _
  by_cases hk : it.kind = 2
  · left
    have hn : nxt.kind ≠ 2 := by cases nxt <;> simp [looksForDoc, Item.kind] at hl ⊢
    cases it <;> simp [Item.kind] at hk
    simp only [eolAfter, sepBlank, Item.isRecipe, Item.kind, Bool.false_or]
    simpa [bne_iff_ne] using fun h => hn h.symm
  · right
    intro c r
    exact forget_not_comment it hk c r acc

/-- **Round trip of the item loop**, from any state of the loop that satisfies `Guard`. -/
theorem parseItems_rt (litLe : String → String → Bool) (F : Nat) (items : List Item) (hw : ∀ it ∈ items, WFItem litLe it)
    (hf : ∀ it ∈ items, ItemFuel (F + 2) it) :
    ∀ (acc : List Item) (eol : Bool) (f : Nat), Guard acc eol items → costs items + 1 ≤ f →
      parseItems litLe (F + 2) f acc eol (printItems items ++ [tEof]) = some (acc.reverse ++ items.map Item.forget) := by
  induction items with
  | nil =>
    intro acc eol f _ hfu
    obtain ⟨f', rfl⟩ : ∃ f', f = f' + 1 := ⟨f - 1, by omega⟩
    simp only [printItems, List.nil_append, parseItems, step_eof litLe (F + 1) acc eol, List.map_nil, List.append_nil]
  | cons it items ih =>
    intro acc eol f hg hfu
    have hwi := hw it (by simp)
    have hfi := hf it (by simp)
    have ih' := ih (fun x hx => hw x (by simp [hx])) (fun x hx => hf x (by simp [hx]))
    cases items with
    | nil =>
      simp only [costs] at hfu
      obtain ⟨f', rfl⟩ : ∃ f', f = f' + cost it false := ⟨f - cost it false, by omega⟩
      have hr := run_item litLe F it false hwi hfi acc eol hg [tEof] (by intro t h; simp [tEof] at h) f'
      simp only [printItems]
      rw [hr]
      have := ih' (it.forget :: acc) (eolAfter it false eol) f' trivial (by simp [costs]; omega)
      simpa [printItems] using this
    | cons nxt rest =>
      simp only [costs] at hfu
      obtain ⟨f', rfl⟩ : ∃ f', f = f' + cost it (sepBlank it nxt) := ⟨f - cost it (sepBlank it nxt), by omega⟩
      have hr := run_item litLe F it (sepBlank it nxt) hwi hfi acc eol hg (printItems (nxt :: rest) ++ [tEof])
        (printItems_head "Indent" foreign_indent (nxt :: rest)) f'
      simp only [printItems, List.append_assoc]
      rw [hr]
      have := ih' (it.forget :: acc) (eolAfter it (sepBlank it nxt) eol) f' (guard_next it nxt acc eol rest) (by omega)
      simpa using this

/-- total number of loop turns is linear in the number of items -/
theorem costs_le (items : List Item) : costs items ≤ 3 * items.length := by
  induction items with
  | nil => simp [costs]
  | cons it items ih =>
    have hc : ∀ b, cost it b ≤ 3 := by
      intro b
      have hb : ∀ x : Bool, x.toNat ≤ 1 := by intro x; cases x <;> simp
      cases it with
      | recipe doc attrs r =>
        simp only [cost]
        have h1 := hb (printsDoc (Item.recipe doc attrs r))
        have h2 := hb (r.body.isEmpty && b)
        omega
      | _ => simp only [cost]; have := hb b; omega
    cases items with
    | nil => simp [costs]; exact hc false
    | cons nxt rest =>
      simp only [costs, List.length_cons] at ih ⊢
      have := hc (sepBlank it nxt)
      omega


/-- `parse_ast` on a printed file -/
theorem parseAst_rt (litLe : String → String → Bool) (F : Nat) (items : List Item) (hw : ∀ it ∈ items, WFItem litLe it)
    (hf : ∀ it ∈ items, ItemFuel (F + 2) it) (hlen : 3 * items.length ≤ F) :
    parseAst litLe (F + 2) (printAst items) = some (items.map Item.forget) := by
  have hc := costs_le items
  have h := parseItems_rt litLe F items hw hf [] false (F + 2)
    (by
      cases items with
      | nil => trivial
      | cons it _ => intro _ _; right; intro c r h; cases h)
    (by omega)
  have hb : ∀ r, printAst items ≠ Tk.other "ByteOrderMark" :: r := printItems_head "ByteOrderMark" foreign_bom items
  unfold parseAst
  split
  · rename_i r heq; exact absurd heq (hb r)
  · simpa [printAst] using h

/-- printing does not look at what `forget` removes: the formatted text is a fixed point -/
theorem printOne_forget (it : Item) (b : Bool) : printOne it.forget b = printOne it b := by
  cases it <;> simp [Item.forget, printOne]

theorem sepBlank_forget (it nxt : Item) : sepBlank it.forget nxt.forget = sepBlank it nxt := by
  cases it <;> cases nxt <;> simp [Item.forget, sepBlank, Item.isRecipe, Item.kind]

theorem printItems_forget (items : List Item) : printItems (items.map Item.forget) = printItems items := by
  induction items with
  | nil => rfl
  | cons it items ih =>
    cases items with
    | nil => simp [printItems, printOne_forget]
    | cons nxt rest =>
      simp only [List.map_cons, printItems] at ih ⊢
      rw [printOne_forget, sepBlank_forget, ih]

end Just.Ast
