import Just.Lemmas.LexerSafe
/-
No `internal_error` site of the lexer is reachable (continuation of LexerSafe: the assertion
failures are handled there).
-/
namespace Just.Lexer

variable {src : List Char}

def ErrKind.isInternal : ErrKind → Bool
  | .internal _ => true
  | _ => false

/-- failing runs are ordinary errors, unconditionally -/
structure NI0 {α : Type} (m : M α) : Prop where
  run : ∀ s e, m s = .error e → e.kind.isInternal = false

theorem NI0.pure {α : Type} (a : α) : NI0 (Pure.pure a : M α) := ⟨fun s e h => by cases h⟩

theorem NI0.bind {α β : Type} {x : M α} {f : α → M β} (hx : NI0 x) (hf : ∀ a, NI0 (f a)) : NI0 (x >>= f) := by
  constructor
  intro s e h
  rcases bind_err h with h1 | ⟨a, s', _, h2⟩
  · exact hx.run _ _ h1
  · exact (hf a).run _ _ h2

theorem NI0.getBind {β : Type} {f : St → M β} (hf : ∀ s0, NI0 (f s0)) : NI0 (get >>= f) :=
  ⟨fun s e h => (hf s).run s e h⟩

theorem NI0.ite {α : Type} {c : Prop} [Decidable c] {x y : M α} (hx : NI0 x) (hy : NI0 y) : NI0 (if c then x else y) := by
  split <;> assumption

theorem NI0.failWith {α : Type} {e : St → Err} (h : ∀ s, (e s).kind.isInternal = false) : NI0 (Lexer.failWith e : M α) :=
  ⟨fun s e' h' => by simp only [Lexer.failWith, Except.error.injEq] at h'; rw [← h']; exact h s⟩

theorem NI0.throw {α : Type} {e : Err} (h : e.kind.isInternal = false) : NI0 (MonadExcept.throw e : M α) :=
  ⟨fun s e' h' => by cases h'; exact h⟩

theorem NI0.token (k : Kind) : NI0 (Lexer.token k) := ⟨fun s e h => by simp [Lexer.token] at h⟩

/-- errors about anything but strings never fall back to the internal error of `Lexer::error` -/
def plainKind : ErrKind → Bool
  | .internal _ => false
  | .unterminatedString => false
  | .unterminatedBacktick => false
  | _ => true

theorem mkError_plain (k : ErrKind) (hk : plainKind k = true) (s : St) : (mkError k s).kind.isInternal = false := by
  unfold mkError errorLexeme
  cases k <;> simp_all [plainKind, ErrKind.isInternal]

/-- the fields a lexing step may leave alone -/
structure Same (s s' : St) : Prop where
  interp : s'.interp = s.interp
  tokens : s'.tokens = s.tokens
  indentation : s'.indentation = s.indentation
  delims : s'.delims = s.delims

theorem advance_ok {s s' : St} (h : Lexer.advance s = .ok ((), s')) :
    ∃ c, s.rest = c :: s'.rest ∧ s'.cur = c :: s.cur ∧ Same s s' := by
  unfold Lexer.advance at h
  split at h
  · rename_i c cs hr
    cases h
    exact ⟨c, hr, rfl, ⟨rfl, rfl, rfl, rfl⟩⟩
  · cases h

theorem advance_err {s : St} {e : Err} (h : Lexer.advance s = .error e) : s.rest = [] := by
  unfold Lexer.advance at h
  split at h
  · cases h
  · assumption

theorem token_ok {k : Kind} {s s' : St} (h : Lexer.token k s = .ok ((), s')) :
    s'.rest = s.rest ∧ s'.cur = [] ∧ s'.interp = s.interp ∧ s'.indentation = s.indentation ∧ s'.delims = s.delims
      ∧ ∃ t, s'.tokens = t :: s.tokens := by
  simp only [Lexer.token] at h
  cases h
  exact ⟨rfl, rfl, rfl, rfl, rfl, _, rfl⟩

theorem nextIs_cons {s : St} {c : Char} (h : nextIs s c = true) : ∃ cs, s.rest = c :: cs := by
  unfold nextIs at h
  cases hr : s.rest with
  | nil => simp [hr] at h
  | cons d ds => simp [hr] at h; exact ⟨ds, by rw [h]⟩

theorem presume_err {c : Char} {s : St} {e : Err} (hn : nextIs s c = true) (h : Lexer.presume c s = .error e) : False := by
  unfold Lexer.presume at h
  have h' : (if nextIs s c = true then Lexer.advance else Lexer.failWith (internalError "Lexer presumed character") : M Unit) s = .error e := h
  simp only [hn, if_true] at h'
  obtain ⟨cs, hcs⟩ := nextIs_cons hn
  have := advance_err h'
  rw [hcs] at this
  cases this

theorem presume_ok {c : Char} {s s' : St} (h : Lexer.presume c s = .ok ((), s')) :
    s.rest = c :: s'.rest ∧ s'.cur = c :: s.cur ∧ Same s s' := by
  unfold Lexer.presume at h
  have h' : (if nextIs s c = true then Lexer.advance else Lexer.failWith (internalError "Lexer presumed character") : M Unit) s = .ok ((), s') := h
  split at h'
  · rename_i hn
    obtain ⟨d, h1, h2, h3⟩ := advance_ok h'
    obtain ⟨cs, hcs⟩ := nextIs_cons hn
    rw [hcs] at h1
    simp only [List.cons.injEq] at h1
    exact ⟨by rw [hcs, h1.2, h1.1], by rw [h2, h1.1], h3⟩
  · simp [Lexer.failWith] at h'

theorem NI0.accepted (c : Char) : NI0 (Lexer.accepted c) := by
  constructor
  intro s e h
  unfold Lexer.accepted at h
  have h' : (if nextIs s c = true then (do Lexer.advance; Pure.pure true) else Pure.pure false : M Bool) s = .error e := h
  split at h'
  · rename_i hn
    obtain ⟨cs, hcs⟩ := nextIs_cons hn
    rcases bind_err h' with h1 | ⟨_, _, _, h2⟩
    · have := advance_err h1; rw [hcs] at this; cases this
    · cases h2
  · cases h'

theorem accepted_ok {c : Char} {s : St} {b : Bool} {s' : St} (h : Lexer.accepted c s = .ok (b, s')) :
    (b = true ∧ s.rest = c :: s'.rest ∧ s'.cur = c :: s.cur ∧ Same s s') ∨ (b = false ∧ s' = s ∧ nextIs s c = false) := by
  unfold Lexer.accepted at h
  have h' : (if nextIs s c = true then (do Lexer.advance; Pure.pure true) else Pure.pure false : M Bool) s = .ok (b, s') := h
  split at h'
  · rename_i hn
    left
    obtain ⟨_, s1, h1, h2⟩ := bind_ok h'
    cases h2
    obtain ⟨d, h3, h4, h5⟩ := advance_ok h1
    obtain ⟨cs, hcs⟩ := nextIs_cons hn
    rw [hcs] at h3
    simp only [List.cons.injEq] at h3
    exact ⟨rfl, by rw [hcs, h3.2, h3.1], by rw [h4, h3.1], h5⟩
  · right
    cases h'
    exact ⟨rfl, rfl, by simpa using ‹¬nextIs s c = true›⟩

theorem advanceWhileAux_ni (p : Char → Bool) (cs : List Char) (s : St) (e : Err) (hr : s.rest = cs)
    (h : Lexer.advanceWhileAux p cs s = .error e) : False := by
  induction cs generalizing s with
  | nil => unfold Lexer.advanceWhileAux at h; cases h
  | cons c cs ih =>
    unfold Lexer.advanceWhileAux at h
    by_cases hp : p c = true
    · simp only [hp, if_true] at h
      rcases bind_err h with h1 | ⟨_, s1, h1, h2⟩
      · have := advance_err h1; rw [hr] at this; cases this
      · obtain ⟨d, h3, _, _⟩ := advance_ok h1
        rw [hr] at h3
        simp only [List.cons.injEq] at h3
        exact ih s1 h3.2.symm h2
    · simp only [hp, if_false, Bool.false_eq_true] at h
      cases h

theorem NI0.advanceWhile (p : Char → Bool) : NI0 (Lexer.advanceWhile p) :=
  ⟨fun s e h => (advanceWhileAux_ni p s.rest s e rfl h).elim⟩

theorem advanceToEolAux_ni (cs : List Char) (s : St) (e : Err) (hr : s.rest = cs)
    (h : Lexer.advanceToEolAux cs s = .error e) : False := by
  induction cs generalizing s with
  | nil => unfold Lexer.advanceToEolAux at h; cases h
  | cons c cs ih =>
    unfold Lexer.advanceToEolAux at h
    split at h
    · cases h
    · rcases bind_err h with h1 | ⟨_, s1, h1, h2⟩
      · have := advance_err h1; rw [hr] at this; cases this
      · obtain ⟨d, h3, _, _⟩ := advance_ok h1
        rw [hr] at h3
        simp only [List.cons.injEq] at h3
        exact ih s1 h3.2.symm h2

/-- `set_frame` with an unchanged interpolation stack cannot fail -/
theorem NI0.setFrameKeep (f : St → Frame) (hf : ∀ s, (f s).interp = s.interp) : NI0 (Lexer.setFrame f) := by
  constructor
  intro s e h
  unfold Lexer.setFrame at h
  split at h
  · cases h
  · rename_i hno
    exfalso
    apply hno
    simp only [okInterp, hf, List.all_eq_true, Bool.or_eq_true, List.contains_iff_mem, decide_eq_true_eq]
    intro t ht
    exact Or.inl ht

theorem setFrame_ok {f : St → Frame} {s s' : St} (h : Lexer.setFrame f s = .ok ((), s')) :
    s'.rest = s.rest ∧ s'.cur = s.cur ∧ s'.tokens = s.tokens ∧ s'.interp = (f s).interp := by
  unfold Lexer.setFrame at h
  split at h
  · cases h; simp [St.setFrame]
  · cases h

macro "ni_step" : tactic => `(tactic| first
  | with_reducible exact NI0.pure _
  | with_reducible exact NI0.token _
  | with_reducible exact NI0.accepted _
  | with_reducible exact NI0.advanceWhile _
  | exact NI0.setFrameKeep _ (fun _ => rfl)
  | with_reducible exact NI0.failWith (fun s => mkError_plain _ rfl s)
  | with_reducible exact NI0.throw rfl
  | with_reducible apply_assumption
  | (with_reducible apply NI0.getBind; intro _)
  | with_reducible apply NI0.bind
  | with_reducible apply NI0.ite
  | intro _
  | split)
macro "ni" : tactic => `(tactic| repeat ni_step)

theorem NI0.lexWhitespace : NI0 Lexer.lexWhitespace := by unfold Lexer.lexWhitespace; ni
theorem NI0.openDelimiter (d : Delim) : NI0 (Lexer.openDelimiter d) := by unfold Lexer.openDelimiter; ni
theorem NI0.closeDelimiter (d : Delim) : NI0 (Lexer.closeDelimiter d) := by unfold Lexer.closeDelimiter; ni
theorem NI0.flushText : NI0 Lexer.flushText := by unfold Lexer.flushText; ni

theorem NI0.tryChoices (cs : List (Char × Kind)) : NI0 (Lexer.tryChoices cs) := by
  induction cs with
  | nil => unfold Lexer.tryChoices; ni
  | cons c cs ih => unfold Lexer.tryChoices; ni


/-! ### lexing functions called on a known next character -/

/-- failing runs from states satisfying `P` are ordinary errors -/
structure NIH {α : Type} (P : St → Prop) (m : M α) : Prop where
  run : ∀ s e, P s → m s = .error e → e.kind.isInternal = false

theorem NIH.of_NI0 {α : Type} {P : St → Prop} {m : M α} (h : NI0 m) : NIH P m := ⟨fun s e _ he => h.run s e he⟩

/-- `presume c; tail` with an unconditionally safe tail -/
theorem NIH.presumeThen {β : Type} (c : Char) {f : Unit → M β} (hf : ∀ a, NI0 (f a)) :
    NIH (fun s => nextIs s c = true) (Lexer.presume c >>= f) := by
  constructor
  intro s e hn h
  rcases bind_err h with h1 | ⟨a, s', _, h2⟩
  · exact (presume_err hn h1).elim
  · exact (hf a).run _ _ h2

/-- `advance; tail` with an unconditionally safe tail -/
theorem NIH.advanceThen {β : Type} {f : Unit → M β} (hf : ∀ a, NI0 (f a)) :
    NIH (fun s => s.rest ≠ []) (Lexer.advance >>= f) := by
  constructor
  intro s e hn h
  rcases bind_err h with h1 | ⟨a, s', _, h2⟩
  · exact absurd (advance_err h1) hn
  · exact (hf a).run _ _ h2

theorem NIH.lexSingle (k : Kind) : NIH (fun s => s.rest ≠ []) (Lexer.lexSingle k) := by
  unfold Lexer.lexSingle
  exact NIH.advanceThen (fun _ => NI0.token k)

theorem NIH.lexDouble (k : Kind) : NIH (fun s => 2 ≤ s.rest.length) (Lexer.lexDouble k) := by
  constructor
  intro s e hn h
  unfold Lexer.lexDouble at h
  rcases bind_err h with h1 | ⟨_, s1, h1, h2⟩
  · have := advance_err h1; rw [this] at hn; simp at hn
  · obtain ⟨c, hc, _, _⟩ := advance_ok h1
    have hne : s1.rest ≠ [] := by
      intro h0; rw [hc, h0] at hn; simp at hn
    exact (NIH.advanceThen (fun _ => NI0.token k)).run s1 e hne h2

/-- reading the state: the continuation runs in exactly the state it was given -/
theorem NI0.getSame {β : Type} {f : St → M β} (h : ∀ s e, f s s = .error e → e.kind.isInternal = false) : NI0 (get >>= f) :=
  ⟨fun s e he => h s e he⟩

theorem NIH.lexComment : NIH (fun s => nextIs s '#' = true) Lexer.lexComment := by
  unfold Lexer.lexComment
  apply NIH.presumeThen
  intro _
  apply NI0.getSame
  intro s e h
  rcases bind_err h with h1 | ⟨_, s1, _, h2⟩
  · exact (advanceToEolAux_ni _ _ _ rfl h1).elim
  · simp [Lexer.token] at h2

theorem NIH.lexIdentifier : NIH (fun s => s.rest ≠ []) Lexer.lexIdentifier := by
  unfold Lexer.lexIdentifier
  apply NIH.advanceThen
  intro _; ni

theorem NI0.unexpectedSecond : NI0 Lexer.unexpectedSecond := by
  unfold Lexer.unexpectedSecond
  apply NI0.bind (NI0.token _)
  intro _
  apply NI0.getSame
  intro s e h
  have h' : (if atEof s = true then Lexer.failWith (mkError .unexpectedEndOfToken)
      else (do Lexer.advance; Lexer.failWith (mkError .unexpectedCharacter)) : M Unit) s = .error e := h
  split at h'
  · exact (NI0.failWith (fun s => mkError_plain _ rfl s)).run _ _ h'
  · rename_i hne
    have : s.rest ≠ [] := by
      intro h0; apply hne; simp [atEof, h0]
    exact (NIH.advanceThen (fun _ => NI0.failWith (fun s => mkError_plain _ rfl s))).run s e this h'

theorem NIH.lexChoices (f : Char) (cs : List (Char × Kind)) (o : Option Kind) :
    NIH (fun s => nextIs s f = true) (Lexer.lexChoices f cs o) := by
  have := @NI0.tryChoices
  have := @NI0.unexpectedSecond
  unfold Lexer.lexChoices
  apply NIH.presumeThen
  intro _; ni

theorem NIH.lexDigraph (l r : Char) (k : Kind) : NIH (fun s => nextIs s l = true) (Lexer.lexDigraph l r k) := by
  have := @NI0.unexpectedSecond
  unfold Lexer.lexDigraph
  apply NIH.presumeThen
  intro _; ni

theorem NIH.lexColon : NIH (fun s => nextIs s ':' = true) Lexer.lexColon := by
  unfold Lexer.lexColon
  apply NIH.presumeThen
  intro _; ni

theorem NIH.lexEscape : NIH (fun s => nextIs s '\\' = true) Lexer.lexEscape := by
  unfold Lexer.lexEscape
  apply NIH.presumeThen
  intro _; ni

theorem NIH.lexEolHead : NIH (fun s => nextIs s '\n' = true ∨ nextIs s '\r' = true) Lexer.lexEolHead := by
  constructor
  intro s e hp h
  unfold Lexer.lexEolHead at h
  rcases bind_err h with h1 | ⟨b, s1, h1, h2⟩
  · exact (NI0.accepted _).run _ _ h1
  · rcases accepted_ok h1 with ⟨rfl, _⟩ | ⟨rfl, rfl, hnr⟩
    · simp only [if_true] at h2
      have : NI0 (do
          let b2 ← Lexer.accepted '\n'
          if (!b2) = true then Lexer.failWith (mkError .unpairedCarriageReturn) else Pure.pure () : M Unit) := by ni
      exact this.run _ _ h2
    · simp only [Bool.false_eq_true, if_false] at h2
      have hn : nextIs s1 '\n' = true := by
        rcases hp with hp | hp
        · exact hp
        · rw [hnr] at hp; cases hp
      exact (presume_err hn h2).elim


theorem NIH.bindTail {α β : Type} {P : St → Prop} {x : M α} {f : α → M β} (hx : NIH P x) (hf : ∀ a, NI0 (f a)) :
    NIH P (x >>= f) := by
  constructor
  intro s e hp h
  rcases bind_err h with h1 | ⟨a, s', _, h2⟩
  · exact hx.run _ _ hp h1
  · exact (hf a).run _ _ h2

theorem NIH.lexEol : NIH (fun s => nextIs s '\n' = true ∨ nextIs s '\r' = true) Lexer.lexEol := by
  unfold Lexer.lexEol
  apply NIH.bindTail NIH.lexEolHead
  intro _; ni

/-! #### delimiters -/

theorem closeDelimiter_rest {d : Delim} {s s' : St} (h : Lexer.closeDelimiter d s = .ok ((), s')) : s'.rest = s.rest := by
  unfold Lexer.closeDelimiter at h
  have h' : (match s.delims with
      | (open_, _) :: rest => do
        Lexer.setFrame (fun s => { s.frame with delims := rest })
        if open_ = d then Pure.pure () else Lexer.failWith (mkError .mismatchedClosingDelimiter)
      | [] => Lexer.failWith (mkError .unexpectedClosingDelimiter) : M Unit) s = .ok ((), s') := h
  cases hd : s.delims with
  | nil => simp [hd, Lexer.failWith] at h'
  | cons x xs =>
    obtain ⟨o, n⟩ := x
    simp only [hd] at h'
    obtain ⟨_, s1, h1, h2⟩ := bind_ok h'
    have := (setFrame_ok h1).1
    split at h2
    · cases h2; exact this
    · simp [Lexer.failWith] at h2

def isDelimiterKind : Kind → Bool
  | .braceL | .braceR | .bracketL | .bracketR | .parenL | .parenR => true
  | _ => false

theorem delimiterAction_ni (k : Kind) (hk : isDelimiterKind k = true) : NI0 (Lexer.delimiterAction k) := by
  cases k <;> simp [isDelimiterKind] at hk <;> unfold Lexer.delimiterAction <;>
    first | exact NI0.openDelimiter _ | exact NI0.closeDelimiter _

theorem delimiterAction_rest (k : Kind) {s s' : St} (h : Lexer.delimiterAction k s = .ok ((), s')) : s'.rest = s.rest := by
  unfold Lexer.delimiterAction at h
  split at h
  all_goals first
    | exact (setFrame_ok (by unfold Lexer.openDelimiter at h; exact h)).1
    | exact closeDelimiter_rest h
    | simp [Lexer.failWith] at h

theorem NIH.lexDelimiter (k : Kind) (hk : isDelimiterKind k = true) : NIH (fun s => s.rest ≠ []) (Lexer.lexDelimiter k) := by
  constructor
  intro s e hp h
  unfold Lexer.lexDelimiter at h
  rcases bind_err h with h1 | ⟨_, s1, h1, h2⟩
  · exact (delimiterAction_ni k hk).run _ _ h1
  · have := delimiterAction_rest k h1
    exact (NIH.lexSingle k).run s1 e (by rw [this]; exact hp) h2

/-! #### strings -/

theorem isDelimiterStart_isSome (l : List Char) :
    (isDelimiterStart l).isSome = true ↔ (l.head? = some '`' ∨ l.head? = some '"' ∨ l.head? = some '\'') := by
  cases l with
  | nil => simp [isDelimiterStart]
  | cons c cs =>
    simp only [List.head?_cons, Option.some.injEq]
    constructor
    · intro h
      unfold isDelimiterStart at h
      by_cases h1 : c = '`'
      · exact Or.inl h1
      · by_cases h2 : c = '"'
        · exact Or.inr (Or.inl h2)
        · by_cases h3 : c = '\''
          · exact Or.inr (Or.inr h3)
          · have h1' : ¬ '`' = c := fun hh => h1 hh.symm
            have h2' : ¬ '"' = c := fun hh => h2 hh.symm
            have h3' : ¬ '\'' = c := fun hh => h3 hh.symm
            simp [List.isPrefixOf, h1', h2', h3'] at h
    · intro h
      unfold isDelimiterStart
      rcases h with rfl | rfl | rfl
      · simp only [List.isPrefixOf, beq_self_eq_true, Bool.true_and]
        repeat' split
        all_goals first | rfl | (exfalso; simp_all)
      · simp only [List.isPrefixOf, beq_self_eq_true, Bool.true_and, Bool.and_true]
        have : ('`' == '"') = false := by decide
        simp only [this, Bool.false_and, Bool.false_eq_true, if_false]
        repeat' split
        all_goals first | rfl | (exfalso; simp_all)
      · simp only [List.isPrefixOf, beq_self_eq_true, Bool.true_and, Bool.and_true]
        have h1 : ('`' == '\'') = false := by decide
        have h2 : ('"' == '\'') = false := by decide
        simp only [h1, h2, Bool.false_and, Bool.false_eq_true, if_false]
        repeat' split
        all_goals first | rfl | (exfalso; simp_all)

theorem isDelimiterStart_append (l x : List Char) (h : (isDelimiterStart l).isSome = true) :
    (isDelimiterStart (l ++ x)).isSome = true := by
  rw [isDelimiterStart_isSome] at h ⊢
  cases l with
  | nil => simp at h
  | cons c cs => simpa using h

/-- errors about an unterminated string are ordinary as long as the lexeme starts with its delimiter -/
theorem mkError_string (k : ErrKind) (hk : k = .unterminatedString ∨ k = .unterminatedBacktick) (s : St)
    (hc : (isDelimiterStart s.cur.reverse).isSome = true) : (mkError k s).kind.isInternal = false := by
  unfold mkError errorLexeme
  cases hd : isDelimiterStart s.cur.reverse with
  | none => rw [hd] at hc; cases hc
  | some v =>
    obtain ⟨d, k', b⟩ := v
    rcases hk with rfl | rfl <;> simp [hd, ErrKind.isInternal]

theorem stringLoop_ni (d : List Char) (esc : Bool) (k : ErrKind) (hk : k = .unterminatedString ∨ k = .unterminatedBacktick)
    (cs : List Char) (b : Bool) (s : St) (e : Err) (hr : s.rest = cs) (hc : (isDelimiterStart s.cur.reverse).isSome = true)
    (h : Lexer.stringLoop d esc k cs b s = .error e) : e.kind.isInternal = false := by
  induction cs generalizing s b with
  | nil =>
    unfold Lexer.stringLoop at h
    simp only [Lexer.failWith, Except.error.injEq] at h
    rw [← h]
    exact mkError_string k hk s hc
  | cons c cs ih =>
    unfold Lexer.stringLoop at h
    have step : ∀ b', (do Lexer.advance; Lexer.stringLoop d esc k cs b' : M Unit) s = .error e → e.kind.isInternal = false := by
      intro b' hh
      rcases bind_err hh with h1 | ⟨_, s1, h1, h2⟩
      · have := advance_err h1; rw [hr] at this; cases this
      · obtain ⟨c', h3, h4, _⟩ := advance_ok h1
        rw [hr] at h3
        simp only [List.cons.injEq] at h3
        apply ih b' s1 h3.2.symm _ h2
        rw [h4, List.reverse_cons]
        exact isDelimiterStart_append _ _ hc
    split at h
    · exact step _ h
    · split at h
      · cases h
      · exact step _ h

theorem stringLoop_ok (d : List Char) (esc : Bool) (k : ErrKind) (cs : List Char) (b : Bool) (s s' : St)
    (hr : s.rest = cs) (h : Lexer.stringLoop d esc k cs b s = .ok ((), s')) : d.isPrefixOf s'.rest = true := by
  induction cs generalizing s b with
  | nil => unfold Lexer.stringLoop at h; simp [Lexer.failWith] at h
  | cons c cs ih =>
    unfold Lexer.stringLoop at h
    have step : ∀ b', (do Lexer.advance; Lexer.stringLoop d esc k cs b' : M Unit) s = .ok ((), s') → d.isPrefixOf s'.rest = true := by
      intro b' hh
      obtain ⟨_, s1, h1, h2⟩ := bind_ok hh
      obtain ⟨c', h3, _, _⟩ := advance_ok h1
      rw [hr] at h3
      simp only [List.cons.injEq] at h3
      exact ih b' s1 h3.2.symm h2
    split at h
    · exact step _ h
    · split at h
      · rename_i hp
        cases h
        rw [hr]
        simp only [Bool.and_eq_true] at hp
        exact hp.1
      · exact step _ h

theorem presumeStr_spec (cs : List Char) (s : St) (hp : cs.isPrefixOf s.rest = true) :
    ∃ s', Lexer.presumeStr cs s = .ok ((), s') ∧ s.rest = cs ++ s'.rest ∧ s'.cur = cs.reverse ++ s.cur := by
  induction cs generalizing s with
  | nil => exact ⟨s, rfl, rfl, rfl⟩
  | cons c cs ih =>
    cases hr : s.rest with
    | nil => simp [hr] at hp
    | cons d ds =>
      rw [hr] at hp
      simp only [List.isPrefixOf, Bool.and_eq_true, beq_iff_eq] at hp
      obtain ⟨rfl, hp2⟩ := hp
      have hn : nextIs s c = true := by simp [nextIs, hr]
      cases hpres : Lexer.presume c s with
      | error e => exact (presume_err hn hpres).elim
      | ok p =>
        obtain ⟨u, s1⟩ := p
        obtain ⟨h1, h2, _⟩ := presume_ok hpres
        rw [hr] at h1
        simp only [List.cons.injEq, true_and] at h1
        obtain ⟨s', h3, h4, h5⟩ := ih s1 (by rw [← h1]; exact hp2)
        refine ⟨s', ?_, ?_, ?_⟩
        · unfold Lexer.presumeStr
          show (Lexer.presume c >>= fun _ => Lexer.presumeStr cs) s = _
          simp only [Bind.bind, StateT.bind, hpres]
          exact h3
        · rw [h1, h4]; rfl
        · rw [h5, h2]; simp

theorem isDelimiterStart_delim {l d : List Char} {k : Kind} {b : Bool} (h : isDelimiterStart l = some (d, k, b)) :
    (isDelimiterStart d).isSome = true := by
  rw [isDelimiterStart_isSome]
  unfold isDelimiterStart at h
  repeat' split at h
  all_goals first
    | (cases h; simp)
    | cases h

theorem NIH.lexString :
    NIH (fun s => s.cur = [] ∧ (isDelimiterStart s.rest).isSome = true) Lexer.lexString := by
  constructor
  intro s e ⟨hc, hd⟩ h
  unfold Lexer.lexString at h
  cases hds : isDelimiterStart s.rest with
  | none => rw [hds] at hd; cases hd
  | some v =>
    obtain ⟨delim, kind, escapes⟩ := v
    have h0 : (match isDelimiterStart s.rest with
        | none => (do
          Lexer.advance
          Lexer.failWith (internalError "Lexer::lex_string: invalid string start") : M Unit)
        | some (delim, kind, escapes) => do
          Lexer.presumeStr delim
          let s1 ← get
          Lexer.stringLoop delim escapes (if kind = Kind.backtick then ErrKind.unterminatedBacktick else ErrKind.unterminatedString) s1.rest false
          Lexer.presumeStr delim
          Lexer.token kind) s = .error e := h
    have h' : (do
        Lexer.presumeStr delim
        let s1 ← get
        Lexer.stringLoop delim escapes (if kind = Kind.backtick then ErrKind.unterminatedBacktick else ErrKind.unterminatedString) s1.rest false
        Lexer.presumeStr delim
        Lexer.token kind : M Unit) s = .error e := by
      rw [hds] at h0
      exact h0
    obtain ⟨m, hm⟩ := isDelimiterStart_prefix hds
    have hpre : delim.isPrefixOf s.rest = true := by rw [hm]; simp
    obtain ⟨s1, hp1, _, hcur1⟩ := presumeStr_spec delim s hpre
    rcases bind_err h' with h1 | ⟨_, s1', h1, h2⟩
    · rw [hp1] at h1; cases h1
    · rw [hp1] at h1
      cases h1
      have hk : (if kind = Kind.backtick then ErrKind.unterminatedBacktick else ErrKind.unterminatedString) = .unterminatedString
          ∨ (if kind = Kind.backtick then ErrKind.unterminatedBacktick else ErrKind.unterminatedString) = .unterminatedBacktick := by
        split
        · exact Or.inr rfl
        · exact Or.inl rfl
      have hcs : (isDelimiterStart s1.cur.reverse).isSome = true := by
        rw [hcur1, hc]; simp
        exact isDelimiterStart_delim hds
      have h2' : (Lexer.stringLoop delim escapes (if kind = Kind.backtick then ErrKind.unterminatedBacktick else ErrKind.unterminatedString) s1.rest false
          >>= fun _ => (Lexer.presumeStr delim >>= fun _ => Lexer.token kind) : M Unit) s1 = .error e := h2
      rcases bind_err h2' with h3 | ⟨_, s2, h3, h4⟩
      · exact stringLoop_ni _ _ _ hk _ _ _ _ rfl hcs h3
      · have hp2 := stringLoop_ok _ _ _ _ _ _ _ rfl h3
        obtain ⟨s3, hp3, _, _⟩ := presumeStr_spec delim s2 hp2
        rcases bind_err h4 with h5 | ⟨_, s3', _, h6⟩
        · rw [hp3] at h5; cases h5
        · simp [Lexer.token] at h6


/-! #### `lex_normal` -/

theorem NIH.weaken {α : Type} {P P' : St → Prop} {m : M α} (h : NIH P m) (hp : ∀ s, P' s → P s) : NIH P' m :=
  ⟨fun s e hs he => h.run s e (hp s hs) he⟩

theorem NIH.iteC {α : Type} {P : St → Prop} {c : Prop} [Decidable c] {x y : M α} (hx : c → NIH P x) (hy : ¬c → NIH P y) :
    NIH P (if c then x else y) := by
  split
  · exact hx ‹_›
  · exact hy ‹_›

theorem head_nextIs {s : St} {c : Char} (h : s.rest.head? = some c) : nextIs s c = true := by
  simp [nextIs, h]

theorem head_ne_nil {s : St} {c : Char} (h : s.rest.head? = some c) : s.rest ≠ [] := by
  intro h0; rw [h0] at h; cases h

/-- the state is idle and the next character is `start` -/
def AtStart (start : Char) (s : St) : Prop := s.rest.head? = some start ∧ s.cur = []

theorem NIH.lexOther (s0 : St) (start : Char) : NIH (AtStart start) (Lexer.lexOther s0 start) := by
  unfold Lexer.lexOther
  refine NIH.iteC (fun hc => ?_) (fun _ => ?_)
  · subst hc
    exact NIH.iteC (fun _ => NIH.of_NI0 (NI0.failWith (fun s => mkError_plain _ rfl s)))
      (fun _ => (NIH.lexChoices _ _ _).weaken (fun s hp => head_nextIs hp.1))
  refine NIH.iteC (fun hc => ?_) (fun _ => ?_)
  · subst hc; exact NIH.lexComment.weaken (fun s hp => head_nextIs hp.1)
  refine NIH.iteC (fun hc => ?_) (fun _ => ?_)
  · subst hc; exact (NIH.lexSingle _).weaken (fun s hp => head_ne_nil hp.1)
  refine NIH.iteC (fun hc => ?_) (fun _ => ?_)
  · subst hc; exact (NIH.lexDigraph _ _ _).weaken (fun s hp => head_nextIs hp.1)
  refine NIH.iteC (fun hc => ?_) (fun _ => ?_)
  · subst hc; exact (NIH.lexDelimiter _ rfl).weaken (fun s hp => head_ne_nil hp.1)
  refine NIH.iteC (fun hc => ?_) (fun _ => ?_)
  · subst hc; exact (NIH.lexDelimiter _ rfl).weaken (fun s hp => head_ne_nil hp.1)
  refine NIH.iteC (fun hc => ?_) (fun _ => ?_)
  · subst hc; exact (NIH.lexSingle _).weaken (fun s hp => head_ne_nil hp.1)
  refine NIH.iteC (fun hc => ?_) (fun _ => ?_)
  · subst hc; exact (NIH.lexSingle _).weaken (fun s hp => head_ne_nil hp.1)
  refine NIH.iteC (fun hc => ?_) (fun _ => ?_)
  · subst hc; exact (NIH.lexSingle _).weaken (fun s hp => head_ne_nil hp.1)
  refine NIH.iteC (fun hc => ?_) (fun _ => ?_)
  · subst hc; exact (NIH.lexSingle _).weaken (fun s hp => head_ne_nil hp.1)
  refine NIH.iteC (fun hc => ?_) (fun _ => ?_)
  · subst hc; exact NIH.lexColon.weaken (fun s hp => head_nextIs hp.1)
  refine NIH.iteC (fun hc => ?_) (fun _ => ?_)
  · subst hc; exact (NIH.lexChoices _ _ _).weaken (fun s hp => head_nextIs hp.1)
  refine NIH.iteC (fun hc => ?_) (fun _ => ?_)
  · subst hc; exact (NIH.lexSingle _).weaken (fun s hp => head_ne_nil hp.1)
  refine NIH.iteC (fun hc => ?_) (fun _ => ?_)
  · subst hc; exact (NIH.lexSingle _).weaken (fun s hp => head_ne_nil hp.1)
  refine NIH.iteC (fun hc => ?_) (fun _ => ?_)
  · subst hc; exact (NIH.lexDelimiter _ rfl).weaken (fun s hp => head_ne_nil hp.1)
  refine NIH.iteC (fun hc => ?_) (fun _ => ?_)
  · subst hc; exact NIH.lexEscape.weaken (fun s hp => head_nextIs hp.1)
  refine NIH.iteC (fun hc => ?_) (fun _ => ?_)
  · refine NIH.lexEol.weaken (fun s hp => ?_)
    have hc' : start = '\n' ∨ start = '\r' := by simpa using hc
    rcases hc' with rfl | rfl
    · exact Or.inl (head_nextIs hp.1)
    · exact Or.inr (head_nextIs hp.1)
  refine NIH.iteC (fun hc => ?_) (fun _ => ?_)
  · subst hc; exact (NIH.lexSingle _).weaken (fun s hp => head_ne_nil hp.1)
  refine NIH.iteC (fun hc => ?_) (fun _ => ?_)
  · subst hc; exact (NIH.lexDelimiter _ rfl).weaken (fun s hp => head_ne_nil hp.1)
  refine NIH.iteC (fun hc => ?_) (fun _ => ?_)
  · refine NIH.lexString.weaken (fun s hp => ⟨hp.2, ?_⟩)
    rw [isDelimiterStart_isSome, hp.1]
    have hc' : start = '`' ∨ start = '"' ∨ start = '\'' := by simpa [or_assoc] using hc
    rcases hc' with rfl | rfl | rfl <;> simp
  refine NIH.iteC (fun hc => ?_) (fun _ => ?_)
  · subst hc; exact (NIH.lexDelimiter _ rfl).weaken (fun s hp => head_ne_nil hp.1)
  refine NIH.iteC (fun hc => ?_) (fun _ => ?_)
  · subst hc; exact (NIH.lexDigraph _ _ _).weaken (fun s hp => head_nextIs hp.1)
  refine NIH.iteC (fun hc => ?_) (fun _ => ?_)
  · subst hc; exact (NIH.lexDelimiter _ rfl).weaken (fun s hp => head_ne_nil hp.1)
  refine NIH.iteC (fun hc => ?_) (fun _ => ?_)
  · exact NIH.lexIdentifier.weaken (fun s hp => head_ne_nil hp.1)
  · exact (NIH.advanceThen (fun _ => NI0.failWith (fun s => mkError_plain _ rfl s))).weaken (fun s hp => head_ne_nil hp.1)

theorem NIH.getSame {β : Type} {P : St → Prop} {f : St → M β} (h : ∀ s, P s → NIH (fun s' => s' = s) (f s)) :
    NIH P (get >>= f) :=
  ⟨fun s e hp he => (h s hp).run s e rfl he⟩

theorem NIH.lexNormal (start : Char) : NIH (AtStart start) (Lexer.lexNormal start) := by
  unfold Lexer.lexNormal
  apply NIH.getSame
  intro s hp
  exact NIH.iteC (fun _ => NIH.of_NI0 NI0.lexWhitespace) (fun _ => (NIH.lexOther s start).weaken (fun s' hs' => hs' ▸ hp))


/-! #### interpolations and bodies -/

theorem prefix_length {p l : List Char} (h : p.isPrefixOf l = true) : p.length ≤ l.length := by
  obtain ⟨m, hm⟩ := prefix_split h
  rw [hm]; simp

theorem NIH.lexInterpolation (t : Tok) (start : Char) :
    NIH (fun s => AtStart start s ∧ s.interp ≠ []) (Lexer.lexInterpolation t start) := by
  unfold Lexer.lexInterpolation
  apply NIH.getSame
  intro s ⟨hp, hi⟩
  refine NIH.iteC (fun hc => ?_) (fun _ => ?_)
  · -- `}}`: pop the stack, lex two characters
    cases hint : s.interp with
    | nil => exact absurd hint hi
    | cons i below =>
      simp only
      constructor
      intro s' e hs' h
      subst hs'
      rcases bind_err h with h1 | ⟨_, s1, h1, h2⟩
      · -- the pop itself cannot fail: `below` is part of the stack
        unfold Lexer.setFrame at h1
        split at h1
        · cases h1
        · rename_i hno
          exfalso; apply hno
          simp only [okInterp, St.frame, List.all_eq_true, Bool.or_eq_true, List.contains_iff_mem, decide_eq_true_eq]
          intro x hx
          exact Or.inl (by rw [hint]; simp [hx])
      · have hr := (setFrame_ok h1).1
        have : 2 ≤ s1.rest.length := by
          rw [hr]
          exact prefix_length (p := ['}', '}']) (by simpa [restStartsWith] using hc)
        exact (NIH.lexDouble _).run s1 e this h2
  · refine NIH.iteC (fun _ => NIH.of_NI0 (NI0.throw rfl)) (fun _ => ?_)
    exact (NIH.lexNormal start).weaken (fun s' hs' => hs' ▸ hp)

/-- the body scan cannot fail, and what it stops at is still there -/
theorem bodyLoop_safe (cs : List Char) (k : Nat) (s : St) (hr : s.rest = cs) (hk : k ≤ cs.length) :
    ∃ t s', Lexer.bodyLoop cs k s = .ok (t, s') ∧
      (t = .newline → s'.rest ≠ []) ∧ (t = .newlineCarriageReturn → 2 ≤ s'.rest.length) ∧
      (t = .interpolation → 2 ≤ s'.rest.length) ∧ s'.tokens = s.tokens ∧ s'.interp = s.interp := by
  induction cs generalizing s k with
  | nil => exact ⟨.endOfFile, s, by unfold Lexer.bodyLoop; rfl, by simp, by simp, by simp, rfl, rfl⟩
  | cons c cs ih =>
    have step : ∀ k', k' ≤ cs.length → ∃ t s', (do Lexer.advance; Lexer.bodyLoop cs k' : M Terminator) s = .ok (t, s') ∧
        (t = .newline → s'.rest ≠ []) ∧ (t = .newlineCarriageReturn → 2 ≤ s'.rest.length) ∧
        (t = .interpolation → 2 ≤ s'.rest.length) ∧ s'.tokens = s.tokens ∧ s'.interp = s.interp := by
      intro k' hk'
      cases ha : Lexer.advance s with
      | error e => have := advance_err ha; rw [hr] at this; cases this
      | ok p =>
        obtain ⟨u, s1⟩ := p
        obtain ⟨c', h3, _, hsame⟩ := advance_ok ha
        rw [hr] at h3
        simp only [List.cons.injEq] at h3
        obtain ⟨t, s', h4, h5, h6, h7, h8, h9⟩ := ih k' s1 h3.2.symm hk'
        refine ⟨t, s', ?_, h5, h6, h7, by rw [h8, hsame.tokens], by rw [h9, hsame.interp]⟩
        show (Lexer.advance >>= fun _ => Lexer.bodyLoop cs k') s = _
        simp only [Bind.bind, StateT.bind, ha]
        exact h4
    unfold Lexer.bodyLoop
    by_cases h1 : k > 0
    · simp only [h1, if_true]
      exact step (k - 1) (by simp at hk; omega)
    · simp only [h1, if_false]
      by_cases h2 : ['{', '{', '{', '{'].isPrefixOf (c :: cs) = true
      · simp only [h2, if_true]
        exact step 3 (by have := prefix_length h2; simp at this; omega)
      · simp only [h2, if_false, Bool.false_eq_true]
        by_cases h3 : c = '\n'
        · simp only [h3, if_true]
          exact ⟨.newline, s, rfl, fun _ => by rw [hr]; simp, by simp, by simp, rfl, rfl⟩
        · simp only [h3, if_false]
          by_cases h4 : (c = '\r' && cs.head? = some '\n') = true
          · simp only [h4, if_true]
            refine ⟨.newlineCarriageReturn, s, rfl, by simp, fun _ => ?_, by simp, rfl, rfl⟩
            rw [hr]
            cases cs with
            | nil => simp at h4
            | cons d ds => simp
          · simp only [h4, if_false, Bool.false_eq_true]
            by_cases h5 : ['{', '{'].isPrefixOf (c :: cs) = true
            · simp only [h5, if_true]
              refine ⟨.interpolation, s, rfl, by simp, by simp, fun _ => ?_, rfl, rfl⟩
              rw [hr]
              exact prefix_length h5
            · simp only [h5, if_false, Bool.false_eq_true]
              exact step 0 (Nat.zero_le _)

theorem flushText_ok {s s' : St} (h : Lexer.flushText s = .ok ((), s')) :
    s'.rest = s.rest ∧ s'.interp = s.interp := by
  unfold Lexer.flushText at h
  have h' : (if s.tokEnd.offset - s.tokStart.offset > 0 then Lexer.token Kind.text else Pure.pure () : M Unit) s = .ok ((), s') := h
  split at h'
  · have := token_ok h'; exact ⟨this.1, this.2.2.1⟩
  · cases h'; exact ⟨rfl, rfl⟩

theorem lexDouble_ok {k : Kind} {s s' : St} (h : Lexer.lexDouble k s = .ok ((), s')) : s'.tokens ≠ [] := by
  unfold Lexer.lexDouble at h
  obtain ⟨_, s1, _, h2⟩ := bind_ok h
  obtain ⟨_, s2, _, h4⟩ := bind_ok h2
  obtain ⟨_, _, _, _, _, t, ht⟩ := token_ok h4
  rw [ht]; simp

theorem pushInterpolation_ni : NIH (fun s => s.tokens ≠ []) Lexer.pushInterpolation := by
  unfold Lexer.pushInterpolation
  apply NIH.getSame
  intro s hp
  cases ht : s.tokens with
  | nil => exact absurd ht hp
  | cons t ts =>
    simp only
    constructor
    intro s' e hs' h
    subst hs'
    unfold Lexer.setFrame at h
    split at h
    · cases h
    · rename_i hno
      exfalso; apply hno
      simp only [okInterp, St.frame, List.all_eq_true, Bool.or_eq_true, List.contains_iff_mem, decide_eq_true_eq]
      intro x hx
      simp only [List.mem_cons] at hx
      rcases hx with rfl | hx
      · exact Or.inr (by rw [ht]; rfl)
      · exact Or.inl hx

theorem NI0.lexBody : NI0 Lexer.lexBody := by
  unfold Lexer.lexBody
  apply NI0.getSame
  intro s e h
  obtain ⟨t, s1, hb, hnl, hcr, hin, _, _⟩ := bodyLoop_safe s.rest 0 s rfl (Nat.zero_le _)
  rcases bind_err h with h1 | ⟨t', s1', h1, h2⟩
  · rw [hb] at h1; cases h1
  · rw [hb] at h1
    cases h1
    rcases bind_err h2 with h3 | ⟨_, s2, h3, h4⟩
    · exact NI0.flushText.run _ _ h3
    · have hr := (flushText_ok h3).1
      unfold Lexer.bodyTerminator at h4
      cases t with
      | endOfFile => cases h4
      | newline => exact (NIH.lexSingle _).run s2 e (by rw [hr]; exact hnl rfl) h4
      | newlineCarriageReturn => exact (NIH.lexDouble _).run s2 e (by rw [hr]; exact hcr rfl) h4
      | interpolation =>
        rcases bind_err h4 with h5 | ⟨_, s3, h5, h6⟩
        · exact (NIH.lexDouble _).run s2 e (by rw [hr]; exact hin rfl) h5
        · exact pushInterpolation_ni.run s3 e (lexDouble_ok h5) h6

theorem NIH.dispatch (first : Char) : NIH (AtStart first) (Lexer.dispatch first) := by
  unfold Lexer.dispatch
  apply NIH.getSame
  intro s hp
  cases hi : s.interp with
  | cons i is =>
    simp only
    exact (NIH.lexInterpolation i first).weaken (fun s' hs' => by subst hs'; exact ⟨hp, by rw [hi]; simp⟩)
  | nil =>
    simp only
    exact NIH.iteC (fun _ => NIH.of_NI0 NI0.lexBody) (fun _ => (NIH.lexNormal first).weaken (fun s' hs' => hs' ▸ hp))


/-! #### line starts, the main loop, the end -/

theorem advanceN_safe (n : Nat) (s : St) (e : Err) (hn : n ≤ s.rest.length) (h : Lexer.advanceN n s = .error e) : False := by
  induction n generalizing s with
  | zero => unfold Lexer.advanceN at h; cases h
  | succ n ih =>
    unfold Lexer.advanceN at h
    rcases bind_err h with h1 | ⟨_, s1, h1, h2⟩
    · have := advance_err h1; rw [this] at hn; simp at hn
    · obtain ⟨c, hc, _, _⟩ := advance_ok h1
      exact ih s1 (by rw [hc] at hn; simp at hn; exact hn) h2

/-- failing runs from an idle invariant state are ordinary errors -/
structure NIS (src : List Char) {α : Type} (m : M α) : Prop where
  run : ∀ s e, Inv src s → s.cur = [] → m s = .error e → e.kind.isInternal = false

theorem NIS.of_NI0 {α : Type} {m : M α} (h : NI0 m) : NIS src m := ⟨fun s e _ _ he => h.run s e he⟩

theorem NIS.bind {α β : Type} {x : M α} {f : α → M β} (hx : NIS src x) (hk : KI src x) (hf : ∀ a, NIS src (f a)) :
    NIS src (x >>= f) := by
  constructor
  intro s e hs hc h
  rcases bind_err h with h1 | ⟨a, s', h1, h2⟩
  · exact hx.run _ _ hs hc h1
  · exact (hf a).run _ _ (hk.pres.inv hs h1) (hk.keep _ _ _ hs h1 hc) h2

theorem NIS.ite {α : Type} {c : Prop} [Decidable c] {x y : M α} (hx : NIS src x) (hy : NIS src y) :
    NIS src (if c then x else y) := by
  split <;> assumption

theorem NIS.lexDedent : NIS src lexDedent := by
  constructor
  intro s e hs hc he
  unfold Lexer.lexDedent at he
  have h0 : s.tokEnd.offset - s.tokStart.offset = 0 := by rw [offsets_of_idle hs hc]; omega
  have he' : (if s.tokEnd.offset - s.tokStart.offset ≠ 0 then Lexer.failWith (internalError "lex_dedent: token in progress")
      else (do
        Lexer.token Kind.dedent
        Lexer.setFrame (fun s => { s.frame with indentation := s.indentation.tail, recipeBodyPending := false, recipeBody := false }) : M Unit)) s
      = .error e := he
  simp only [h0, ne_eq, not_true_eq_false, if_false] at he'
  exact (NI0.bind (NI0.token _) (fun _ => NI0.setFrameKeep _ (fun _ => rfl))).run _ _ he'

theorem NIS.dedentUntil (ws : List Char) (st : List (List Char)) : NIS src (dedentUntil ws st) := by
  induction st with
  | nil => unfold Lexer.dedentUntil; exact NIS.of_NI0 (NI0.pure _)
  | cons c cs ih =>
    unfold Lexer.dedentUntil
    exact NIS.ite (NIS.of_NI0 (NI0.pure _)) (NIS.bind NIS.lexDedent EI.lexDedent.toKI (fun _ => ih))

theorem NIS.dedentAll (st : List (List Char)) : NIS src (dedentAll st) := by
  induction st with
  | nil => unfold Lexer.dedentAll; exact NIS.of_NI0 (NI0.pure _)
  | cons c cs ih =>
    unfold Lexer.dedentAll
    exact NIS.ite (NIS.of_NI0 (NI0.pure _)) (NIS.bind NIS.lexDedent EI.lexDedent.toKI (fun _ => ih))

theorem takeWhile_length_le (p : Char → Bool) (l : List Char) : (l.takeWhile p).length ≤ l.length := by
  induction l with
  | nil => simp
  | cons c cs ih => simp only [List.takeWhile_cons]; split <;> simp <;> omega

/-- in the `Continue` case the current indentation is a prefix of the line's white space -/
theorem continue_length (s : St) (h : (classify s).1 = .continue_) : (topIndentation s).length ≤ s.rest.length := by
  have hw := takeWhile_length_le isBlankChar s.rest
  unfold classify at h
  simp only at h
  split at h
  · cases h
  split at h
  · rename_i heq; rw [← heq]; exact hw
  split at h
  · cases h
  split at h
  · rename_i hp
    simp only [Bool.and_eq_true] at hp
    have := prefix_length hp.2
    omega
  split at h
  · cases h
  split at h
  · cases h
  split at h <;> cases h

theorem NI0.whileToken (p : Char → Bool) (k : Kind) : NI0 (do Lexer.advanceWhile p; Lexer.token k : M Unit) :=
  NI0.bind (NI0.advanceWhile p) (fun _ => NI0.token k)

theorem NIS.lexLineStart : NIS src lexLineStart := by
  constructor
  intro s e hs hc h
  unfold Lexer.lexLineStart at h
  have h' : (match (classify s).1 with
      | .blank => if !(classify s).2.isEmpty then (do Lexer.advanceWhile isBlankChar; Lexer.token .whitespace) else Pure.pure ()
      | .continue_ => if !(topIndentation s).isEmpty then (do Lexer.advanceN (topIndentation s).length; Lexer.token .whitespace) else Pure.pure ()
      | .decrease => do
        Lexer.dedentUntil (classify s).2 s.indentation
        if !(classify s).2.isEmpty then do
          Lexer.advanceWhile isBlankChar
          Lexer.token .whitespace
        else Pure.pure ()
      | .mixed => do
        Lexer.advanceN (classify s).2.length
        Lexer.failWith (mkError .mixedLeadingWhitespace)
      | .inconsistent => do
        Lexer.advanceN (classify s).2.length
        Lexer.failWith (mkError .inconsistentLeadingWhitespace)
      | .increase => do
        Lexer.advanceWhile isBlankChar
        let s1 ← get
        if !s1.delims.isEmpty then Lexer.token .whitespace
        else do
          Lexer.setFrame (fun s2 => { s2.frame with indentation := s2.cur.reverse :: s2.indentation })
          Lexer.token .indent
          Lexer.setFrame (fun s2 => if s2.recipeBodyPending then { s2.frame with recipeBody := true } else s2.frame) : M Unit) s
      = .error e := h
  have hws : (classify s).2.length ≤ s.rest.length := takeWhile_length_le isBlankChar s.rest
  cases hcl : (classify s).1 with
  | blank =>
    simp only [hcl] at h'
    exact (NI0.ite (NI0.whileToken _ _) (NI0.pure _)).run _ _ h'
  | continue_ =>
    simp only [hcl] at h'
    split at h'
    · rcases bind_err h' with h1 | ⟨_, _, _, h2⟩
      · exact (advanceN_safe _ _ _ (continue_length s hcl) h1).elim
      · simp [Lexer.token] at h2
    · cases h'
  | decrease =>
    simp only [hcl] at h'
    exact (NIS.bind (NIS.dedentUntil _ _) (KI.dedentUntil _ _)
      (fun _ => NIS.of_NI0 (NI0.ite (NI0.whileToken _ _) (NI0.pure _)))).run s e hs hc h'
  | mixed =>
    simp only [hcl] at h'
    rcases bind_err h' with h1 | ⟨_, _, _, h2⟩
    · exact (advanceN_safe _ _ _ hws h1).elim
    · exact (NI0.failWith (fun s => mkError_plain _ rfl s)).run _ _ h2
  | inconsistent =>
    simp only [hcl] at h'
    rcases bind_err h' with h1 | ⟨_, _, _, h2⟩
    · exact (advanceN_safe _ _ _ hws h1).elim
    · exact (NI0.failWith (fun s => mkError_plain _ rfl s)).run _ _ h2
  | increase =>
    simp only [hcl] at h'
    have : NI0 (do
        Lexer.advanceWhile isBlankChar
        let s1 ← get
        if !s1.delims.isEmpty then Lexer.token .whitespace
        else do
          Lexer.setFrame (fun s2 => { s2.frame with indentation := s2.cur.reverse :: s2.indentation })
          Lexer.token .indent
          Lexer.setFrame (fun s2 => if s2.recipeBodyPending then { s2.frame with recipeBody := true } else s2.frame) : M Unit) := by
      refine NI0.bind (NI0.advanceWhile _) (fun _ => NI0.getBind (fun _ => NI0.ite (NI0.token _) ?_))
      refine NI0.bind (NI0.setFrameKeep _ (fun _ => rfl)) (fun _ => NI0.bind (NI0.token _) (fun _ => NI0.setFrameKeep _ (fun s => ?_)))
      split <;> rfl
    exact this.run _ _ h'

theorem NIS.lineStartIfNeeded : NIS src lineStartIfNeeded := by
  constructor
  intro s e hs hc h
  unfold Lexer.lineStartIfNeeded at h
  have h' : (if s.tokStart.column = 0 then Lexer.lexLineStart else Pure.pure () : M Unit) s = .error e := h
  split at h'
  · exact NIS.lexLineStart.run s e hs hc h'
  · cases h'

theorem NIS.stepMain : NIS src stepMain := by
  constructor
  intro s e hs hc h
  unfold Lexer.stepMain at h
  rcases bind_err h with h1 | ⟨_, s1, h1, h2⟩
  · exact NIS.lineStartIfNeeded.run s e hs hc h1
  · have hc1 := KI.lineStartIfNeeded.keep _ _ _ hs h1 hc
    have h2' : (match s1.rest with
        | [] => (Pure.pure false : M Bool)
        | first :: _ => do Lexer.dispatch first; Pure.pure true) s1 = .error e := h2
    cases hr : s1.rest with
    | nil => simp only [hr] at h2'; cases h2'
    | cons first tl =>
      simp only [hr] at h2'
      rcases bind_err h2' with h3 | ⟨_, _, _, h4⟩
      · exact (NIH.dispatch first).run s1 e ⟨by simp [hr], hc1⟩ h3
      · cases h4

theorem NIS.mainLoop (n : Nat) : NIS src (mainLoop n) := by
  induction n with
  | zero =>
    unfold Lexer.mainLoop
    exact NIS.of_NI0 (NI0.failWith (fun s => by simp [fuelError, ErrKind.isInternal]))
  | succ n ih =>
    unfold Lexer.mainLoop
    exact NIS.bind NIS.stepMain KI.stepMain (fun b => NIS.ite ih (NIS.of_NI0 (NI0.pure _)))

theorem NIS.finish : NIS src finish := by
  constructor
  intro s e hs hc h
  unfold Lexer.finish at h
  have h' : (match s.interp with
      | istart :: _ => (MonadExcept.throw ({ kind := .unterminatedInterpolation, tok := istart } : Err) : M Unit)
      | [] => do Lexer.dedentAll s.indentation; Lexer.token .eof) s = .error e := h
  cases hi : s.interp with
  | cons i is => simp only [hi] at h'; cases h'; rfl
  | nil =>
    simp only [hi] at h'
    exact (NIS.bind (NIS.dedentAll _) (KI.dedentAll _) (fun _ => NIS.of_NI0 (NI0.token _))).run s e hs hc h'

/-- **No `internal_error` site and no assertion of the lexer is reachable**: whatever the text, an error
returned by `tokenize` is an ordinary diagnostic (never `Internal`) — and never the model's `fuel`. -/
theorem tokenize_no_internal (src : List Char) (e : Err) (h : tokenize src = .error e) :
    e.kind.isInternal = false ∧ e.kind.isFuel = false := by
  refine ⟨?_, tokenize_terminates src e h⟩
  have hassert := tokenize_asserts_hold src e h
  unfold tokenize at h
  split at h
  · rename_i e' heq
    simp only [Except.error.injEq] at h
    subst h
    unfold Lexer.tokenizeM at heq
    exact (NIS.bind (NIS.mainLoop _) (KI.mainLoop _) (fun _ => NIS.finish)).run _ _ (initial_inv src) rfl heq
  · -- the final checks are assertion failures, excluded by `tokenize_asserts_hold`
    rename_i s heq
    repeat' split at h
    all_goals first
      | (simp only [Except.error.injEq] at h; subst h
         simp [internalError, ErrKind.isAssert, assertMsgs] at hassert)
      | cases h

end Just.Lexer
