/-
Lemmas about `Just.Path.absolutePath` (`absolute_path()`): joining to an absolute working
directory and cleaning gives an absolute path text.
-/
import Just.Model.Path
import Just.Lemmas.Path
namespace Just.Path

theorem push_head (buf : List Char) (c : Comp) (t : List Char) (hb : buf = '/' :: t) :
    ∃ t', push buf c = '/' :: t' := by
  subst hb
  cases c <;> simp [push, compStr] <;> (split <;> simp)

theorem foldl_push_head : ∀ (cs : List Comp) (buf t : List Char), buf = '/' :: t →
    ∃ t', cs.foldl push buf = '/' :: t'
  | [], buf, t, h => ⟨t, by simpa using h⟩
  | c :: cs, buf, t, h => by
    obtain ⟨t', ht⟩ := push_head buf c t h
    simpa using foldl_push_head cs (push buf c) t' ht

/-- the vector of lexiclean's loop keeps the root it started with as its oldest element -/
theorem cleanStep_keeps_root (acc : List Comp) (c : Comp) (h : acc.getLast? = some .root) :
    (cleanStep acc c).getLast? = some .root := by
  cases c with
  | cur => simpa [cleanStep] using h
  | root => 
    cases acc with
    | nil => simp at h
    | cons a r => simpa [cleanStep, List.getLast?_cons_cons] using h
  | normal s =>
    cases acc with
    | nil => simp at h
    | cons a r => simpa [cleanStep, List.getLast?_cons_cons] using h
  | parent =>
    cases acc with
    | nil => simp at h
    | cons a r =>
      cases a with
      | normal s =>
        cases r with
        | nil => simp at h
        | cons b r' => simpa [cleanStep, List.getLast?_cons_cons] using h
      | parent => simpa [cleanStep, List.getLast?_cons_cons] using h
      | root => simpa [cleanStep] using h
      | cur => simpa [cleanStep] using h

theorem foldl_cleanStep_keeps_root : ∀ (cs acc : List Comp), acc.getLast? = some .root →
    (cs.foldl cleanStep acc).getLast? = some .root
  | [], _, h => h
  | c :: cs, acc, h => foldl_cleanStep_keeps_root cs _ (cleanStep_keeps_root acc c h)

theorem cleanComps_root (cs : List Comp) : ∃ r, cleanComps (.root :: cs) = .root :: r := by
  unfold cleanComps
  have h := foldl_cleanStep_keeps_root cs (cleanStep [] .root) (by simp [cleanStep])
  simp only [List.foldl_cons]
  generalize List.foldl cleanStep (cleanStep [] Comp.root) cs = l at h
  rw [List.getLast?_eq_head?_reverse] at h
  cases hl : l.reverse with
  | nil => simp [hl] at h
  | cons a r => simp [hl] at h; exact ⟨r, by rw [h]⟩

/-- cleaning an absolute path text gives an absolute path text -/
theorem lexiclean_absolute (t : List Char) : ∃ t', lexiclean ('/' :: t) = '/' :: t' := by
  unfold lexiclean
  simp only
  split
  · exact ⟨t, rfl⟩
  · obtain ⟨r, hr⟩ := cleanComps_root (partsComps false (splitSlash ('/' :: t) []))
    have hc : components ('/' :: t) = .root :: partsComps false (splitSlash ('/' :: t) []) := by simp [components]
    rw [hc, hr]
    unfold render
    simp only [List.foldl_cons]
    exact foldl_push_head r (push [] .root) [] (by simp [push])

theorem pushStr_absolute (wd p t : List Char) (hwd : wd = '/' :: t) : ∃ t', pushStr wd p = '/' :: t' := by
  subst hwd
  unfold pushStr
  split
  · rename_i r; exact ⟨r, rfl⟩
  · simp only [reduceCtorEq, if_false]
    split <;> simp

end Just.Path
