import Just.Model.Determinism
namespace Just.Determinism

def Sorted {α : Type} (t : List (String × α)) : Prop := t.Pairwise (fun a b => a.1 < b.1)

theorem tinsert_mem {α : Type} (k : String) (v : α) : ∀ (t : List (String × α)) (x : String × α),
    x ∈ tinsert k v t → x = (k, v) ∨ x ∈ t := by
  intro t
  induction t with
  | nil => intro x hx; simp [tinsert] at hx; exact Or.inl hx
  | cons hd rest ih =>
    intro x hx
    obtain ⟨k', v'⟩ := hd
    simp only [tinsert] at hx
    split at hx
    · rcases List.mem_cons.mp hx with h | h
      · exact Or.inl h
      · exact Or.inr (List.mem_cons_of_mem _ h)
    · split at hx
      · rcases List.mem_cons.mp hx with h | h
        · exact Or.inl h
        · exact Or.inr h
      · rcases List.mem_cons.mp hx with h | h
        · exact Or.inr (by simp [h])
        · rcases ih x h with h | h
          · exact Or.inl h
          · exact Or.inr (List.mem_cons_of_mem _ h)

theorem tinsert_sorted {α : Type} (k : String) (v : α) : ∀ (t : List (String × α)),
    Sorted t → Sorted (tinsert k v t) := by
  intro t
  induction t with
  | nil => intro _; simp [tinsert, Sorted]
  | cons hd rest ih =>
    intro hs
    obtain ⟨k', v'⟩ := hd
    unfold Sorted at hs
    rw [List.pairwise_cons] at hs
    simp only [tinsert]
    split
    · rename_i heq
      subst heq
      unfold Sorted
      rw [List.pairwise_cons]
      exact ⟨hs.1, hs.2⟩
    · split
      · rename_i hlt
        unfold Sorted
        rw [List.pairwise_cons, List.pairwise_cons]
        refine ⟨?_, hs.1, hs.2⟩
        intro b hb
        rcases List.mem_cons.mp hb with rfl | hb
        · exact hlt
        · exact String.lt_trans hlt (hs.1 b hb)
      · rename_i hne hnlt
        unfold Sorted
        rw [List.pairwise_cons]
        refine ⟨?_, ih hs.2⟩
        intro b hb
        rcases tinsert_mem k v rest b hb with rfl | hb
        · have hle : k' ≤ k := String.not_lt.mp hnlt
          -- k' ≤ k and k ≠ k'  →  k' < k
          apply Decidable.byContradiction
          intro hn
          have hle2 : k ≤ k' := String.not_lt.mp hn
          exact hne (String.le_antisymm hle2 hle)
        · exact hs.1 b hb

theorem tinsert_perm {α : Type} (k : String) (v : α) : ∀ (t : List (String × α)),
    k ∉ t.map Prod.fst → (tinsert k v t).Perm ((k, v) :: t) := by
  intro t
  induction t with
  | nil => intro _; simp [tinsert]
  | cons hd rest ih =>
    intro hk
    obtain ⟨k', v'⟩ := hd
    simp only [List.map_cons, List.mem_cons, not_or] at hk
    simp only [tinsert, hk.1, if_false]
    split
    · exact List.Perm.refl _
    · exact ((ih hk.2).cons (k', v')).trans (List.Perm.swap _ _ _)

theorem foldl_sorted {α : Type} : ∀ (defs acc : List (String × α)), Sorted acc →
    Sorted (defs.foldl (fun t d => tinsert d.1 d.2 t) acc) := by
  intro defs
  induction defs with
  | nil => intro acc h; exact h
  | cons d ds ih => intro acc h; exact ih _ (tinsert_sorted d.1 d.2 acc h)

theorem foldl_perm {α : Type} : ∀ (defs acc : List (String × α)),
    ((defs ++ acc).map Prod.fst).Nodup →
    (defs.foldl (fun t d => tinsert d.1 d.2 t) acc).Perm (defs ++ acc) := by
  intro defs
  induction defs with
  | nil => intro acc _; exact List.Perm.refl _
  | cons d ds ih =>
    intro acc hnd
    simp only [List.foldl_cons]
    simp only [List.cons_append, List.map_cons, List.nodup_cons, List.map_append, List.mem_append, not_or] at hnd
    have hp := tinsert_perm d.1 d.2 acc hnd.1.2
    have hnd' : ((ds ++ tinsert d.1 d.2 acc).map Prod.fst).Nodup := by
      have : (ds ++ tinsert d.1 d.2 acc).Perm (ds ++ (d :: acc)) := List.Perm.append_left ds hp
      apply (this.map Prod.fst).nodup_iff.mpr
      simp only [List.map_append, List.map_cons]
      have h2 : (List.map Prod.fst ds ++ d.1 :: List.map Prod.fst acc).Perm (d.1 :: (List.map Prod.fst ds ++ List.map Prod.fst acc)) :=
        List.perm_middle
      apply h2.nodup_iff.mpr
      rw [List.nodup_cons]
      refine ⟨?_, ?_⟩
      · simp only [List.mem_append, not_or]; exact hnd.1
      · simpa [List.map_append] using hnd.2
    refine (ih _ hnd').trans ?_
    refine (List.Perm.append_left ds hp).trans ?_
    exact List.perm_middle

theorem sorted_perm_eq {α : Type} (a b : List (String × α)) (ha : Sorted a) (hb : Sorted b)
    (h : a.Perm b) : a = b := by
  apply List.Perm.eq_of_pairwise (le := fun x y => x.1 < y.1)
  · intro x y _ _ hxy hyx; exact absurd hyx (String.lt_asymm hxy)
  · exact ha
  · exact hb
  · exact h

end Just.Determinism
