/-
Text-level idempotence of lexical cleaning: the cleaned component list, written out with
`PathBuf::push` and read again with `Path::components`, is the same list — so cleaning a cleaned
path TEXT changes nothing.
-/
import Just.Lemmas.Path
namespace Just.Path

/-! ### forward form of a cleaned list -/

def allNormal : List Comp → Bool
  | [] => true
  | .normal _ :: r => allNormal r
  | _ => false

def relForm : List Comp → Bool
  | .parent :: r => relForm r
  | l => allNormal l

def fwdForm : List Comp → Bool
  | .root :: r => allNormal r
  | l => relForm l

theorem allNormal_append_normal (s : List Char) : ∀ (l : List Comp), allNormal (l ++ [.normal s]) = allNormal l
  | [] => rfl
  | .normal _ :: r => by simpa [allNormal] using allNormal_append_normal s r
  | .root :: _ => rfl
  | .cur :: _ => rfl
  | .parent :: _ => rfl

theorem relForm_append_normal (s : List Char) : ∀ (l : List Comp), relForm (l ++ [.normal s]) = relForm l
  | [] => rfl
  | .parent :: r => by simpa [relForm] using relForm_append_normal s r
  | .normal t :: r => by simp [relForm, allNormal, allNormal_append_normal]
  | .root :: _ => rfl
  | .cur :: _ => rfl

theorem fwdForm_append_normal (s : List Char) : ∀ (l : List Comp), fwdForm (l ++ [.normal s]) = fwdForm l
  | [] => rfl
  | .root :: r => by simp [fwdForm, allNormal_append_normal]
  | .parent :: r => by simpa [fwdForm] using relForm_append_normal s (.parent :: r)
  | .normal t :: r => by simpa [fwdForm] using relForm_append_normal s (.normal t :: r)
  | .cur :: _ => rfl

theorem shapeP_replicate : ∀ (l : List Comp), shapeP l = true → l = List.replicate l.length .parent
  | [], _ => rfl
  | .parent :: r, h => by
    have := shapeP_replicate r (by simpa [shapeP] using h)
    simp [List.replicate_succ]
    exact this
  | .root :: _, h => by simp [shapeP] at h
  | .cur :: _, h => by simp [shapeP] at h
  | .normal _ :: _, h => by simp [shapeP] at h

theorem relForm_replicate : ∀ (n : Nat), relForm (List.replicate n .parent) = true
  | 0 => rfl
  | n + 1 => by simpa [List.replicate_succ, relForm] using relForm_replicate n

theorem fwdForm_replicate (n : Nat) : fwdForm (List.replicate n .parent) = true := by
  cases n with
  | zero => rfl
  | succ n => simpa [List.replicate_succ, fwdForm, relForm] using relForm_replicate n

theorem fwdForm_of_shape : ∀ (acc : List Comp), shapeN acc = true → fwdForm acc.reverse = true := by
  intro acc
  induction acc with
  | nil => intro _; rfl
  | cons c rest ih =>
    intro h
    cases c with
    | normal s =>
      simp only [List.reverse_cons]
      rw [fwdForm_append_normal]
      exact ih (by simpa [shapeN] using h)
    | parent =>
      have hp : shapeP rest = true := by simpa [shapeN] using h
      have hr := shapeP_replicate rest hp
      simp only [List.reverse_cons]
      rw [hr, List.reverse_replicate]
      have : List.replicate rest.length Comp.parent ++ [Comp.parent] = List.replicate (rest.length + 1) Comp.parent := by
        rw [List.replicate_succ']
      rw [this]
      exact fwdForm_replicate _
    | root =>
      cases rest with
      | nil => rfl
      | cons _ _ => simp [shapeN] at h
    | cur => simp [shapeN] at h

/-! ### the names `Path::components` yields are proper names -/

def validName (s : List Char) : Prop := s ≠ [] ∧ '/' ∉ s ∧ s ≠ ['.'] ∧ s ≠ ['.', '.']

def NamesValid (l : List Comp) : Prop := ∀ s, Comp.normal s ∈ l → validName s

theorem splitSlash_no_slash : ∀ (cs acc : List Char), '/' ∉ acc → ∀ part ∈ splitSlash cs acc, '/' ∉ part := by
  intro cs
  induction cs with
  | nil =>
    intro acc hacc part hp
    simp only [splitSlash, List.mem_singleton] at hp
    subst hp
    simpa using hacc
  | cons c rest ih =>
    intro acc hacc part hp
    simp only [splitSlash] at hp
    split at hp
    · rcases List.mem_cons.mp hp with rfl | hp
      · simpa using hacc
      · exact ih [] (by simp) part hp
    · rename_i hc
      exact ih (c :: acc) (by
        intro hm
        rcases List.mem_cons.mp hm with h | h
        · exact hc h.symm
        · exact hacc h) part hp

theorem partComp_normal (first : Bool) (part s : List Char) (h : partComp first part = some (.normal s)) :
    s = part ∧ part ≠ [] ∧ part ≠ ['.'] ∧ part ≠ ['.', '.'] := by
  unfold partComp at h
  split at h
  · cases h
  · split at h
    · split at h <;> cases h
    · split at h
      · cases h
      · rename_i h1 h2 h3
        simp only [Option.some.injEq, Comp.normal.injEq] at h
        exact ⟨h.symm, h1, h2, h3⟩

theorem partsComps_valid : ∀ (parts : List (List Char)) (first : Bool), (∀ part ∈ parts, '/' ∉ part) →
    NamesValid (partsComps first parts) := by
  intro parts
  induction parts with
  | nil => intro first _ s hs; simp [partsComps] at hs
  | cons part rest ih =>
    intro first hns s hs
    simp only [partsComps] at hs
    have hrest := ih false (fun x hx => hns x (List.mem_cons_of_mem _ hx))
    split at hs
    · rename_i c hc
      rcases List.mem_cons.mp hs with heq | hs
      · subst heq
        obtain ⟨rfl, h1, h2, h3⟩ := partComp_normal first part s hc
        exact ⟨h1, hns _ (by simp), h2, h3⟩
      · exact hrest s hs
    · exact hrest s hs

theorem components_valid (p : List Char) : NamesValid (components p) := by
  unfold components
  have hns := splitSlash_no_slash p [] (by simp)
  split
  · intro s hs
    rcases List.mem_cons.mp hs with h | h
    · cases h
    · exact partsComps_valid _ false hns s h
  · exact partsComps_valid _ true hns

theorem cleanStep_mem (acc : List Comp) (c x : Comp) (h : x ∈ cleanStep acc c) : x ∈ acc ∨ x = c := by
  cases c with
  | cur => left; simpa [cleanStep] using h
  | root => simp only [cleanStep, List.mem_cons] at h; rcases h with h | h; exact Or.inr h; exact Or.inl h
  | normal s => simp only [cleanStep, List.mem_cons] at h; rcases h with h | h; exact Or.inr h; exact Or.inl h
  | parent =>
    simp only [cleanStep] at h
    split at h
    · left; exact List.mem_cons_of_mem _ h
    · rcases List.mem_cons.mp h with h | h
      · right; exact h
      · left; exact h
    · right; simpa using h
    · left; exact h

theorem foldl_cleanStep_mem : ∀ (cs acc : List Comp) (x : Comp), x ∈ cs.foldl cleanStep acc → x ∈ acc ∨ x ∈ cs := by
  intro cs
  induction cs with
  | nil => intro acc x h; left; exact h
  | cons c rest ih =>
    intro acc x h
    rcases ih _ x h with h | h
    · rcases cleanStep_mem acc c x h with h | h
      · left; exact h
      · right; rw [h]; simp
    · right; exact List.mem_cons_of_mem _ h

theorem cleanComps_valid (cs : List Comp) (h : NamesValid cs) : NamesValid (cleanComps cs) := by
  intro s hs
  unfold cleanComps at hs
  rcases foldl_cleanStep_mem cs [] _ (List.mem_reverse.mp hs) with h' | h'
  · cases h'
  · exact h s h'

/-! ### writing a plain list out and reading it again -/

/-- only `..` and proper names -/
def Plain (l : List Comp) : Prop := ∀ c ∈ l, c = .parent ∨ ∃ s, c = .normal s ∧ validName s

theorem Plain.tail {c : Comp} {r : List Comp} (h : Plain (c :: r)) : Plain r :=
  fun x hx => h x (List.mem_cons_of_mem _ hx)

theorem compStr_plain (c : Comp) (h : c = .parent ∨ ∃ s, c = .normal s ∧ validName s) :
    compStr c ≠ [] ∧ '/' ∉ compStr c ∧ ∀ first, partComp first (compStr c) = some c := by
  rcases h with rfl | ⟨s, rfl, h1, h2, h3, h4⟩
  · refine ⟨by simp [compStr], by simp [compStr], ?_⟩
    intro first
    simp [partComp, compStr]
  · refine ⟨h1, h2, ?_⟩
    intro first
    simp [partComp, compStr, h1, h3, h4]

def relText : List Comp → List Char
  | [] => []
  | [c] => compStr c
  | c :: d :: r => compStr c ++ '/' :: relText (d :: r)

/-- what follows a non-empty buffer -/
def tailText (r : List Comp) : List Char :=
  match r with
  | [] => []
  | _ => '/' :: relText r

theorem getLast?_cons_ne' {α : Type} (a : α) : ∀ (b : List α), b ≠ [] → (a :: b).getLast? = b.getLast?
  | [], h => absurd rfl h
  | _ :: _, _ => by simp [List.getLast?_cons_cons]

theorem getLast?_append_ne' {α : Type} : ∀ (a b : List α), b ≠ [] → (a ++ b).getLast? = b.getLast?
  | [], _, _ => rfl
  | x :: xs, b, hb => by
    rw [List.cons_append, getLast?_cons_ne' x (xs ++ b) (by simp [hb])]
    exact getLast?_append_ne' xs b hb

theorem getLast?_ne_slash (t : List Char) (h : '/' ∉ t) : t.getLast? ≠ some '/' := by
  intro hl
  exact h (List.mem_of_getLast? hl)

theorem push_plain_nonempty (buf : List Char) (c : Comp) (hc : c = .parent ∨ ∃ s, c = .normal s ∧ validName s)
    (hb : buf ≠ []) (hl : buf.getLast? ≠ some '/') : push buf c = buf ++ '/' :: compStr c := by
  rcases hc with rfl | ⟨s, rfl, _⟩ <;> simp [push, hb, hl]

theorem render_nonempty : ∀ (r : List Comp) (buf : List Char), Plain r → buf ≠ [] → buf.getLast? ≠ some '/' →
    r.foldl push buf = buf ++ tailText r := by
  intro r
  induction r with
  | nil => intro buf _ _ _; simp [tailText]
  | cons c r' ih =>
    intro buf hp hb hl
    have hc := hp c (by simp)
    obtain ⟨hne, hns, _⟩ := compStr_plain c hc
    simp only [List.foldl_cons]
    rw [push_plain_nonempty buf c hc hb hl]
    have hb' : buf ++ '/' :: compStr c ≠ [] := by simp
    have hl' : (buf ++ '/' :: compStr c).getLast? ≠ some '/' := by
      have : (buf ++ '/' :: compStr c).getLast? = (compStr c).getLast? := by
        rw [getLast?_append_ne' buf _ (by simp), getLast?_cons_ne' '/' _ hne]
      rw [this]
      exact getLast?_ne_slash _ hns
    rw [ih _ hp.tail hb' hl']
    cases r' with
    | nil => simp [tailText, relText]
    | cons d r'' => simp [tailText, relText]

theorem render_plain : ∀ (r : List Comp), Plain r → render r = relText r := by
  intro r hp
  cases r with
  | nil => rfl
  | cons c r' =>
    have hc := hp c (by simp)
    obtain ⟨hne, hns, _⟩ := compStr_plain c hc
    unfold render
    simp only [List.foldl_cons]
    have hpush : push [] c = compStr c := by
      rcases hc with rfl | ⟨s, rfl, _⟩ <;> simp [push]
    rw [hpush, render_nonempty r' _ hp.tail hne (getLast?_ne_slash _ hns)]
    cases r' with
    | nil => simp [tailText, relText]
    | cons d r'' => simp [tailText, relText]

theorem render_root : ∀ (r : List Comp), Plain r → render (.root :: r) = '/' :: relText r := by
  intro r hp
  unfold render
  simp only [List.foldl_cons]
  have h0 : push [] Comp.root = ['/'] := rfl
  rw [h0]
  cases r with
  | nil => rfl
  | cons c r' =>
    have hc := hp c (by simp)
    obtain ⟨hne, hns, _⟩ := compStr_plain c hc
    simp only [List.foldl_cons]
    have hpush : push ['/'] c = '/' :: compStr c := by
      rcases hc with rfl | ⟨s, rfl, _⟩ <;> simp [push]
    rw [hpush]
    have hl : ('/' :: compStr c).getLast? ≠ some '/' := by
      have : ('/' :: compStr c).getLast? = (compStr c).getLast? := getLast?_cons_ne' '/' _ hne
      rw [this]; exact getLast?_ne_slash _ hns
    rw [render_nonempty r' _ hp.tail (by simp) hl]
    cases r' with
    | nil => simp [tailText, relText]
    | cons d r'' => simp [tailText, relText]

theorem splitSlash_no_slash_text : ∀ (a acc : List Char), '/' ∉ a → splitSlash a acc = [acc.reverse ++ a] := by
  intro a
  induction a with
  | nil => intro acc _; simp [splitSlash]
  | cons x xs ih =>
    intro acc h
    have hx : x ≠ '/' := fun e => h (by simp [e])
    have hxs : '/' ∉ xs := fun m => h (List.mem_cons_of_mem _ m)
    simp only [splitSlash, hx, if_false]
    rw [ih (x :: acc) hxs]
    simp

theorem splitSlash_append_slash : ∀ (a b acc : List Char), '/' ∉ a →
    splitSlash (a ++ '/' :: b) acc = (acc.reverse ++ a) :: splitSlash b [] := by
  intro a
  induction a with
  | nil => intro b acc _; simp [splitSlash]
  | cons x xs ih =>
    intro b acc h
    have hx : x ≠ '/' := fun e => h (by simp [e])
    have hxs : '/' ∉ xs := fun m => h (List.mem_cons_of_mem _ m)
    simp only [List.cons_append, splitSlash, hx, if_false]
    rw [ih b (x :: acc) hxs]
    simp

theorem splitSlash_relText : ∀ (r : List Comp), Plain r → r ≠ [] → splitSlash (relText r) [] = r.map compStr := by
  intro r
  induction r with
  | nil => intro _ h; exact absurd rfl h
  | cons c r' ih =>
    intro hp _
    obtain ⟨_, hns, _⟩ := compStr_plain c (hp c (by simp))
    cases r' with
    | nil => simp [relText, splitSlash_no_slash_text _ [] hns]
    | cons d r'' =>
      simp only [relText]
      rw [splitSlash_append_slash _ _ [] hns, ih hp.tail (by simp)]
      simp

theorem partsComps_map_compStr : ∀ (r : List Comp) (first : Bool), Plain r → partsComps first (r.map compStr) = r := by
  intro r
  induction r with
  | nil => intro _ _; rfl
  | cons c r' ih =>
    intro first hp
    obtain ⟨_, _, hpc⟩ := compStr_plain c (hp c (by simp))
    simp only [List.map_cons, partsComps, hpc first]
    rw [ih false hp.tail]

theorem relText_head_ne_slash (r : List Comp) (hp : Plain r) : ∀ t, relText r ≠ '/' :: t := by
  intro t h
  cases r with
  | nil => simp [relText] at h
  | cons c r' =>
    obtain ⟨hne, hns, _⟩ := compStr_plain c (hp c (by simp))
    have hmem : '/' ∈ compStr c := by
      cases r' with
      | nil =>
        simp only [relText] at h
        rw [h]; simp
      | cons d r'' =>
        simp only [relText] at h
        cases hcs : compStr c with
        | nil => exact absurd hcs hne
        | cons a b =>
          rw [hcs] at h
          simp only [List.cons_append, List.cons.injEq] at h
          rw [h.1]; simp
    exact hns hmem

/-- reading the written-out plain list gives the list back -/
theorem components_relText (r : List Comp) (hp : Plain r) : components (relText r) = r := by
  unfold components
  split
  · rename_i t h; exact absurd h (relText_head_ne_slash r hp t)
  · cases r with
    | nil => simp [relText, splitSlash, partsComps, partComp]
    | cons c r' =>
      rw [splitSlash_relText _ hp (by simp)]
      exact partsComps_map_compStr _ true hp

theorem components_root_relText (r : List Comp) (hp : Plain r) : components ('/' :: relText r) = .root :: r := by
  unfold components
  simp only
  cases r with
  | nil => simp [relText, splitSlash, partsComps, partComp]
  | cons c r' =>
    have : splitSlash ('/' :: relText (c :: r')) [] = [] :: splitSlash (relText (c :: r')) [] := by
      simp [splitSlash]
    rw [this, splitSlash_relText _ hp (by simp)]
    simp only [partsComps, partComp, if_true]
    rw [partsComps_map_compStr _ false hp]

/-! ### from the forward form to plainness -/

theorem plain_of_allNormal : ∀ (l : List Comp), allNormal l = true → NamesValid l → Plain l
  | [], _, _ => fun c hc => by cases hc
  | .normal s :: r, h, hv => by
    intro c hc
    rcases List.mem_cons.mp hc with rfl | hc
    · exact Or.inr ⟨s, rfl, hv s (by simp)⟩
    · exact plain_of_allNormal r (by simpa [allNormal] using h) (fun t ht => hv t (List.mem_cons_of_mem _ ht)) c hc
  | .root :: _, h, _ => by simp [allNormal] at h
  | .cur :: _, h, _ => by simp [allNormal] at h
  | .parent :: _, h, _ => by simp [allNormal] at h

theorem plain_of_relForm : ∀ (l : List Comp), relForm l = true → NamesValid l → Plain l
  | [], _, _ => fun c hc => by cases hc
  | .parent :: r, h, hv => by
    intro c hc
    rcases List.mem_cons.mp hc with rfl | hc
    · exact Or.inl rfl
    · exact plain_of_relForm r (by simpa [relForm] using h) (fun t ht => hv t (List.mem_cons_of_mem _ ht)) c hc
  | .normal s :: r, h, hv => plain_of_allNormal _ (by simpa [relForm] using h) hv
  | .root :: _, h, _ => by simp [relForm, allNormal] at h
  | .cur :: _, h, _ => by simp [relForm, allNormal] at h

/-- **writing a cleaned component list out and reading it again gives the same list** -/
theorem components_render (l : List Comp) (hf : fwdForm l = true) (hv : NamesValid l) :
    components (render l) = l := by
  cases l with
  | nil => simp [render, components, splitSlash, partsComps, partComp]
  | cons c r =>
    cases c with
    | root =>
      have hp : Plain r := plain_of_allNormal r (by simpa [fwdForm] using hf) (fun t ht => hv t (List.mem_cons_of_mem _ ht))
      rw [render_root r hp, components_root_relText r hp]
    | parent =>
      have hp : Plain (.parent :: r) := plain_of_relForm _ (by simpa [fwdForm] using hf) hv
      rw [render_plain _ hp, components_relText _ hp]
    | normal s =>
      have hp : Plain (.normal s :: r) := plain_of_relForm _ (by simpa [fwdForm] using hf) hv
      rw [render_plain _ hp, components_relText _ hp]
    | cur => simp [fwdForm, relForm, allNormal] at hf

/-- **cleaning a cleaned path text changes nothing**: `lexiclean (lexiclean p) = lexiclean p` for
every path text -/
theorem lexiclean_idempotent (p : List Char) : lexiclean (lexiclean p) = lexiclean p := by
  unfold lexiclean
  simp only
  by_cases h1 : (components p).length ≤ 1
  · simp only [h1, if_true]
  · simp only [h1, if_false]
    have hshape := clean_shape (components p) (components_noInnerRoot p)
    have hf : fwdForm (cleanComps (components p)) = true := fwdForm_of_shape _ hshape
    have hv : NamesValid (cleanComps (components p)) := cleanComps_valid _ (components_valid p)
    rw [components_render _ hf hv]
    split
    · rfl
    · have hid : cleanComps (cleanComps (components p)) = cleanComps (components p) := by
        unfold cleanComps
        rw [List.foldl_reverse, foldr_fixed _ hshape]
      rw [hid]

end Just.Path
