import Just.Lemmas.Syntax
set_option linter.unusedSimpArgs false
/-
The print / parse round trip of expressions: the mutual induction (stated as property theorems in
Props/C10.lean, used by the header lemmas).
-/
namespace Just.Syntax
open Just

mutual
/-- **Round trip.**  For every well-formed expression `e`, every level `k` at which it may stand,
every continuation `rest` that does not extend a level-`k` phrase and every sufficient fuel, the
level-`k` parser reads the printed tokens of `e` back as exactly `e` and stops at `rest`. -/
theorem roundtrip_core : (e : Expr) → WF e → ∀ k, level e ≤ k → k ≤ 3 → ∀ f rest, 4 * e.size + k ≤ f → StopE k e rest →
    After e rest → parseAt k f (printE e ++ rest) = some (e, rest)
  | .str l, hw => by
    refine climb _ 0 ?_ (fun _ rest => valueStart_of_level0 _ hw rfl rest) (fun _ => by simp [endsValue])
    intro f rest hf _ _
    obtain ⟨f', rfl⟩ : ∃ f', f = f' + 1 := ⟨f - 1, by simp [Expr.size] at hf; omega⟩
    rcases litTokens_cases l with ⟨cs, hcs, h⟩ | h
    · simp [parseAt, printE, h, parseValue_xstr, xLit_ofList hcs]
    · simp [parseAt, printE, h, parseValue_str]
  | .backtick s, _ => by
    refine climb _ 0 ?_ (fun _ rest => by simp [ValueStart, printE]) (fun _ => by simp [endsValue])
    intro f rest hf _ _
    obtain ⟨f', rfl⟩ : ∃ f', f = f' + 1 := ⟨f - 1, by simp [Expr.size] at hf; omega⟩
    simp [parseAt, printE, parseValue_bt]
  | .var n, hw => by
    refine climb _ 0 ?_ (fun _ rest => valueStart_of_level0 _ hw rfl rest) (fun _ => by simp [endsValue])
    intro f rest hf _ hafter
    obtain ⟨f', rfl⟩ : ∃ f', f = f' + 1 := ⟨f - 1, by simp [Expr.size] at hf; omega⟩
    simp only [WF, okName] at hw
    simp only [parseAt, printE, List.singleton_append]
    exact parseValue_var _ _ _ hw.2 (hafter n rfl).1 (hafter n rfl).2
  | .call fn args, hw => by
    refine climb _ 0 ?_ (fun _ rest => valueStart_of_level0 _ hw rfl rest) (fun _ => by simp [endsValue])
    intro f rest hf _ _
    simp only [Expr.size] at hf
    obtain ⟨f', rfl⟩ : ∃ f', f = f' + 1 := ⟨f - 1, by omega⟩
    simp only [WF, okName] at hw
    have hargs := roundtripArgs_core args hw.2.2 f' rest (by omega)
    simp only [parseAt, printE, List.append_assoc, List.cons_append, List.nil_append, List.singleton_append] at hargs ⊢
    exact parseValue_call_ok hw.1.2 hw.2.1 hargs
  | .assert a o b m, hw => by
    refine climb _ 0 ?_ (fun _ rest => by simp [ValueStart, printE]) (fun _ => by simp [endsValue])
    intro f rest hf _ _
    simp only [Expr.size] at hf
    have := size_pos a; have := size_pos b; have := size_pos m
    obtain ⟨f', rfl⟩ : ∃ f', f = f' + 1 := ⟨f - 1, by omega⟩
    simp only [WF] at hw
    have ha := roundtrip_core a hw.1 3 (level_le3 a) (Nat.le_refl _)
    have hb := roundtrip_core b hw.2.1 3 (level_le3 b) (Nat.le_refl _)
    have hm := roundtrip_core m hw.2.2 3 (level_le3 m) (Nat.le_refl _)
    have hc := condition_rt a b o (fun f rest h1 h2 h3 => ha f rest h1 h2 h3) (fun f rest h1 h2 h3 => hb f rest h1 h2 h3) f'
      (.comma :: (printE m ++ .rparen :: rest)) (by omega) (by omega) (stopE_cons 3 _ _ _ (by simp [blocksE])) (after_cons _ _ _ (by simp) (by simp))
    have hm' := hm f' (.rparen :: rest) (by omega) (stopE_cons 3 _ _ _ (by simp [blocksE])) (after_cons _ _ _ (by simp) (by simp))
    simp only [parseAt] at hm'
    simp only [parseAt, printE, List.append_assoc, List.cons_append, List.nil_append, List.singleton_append]
    exact parseValue_assert_ok hc hm'
  | .group e, hw => by
    refine climb _ 0 ?_ (fun _ rest => by simp [ValueStart, printE]) (fun _ => by simp [endsValue])
    intro f rest hf _ _
    simp only [Expr.size] at hf
    obtain ⟨f', rfl⟩ : ∃ f', f = f' + 1 := ⟨f - 1, by omega⟩
    simp only [WF] at hw
    have he := roundtrip_core e hw 3 (level_le3 e) (Nat.le_refl _) f' (.rparen :: rest) (by omega)
      (stopE_cons 3 _ _ _ (by simp [blocksE])) (after_cons _ _ _ (by simp) (by simp))
    simp only [parseAt] at he
    simp only [parseAt, printE, List.append_assoc, List.cons_append, List.nil_append, List.singleton_append]
    exact parseValue_group_ok he
  | .concat l r, hw => by
    refine climb _ 1 ?_ (fun h => by omega) (fun h => by omega)
    intro f rest hf hstop hafter
    simp only [Expr.size] at hf
    obtain ⟨f', rfl⟩ : ∃ f', f = f' + 1 := ⟨f - 1, by omega⟩
    simp only [WF] at hw
    obtain ⟨hl0, hr1, hwl, hwr⟩ := hw
    have hl := roundtrip_core l hwl 0 (by omega) (by omega) f' (.plus :: (printE r ++ rest)) (by omega)
      (stopE_cons 0 _ _ _ (by simp [blocksE])) (after_cons _ _ _ (by simp) (by simp))
    have hr := roundtrip_core r hwr 1 hr1 (by omega) f' rest (by omega) (hstop.congr (by simp [endsValue])) hafter
    simp only [parseAt] at hl hr
    have hs := valueStart_of_level0 l hwl hl0 (.plus :: (printE r ++ rest))
    simp only [parseAt, printE, List.append_assoc, List.cons_append, List.nil_append, List.singleton_append]
    exact parseConjunct_plus_ok hs hl hr
  | .joinL l r, hw => by
    refine climb _ 1 ?_ (fun h => by omega) (fun h => by omega)
    intro f rest hf hstop hafter
    simp only [Expr.size] at hf
    obtain ⟨f', rfl⟩ : ∃ f', f = f' + 1 := ⟨f - 1, by omega⟩
    simp only [WF] at hw
    obtain ⟨hl0, hr1, hwl, hwr⟩ := hw
    have hl := roundtrip_core l hwl 0 (by omega) (by omega) f' (.slash :: (printE r ++ rest)) (by omega)
      (stopE_cons 0 _ _ _ (by simp [blocksE])) (after_cons _ _ _ (by simp) (by simp))
    have hr := roundtrip_core r hwr 1 hr1 (by omega) f' rest (by omega) (hstop.congr (by simp [endsValue])) hafter
    simp only [parseAt] at hl hr
    have hs := valueStart_of_level0 l hwl hl0 (.slash :: (printE r ++ rest))
    simp only [parseAt, printE, List.append_assoc, List.cons_append, List.nil_append, List.singleton_append]
    exact parseConjunct_join_ok hs hl hr
  | .joinR r, hw => by
    refine climb _ 1 ?_ (fun h => by omega) (fun h => by omega)
    intro f rest hf hstop hafter
    simp only [Expr.size] at hf
    obtain ⟨f', rfl⟩ : ∃ f', f = f' + 1 := ⟨f - 1, by omega⟩
    simp only [WF] at hw
    have hr := roundtrip_core r hw.2 1 hw.1 (by omega) f' rest (by omega) (hstop.congr (by simp [endsValue])) hafter
    simp only [parseAt] at hr
    simp only [parseAt, printE, List.append_assoc, List.cons_append, List.nil_append, List.singleton_append]
    exact parseConjunct_slash_ok hr
  | .and l r, hw => by
    refine climb _ 2 ?_ (fun h => by omega) (fun h => by omega)
    intro f rest hf hstop hafter
    simp only [Expr.size] at hf
    obtain ⟨f', rfl⟩ : ∃ f', f = f' + 1 := ⟨f - 1, by omega⟩
    simp only [WF] at hw
    obtain ⟨hl1, hr2, hwl, hwr⟩ := hw
    have hl := roundtrip_core l hwl 1 hl1 (by omega) f' (.andand :: (printE r ++ rest)) (by omega)
      (stopE_cons 1 _ _ _ (by simp [blocksE])) (after_cons _ _ _ (by simp) (by simp))
    have hr := roundtrip_core r hwr 2 hr2 (by omega) f' rest (by omega) (hstop.congr (by simp [endsValue])) hafter
    simp only [parseAt] at hl hr
    simp only [parseAt, printE, List.append_assoc, List.cons_append, List.nil_append, List.singleton_append]
    exact parseDisjunct_and_ok hl hr
  | .or l r, hw => by
    refine climb _ 3 ?_ (fun h => by omega) (fun h => by omega)
    intro f rest hf hstop hafter
    simp only [Expr.size] at hf
    obtain ⟨f', rfl⟩ : ∃ f', f = f' + 1 := ⟨f - 1, by omega⟩
    simp only [WF] at hw
    obtain ⟨hl2, hwl, hwr⟩ := hw
    have hl := roundtrip_core l hwl 2 hl2 (by omega) f' (.barbar :: (printE r ++ rest)) (by omega)
      (stopE_cons 2 _ _ _ (by simp [blocksE])) (after_cons _ _ _ (by simp) (by simp))
    have hr := roundtrip_core r hwr 3 (level_le3 r) (by omega) f' rest (by omega) (hstop.congr (by simp [endsValue])) hafter
    simp only [parseAt] at hl hr
    simp only [parseAt, printE, List.append_assoc, List.cons_append, List.nil_append, List.singleton_append]
    exact parseExpression_or_ok hl hr
  | .cond a o b t x, hw => by
    refine climb _ 1 ?_ (fun h => by omega) (fun h => by omega)
    intro f rest hf hstop hafter
    simp only [Expr.size] at hf
    have := size_pos a; have := size_pos b; have := size_pos t; have := size_pos x
    obtain ⟨g, rfl⟩ : ∃ g, f = g + 2 := ⟨f - 2, by omega⟩
    simp only [WF] at hw
    obtain ⟨hwa, hwb, hwt, hwx⟩ := hw
    have ha := roundtrip_core a hwa 3 (level_le3 a) (Nat.le_refl _)
    have hb := roundtrip_core b hwb 3 (level_le3 b) (Nat.le_refl _)
    have hc := condition_rt a b o (fun f rest h1 h2 h3 => ha f rest h1 h2 h3) (fun f rest h1 h2 h3 => hb f rest h1 h2 h3) g
      (.lbrace :: (printE t ++ .rbrace :: .ident "else" :: (printElse x ++ rest))) (by omega) (by omega)
      (stopE_cons 3 _ _ _ (by simp [blocksE])) (after_cons _ _ _ (by simp) (by simp))
    have ht := roundtrip_core t hwt 3 (level_le3 t) (Nat.le_refl _) g
      (.rbrace :: .ident "else" :: (printElse x ++ rest)) (by omega) (stopE_cons 3 _ _ _ (by simp [blocksE])) (after_cons _ _ _ (by simp) (by simp))
    simp only [parseAt] at ht
    simp only [parseAt, printE, List.append_assoc, List.cons_append, List.nil_append, List.singleton_append]
    rw [show g + 2 = (g + 1) + 1 from rfl, parseConjunct_if]
    -- the else branch
    by_cases hx : ∃ a' o' b' t' x', x = .cond a' o' b' t' x'
    · obtain ⟨a', o', b', t', x', rfl⟩ := hx
      -- `else if …`: the nested conditional is read by parse_conditional
      have hx1 := roundtrip_core (.cond a' o' b' t' x') hwx 1 (by simp [level]) (by omega) (g + 1) rest (by omega) (fun t _ => by simp [blocksE, endsValue]) hafter
      simp only [parseAt, printE, List.append_assoc, List.cons_append, List.nil_append, List.singleton_append] at hx1
      rw [parseConjunct_if] at hx1
      simp only [printElse, List.append_assoc, List.cons_append, List.nil_append, List.singleton_append] at hc ht ⊢
      exact parseConditional_elseif_ok hc ht hx1
    · have hnc : ∀ a' o' b' t' x', x ≠ .cond a' o' b' t' x' := fun a' o' b' t' x' h => hx ⟨a', o', b', t', x', h⟩
      have hx3 := roundtrip_core x hwx 3 (level_le3 x) (Nat.le_refl _) g (.rbrace :: rest) (by omega)
        (stopE_cons 3 _ _ _ (by simp [blocksE])) (after_cons _ _ _ (by simp) (by simp))
      simp only [parseAt] at hx3
      rw [printElse_noncond x hnc] at hc ht ⊢
      simp only [List.append_assoc, List.cons_append, List.nil_append, List.singleton_append] at hc ht ⊢
      exact parseConditional_else_ok hc ht hx3
/-- arguments of a call -/
theorem roundtripArgs_core : (es : Exprs) → WFs es → ∀ f rest, 4 * es.size + 1 ≤ f →
    parseSequence f (printArgs es ++ [.rparen] ++ rest) = some (es, rest)
  | .nil, _ => by
    intro f rest hf
    obtain ⟨f', rfl⟩ : ∃ f', f = f' + 1 := ⟨f - 1, by omega⟩
    simp [printArgs, parseSequence_end]
  | .cons e .nil, hw => by
    intro f rest hf
    simp only [Exprs.size] at hf
    obtain ⟨f', rfl⟩ : ∃ f', f = f' + 1 := ⟨f - 1, by omega⟩
    simp only [WFs] at hw
    have he := roundtrip_core e hw.1 3 (level_le3 e) (Nat.le_refl _) f' (.rparen :: rest) (by omega)
      (stopE_cons 3 _ _ _ (by simp [blocksE])) (after_cons _ _ _ (by simp) (by simp))
    simp only [parseAt] at he
    have hne := head_ne_rparen e (.rparen :: rest)
    simp only [printArgs, List.append_assoc, List.cons_append, List.nil_append, List.singleton_append]
    exact parseSequence_last_ok hne he
  | .cons e (.cons e' es), hw => by
    intro f rest hf
    simp only [Exprs.size] at hf
    obtain ⟨f', rfl⟩ : ∃ f', f = f' + 1 := ⟨f - 1, by omega⟩
    simp only [WFs] at hw
    have he := roundtrip_core e hw.1 3 (level_le3 e) (Nat.le_refl _) f'
      (.comma :: (printArgs (.cons e' es) ++ [.rparen] ++ rest)) (by omega) (stopE_cons 3 _ _ _ (by simp [blocksE])) (after_cons _ _ _ (by simp) (by simp))
    simp only [parseAt] at he
    have hrec := roundtripArgs_core (.cons e' es) (by simp only [WFs]; exact hw.2) f' rest (by simp only [Exprs.size]; omega)
    have hne := head_ne_rparen e (.comma :: (printArgs (.cons e' es) ++ [.rparen] ++ rest))
    simp only [printArgs, List.append_assoc, List.cons_append, List.nil_append, List.singleton_append] at he hne hrec ⊢
    exact parseSequence_comma_ok hne he hrec
end

end Just.Syntax
