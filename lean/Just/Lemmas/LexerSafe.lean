import Just.Lemmas.Lexer
import Just.Lemmas.LexerTotal
/-
The `assert_eq!`s of the lexer cannot fail.  Three facts about successful runs of the lexing
functions are lifted through the code by small calculi:
  EI  the function ends idle (no token in progress: `cur = []`)
  KI  the function keeps an idle state idle
  KS  the function keeps the indentation stack
and one about failing runs (NA: the error is none of the four assertion failures).
-/
namespace Just.Lexer

variable {src : List Char}

/-- success from an invariant state -/
theorem Preserves.inv {α : Type} {m : M α} (h : Preserves src m) {s : St} {a : α} {s' : St} (hs : Inv src s)
    (he : m s = .ok (a, s')) : Inv src s' := by
  have := h.run s hs
  rw [he] at this
  exact this

/-- ends idle -/
structure EI (src : List Char) {α : Type} (m : M α) : Prop where
  pres : Preserves src m
  ends : ∀ s a s', Inv src s → m s = .ok (a, s') → s'.cur = []

/-- keeps idle -/
structure KI (src : List Char) {α : Type} (m : M α) : Prop where
  pres : Preserves src m
  keep : ∀ s a s', Inv src s → m s = .ok (a, s') → s.cur = [] → s'.cur = []

theorem EI.toKI {α : Type} {m : M α} (h : EI src m) : KI src m :=
  ⟨h.pres, fun s a s' hs he _ => h.ends s a s' hs he⟩

theorem EI.token (k : Kind) : EI src (token k) :=
  ⟨Preserves.token k, fun s a s' _ he => by simp only [Lexer.token] at he; cases he; rfl⟩

theorem KI.pure {α : Type} (a : α) : KI src (Pure.pure a : M α) :=
  ⟨Preserves.pure a, fun s b s' _ he h => by cases he; exact h⟩

theorem KI.setFrame (f : St → Frame) : KI src (setFrame f) := by
  refine ⟨Preserves.setFrame f, ?_⟩
  intro s a s' _ he h
  unfold Lexer.setFrame at he
  split at he
  · cases he; simpa [St.setFrame] using h
  · cases he

theorem EI.failWith {α : Type} {e : St → Err} (h : Preserves src (Lexer.failWith e : M α)) : EI src (Lexer.failWith e : M α) :=
  ⟨h, fun s a s' _ he => by simp [Lexer.failWith] at he⟩

theorem EI.throw {α : Type} {e : Err} (h : Preserves src (MonadExcept.throw e : M α)) : EI src (MonadExcept.throw e : M α) :=
  ⟨h, fun s a s' _ he => by cases he⟩

theorem EI.bindRight {α β : Type} {x : M α} {f : α → M β} (hx : Preserves src x) (hf : ∀ a, EI src (f a)) :
    EI src (x >>= f) := by
  refine ⟨Preserves.bind hx (fun a => (hf a).pres), ?_⟩
  intro s b s'' hs he
  obtain ⟨a, s', h1, h2⟩ := bind_ok he
  exact (hf a).ends _ _ _ (hx.inv hs h1) h2

theorem EI.bindLeft {α β : Type} {x : M α} {f : α → M β} (hx : EI src x) (hf : ∀ a, KI src (f a)) :
    EI src (x >>= f) := by
  refine ⟨Preserves.bind hx.pres (fun a => (hf a).pres), ?_⟩
  intro s b s'' hs he
  obtain ⟨a, s', h1, h2⟩ := bind_ok he
  exact (hf a).keep _ _ _ (hx.pres.inv hs h1) h2 (hx.ends _ _ _ hs h1)

theorem KI.bind {α β : Type} {x : M α} {f : α → M β} (hx : KI src x) (hf : ∀ a, KI src (f a)) :
    KI src (x >>= f) := by
  refine ⟨Preserves.bind hx.pres (fun a => (hf a).pres), ?_⟩
  intro s b s'' hs he hc
  obtain ⟨a, s', h1, h2⟩ := bind_ok he
  exact (hf a).keep _ _ _ (hx.pres.inv hs h1) h2 (hx.keep _ _ _ hs h1 hc)

theorem EI.getBind {β : Type} {f : St → M β} (hf : ∀ s0, Inv src s0 → EI src (f s0)) : EI src (get >>= f) := by
  refine ⟨Preserves.getBind (fun s0 h0 => (hf s0 h0).pres), ?_⟩
  intro s b s' hs he
  exact (hf s hs).ends s b s' hs he

theorem KI.getBind {β : Type} {f : St → M β} (hf : ∀ s0, Inv src s0 → KI src (f s0)) : KI src (get >>= f) := by
  refine ⟨Preserves.getBind (fun s0 h0 => (hf s0 h0).pres), ?_⟩
  intro s b s' hs he hc
  exact (hf s hs).keep s b s' hs he hc

theorem EI.ite {α : Type} {c : Prop} [Decidable c] {x y : M α} (hx : EI src x) (hy : EI src y) :
    EI src (if c then x else y) := by
  split <;> assumption

theorem KI.ite {α : Type} {c : Prop} [Decidable c] {x y : M α} (hx : KI src x) (hy : KI src y) :
    KI src (if c then x else y) := by
  split <;> assumption

/-- right-nested sequence ending in a token: the prefix only has to preserve the invariant -/
macro "ei_step" : tactic => `(tactic| first
  | with_reducible exact EI.token _
  | with_reducible exact EI.bindLeft (EI.token _) (fun _ => KI.setFrame _)
  | with_reducible exact EI.failWith (Preserves.failWith (fun _ h => mkError_spans _ h))
  | with_reducible exact EI.failWith (Preserves.failWith (fun _ h => internalError_spans _ h))
  | with_reducible apply_assumption
  | (with_reducible apply EI.getBind; intro _ _)
  | (with_reducible apply EI.bindRight (by pres))
  | with_reducible apply EI.ite
  | intro _
  | split)
macro "ei" : tactic => `(tactic| repeat ei_step)

theorem EI.lexSingle (k : Kind) : EI src (lexSingle k) := by unfold Lexer.lexSingle; ei
theorem EI.lexDouble (k : Kind) : EI src (lexDouble k) := by unfold Lexer.lexDouble; ei

theorem EI.lexWhitespace : EI src lexWhitespace := by
  have := @Preserves.advanceWhile src
  unfold Lexer.lexWhitespace; ei

theorem EI.lexComment : EI src lexComment := by
  have := @Preserves.presume src
  have := @Preserves.advanceToEolAux src
  unfold Lexer.lexComment; ei

theorem EI.lexIdentifier : EI src lexIdentifier := by
  have := @Preserves.advanceWhile src
  unfold Lexer.lexIdentifier; ei

theorem EI.lexDelimiter (k : Kind) : EI src (lexDelimiter k) := by
  have := @Preserves.delimiterAction src
  have := @EI.lexSingle src
  unfold Lexer.lexDelimiter; ei

theorem EI.unexpectedSecond : EI src unexpectedSecond := by
  unfold Lexer.unexpectedSecond; ei

theorem EI.lexDigraph (l r : Char) (k : Kind) : EI src (lexDigraph l r k) := by
  have := @Preserves.presume src
  have := @Preserves.accepted src
  have := @EI.unexpectedSecond src
  unfold Lexer.lexDigraph; ei

theorem EI.lexColon : EI src lexColon := by
  have := @Preserves.presume src
  have := @Preserves.accepted src
  unfold Lexer.lexColon; ei

theorem EI.lexEscape : EI src lexEscape := by
  have := @Preserves.presume src
  have := @Preserves.accepted src
  have := @Preserves.advanceWhile src
  unfold Lexer.lexEscape; ei

theorem EI.lexEol : EI src lexEol := by
  have := @Preserves.lexEolHead src
  unfold Lexer.lexEol; ei

theorem EI.lexString : EI src lexString := by
  have := @Preserves.presumeStr src
  have := @Preserves.stringLoop src
  unfold Lexer.lexString; ei


/-! ### the indentation stack is only touched by dedents and by `lex_line_start` -/

structure KS {α : Type} (m : M α) : Prop where
  run : ∀ s a s', m s = .ok (a, s') → s'.indentation = s.indentation

theorem KS.pure {α : Type} (a : α) : KS (Pure.pure a : M α) := ⟨fun s b s' h => by cases h; rfl⟩

theorem KS.bind {α β : Type} {x : M α} {f : α → M β} (hx : KS x) (hf : ∀ a, KS (f a)) : KS (x >>= f) := by
  constructor
  intro s b s'' h
  obtain ⟨a, s', h1, h2⟩ := bind_ok h
  rw [(hf a).run _ _ _ h2, hx.run _ _ _ h1]

theorem KS.getBind {β : Type} {f : St → M β} (hf : ∀ s0, KS (f s0)) : KS (get >>= f) :=
  ⟨fun s b s' h => (hf s).run s b s' h⟩

theorem KS.ite {α : Type} {c : Prop} [Decidable c] {x y : M α} (hx : KS x) (hy : KS y) : KS (if c then x else y) := by
  split <;> assumption

theorem KS.failWith {α : Type} (e : St → Err) : KS (Lexer.failWith e : M α) :=
  ⟨fun s a s' h => by simp [Lexer.failWith] at h⟩

theorem KS.throw {α : Type} (e : Err) : KS (MonadExcept.throw e : M α) := ⟨fun s a s' h => by cases h⟩

theorem KS.advance : KS Lexer.advance := by
  constructor
  intro s a s' h
  unfold Lexer.advance at h
  split at h
  · cases h; rfl
  · cases h

theorem KS.token (k : Kind) : KS (Lexer.token k) := ⟨fun s a s' h => by simp only [Lexer.token] at h; cases h; rfl⟩

theorem KS.setFrame (f : St → Frame) (hf : ∀ s, (f s).indentation = s.indentation) : KS (Lexer.setFrame f) := by
  constructor
  intro s a s' h
  unfold Lexer.setFrame at h
  split at h
  · cases h; simp [St.setFrame, hf]
  · cases h

macro "ks_step" : tactic => `(tactic| first
  | with_reducible exact KS.pure _
  | with_reducible exact KS.advance
  | with_reducible exact KS.token _
  | exact KS.setFrame _ (fun _ => rfl)
  | with_reducible exact KS.failWith _
  | with_reducible exact KS.throw _
  | with_reducible apply_assumption
  | (with_reducible apply KS.getBind; intro _)
  | with_reducible apply KS.bind
  | with_reducible apply KS.ite
  | intro _
  | split)
macro "ks" : tactic => `(tactic| repeat ks_step)

theorem KS.presume (c : Char) : KS (presume c) := by unfold Lexer.presume; ks
theorem KS.accepted (c : Char) : KS (accepted c) := by unfold Lexer.accepted; ks

theorem KS.presumeStr (cs : List Char) : KS (presumeStr cs) := by
  have := @KS.presume
  induction cs with
  | nil => unfold Lexer.presumeStr; ks
  | cons c cs ih => unfold Lexer.presumeStr; ks

theorem KS.advanceWhileAux (p : Char → Bool) (cs : List Char) : KS (advanceWhileAux p cs) := by
  induction cs with
  | nil => unfold Lexer.advanceWhileAux; ks
  | cons c cs ih => unfold Lexer.advanceWhileAux; ks

theorem KS.advanceWhile (p : Char → Bool) : KS (advanceWhile p) := by
  have := @KS.advanceWhileAux
  unfold Lexer.advanceWhile; ks

theorem KS.advanceN (n : Nat) : KS (advanceN n) := by
  induction n with
  | zero => unfold Lexer.advanceN; ks
  | succ n ih => unfold Lexer.advanceN; ks

theorem KS.lexSingle (k : Kind) : KS (lexSingle k) := by unfold Lexer.lexSingle; ks
theorem KS.lexDouble (k : Kind) : KS (lexDouble k) := by unfold Lexer.lexDouble; ks

theorem KS.lexWhitespace : KS lexWhitespace := by
  have := @KS.advanceWhile
  unfold Lexer.lexWhitespace; ks

theorem KS.advanceToEolAux (cs : List Char) : KS (advanceToEolAux cs) := by
  induction cs with
  | nil => unfold Lexer.advanceToEolAux; ks
  | cons c cs ih => unfold Lexer.advanceToEolAux; ks

theorem KS.lexComment : KS lexComment := by
  have := @KS.presume
  have := @KS.advanceToEolAux
  unfold Lexer.lexComment; ks

theorem KS.lexIdentifier : KS lexIdentifier := by
  have := @KS.advanceWhile
  unfold Lexer.lexIdentifier; ks

theorem KS.openDelimiter (d : Delim) : KS (openDelimiter d) := by
  unfold Lexer.openDelimiter; ks

theorem KS.closeDelimiter (d : Delim) : KS (closeDelimiter d) := by
  unfold Lexer.closeDelimiter; ks

theorem KS.delimiterAction (k : Kind) : KS (delimiterAction k) := by
  have := @KS.openDelimiter
  have := @KS.closeDelimiter
  unfold Lexer.delimiterAction; ks

theorem KS.lexDelimiter (k : Kind) : KS (lexDelimiter k) := by
  have := @KS.delimiterAction
  have := @KS.lexSingle
  unfold Lexer.lexDelimiter; ks

theorem KS.unexpectedSecond : KS unexpectedSecond := by
  unfold Lexer.unexpectedSecond; ks

theorem KS.tryChoices (cs : List (Char × Kind)) : KS (tryChoices cs) := by
  have := @KS.accepted
  induction cs with
  | nil => unfold Lexer.tryChoices; ks
  | cons c cs ih => unfold Lexer.tryChoices; ks

theorem KS.lexChoices (f : Char) (cs : List (Char × Kind)) (o : Option Kind) : KS (lexChoices f cs o) := by
  have := @KS.presume
  have := @KS.tryChoices
  have := @KS.unexpectedSecond
  unfold Lexer.lexChoices; ks

theorem KS.lexDigraph (l r : Char) (k : Kind) : KS (lexDigraph l r k) := by
  have := @KS.presume
  have := @KS.accepted
  have := @KS.unexpectedSecond
  unfold Lexer.lexDigraph; ks

theorem KS.lexColon : KS lexColon := by
  have := @KS.presume
  have := @KS.accepted
  unfold Lexer.lexColon; ks

theorem KS.lexEscape : KS lexEscape := by
  have := @KS.presume
  have := @KS.accepted
  have := @KS.advanceWhile
  unfold Lexer.lexEscape; ks

theorem KS.lexEolHead : KS lexEolHead := by
  have := @KS.presume
  have := @KS.accepted
  unfold Lexer.lexEolHead; ks

theorem KS.lexEol : KS lexEol := by
  have := @KS.lexEolHead
  unfold Lexer.lexEol; ks

theorem KS.stringLoop (d : List Char) (e : Bool) (k : ErrKind) (cs : List Char) (esc : Bool) :
    KS (stringLoop d e k cs esc) := by
  induction cs generalizing esc with
  | nil => unfold Lexer.stringLoop; ks
  | cons c cs ih => unfold Lexer.stringLoop; ks

theorem KS.lexString : KS lexString := by
  have := @KS.presumeStr
  have := @KS.stringLoop
  unfold Lexer.lexString; ks

theorem KS.lexOther (s : St) (c : Char) : KS (lexOther s c) := by
  have := @KS.lexWhitespace
  have := @KS.lexChoices
  have := @KS.lexComment
  have := @KS.lexSingle
  have := @KS.lexDigraph
  have := @KS.lexDelimiter
  have := @KS.lexColon
  have := @KS.lexEscape
  have := @KS.lexEol
  have := @KS.lexString
  have := @KS.lexIdentifier
  unfold Lexer.lexOther; ks

theorem KS.lexNormal (c : Char) : KS (lexNormal c) := by
  have := @KS.lexWhitespace
  have := @KS.lexOther
  unfold Lexer.lexNormal; ks

theorem KS.lexInterpolation (t : Tok) (c : Char) : KS (lexInterpolation t c) := by
  have := @KS.lexNormal
  have := @KS.lexDouble
  unfold Lexer.lexInterpolation; ks

theorem KS.bodyLoop (cs : List Char) (n : Nat) : KS (bodyLoop cs n) := by
  induction cs generalizing n with
  | nil => unfold Lexer.bodyLoop; ks
  | cons c cs ih => unfold Lexer.bodyLoop; ks

theorem KS.flushText : KS flushText := by unfold Lexer.flushText; ks
theorem KS.pushInterpolation : KS pushInterpolation := by unfold Lexer.pushInterpolation; ks

theorem KS.bodyTerminator (t : Terminator) : KS (bodyTerminator t) := by
  have := @KS.lexSingle
  have := @KS.lexDouble
  have := @KS.pushInterpolation
  unfold Lexer.bodyTerminator; ks

theorem KS.lexBody : KS lexBody := by
  have := @KS.bodyLoop
  have := @KS.flushText
  have := @KS.bodyTerminator
  unfold Lexer.lexBody; ks


theorem KS.dispatch (c : Char) : KS (Lexer.dispatch c) := by
  have := @KS.lexInterpolation
  have := @KS.lexBody
  have := @KS.lexNormal
  unfold Lexer.dispatch; ks

/-! ### failing runs: none of the four assertion failures (outside the dedent family) -/

def assertMsgs : List String :=
  ["lex_dedent: token in progress", "assert token_start = token_end", "assert token_start = src.len()",
   "assert indentation.len() = 1"]

/-- the error is one of the lexer's `assert_eq!` failures -/
def ErrKind.isAssert : ErrKind → Bool
  | .internal m => assertMsgs.contains m
  | _ => false

structure NA0 {α : Type} (m : M α) : Prop where
  run : ∀ s e, m s = .error e → e.kind.isAssert = false

theorem NA0.pure {α : Type} (a : α) : NA0 (Pure.pure a : M α) := ⟨fun s e h => by cases h⟩

theorem bind_err {α β : Type} {x : M α} {f : α → M β} {s : St} {e : Err} (h : (x >>= f) s = .error e) :
    x s = .error e ∨ ∃ a s', x s = .ok (a, s') ∧ f a s' = .error e := by
  simp only [Bind.bind, StateT.bind] at h
  cases hx : x s with
  | error e' => left; simp [hx, Except.bind] at h; rw [h]
  | ok p =>
    obtain ⟨a, s'⟩ := p
    right
    refine ⟨a, s', rfl, ?_⟩
    simpa [hx, Except.bind] using h

theorem NA0.bind {α β : Type} {x : M α} {f : α → M β} (hx : NA0 x) (hf : ∀ a, NA0 (f a)) : NA0 (x >>= f) := by
  constructor
  intro s e h
  rcases bind_err h with h1 | ⟨a, s', _, h2⟩
  · exact hx.run _ _ h1
  · exact (hf a).run _ _ h2

theorem NA0.getBind {β : Type} {f : St → M β} (hf : ∀ s0, NA0 (f s0)) : NA0 (get >>= f) :=
  ⟨fun s e h => (hf s).run s e h⟩

theorem NA0.ite {α : Type} {c : Prop} [Decidable c] {x y : M α} (hx : NA0 x) (hy : NA0 y) : NA0 (if c then x else y) := by
  split <;> assumption

theorem NA0.failWith {α : Type} {e : St → Err} (h : ∀ s, (e s).kind.isAssert = false) : NA0 (Lexer.failWith e : M α) :=
  ⟨fun s e' h' => by simp only [Lexer.failWith, Except.error.injEq] at h'; rw [← h']; exact h s⟩

theorem NA0.throw {α : Type} {e : Err} (h : e.kind.isAssert = false) : NA0 (MonadExcept.throw e : M α) :=
  ⟨fun s e' h' => by cases h'; exact h⟩

theorem mkError_notAssert (k : ErrKind) (hk : k.isAssert = false) (s : St) : (mkError k s).kind.isAssert = false := by
  unfold mkError
  split
  · exact hk
  · simp [internalError, ErrKind.isAssert, assertMsgs]

theorem stringErrKind_notAssert (kind : Kind) : (stringErrKind kind).isAssert = false := by
  unfold stringErrKind; split <;> rfl

theorem NA0.advance : NA0 Lexer.advance := by
  constructor
  intro s e h
  unfold Lexer.advance at h
  split at h
  · cases h
  · cases h; simp [internalError, ErrKind.isAssert, assertMsgs]

theorem NA0.token (k : Kind) : NA0 (Lexer.token k) := ⟨fun s e h => by simp [Lexer.token] at h⟩

theorem NA0.setFrame (f : St → Frame) : NA0 (Lexer.setFrame f) := by
  constructor
  intro s e h
  unfold Lexer.setFrame at h
  split at h
  · cases h
  · cases h; simp [internalError, ErrKind.isAssert, assertMsgs]

macro "na_step" : tactic => `(tactic| first
  | with_reducible exact NA0.pure _
  | with_reducible exact NA0.advance
  | with_reducible exact NA0.token _
  | with_reducible exact NA0.setFrame _
  | with_reducible exact NA0.failWith (fun s => mkError_notAssert _ rfl s)
  | exact NA0.failWith (fun s => by simp [internalError, ErrKind.isAssert, assertMsgs])
  | with_reducible exact NA0.throw rfl
  | with_reducible apply_assumption
  | (with_reducible apply NA0.getBind; intro _)
  | with_reducible apply NA0.bind
  | with_reducible apply NA0.ite
  | intro _
  | split)
macro "na" : tactic => `(tactic| repeat na_step)

theorem NA0.presume (c : Char) : NA0 (presume c) := by unfold Lexer.presume; na
theorem NA0.accepted (c : Char) : NA0 (accepted c) := by unfold Lexer.accepted; na

theorem NA0.presumeStr (cs : List Char) : NA0 (presumeStr cs) := by
  have := @NA0.presume
  induction cs with
  | nil => unfold Lexer.presumeStr; na
  | cons c cs ih => unfold Lexer.presumeStr; na

theorem NA0.advanceWhileAux (p : Char → Bool) (cs : List Char) : NA0 (advanceWhileAux p cs) := by
  induction cs with
  | nil => unfold Lexer.advanceWhileAux; na
  | cons c cs ih => unfold Lexer.advanceWhileAux; na

theorem NA0.advanceWhile (p : Char → Bool) : NA0 (advanceWhile p) := by
  have := @NA0.advanceWhileAux
  unfold Lexer.advanceWhile; na

theorem NA0.advanceN (n : Nat) : NA0 (advanceN n) := by
  induction n with
  | zero => unfold Lexer.advanceN; na
  | succ n ih => unfold Lexer.advanceN; na

theorem NA0.lexSingle (k : Kind) : NA0 (lexSingle k) := by unfold Lexer.lexSingle; na
theorem NA0.lexDouble (k : Kind) : NA0 (lexDouble k) := by unfold Lexer.lexDouble; na

theorem NA0.lexWhitespace : NA0 lexWhitespace := by
  have := @NA0.advanceWhile
  unfold Lexer.lexWhitespace; na

theorem NA0.advanceToEolAux (cs : List Char) : NA0 (advanceToEolAux cs) := by
  induction cs with
  | nil => unfold Lexer.advanceToEolAux; na
  | cons c cs ih => unfold Lexer.advanceToEolAux; na

theorem NA0.lexComment : NA0 lexComment := by
  have := @NA0.presume
  have := @NA0.advanceToEolAux
  unfold Lexer.lexComment; na

theorem NA0.lexIdentifier : NA0 lexIdentifier := by
  have := @NA0.advanceWhile
  unfold Lexer.lexIdentifier; na

theorem NA0.openDelimiter (d : Delim) : NA0 (openDelimiter d) := by
  unfold Lexer.openDelimiter; na

theorem NA0.closeDelimiter (d : Delim) : NA0 (closeDelimiter d) := by
  unfold Lexer.closeDelimiter; na

theorem NA0.delimiterAction (k : Kind) : NA0 (delimiterAction k) := by
  have := @NA0.openDelimiter
  have := @NA0.closeDelimiter
  unfold Lexer.delimiterAction; na

theorem NA0.lexDelimiter (k : Kind) : NA0 (lexDelimiter k) := by
  have := @NA0.delimiterAction
  have := @NA0.lexSingle
  unfold Lexer.lexDelimiter; na

theorem NA0.unexpectedSecond : NA0 unexpectedSecond := by
  unfold Lexer.unexpectedSecond; na

theorem NA0.tryChoices (cs : List (Char × Kind)) : NA0 (tryChoices cs) := by
  have := @NA0.accepted
  induction cs with
  | nil => unfold Lexer.tryChoices; na
  | cons c cs ih => unfold Lexer.tryChoices; na

theorem NA0.lexChoices (f : Char) (cs : List (Char × Kind)) (o : Option Kind) : NA0 (lexChoices f cs o) := by
  have := @NA0.presume
  have := @NA0.tryChoices
  have := @NA0.unexpectedSecond
  unfold Lexer.lexChoices; na

theorem NA0.lexDigraph (l r : Char) (k : Kind) : NA0 (lexDigraph l r k) := by
  have := @NA0.presume
  have := @NA0.accepted
  have := @NA0.unexpectedSecond
  unfold Lexer.lexDigraph; na

theorem NA0.lexColon : NA0 lexColon := by
  have := @NA0.presume
  have := @NA0.accepted
  unfold Lexer.lexColon; na

theorem NA0.lexEscape : NA0 lexEscape := by
  have := @NA0.presume
  have := @NA0.accepted
  have := @NA0.advanceWhile
  unfold Lexer.lexEscape; na

theorem NA0.lexEolHead : NA0 lexEolHead := by
  have := @NA0.presume
  have := @NA0.accepted
  unfold Lexer.lexEolHead; na

theorem NA0.lexEol : NA0 lexEol := by
  have := @NA0.lexEolHead
  unfold Lexer.lexEol; na

theorem NA0.stringLoop (d : List Char) (e : Bool) (k : ErrKind) (hk : k.isAssert = false) (cs : List Char) (esc : Bool) :
    NA0 (stringLoop d e k cs esc) := by
  have hf : NA0 (Lexer.failWith (mkError k) : M Unit) := NA0.failWith (fun s => mkError_notAssert _ hk s)
  induction cs generalizing esc with
  | nil => unfold Lexer.stringLoop; exact hf
  | cons c cs ih => unfold Lexer.stringLoop; na

theorem NA0.lexString : NA0 lexString := by
  have := @NA0.presumeStr
  have h1 := fun d e kind cs esc => @NA0.stringLoop d e (stringErrKind kind) (stringErrKind_notAssert kind) cs esc
  unfold Lexer.lexString
  apply NA0.getBind
  intro s0
  split
  · na
  · rename_i delim kind escapes _
    show NA0 (do
      Lexer.presumeStr delim
      let s1 ← get
      Lexer.stringLoop delim escapes (stringErrKind kind) s1.rest false
      Lexer.presumeStr delim
      Lexer.token kind)
    na

theorem NA0.lexOther (s : St) (c : Char) : NA0 (lexOther s c) := by
  have := @NA0.lexWhitespace
  have := @NA0.lexChoices
  have := @NA0.lexComment
  have := @NA0.lexSingle
  have := @NA0.lexDigraph
  have := @NA0.lexDelimiter
  have := @NA0.lexColon
  have := @NA0.lexEscape
  have := @NA0.lexEol
  have := @NA0.lexString
  have := @NA0.lexIdentifier
  unfold Lexer.lexOther; na

theorem NA0.lexNormal (c : Char) : NA0 (lexNormal c) := by
  have := @NA0.lexWhitespace
  have := @NA0.lexOther
  unfold Lexer.lexNormal; na

theorem NA0.lexInterpolation (t : Tok) (c : Char) : NA0 (lexInterpolation t c) := by
  have := @NA0.lexNormal
  have := @NA0.lexDouble
  unfold Lexer.lexInterpolation; na

theorem NA0.bodyLoop (cs : List Char) (n : Nat) : NA0 (bodyLoop cs n) := by
  induction cs generalizing n with
  | nil => unfold Lexer.bodyLoop; na
  | cons c cs ih => unfold Lexer.bodyLoop; na

theorem NA0.flushText : NA0 flushText := by unfold Lexer.flushText; na
theorem NA0.pushInterpolation : NA0 pushInterpolation := by unfold Lexer.pushInterpolation; na

theorem NA0.bodyTerminator (t : Terminator) : NA0 (bodyTerminator t) := by
  have := @NA0.lexSingle
  have := @NA0.lexDouble
  have := @NA0.pushInterpolation
  unfold Lexer.bodyTerminator; na

theorem NA0.lexBody : NA0 lexBody := by
  have := @NA0.bodyLoop
  have := @NA0.flushText
  have := @NA0.bodyTerminator
  unfold Lexer.lexBody; na


theorem NA0.dispatch (c : Char) : NA0 (Lexer.dispatch c) := by
  have := @NA0.lexInterpolation
  have := @NA0.lexBody
  have := @NA0.lexNormal
  unfold Lexer.dispatch; na


/-! ### the remaining functions end (or stay) idle -/

theorem utf8Len_eq_zero {cs : List Char} (h : utf8Len cs = 0) : cs = [] := by
  cases cs with
  | nil => rfl
  | cons c cs => have := Char.utf8Size_pos c; simp at h; omega

/-- with the invariant, "no bytes between token start and token end" means no token in progress -/
theorem idle_of_offsets {s : St} (hs : Inv src s) (h : s.tokEnd.offset - s.tokStart.offset = 0) : s.cur = [] := by
  have h1 := hs.tokEnd
  have h2 := hs.tokStart
  have h3 := hs.cur
  rw [h1, h2, posR_offset, posR_offset, h3] at h
  simp only [utf8Len_append] at h
  exact utf8Len_eq_zero (by omega)

theorem offsets_of_idle {s : St} (hs : Inv src s) (h : s.cur = []) : s.tokEnd = s.tokStart := by
  rw [hs.tokEnd, hs.tokStart, hs.cur, h]; rfl

theorem tryChoices_spec (cs : List (Char × Kind)) (s : St) (b : Bool) (s' : St) (hs : Inv src s)
    (h : Lexer.tryChoices cs s = .ok (b, s')) : (b = true → s'.cur = []) ∧ (b = false → s' = s) := by
  induction cs generalizing s with
  | nil => unfold Lexer.tryChoices at h; cases h; simp
  | cons c cs ih =>
    obtain ⟨second, thenK⟩ := c
    unfold Lexer.tryChoices at h
    obtain ⟨b1, s1, h1, h2⟩ := bind_ok h
    rcases accepted_spec h1 with ⟨rfl, _⟩ | ⟨rfl, rfl⟩
    · simp only [if_true] at h2
      obtain ⟨_, s2, h3, h4⟩ := bind_ok h2
      cases h4
      simp only [Lexer.token] at h3
      cases h3
      simp
    · simp only [Bool.false_eq_true, if_false] at h2
      exact ih _ hs h2

theorem EI.lexChoices (f : Char) (cs : List (Char × Kind)) (o : Option Kind) : EI src (lexChoices f cs o) := by
  refine ⟨Preserves.lexChoices f cs o, ?_⟩
  intro s a s' hs he
  unfold Lexer.lexChoices at he
  obtain ⟨_, s1, h1, h2⟩ := bind_ok he
  have hs1 := (Preserves.presume f).inv hs h1
  obtain ⟨b, s2, h3, h4⟩ := bind_ok h2
  have hs2 := (Preserves.tryChoices cs).inv hs1 h3
  have hsp := tryChoices_spec cs s1 b s2 hs1 h3
  cases b with
  | true =>
    simp only [if_true] at h4
    cases h4
    exact hsp.1 rfl
  | false =>
    simp only [Bool.false_eq_true, if_false] at h4
    cases o with
    | some k => simp only [Lexer.token] at h4; cases h4; rfl
    | none => exact EI.unexpectedSecond.ends _ _ _ hs2 h4

theorem EI.lexOther (s : St) (c : Char) : EI src (Lexer.lexOther s c) := by
  unfold Lexer.lexOther
  repeat' apply EI.ite
  all_goals first
    | exact EI.failWith (Preserves.failWith (fun _ h => mkError_spans _ h))
    | exact EI.lexChoices _ _ _
    | exact EI.lexComment
    | exact EI.lexSingle _
    | exact EI.lexDigraph _ _ _
    | exact EI.lexDelimiter _
    | exact EI.lexColon
    | exact EI.lexEscape
    | exact EI.lexEol
    | exact EI.lexString
    | exact EI.lexIdentifier
    | ei

theorem EI.lexNormal (c : Char) : EI src (Lexer.lexNormal c) := by
  have := @EI.lexWhitespace src
  have := @EI.lexOther src
  unfold Lexer.lexNormal; ei

theorem EI.lexInterpolation (t : Tok) (c : Char) (ht : Spans src t) : EI src (Lexer.lexInterpolation t c) := by
  have := @EI.lexNormal src
  have := @EI.lexDouble src
  have : EI src (MonadExcept.throw ({ kind := .unterminatedInterpolation, tok := t } : Err) : M Unit) :=
    EI.throw (Preserves.throw (e := { kind := .unterminatedInterpolation, tok := t }) ht)
  unfold Lexer.lexInterpolation; ei

theorem EI.flushText : EI src flushText := by
  refine ⟨Preserves.flushText, ?_⟩
  intro s a s' hs he
  unfold Lexer.flushText at he
  have he' : (if s.tokEnd.offset - s.tokStart.offset > 0 then Lexer.token Kind.text else Pure.pure () : M Unit) s = .ok (a, s') := he
  split at he'
  · simp only [Lexer.token] at he'; cases he'; rfl
  · cases he'
    exact idle_of_offsets hs (by omega)

theorem KI.pushInterpolation : KI src pushInterpolation := by
  refine ⟨Preserves.pushInterpolation, ?_⟩
  intro s a s' hs he hc
  unfold Lexer.pushInterpolation at he
  have he' : (match s.tokens with
      | t :: _ => Lexer.setFrame (fun s => { s.frame with interp := t :: s.interp })
      | [] => Lexer.failWith (internalError "no token") : M Unit) s = .ok (a, s') := he
  cases ht : s.tokens with
  | nil => simp [ht, Lexer.failWith] at he'
  | cons t ts =>
    simp only [ht] at he'
    exact (KI.setFrame _).keep _ _ _ hs he' hc

theorem KI.bodyTerminator (t : Terminator) : KI src (bodyTerminator t) := by
  unfold Lexer.bodyTerminator
  cases t with
  | endOfFile => exact KI.pure _
  | newline => exact (EI.lexSingle _).toKI
  | newlineCarriageReturn => exact (EI.lexDouble _).toKI
  | interpolation => exact (EI.bindLeft (EI.lexDouble _) (fun _ => KI.pushInterpolation)).toKI

theorem EI.lexBody : EI src lexBody := by
  unfold Lexer.lexBody
  apply EI.getBind
  intro s0 _
  apply EI.bindRight (Preserves.bodyLoop _ _)
  intro t
  exact EI.bindLeft EI.flushText (fun _ => KI.bodyTerminator t)

theorem EI.dispatch (c : Char) : EI src (Lexer.dispatch c) := by
  unfold Lexer.dispatch
  apply EI.getBind
  intro s0 h0
  split
  · rename_i istart _ hi
    exact EI.lexInterpolation _ _ (h0.interp _ (by simp [hi]))
  · exact EI.ite EI.lexBody (EI.lexNormal c)

theorem EI.lexDedent : EI src lexDedent := by unfold Lexer.lexDedent; ei

theorem KI.dedentUntil (ws : List Char) (st : List (List Char)) : KI src (dedentUntil ws st) := by
  induction st with
  | nil => unfold Lexer.dedentUntil; exact KI.pure _
  | cons c cs ih =>
    unfold Lexer.dedentUntil
    exact KI.ite (KI.pure _) (KI.bind EI.lexDedent.toKI (fun _ => ih))

theorem KI.dedentAll (st : List (List Char)) : KI src (dedentAll st) := by
  induction st with
  | nil => unfold Lexer.dedentAll; exact KI.pure _
  | cons c cs ih =>
    unfold Lexer.dedentAll
    exact KI.ite (KI.pure _) (KI.bind EI.lexDedent.toKI (fun _ => ih))

/-- `advance_while …; token` -/
theorem EI.whileToken (p : Char → Bool) (k : Kind) : EI src (do Lexer.advanceWhile p; Lexer.token k : M Unit) :=
  EI.bindRight (Preserves.advanceWhile p) (fun _ => EI.token k)

theorem KI.lexLineStart : KI src lexLineStart := by
  have hW := @EI.whileToken src
  unfold Lexer.lexLineStart
  apply KI.getBind
  intro s0 h0
  split
  · -- blank
    exact KI.ite (hW _ _).toKI (KI.pure _)
  · -- continue
    exact KI.ite (EI.bindRight (Preserves.advanceN _) (fun _ => EI.token _)).toKI (KI.pure _)
  · -- decrease
    exact KI.bind (KI.dedentUntil _ _) (fun _ => KI.ite (hW _ _).toKI (KI.pure _))
  · -- mixed
    exact (EI.bindRight (Preserves.advanceN _) (fun _ => EI.failWith (Preserves.failWith (fun _ h => mkError_spans _ h)))).toKI
  · -- inconsistent
    exact (EI.bindRight (Preserves.advanceN _) (fun _ => EI.failWith (Preserves.failWith (fun _ h => mkError_spans _ h)))).toKI
  · -- increase
    refine (EI.bindRight (Preserves.advanceWhile _) (fun _ => ?_)).toKI
    apply EI.getBind
    intro s1 _
    exact EI.ite (EI.token _) (EI.bindRight (Preserves.setFrame _) (fun _ => EI.bindLeft (EI.token _) (fun _ => KI.setFrame _)))

theorem KI.lineStartIfNeeded : KI src lineStartIfNeeded := by
  unfold Lexer.lineStartIfNeeded
  exact KI.getBind (fun _ _ => KI.ite KI.lexLineStart (KI.pure _))

/-- one round of the main loop keeps the lexer idle -/
theorem KI.stepMain : KI src stepMain := by
  unfold Lexer.stepMain
  apply KI.bind KI.lineStartIfNeeded
  intro _
  apply KI.getBind
  intro s1 _
  split
  · exact KI.pure _
  · exact KI.bind (EI.dispatch _).toKI (fun _ => KI.pure _)


/-! ### failing runs from an idle state: no assertion failure, now including the dedent family -/

structure NAI (src : List Char) {α : Type} (m : M α) : Prop where
  run : ∀ s e, Inv src s → s.cur = [] → m s = .error e → e.kind.isAssert = false

theorem NAI.of_NA0 {α : Type} {m : M α} (h : NA0 m) : NAI src m := ⟨fun s e _ _ he => h.run s e he⟩

theorem NAI.bind {α β : Type} {x : M α} {f : α → M β} (hx : NAI src x) (hk : KI src x) (hf : ∀ a, NAI src (f a)) :
    NAI src (x >>= f) := by
  constructor
  intro s e hs hc h
  rcases bind_err h with h1 | ⟨a, s', h1, h2⟩
  · exact hx.run _ _ hs hc h1
  · exact (hf a).run _ _ (hk.pres.inv hs h1) (hk.keep _ _ _ hs h1 hc) h2

theorem NAI.getBind {β : Type} {f : St → M β} (hf : ∀ s0, NAI src (f s0)) : NAI src (get >>= f) :=
  ⟨fun s e hs hc h => (hf s).run s e hs hc h⟩

theorem NAI.ite {α : Type} {c : Prop} [Decidable c] {x y : M α} (hx : NAI src x) (hy : NAI src y) :
    NAI src (if c then x else y) := by
  split <;> assumption

/-- `assert_eq!(self.current_token_length(), 0)` in `lex_dedent` holds whenever the lexer is idle -/
theorem NAI.lexDedent : NAI src lexDedent := by
  constructor
  intro s e hs hc he
  unfold Lexer.lexDedent at he
  have h0 : s.tokEnd.offset - s.tokStart.offset = 0 := by rw [offsets_of_idle hs hc]; omega
  have he' : (if s.tokEnd.offset - s.tokStart.offset ≠ 0 then Lexer.failWith (internalError "lex_dedent: token in progress")
      else (do
        Lexer.token Kind.dedent
        Lexer.setFrame (fun s => { s.frame with indentation := s.indentation.tail, recipeBodyPending := false, recipeBody := false }) : M Unit)) s
      = .error e := he
  simp only [h0, ne_eq, not_true_eq_false, if_false] at he'
  exact (NA0.bind (NA0.token _) (fun _ => NA0.setFrame _)).run _ _ he'

theorem NAI.dedentUntil (ws : List Char) (st : List (List Char)) : NAI src (dedentUntil ws st) := by
  induction st with
  | nil => unfold Lexer.dedentUntil; exact NAI.of_NA0 (NA0.pure _)
  | cons c cs ih =>
    unfold Lexer.dedentUntil
    exact NAI.ite (NAI.of_NA0 (NA0.pure _)) (NAI.bind NAI.lexDedent EI.lexDedent.toKI (fun _ => ih))

theorem NAI.dedentAll (st : List (List Char)) : NAI src (dedentAll st) := by
  induction st with
  | nil => unfold Lexer.dedentAll; exact NAI.of_NA0 (NA0.pure _)
  | cons c cs ih =>
    unfold Lexer.dedentAll
    exact NAI.ite (NAI.of_NA0 (NA0.pure _)) (NAI.bind NAI.lexDedent EI.lexDedent.toKI (fun _ => ih))

theorem NA0.whileToken (p : Char → Bool) (k : Kind) : NA0 (do Lexer.advanceWhile p; Lexer.token k : M Unit) :=
  NA0.bind (NA0.advanceWhile p) (fun _ => NA0.token k)

theorem NAI.lexLineStart : NAI src lexLineStart := by
  have hW := @NA0.whileToken
  unfold Lexer.lexLineStart
  apply NAI.getBind
  intro s0
  split
  · exact NAI.of_NA0 (NA0.ite (hW _ _) (NA0.pure _))
  · exact NAI.of_NA0 (NA0.ite (NA0.bind (NA0.advanceN _) (fun _ => NA0.token _)) (NA0.pure _))
  · exact NAI.bind (NAI.dedentUntil _ _) (KI.dedentUntil _ _) (fun _ => NAI.of_NA0 (NA0.ite (hW _ _) (NA0.pure _)))
  · exact NAI.of_NA0 (NA0.bind (NA0.advanceN _) (fun _ => NA0.failWith (fun s => mkError_notAssert _ rfl s)))
  · exact NAI.of_NA0 (NA0.bind (NA0.advanceN _) (fun _ => NA0.failWith (fun s => mkError_notAssert _ rfl s)))
  · refine NAI.of_NA0 (NA0.bind (NA0.advanceWhile _) (fun _ => NA0.getBind (fun _ => ?_)))
    exact NA0.ite (NA0.token _) (NA0.bind (NA0.setFrame _) (fun _ => NA0.bind (NA0.token _) (fun _ => NA0.setFrame _)))

theorem NAI.lineStartIfNeeded : NAI src lineStartIfNeeded := by
  unfold Lexer.lineStartIfNeeded
  exact NAI.getBind (fun _ => NAI.ite NAI.lexLineStart (NAI.of_NA0 (NA0.pure _)))

theorem NAI.stepMain : NAI src stepMain := by
  unfold Lexer.stepMain
  apply NAI.bind NAI.lineStartIfNeeded KI.lineStartIfNeeded
  intro _
  apply NAI.getBind
  intro s1
  split
  · exact NAI.of_NA0 (NA0.pure _)
  · exact NAI.of_NA0 (NA0.bind (NA0.dispatch _) (fun _ => NA0.pure _))

theorem KI.failWithAny {α : Type} {e : St → Err} (h : Preserves src (Lexer.failWith e : M α)) : KI src (Lexer.failWith e : M α) :=
  (EI.failWith h).toKI

theorem KI.mainLoop (n : Nat) : KI src (mainLoop n) := by
  induction n with
  | zero => unfold Lexer.mainLoop; exact KI.failWithAny (Preserves.failWith (fun _ h => fuelError_spans h))
  | succ n ih =>
    unfold Lexer.mainLoop
    exact KI.bind KI.stepMain (fun b => KI.ite ih (KI.pure _))

theorem NAI.mainLoop (n : Nat) : NAI src (mainLoop n) := by
  induction n with
  | zero =>
    unfold Lexer.mainLoop
    exact NAI.of_NA0 (NA0.failWith (fun s => by simp [fuelError, ErrKind.isAssert]))
  | succ n ih =>
    unfold Lexer.mainLoop
    exact NAI.bind NAI.stepMain KI.stepMain (fun b => NAI.ite ih (NAI.of_NA0 (NA0.pure _)))

theorem NAI.finish : NAI src finish := by
  unfold Lexer.finish
  apply NAI.getBind
  intro s0
  split
  · exact NAI.of_NA0 (NA0.throw rfl)
  · exact NAI.bind (NAI.dedentAll _) (KI.dedentAll _) (fun _ => NAI.of_NA0 (NA0.token _))

theorem NAI.tokenizeM (t : List Char) : NAI src (tokenizeM t) := by
  unfold Lexer.tokenizeM
  exact NAI.bind (NAI.mainLoop _) (KI.mainLoop _) (fun _ => NAI.finish)


/-! ### the indentation stack: empty string at the bottom, non-empty strings above -/

def StackOK (st : List (List Char)) : Prop := ∃ ne, st = ne ++ [[]] ∧ ∀ x ∈ ne, x ≠ []

theorem StackOK.mem_nil {st : List (List Char)} (h : StackOK st) : [] ∈ st := by
  obtain ⟨ne, rfl, _⟩ := h; simp

theorem StackOK.dropUntil {st : List (List Char)} (h : StackOK st) (ws : List Char) (hws : ws ∈ st) :
    StackOK (st.dropWhile (fun x => x != ws)) := by
  obtain ⟨ne, rfl, hne⟩ := h
  induction ne with
  | nil =>
    simp only [List.nil_append, List.mem_singleton] at hws
    subst hws
    exact ⟨[], by simp [List.dropWhile], by simp⟩
  | cons x ne ih =>
    by_cases hx : x = ws
    · subst hx
      simp only [List.cons_append, List.dropWhile_cons, bne_self_eq_false, Bool.false_eq_true, if_false]
      exact ⟨x :: ne, rfl, hne⟩
    · have hb : (x != ws) = true := by simpa using hx
      simp only [List.cons_append, List.dropWhile_cons, hb, if_true]
      apply ih
      · intro y hy; exact hne y (by simp [hy])
      · simp only [List.cons_append, List.mem_cons] at hws
        rcases hws with h | h
        · exact absurd h.symm hx
        · exact h

theorem StackOK.dropNonempty {st : List (List Char)} (h : StackOK st) :
    st.dropWhile (fun x => !x.isEmpty) = [[]] := by
  obtain ⟨ne, rfl, hne⟩ := h
  induction ne with
  | nil => simp [List.dropWhile]
  | cons x ne ih =>
    have hx : x ≠ [] := hne x (by simp)
    have hb : (!x.isEmpty) = true := by
      cases x with
      | nil => exact absurd rfl hx
      | cons _ _ => rfl
    simp only [List.cons_append, List.dropWhile_cons, hb, if_true]
    exact ih (fun y hy => hne y (by simp [hy]))

theorem lexDedent_ok {s s' : St} (h : Lexer.lexDedent s = .ok ((), s')) : s'.indentation = s.indentation.tail := by
  unfold Lexer.lexDedent at h
  have h' : (if s.tokEnd.offset - s.tokStart.offset ≠ 0 then Lexer.failWith (internalError "lex_dedent: token in progress")
      else (do
        Lexer.token Kind.dedent
        Lexer.setFrame (fun s => { s.frame with indentation := s.indentation.tail, recipeBodyPending := false, recipeBody := false }) : M Unit)) s
      = .ok ((), s') := h
  split at h'
  · simp [Lexer.failWith] at h'
  · obtain ⟨_, s1, h1, h2⟩ := bind_ok h'
    simp only [Lexer.token] at h1
    cases h1
    unfold Lexer.setFrame at h2
    split at h2
    · cases h2; simp [St.setFrame, St.frame]
    · cases h2

theorem dedentUntil_ok (ws : List Char) (st : List (List Char)) (s s' : St)
    (h : Lexer.dedentUntil ws st s = .ok ((), s')) (hst : s.indentation = st) :
    s'.indentation = st.dropWhile (fun x => x != ws) := by
  induction st generalizing s with
  | nil => unfold Lexer.dedentUntil at h; cases h; simp [hst]
  | cons top below ih =>
    unfold Lexer.dedentUntil at h
    by_cases ht : top = ws
    · simp only [ht, if_true] at h
      cases h
      simp [hst, ht]
    · simp only [ht, if_false] at h
      obtain ⟨_, s1, h1, h2⟩ := bind_ok h
      have h3 := lexDedent_ok h1
      have hb : (top != ws) = true := by simpa using ht
      simp only [List.dropWhile_cons, hb, if_true]
      exact ih s1 h2 (by rw [h3, hst]; rfl)

theorem dedentAll_ok (st : List (List Char)) (s s' : St)
    (h : Lexer.dedentAll st s = .ok ((), s')) (hst : s.indentation = st) :
    s'.indentation = st.dropWhile (fun x => !x.isEmpty) := by
  induction st generalizing s with
  | nil => unfold Lexer.dedentAll at h; cases h; simp [hst]
  | cons top below ih =>
    unfold Lexer.dedentAll at h
    by_cases ht : top.isEmpty = true
    · simp only [ht, if_true] at h
      cases h
      simp [hst, ht]
    · simp only [ht, if_false, Bool.false_eq_true] at h
      obtain ⟨_, s1, h1, h2⟩ := bind_ok h
      have h3 := lexDedent_ok h1
      have hb : (!top.isEmpty) = true := by simpa using ht
      simp only [List.dropWhile_cons, hb, if_true]
      exact ih s1 h2 (by rw [h3, hst]; rfl)

/-- what `advance_while` leaves in the in-progress lexeme -/
theorem advanceWhileAux_cur (p : Char → Bool) (cs : List Char) (s s' : St)
    (h : Lexer.advanceWhileAux p cs s = .ok ((), s')) (hr : s.rest = cs) :
    s'.cur = (cs.takeWhile p).reverse ++ s.cur := by
  induction cs generalizing s with
  | nil => unfold Lexer.advanceWhileAux at h; cases h; simp
  | cons c cs ih =>
    unfold Lexer.advanceWhileAux at h
    by_cases hp : p c = true
    · simp only [hp, if_true] at h
      obtain ⟨_, s1, h1, h2⟩ := bind_ok h
      unfold Lexer.advance at h1
      rw [hr] at h1
      simp only [Except.ok.injEq, Prod.mk.injEq, true_and] at h1
      subst h1
      have := ih _ h2 rfl
      simp only [List.takeWhile_cons, hp, if_true, List.reverse_cons, List.append_assoc, List.singleton_append]
      exact this
    · simp only [hp, if_false, Bool.false_eq_true] at h
      cases h
      simp [List.takeWhile_cons, hp]

theorem advanceWhile_cur (p : Char → Bool) (s s' : St) (h : Lexer.advanceWhile p s = .ok ((), s')) :
    s'.cur = (s.rest.takeWhile p).reverse ++ s.cur :=
  advanceWhileAux_cur p s.rest s s' h rfl

/-- in the `Increase` case the leading white space is not empty -/
theorem increase_nonempty (s : St) (hst : StackOK s.indentation) (h : (classify s).1 = .increase) :
    s.rest.takeWhile isBlankChar ≠ [] := by
  intro hws
  have hmem := hst.mem_nil
  unfold classify at h
  simp only [hws] at h
  by_cases h1 : ((s.rest.dropWhile isBlankChar).head? = some '\n' || ['\r', '\n'].isPrefixOf (s.rest.dropWhile isBlankChar)
      || (s.rest.dropWhile isBlankChar).isEmpty) = true
  · simp [h1] at h
  · simp only [h1, Bool.false_eq_true, if_false] at h
    by_cases h2 : ([] : List Char) = topIndentation s
    · simp [h2] at h
    · simp only [h2, if_false] at h
      simp [hmem] at h

/-- `lex_line_start` keeps the stack well-shaped -/
theorem lexLineStart_stack (s s' : St) (hc : s.cur = []) (hst : StackOK s.indentation)
    (h : Lexer.lexLineStart s = .ok ((), s')) : StackOK s'.indentation := by
  unfold Lexer.lexLineStart at h
  have h' : (match (classify s).1 with
      | .blank => if !(classify s).2.isEmpty then (do Lexer.advanceWhile isBlankChar; Lexer.token .whitespace) else Pure.pure ()
      | .continue_ => if !(topIndentation s).isEmpty then (do Lexer.advanceN (topIndentation s).length; Lexer.token .whitespace) else Pure.pure ()
      | .decrease => do
        Lexer.dedentUntil (classify s).2 s.indentation
        if !(classify s).2.isEmpty then do
          Lexer.advanceWhile isBlankChar
          Lexer.token .whitespace
        else Pure.pure ()
      | .mixed => do
        Lexer.advanceN (classify s).2.length
        Lexer.failWith (mkError .mixedLeadingWhitespace)
      | .inconsistent => do
        Lexer.advanceN (classify s).2.length
        Lexer.failWith (mkError .inconsistentLeadingWhitespace)
      | .increase => do
        Lexer.advanceWhile isBlankChar
        let s1 ← get
        if !s1.delims.isEmpty then Lexer.token .whitespace
        else do
          Lexer.setFrame (fun s2 => { s2.frame with indentation := s2.cur.reverse :: s2.indentation })
          Lexer.token .indent
          Lexer.setFrame (fun s2 => if s2.recipeBodyPending then { s2.frame with recipeBody := true } else s2.frame) : M Unit) s
      = .ok ((), s') := h
  have hW : KS (do Lexer.advanceWhile isBlankChar; Lexer.token .whitespace : M Unit) :=
    KS.bind (KS.advanceWhile _) (fun _ => KS.token _)
  cases hcl : (classify s).1 with
  | blank =>
    simp only [hcl] at h'
    rw [(KS.ite hW (KS.pure _)).run _ _ _ h']; exact hst
  | continue_ =>
    simp only [hcl] at h'
    rw [(KS.ite (KS.bind (KS.advanceN _) (fun _ => KS.token _)) (KS.pure _)).run _ _ _ h']; exact hst
  | decrease =>
    simp only [hcl] at h'
    obtain ⟨_, s1, h1, h2⟩ := bind_ok h'
    have hd := dedentUntil_ok _ _ _ _ h1 rfl
    rw [(KS.ite hW (KS.pure _)).run _ _ _ h2, hd]
    apply hst.dropUntil
    -- the classification `Decrease` means the white space is on the stack
    unfold classify at hcl
    simp only at hcl
    split at hcl
    · cases hcl
    split at hcl
    · cases hcl
    split at hcl
    · rename_i hcont
      have : (classify s).2 = s.rest.takeWhile isBlankChar := rfl
      rw [this]
      simpa using hcont
    split at hcl
    · cases hcl
    split at hcl
    · cases hcl
    split at hcl
    · cases hcl
    split at hcl <;> cases hcl
  | mixed =>
    simp only [hcl] at h'
    obtain ⟨_, s1, _, h2⟩ := bind_ok h'
    simp [Lexer.failWith] at h2
  | inconsistent =>
    simp only [hcl] at h'
    obtain ⟨_, s1, _, h2⟩ := bind_ok h'
    simp [Lexer.failWith] at h2
  | increase =>
    simp only [hcl] at h'
    obtain ⟨_, s1, h1, h2⟩ := bind_ok h'
    have hcur := advanceWhile_cur _ _ _ h1
    have hind := (KS.advanceWhile isBlankChar).run _ _ _ h1
    rw [hc, List.append_nil] at hcur
    have hne := increase_nonempty s hst hcl
    have h2' : (if (!s1.delims.isEmpty) = true then Lexer.token .whitespace
        else do
          Lexer.setFrame (fun s2 => { s2.frame with indentation := s2.cur.reverse :: s2.indentation })
          Lexer.token .indent
          Lexer.setFrame (fun s2 => if s2.recipeBodyPending then { s2.frame with recipeBody := true } else s2.frame) : M Unit) s1
        = .ok ((), s') := h2
    split at h2'
    · rw [(KS.token _).run _ _ _ h2', hind]; exact hst
    · obtain ⟨_, s2, h3, h4⟩ := bind_ok h2'
      have hrest : KS (do
          Lexer.token .indent
          Lexer.setFrame (fun s2 => if s2.recipeBodyPending then { s2.frame with recipeBody := true } else s2.frame) : M Unit) := by
        refine KS.bind (KS.token _) (fun _ => KS.setFrame _ (fun s => ?_))
        split <;> rfl
      rw [hrest.run _ _ _ h4]
      unfold Lexer.setFrame at h3
      split at h3
      · cases h3
        simp only [St.setFrame, St.frame]
        obtain ⟨ne, hne', hall⟩ := hst
        refine ⟨s1.cur.reverse :: ne, by rw [hind, hne']; rfl, ?_⟩
        intro x hx
        simp only [List.mem_cons] at hx
        rcases hx with rfl | hx
        · rw [hcur]; simpa using hne
        · exact hall x hx
      · cases h3


/-! ### the main loop and the end of `tokenize` -/

/-- loop invariant of `tokenize` -/
structure LoopInv (src : List Char) (s : St) : Prop where
  inv : Inv src s
  idle : s.cur = []
  stack : StackOK s.indentation

theorem lineStartIfNeeded_stack (s s' : St) (hc : s.cur = []) (hst : StackOK s.indentation)
    (h : Lexer.lineStartIfNeeded s = .ok ((), s')) : StackOK s'.indentation := by
  unfold Lexer.lineStartIfNeeded at h
  have h' : (if s.tokStart.column = 0 then Lexer.lexLineStart else Pure.pure () : M Unit) s = .ok ((), s') := h
  split at h'
  · exact lexLineStart_stack s s' hc hst h'
  · cases h'; exact hst

theorem stepMain_loop (s : St) (b : Bool) (s' : St) (hl : LoopInv src s) (h : Lexer.stepMain s = .ok (b, s')) :
    LoopInv src s' ∧ (b = false → s'.rest = []) := by
  have hinv := (Preserves.stepMain (src := src)).inv hl.inv h
  have hidle := KI.stepMain.keep _ _ _ hl.inv h hl.idle
  unfold Lexer.stepMain at h
  obtain ⟨_, s1, h1, h2⟩ := bind_ok h
  have hst1 := lineStartIfNeeded_stack s s1 hl.idle hl.stack h1
  have h2' : (match s1.rest with
      | [] => (Pure.pure false : M Bool)
      | first :: _ => do Lexer.dispatch first; Pure.pure true) s1 = .ok (b, s') := h2
  cases hr : s1.rest with
  | nil =>
    simp only [hr] at h2'
    cases h2'
    exact ⟨⟨hinv, hidle, hst1⟩, fun _ => hr⟩
  | cons first tl =>
    simp only [hr] at h2'
    obtain ⟨_, s2, h3, h4⟩ := bind_ok h2'
    cases h4
    refine ⟨⟨hinv, hidle, ?_⟩, fun hb => by cases hb⟩
    rw [(KS.dispatch first).run _ _ _ h3]
    exact hst1

theorem mainLoop_loop (n : Nat) (s s' : St) (hl : LoopInv src s) (h : Lexer.mainLoop n s = .ok ((), s')) :
    LoopInv src s' ∧ s'.rest = [] := by
  induction n generalizing s with
  | zero => unfold Lexer.mainLoop at h; simp [Lexer.failWith] at h
  | succ n ih =>
    unfold Lexer.mainLoop at h
    obtain ⟨b, s1, h1, h2⟩ := bind_ok h
    have hs := stepMain_loop s b s1 hl h1
    cases b with
    | true => simp only [if_true] at h2; exact ih s1 hs.1 h2
    | false =>
      simp only [Bool.false_eq_true, if_false] at h2
      cases h2
      exact ⟨hs.1, hs.2 rfl⟩

theorem finish_end (s s' : St) (hl : LoopInv src s) (hr : s.rest = []) (h : Lexer.finish s = .ok ((), s')) :
    Inv src s' ∧ s'.cur = [] ∧ s'.indentation = [[]] ∧ s'.rest = [] := by
  have hinv := (Preserves.finish (src := src)).inv hl.inv h
  have hle := Shrinks.finish.le h
  have hrest : s'.rest = [] := by
    rw [hr] at hle
    cases hs : s'.rest with
    | nil => rfl
    | cons c cs => rw [hs] at hle; simp at hle
  unfold Lexer.finish at h
  have h' : (match s.interp with
      | istart :: _ => (MonadExcept.throw ({ kind := .unterminatedInterpolation, tok := istart } : Err) : M Unit)
      | [] => do Lexer.dedentAll s.indentation; Lexer.token .eof) s = .ok ((), s') := h
  cases hi : s.interp with
  | cons i is => simp only [hi] at h'; cases h'
  | nil =>
    simp only [hi] at h'
    obtain ⟨_, s1, h1, h2⟩ := bind_ok h'
    have hd := dedentAll_ok _ _ _ h1 rfl
    rw [hl.stack.dropNonempty] at hd
    simp only [Lexer.token] at h2
    cases h2
    exact ⟨hinv, rfl, hd, hrest⟩

theorem initial_loop (src : List Char) : LoopInv src (initial src) :=
  ⟨initial_inv src, rfl, ⟨[], rfl, by simp⟩⟩

/-- **None of the lexer's `assert_eq!`s can fail**, on any text: neither the one in `lex_dedent`
(`current_token_length() == 0`) nor the three at the end of `tokenize`
(`token_start == token_end`, `token_start == src.len()`, `indentation.len() == 1`). -/
theorem tokenize_asserts_hold (src : List Char) (e : Err) (h : tokenize src = .error e) : e.kind.isAssert = false := by
  unfold tokenize at h
  split at h
  · rename_i e' heq
    simp only [Except.error.injEq] at h
    subst h
    exact (NAI.tokenizeM src).run _ _ (initial_inv src) rfl heq
  · rename_i s heq
    exfalso
    unfold Lexer.tokenizeM at heq
    obtain ⟨_, s1, h1, h2⟩ := bind_ok heq
    have hm := mainLoop_loop _ _ _ (initial_loop src) h1
    have hf := finish_end s1 s hm.1 hm.2 h2
    obtain ⟨hinv, hidle, hind, hrest⟩ := hf
    have he := offsets_of_idle hinv hidle
    have hlen : s.tokStart.offset = utf8Len src := by
      rw [hinv.tokStart, posR_offset]
      have h3 := hinv.cur
      rw [hidle, List.nil_append] at h3
      have h4 := hinv.split
      rw [hrest, List.append_nil] at h4
      rw [h4, utf8Len_reverse, h3]
    split at h
    · rename_i hne; exact hne (by rw [he])
    split at h
    · rename_i hne; exact hne hlen
    split at h
    · rename_i hne; exact hne (by rw [hind]; rfl)
    · cases h

end Just.Lexer
