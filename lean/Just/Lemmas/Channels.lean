/-
Lemmas about `Just.Channels`: what `evaluate_parameters` binds and pushes, and what the child's
environment holds for a name the parameter scope exports.
-/
import Just.Model.Channels
import Just.Props.C08
namespace Just.Channels
open Just.Args Just.EnvExport Just.Props.C08

/-- every word is consumed: there is a variadic parameter or no more words than parameters
(what `ArgumentParser::parse_group` guarantees: C05 `group_arity`) -/
def Fits (qs : List NParam) (ws : List String) : Prop :=
  ws.length ≤ qs.length ∨ qs.any (fun q => q.p.isVariadic) = true

theorem evalParams_names : ∀ (qs : List NParam) (ws bound : List String) (sc : Scope) (pos : List String),
    evalParams qs ws bound = some (sc, pos) → sc.map (·.name) = qs.map (·.name) ∧
      sc.map (·.exported) = qs.map (·.exported) ∧ sc.all (fun b => !b.constant) = true := by
  intro qs
  induction qs with
  | nil => intro ws bound sc pos h; simp [evalParams] at h; simp [h.1]
  | cons q qs ih =>
    intro ws bound sc pos h
    cases ws with
    | nil =>
      simp only [evalParams] at h
      split at h
      · simp only [Option.map_eq_some_iff] at h
        obtain ⟨⟨sc', pos'⟩, h1, h2⟩ := h
        have := ih _ _ _ _ h1
        simp only [Prod.mk.injEq] at h2
        obtain ⟨rfl, rfl⟩ := h2
        simp [mkBinding, this.1, this.2.1, this.2.2]
      · split at h
        · simp only [Option.map_eq_some_iff] at h
          obtain ⟨⟨sc', pos'⟩, h1, h2⟩ := h
          have := ih _ _ _ _ h1
          simp only [Prod.mk.injEq] at h2
          obtain ⟨rfl, rfl⟩ := h2
          simp [mkBinding, this.1, this.2.1, this.2.2]
        · cases h
    | cons w ws =>
      simp only [evalParams] at h
      split at h
      all_goals
        simp only [Option.map_eq_some_iff] at h
        obtain ⟨⟨sc', pos'⟩, h1, h2⟩ := h
        have := ih _ _ _ _ h1
        simp only [Prod.mk.injEq] at h2
        obtain ⟨rfl, rfl⟩ := h2
        simp [mkBinding, this.1, this.2.1, this.2.2]

/-- the values bound are the ones `Args.bindArgs` (C05) computes -/
theorem evalParams_values : ∀ (qs : List NParam) (ws bound : List String) (sc : Scope) (pos : List String),
    evalParams qs ws bound = some (sc, pos) →
      bindArgs (qs.map (·.p)) ws bound = .ok (bound ++ sc.map (·.value)) := by
  intro qs
  induction qs with
  | nil => intro ws bound sc pos h; simp [evalParams] at h; simp [bindArgs, h.1]
  | cons q qs ih =>
    intro ws bound sc pos h
    cases ws with
    | nil =>
      simp only [evalParams] at h
      split at h
      · rename_i d hd
        simp only [Option.map_eq_some_iff] at h
        obtain ⟨⟨sc', pos'⟩, h1, h2⟩ := h
        have := ih _ _ _ _ h1
        simp only [Prod.mk.injEq] at h2
        obtain ⟨rfl, rfl⟩ := h2
        simp [bindArgs, hd, this, mkBinding]
      · rename_i hd
        split at h
        · rename_i hk
          simp only [Option.map_eq_some_iff] at h
          obtain ⟨⟨sc', pos'⟩, h1, h2⟩ := h
          have := ih _ _ _ _ h1
          simp only [Prod.mk.injEq] at h2
          obtain ⟨rfl, rfl⟩ := h2
          simp [bindArgs, hd, hk, this, mkBinding]
        · cases h
    | cons w ws =>
      simp only [evalParams] at h
      split at h
      all_goals
        rename_i hv
        simp only [Option.map_eq_some_iff] at h
        obtain ⟨⟨sc', pos'⟩, h1, h2⟩ := h
        have := ih _ _ _ _ h1
        simp only [Prod.mk.injEq] at h2
        obtain ⟨rfl, rfl⟩ := h2
        simp [bindArgs, hv, this, mkBinding]

/-- the positional vector starts with the words given, unchanged and in order; what follows are
the defaults of omitted parameters -/
theorem evalParams_positional : ∀ (qs : List NParam) (ws bound : List String) (sc : Scope) (pos : List String),
    Fits qs ws → evalParams qs ws bound = some (sc, pos) → ∃ tail, pos = ws ++ tail := by
  intro qs
  induction qs with
  | nil =>
    intro ws bound sc pos hf h
    simp [evalParams] at h
    rcases hf with hf | hf
    · have : ws = [] := by simpa using hf
      exact ⟨[], by simp [this, h.2]⟩
    · simp at hf
  | cons q qs ih =>
    intro ws bound sc pos hf h
    cases ws with
    | nil => exact ⟨pos, by simp⟩
    | cons w ws =>
      simp only [evalParams] at h
      split at h
      · simp only [Option.map_eq_some_iff] at h
        obtain ⟨⟨sc', pos'⟩, _, h2⟩ := h
        simp only [Prod.mk.injEq] at h2
        exact ⟨pos', h2.2.symm⟩
      · rename_i hv
        simp only [Option.map_eq_some_iff] at h
        obtain ⟨⟨sc', pos'⟩, h1, h2⟩ := h
        simp only [Prod.mk.injEq] at h2
        have hf' : Fits qs ws := by
          rcases hf with hf | hf
          · left; simpa using hf
          · right; simpa [hv] using hf
        obtain ⟨tail, ht⟩ := ih _ _ _ _ hf' h1
        exact ⟨tail, by rw [← h2.2, ht]; rfl⟩

/-- a word given for a singular parameter (all parameters before it singular too) is bound to
that parameter unchanged -/
theorem evalParams_singular : ∀ (qs : List NParam) (ws bound : List String) (sc : Scope) (pos : List String)
    (i : Nat) (hq : i < qs.length) (hw : i < ws.length),
    evalParams qs ws bound = some (sc, pos) →
    (∀ j (hj : j < qs.length), j ≤ i → (qs[j]).p.isVariadic = false) →
    ∃ hs : i < sc.length, sc[i] = mkBinding qs[i] ws[i] := by
  intro qs
  induction qs with
  | nil => intro ws bound sc pos i hq; simp at hq
  | cons q qs ih =>
    intro ws bound sc pos i hq hw h hsing
    cases ws with
    | nil => simp at hw
    | cons w ws =>
      have hq0 : q.p.isVariadic = false := hsing 0 (by simp) (by omega)
      simp only [evalParams, hq0] at h
      simp only [Bool.false_eq_true, if_false, Option.map_eq_some_iff] at h
      obtain ⟨⟨sc', pos'⟩, h1, h2⟩ := h
      simp only [Prod.mk.injEq] at h2
      obtain ⟨rfl, rfl⟩ := h2
      cases i with
      | zero => exact ⟨by simp, by simp⟩
      | succ i =>
        have := ih ws _ sc' pos' i (by simpa using hq) (by simpa using hw) h1
          (fun j hj hji => by
            have := hsing (j + 1) (by simpa using hj) (by omega)
            simpa using this)
        obtain ⟨hs, he⟩ := this
        exact ⟨by simpa using hs, by simpa using he⟩

/-- the words left for a variadic parameter are bound to it joined by single spaces -/
theorem evalParams_variadic : ∀ (qs : List NParam) (ws bound : List String) (sc : Scope) (pos : List String)
    (i : Nat) (hq : i < qs.length) (_hw : i < ws.length),
    evalParams qs ws bound = some (sc, pos) →
    (∀ j (hj : j < qs.length), j < i → (qs[j]).p.isVariadic = false) →
    (qs[i]).p.isVariadic = true →
    ∃ hs : i < sc.length, sc[i] = mkBinding qs[i] (joinWith " " (ws.drop i)) := by
  intro qs
  induction qs with
  | nil => intro ws bound sc pos i hq; simp at hq
  | cons q qs ih =>
    intro ws bound sc pos i hq hw h hsing hvar
    cases ws with
    | nil => simp at hw
    | cons w ws =>
      cases i with
      | zero =>
        have hq0 : q.p.isVariadic = true := by simpa using hvar
        simp only [evalParams, hq0, if_true, Option.map_eq_some_iff] at h
        obtain ⟨⟨sc', pos'⟩, h1, h2⟩ := h
        simp only [Prod.mk.injEq] at h2
        obtain ⟨rfl, rfl⟩ := h2
        exact ⟨by simp, by simp⟩
      | succ i =>
        have hq0 : q.p.isVariadic = false := hsing 0 (by simp) (by omega)
        simp only [evalParams, hq0] at h
        simp only [Bool.false_eq_true, if_false, Option.map_eq_some_iff] at h
        obtain ⟨⟨sc', pos'⟩, h1, h2⟩ := h
        simp only [Prod.mk.injEq] at h2
        obtain ⟨rfl, rfl⟩ := h2
        have := ih ws _ sc' pos' i (by simpa using hq) (by simpa using hw) h1
          (fun j hj hji => by
            have := hsing (j + 1) (by simpa using hj) (by omega)
            simpa using this)
          (by simpa using hvar)
        obtain ⟨hs, he⟩ := this
        exact ⟨by simpa using hs, by simpa using he⟩

theorem exportedIn_none (se : Bool) (n : String) : ∀ (sc : Scope), n ∉ sc.map (·.name) →
    exportedIn se sc n = none := by
  intro sc
  induction sc with
  | nil => intro _; rfl
  | cons c rest ih =>
    intro hn
    simp only [List.map_cons, List.mem_cons, not_or] at hn
    have hne : ¬ c.name = n := fun h => hn.1 h.symm
    simp [exportedIn, ih hn.2, hne]

/-- in a scope without duplicate names, an exported binding is what the scope exports for its name -/
theorem exportedIn_of_mem (se : Bool) : ∀ (sc : Scope), (sc.map (·.name)).Nodup →
    ∀ b ∈ sc, isExported se b = true → exportedIn se sc b.name = some b.value := by
  intro sc
  induction sc with
  | nil => intro _ b hb; cases hb
  | cons a rest ih =>
    intro hnd b hb hexp
    simp only [List.map_cons, List.nodup_cons] at hnd
    simp only [exportedIn]
    rcases List.mem_cons.mp hb with rfl | hb
    · simp [exportedIn_none se b.name rest hnd.1, hexp]
    · rw [ih hnd.2 b hb hexp]

theorem exportScopes_append_last (se : Bool) (un : List String) (s : Scope) :
    ∀ (outer : List Scope) (e : Env), exportScopes se un (outer ++ [s]) e =
      exportBindings se s (removeAll un (exportScopes se un outer e)) := by
  intro outer
  induction outer with
  | nil => intro e; rfl
  | cons o rest ih => intro e; simp only [List.cons_append, exportScopes]; rw [ih]

/-- whatever just's own environment, the `.env` file, the enclosing scopes and the `unexport`
list hold: a name the parameter scope exports reaches the child with the parameter's value -/
theorem recipeEnv_param (base : Env) (dotenv : List (String × String)) (se : Bool)
    (un : List String) (outer : List Scope) (params : Scope) (n v : String)
    (h : exportedIn se params n = some v) :
    recipeEnv base dotenv se un outer params n = some v := by
  unfold recipeEnv childEnv
  have : (outer ++ [params, []]).dropLast = outer ++ [params] := by
    have : outer ++ [params, []] = (outer ++ [params]) ++ [[]] := by simp
    rw [this, List.dropLast_concat]
  rw [this, exportScopes_append_last, exportBindings_eq, h]

end Just.Channels
