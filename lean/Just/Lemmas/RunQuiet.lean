import Just.Lemmas.RunSpec
/-
`--quiet`, `--verbose` and `set quiet` change what is echoed, never what is executed or how the run ends.
-/
namespace Just.Run

/-- the events of a run without the echoed lines -/
def noEcho : List Ev → List Ev
  | [] => []
  | .echo _ :: es => noEcho es
  | e :: es => e :: noEcho es

@[simp] theorem noEcho_nil : noEcho [] = [] := rfl

@[simp] theorem noEcho_append (a b : List Ev) : noEcho (a ++ b) = noEcho a ++ noEcho b := by
  induction a with
  | nil => rfl
  | cons e es ih => cases e <;> simp [noEcho, ih]

theorem noEcho_map_echo (ls : List String) : noEcho (ls.map Ev.echo) = [] := by
  induction ls with
  | nil => rfl
  | cons l ls ih => simp [noEcho, ih]

theorem countPrompts_noEcho (es : List Ev) : countPrompts (noEcho es) = countPrompts es := by
  induction es with
  | nil => rfl
  | cons e es ih => cases e <;> simp [noEcho, countPrompts, ih]

theorem countPrompts_eq_of_noEcho {a b : List Ev} (h : noEcho a = noEcho b) : countPrompts a = countPrompts b := by
  rw [← countPrompts_noEcho a, ← countPrompts_noEcho b, h]

/-- two configurations that differ at most in `--quiet`, `--verbose` and `set quiet` -/
structure SameButEcho (cfg cfg' : Cfg) : Prop where
  dry : cfg'.dryRun = cfg.dryRun
  yes : cfg'.yes = cfg.yes
  noDeps : cfg'.noDeps = cfg.noDeps

/-- same outcome, same events apart from echoed lines -/
def Rel {α : Type} (r' r : Res α) : Prop := r'.2 = r.2 ∧ noEcho r'.1 = noEcho r.1

theorem Rel.refl' {α : Type} (r : Res α) : Rel r r := ⟨rfl, rfl⟩

theorem noEcho_echoIf (b : Bool) (cmd : String) : noEcho (if b = true then [Ev.echo cmd] else []) = [] := by
  split <;> simp [noEcho]

/-- destructure a relation between two results -/
theorem Rel.cases {α : Type} {r' r : Res α} (hr : Rel r' r) :
    ∃ e' e res, r' = (e', res) ∧ r = (e, res) ∧ noEcho e' = noEcho e := by
  obtain ⟨e', res'⟩ := r'
  obtain ⟨e, res⟩ := r
  obtain ⟨h1, h2⟩ := hr
  simp only at h1 h2
  subst h1
  exact ⟨e', e, res', rfl, rfl, h2⟩

variable {cfg cfg' : Cfg} (h : SameButEcho cfg cfg')
include h

theorem evalA_same (env : Env) (ps : Args) (a : AExpr) : evalA cfg' env ps a = evalA cfg env ps a := by
  induction a with
  | lit s => rfl
  | param i => rfl
  | cat a b iha ihb => simp only [evalA, iha, ihb]
  | bt c => simp only [evalA, h.dry]

theorem evalList_same (env : Env) (ps : Args) (as : List AExpr) : evalList cfg' env ps as = evalList cfg env ps as := by
  induction as with
  | nil => rfl
  | cons a as ih => simp only [evalList, evalA_same h, ih]

theorem bindParams_same (env : Env) (params : List (Option AExpr)) : ∀ ws bound,
    bindParams cfg' env params ws bound = bindParams cfg env params ws bound := by
  induction params with
  | nil => intro ws bound; rfl
  | cons p ps ih =>
    intro ws bound
    cases ws with
    | cons w ws => simp only [bindParams, ih]
    | nil =>
      cases p with
      | none => rfl
      | some d =>
        simp only [bindParams]
        rw [evalA_same h env bound d]
        cases evalA cfg env bound d with
        | mk e1 res =>
          cases res with
          | error e => rfl
          | ok v => simp only [ih]

theorem evalLines_same (env : Env) (ps : Args) (ls : List Line) : evalLines cfg' env ps ls = evalLines cfg env ps ls := by
  induction ls with
  | nil => rfl
  | cons l ls ih => simp only [evalLines, evalList_same h, ih]

theorem runCmd_rel (env : Env) (ri : Nat) (r : Recipe) (given : Args) (l : Line) (cmd : String) :
    Rel (runCmd cfg' env ri r given l cmd) (runCmd cfg env ri r given l cmd) := by
  unfold runCmd Rel
  simp only [h.dry]
  by_cases hd : cfg.dryRun = true
  · simp only [hd, if_true]
    exact ⟨trivial, by rw [noEcho_echoIf, noEcho_echoIf]⟩
  · simp only [hd, if_false, Bool.false_eq_true]
    cases (env.status cmd).toErr with
    | none => exact ⟨by simp, by simp only [noEcho_append, noEcho_echoIf]⟩
    | some e => exact ⟨by simp, by simp only [noEcho_append, noEcho_echoIf]⟩

theorem runLines_rel (env : Env) (ri : Nat) (r : Recipe) (given ps : Args) (ls : List Line) :
    Rel (runLines cfg' env ri r given ps ls) (runLines cfg env ri r given ps ls) := by
  induction ls with
  | nil => exact Rel.refl' _
  | cons l ls ih =>
    simp only [runLines, evalList_same h]
    cases hev : evalList cfg env ps l.frags with
    | mk e1 res =>
      cases res with
      | error e => exact Rel.refl' _
      | ok parts =>
        simp only
        by_cases hc : concat parts = ""
        · simp only [hc, if_true]
          obtain ⟨h1, h2⟩ := ih
          exact ⟨h1, by simp [h2]⟩
        · simp only [hc, if_false]
          have hcmd := runCmd_rel h env ri r given l (concat parts)
          cases hc' : runCmd cfg' env ri r given l (concat parts) with
          | mk e2' r2' =>
            cases hc0 : runCmd cfg env ri r given l (concat parts) with
            | mk e2 r2 =>
              rw [hc', hc0] at hcmd
              obtain ⟨hr, he⟩ := hcmd
              simp only at hr he
              subst hr
              cases r2' with
              | error e => exact ⟨rfl, by simp [he]⟩
              | ok u =>
                obtain ⟨h1, h2⟩ := ih
                exact ⟨h1, by simp [he, h2]⟩

theorem runScript_rel (env : Env) (ri : Nat) (r : Recipe) (given ps : Args) :
    Rel (runScript cfg' env ri r given ps) (runScript cfg env ri r given ps) := by
  unfold runScript
  simp only [evalLines_same h, h.dry]
  cases hev : evalLines cfg env ps r.body with
  | mk e1 res =>
    cases res with
    | error e => exact Rel.refl' _
    | ok lines =>
      simp only
      have hecho : ∀ (b : Bool), noEcho (if b = true then lines.map Ev.echo else []) = [] := by
        intro b; split <;> simp [noEcho_map_echo]
      by_cases hd : cfg.dryRun = true
      · simp only [hd, if_true]
        exact ⟨rfl, by simp only [noEcho_append, hecho]⟩
      · simp only [hd, if_false, Bool.false_eq_true]
        cases (env.status (joinLines lines)).toErr with
        | none => exact ⟨rfl, by simp only [noEcho_append, hecho]⟩
        | some e => exact ⟨rfl, by simp only [noEcho_append, hecho]⟩

theorem runBody_rel (env : Env) (ri : Nat) (r : Recipe) (given ps : Args) :
    Rel (runBody cfg' env ri r given ps) (runBody cfg env ri r given ps) := by
  unfold runBody
  split
  · exact runScript_rel h env ri r given ps
  · exact runLines_rel h env ri r given ps r.body


theorem runDeps_rel_of (P : Prog) (env : Env) (fuel : Nat)
    (hR : ∀ sub ri given ran k, Rel (runRecipe P cfg' env fuel sub ri given ran k) (runRecipe P cfg env fuel sub ri given ran k)) :
    ∀ ds sub ps ran k, Rel (runDeps P cfg' env fuel sub ds ps ran k) (runDeps P cfg env fuel sub ds ps ran k) := by
  intro ds
  induction ds with
  | nil => intro sub ps ran k; rw [runDeps, runDeps]; exact Rel.refl' _
  | cons d ds ih =>
    intro sub ps ran k
    rw [runDeps, runDeps]
    simp only [h.noDeps, evalList_same h]
    by_cases hnd : cfg.noDeps = true
    · simp only [hnd, if_true]; exact Rel.refl' _
    · simp only [hnd, if_false, Bool.false_eq_true]
      cases hev : evalList cfg env ps d.args with
      | mk e1 res =>
        cases res with
        | error e => exact Rel.refl' _
        | ok gv =>
          simp only
          obtain ⟨e2', e2, r2, h1, h2, h3⟩ := (hR sub d.target gv ran k).cases
          rw [h1, h2]
          cases r2 with
          | error e => exact ⟨rfl, by simp [h3]⟩
          | ok ran1 =>
            simp only
            rw [countPrompts_eq_of_noEcho h3]
            obtain ⟨e3', e3, r3, h4, h5, h6⟩ := (ih sub ps ran1 (k + countPrompts e2)).cases
            rw [h4, h5]
            exact ⟨rfl, by simp [h3, h6]⟩

theorem runRecipe_rel (P : Prog) (env : Env) : ∀ fuel sub ri given ran k,
    Rel (runRecipe P cfg' env fuel sub ri given ran k) (runRecipe P cfg env fuel sub ri given ran k) := by
  intro fuel
  induction fuel with
  | zero => intro sub ri given ran k; rw [runRecipe_zero, runRecipe_zero]; exact Rel.refl' _
  | succ n ih =>
    have ihD := runDeps_rel_of h P env n ih
    intro sub ri given ran k
    rw [runRecipe, runRecipe]
    by_cases hm : (ri, given) ∈ ran
    · simp only [hm, if_true]; exact Rel.refl' _
    · simp only [hm, if_false]
      cases hr : P.recipes[ri]? with
      | none => exact Rel.refl' _
      | some r =>
        simp only [h.yes, bindParams_same h]
        by_cases hc : ((r.confirm && !cfg.yes) && !env.ans k) = true
        · simp only [hc, if_true]; exact Rel.refl' _
        · simp only [hc, if_false, Bool.false_eq_true]
          cases hb : bindParams cfg env r.params given [] with
          | mk e1 res =>
            cases res with
            | error e => exact Rel.refl' _
            | ok ps =>
              simp only
              obtain ⟨e2', e2, r2, h1, h2, h3⟩ := (ihD r.priors sub ps ran
                (k + countPrompts (if (r.confirm && !cfg.yes) = true then [Ev.prompt ri] else []))).cases
              rw [h1, h2]
              cases r2 with
              | error e => exact ⟨rfl, by simp [h3]⟩
              | ok ran1 =>
                simp only
                obtain ⟨e3', e3, r3, h4, h5, h6⟩ := (runBody_rel h env ri r given ps).cases
                rw [h4, h5]
                cases r3 with
                | error e => exact ⟨rfl, by simp [noEcho, h3, h6]⟩
                | ok u =>
                  simp only
                  rw [countPrompts_eq_of_noEcho h3]
                  obtain ⟨e4', e4, r4, h7, h8, h9⟩ := (ihD r.subs true ps []
                    (k + countPrompts (if (r.confirm && !cfg.yes) = true then [Ev.prompt ri] else []) + countPrompts e2)).cases
                  rw [h7, h8]
                  cases r4 with
                  | error e => exact ⟨rfl, by simp [noEcho, h3, h6, h9]⟩
                  | ok ranS => exact ⟨rfl, by simp [noEcho, h3, h6, h9]⟩

theorem runInvs_rel (P : Prog) (env : Env) (fuel : Nat) (invs : List Key) : ∀ ran k,
    Rel (runInvs P cfg' env fuel invs ran k) (runInvs P cfg env fuel invs ran k) := by
  induction invs with
  | nil => intro ran k; exact Rel.refl' _
  | cons inv invs ih =>
    intro ran k
    obtain ⟨ri, given⟩ := inv
    simp only [runInvs]
    obtain ⟨e1', e1, r1, h1, h2, h3⟩ := (runRecipe_rel h P env fuel false ri given ran k).cases
    rw [h1, h2]
    cases r1 with
    | error e => exact ⟨rfl, h3⟩
    | ok ran1 =>
      simp only
      rw [countPrompts_eq_of_noEcho h3]
      obtain ⟨e2', e2, r2, h4, h5, h6⟩ := (ih ran1 (k + countPrompts e1)).cases
      rw [h4, h5]
      exact ⟨rfl, by simp [h3, h6]⟩

theorem runAssigns_same (env : Env) (cs : List String) : runAssigns cfg' env cs = runAssigns cfg env cs := by
  induction cs with
  | nil => rfl
  | cons c cs ih => simp only [runAssigns, evalA_same h, ih]


theorem runMain_rel (P : Prog) (env : Env) (invs : List Key) :
    (runMain P cfg' env invs).2 = (runMain P cfg env invs).2
    ∧ noEcho (runMain P cfg' env invs).1 = noEcho (runMain P cfg env invs).1 := by
  simp only [runMain, runAssigns_same h]
  cases ha : runAssigns cfg env P.assigns with
  | mk e1 res =>
    cases res with
    | error e => exact ⟨rfl, rfl⟩
    | ok u =>
      simp only
      obtain ⟨e2', e2, r2, h1, h2, h3⟩ := (runInvs_rel h P env (P.recipes.length + 1) invs [] 0).cases
      rw [h1, h2]
      cases r2 with
      | error e => exact ⟨rfl, by simp [h3]⟩
      | ok ran => exact ⟨rfl, by simp [h3]⟩

end Just.Run
