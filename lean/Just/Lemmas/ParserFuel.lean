import Just.Lemmas.ParserProgress
/-
Fuel is not a restriction: with fuel linear in the number of tokens every parsing function of the model
returns what it returns with any larger amount - the recursion always ends by itself.
-/
namespace Just.Syntax
open Just

structure ParserStable (f : Nat) : Prop where
  value : ∀ ts k, 8 * ts.length + 1 ≤ f → parseValue (f + k) ts = parseValue f ts
  conjunct : ∀ ts k, 8 * ts.length + 2 ≤ f → parseConjunct (f + k) ts = parseConjunct f ts
  disjunct : ∀ ts k, 8 * ts.length + 3 ≤ f → parseDisjunct (f + k) ts = parseDisjunct f ts
  expression : ∀ ts k, 8 * ts.length + 4 ≤ f → parseExpression (f + k) ts = parseExpression f ts
  condition : ∀ ts k, 8 * ts.length + 5 ≤ f → parseCondition (f + k) ts = parseCondition f ts
  conditional : ∀ ts k, 8 * ts.length + 6 ≤ f → parseConditional (f + k) ts = parseConditional f ts
  sequence : ∀ ts k, 8 * ts.length + 5 ≤ f → parseSequence (f + k) ts = parseSequence f ts

theorem parserStable_zero : ParserStable 0 := by
  constructor <;> intro ts k h <;> omega

theorem parserStable_succ (f : Nat) (ih : ParserStable f) : ParserStable (f + 1) := by
  have p := parserProg f
  have p1 := p.value
  have p2 := p.conjunct
  have p3 := p.disjunct
  have p4 := p.expression
  have p5 := p.conditional
  have p6 := p.condition
  have p7 := p.sequence
  have s1 := ih.value
  have s2 := ih.conjunct
  have s3 := ih.disjunct
  have s4 := ih.expression
  have s5 := ih.condition
  have s6 := ih.conditional
  have s7 := ih.sequence
  constructor
  · intro ts k h
    rw [show f + 1 + k = (f + k) + 1 by omega]
    unfold parseValue
    repeat (first
      | rfl
      | rw [s1 _ k (by grind)]
      | rw [s2 _ k (by grind)]
      | rw [s3 _ k (by grind)]
      | rw [s4 _ k (by grind)]
      | rw [s5 _ k (by grind)]
      | rw [s6 _ k (by grind)]
      | rw [s7 _ k (by grind)]
      | split)
  · intro ts k h
    rw [show f + 1 + k = (f + k) + 1 by omega]
    unfold parseConjunct
    repeat (first
      | rfl
      | rw [s1 _ k (by grind)]
      | rw [s2 _ k (by grind)]
      | rw [s3 _ k (by grind)]
      | rw [s4 _ k (by grind)]
      | rw [s5 _ k (by grind)]
      | rw [s6 _ k (by grind)]
      | rw [s7 _ k (by grind)]
      | split)
  · intro ts k h
    rw [show f + 1 + k = (f + k) + 1 by omega]
    unfold parseDisjunct
    repeat (first
      | rfl
      | rw [s1 _ k (by grind)]
      | rw [s2 _ k (by grind)]
      | rw [s3 _ k (by grind)]
      | rw [s4 _ k (by grind)]
      | rw [s5 _ k (by grind)]
      | rw [s6 _ k (by grind)]
      | rw [s7 _ k (by grind)]
      | split)
  · intro ts k h
    rw [show f + 1 + k = (f + k) + 1 by omega]
    unfold parseExpression
    repeat (first
      | rfl
      | rw [s1 _ k (by grind)]
      | rw [s2 _ k (by grind)]
      | rw [s3 _ k (by grind)]
      | rw [s4 _ k (by grind)]
      | rw [s5 _ k (by grind)]
      | rw [s6 _ k (by grind)]
      | rw [s7 _ k (by grind)]
      | split)
  · intro ts k h
    rw [show f + 1 + k = (f + k) + 1 by omega]
    unfold parseCondition
    repeat (first
      | rfl
      | rw [s1 _ k (by grind)]
      | rw [s2 _ k (by grind)]
      | rw [s3 _ k (by grind)]
      | rw [s4 _ k (by grind)]
      | rw [s5 _ k (by grind)]
      | rw [s6 _ k (by grind)]
      | rw [s7 _ k (by grind)]
      | split)
  · intro ts k h
    rw [show f + 1 + k = (f + k) + 1 by omega]
    unfold parseConditional
    repeat (first
      | rfl
      | rw [s1 _ k (by grind)]
      | rw [s2 _ k (by grind)]
      | rw [s3 _ k (by grind)]
      | rw [s4 _ k (by grind)]
      | rw [s5 _ k (by grind)]
      | rw [s6 _ k (by grind)]
      | rw [s7 _ k (by grind)]
      | split)
  · intro ts k h
    rw [show f + 1 + k = (f + k) + 1 by omega]
    unfold parseSequence
    repeat (first
      | rfl
      | rw [s1 _ k (by grind)]
      | rw [s2 _ k (by grind)]
      | rw [s3 _ k (by grind)]
      | rw [s4 _ k (by grind)]
      | rw [s5 _ k (by grind)]
      | rw [s6 _ k (by grind)]
      | rw [s7 _ k (by grind)]
      | split)

theorem parserStable (f : Nat) : ParserStable f := by
  induction f with
  | zero => exact parserStable_zero
  | succ f ih => exact parserStable_succ f ih

end Just.Syntax

namespace Just.Header
open Just Just.Syntax

theorem parseParam_stable (v k : Nat) (kind : PKind) (ts : List Tk) (h : 8 * ts.length + 1 ≤ v) :
    parseParam (v + k) kind ts = parseParam v kind ts := by
  have s1 := (parserStable v).value
  unfold parseParam
  repeat (first | rfl | rw [s1 _ k (by grind)] | split)

theorem parseParams_stable (v k : Nat) : ∀ (f : Nat) (ts : List Tk), 8 * ts.length + 1 ≤ v → ts.length < f →
    parseParams (v + k) (f + k) ts = parseParams v f ts := by
  intro f
  induction f with
  | zero => intro ts _ h; omega
  | succ f ih =>
    intro ts hv hf
    have hp := parseParam_lt v
    rw [show f + 1 + k = (f + k) + 1 by omega]
    unfold parseParams
    repeat (first | rfl | rw [parseParam_stable v k _ _ (by grind)] | rw [ih _ (by grind) (by grind)] | split)

theorem parseDepArgs_stable (v k : Nat) : ∀ (f : Nat) (ts : List Tk), 8 * ts.length + 4 ≤ v → ts.length < f →
    parseDepArgs (v + k) (f + k) ts = parseDepArgs v f ts := by
  intro f
  induction f with
  | zero => intro ts _ h; omega
  | succ f ih =>
    intro ts hv hf
    have he := (parserProg v).expression
    have s4 := (parserStable v).expression
    rw [show f + 1 + k = (f + k) + 1 by omega]
    unfold parseDepArgs
    repeat (first | rfl | rw [s4 _ k (by grind)] | rw [ih _ (by grind) (by grind)] | split)

theorem acceptDep_stable (v a k : Nat) (ts : List Tk) (hv : 8 * ts.length + 4 ≤ v) (ha : ts.length < a) :
    acceptDep (v + k) (a + k) ts = acceptDep v a ts := by
  unfold acceptDep
  repeat (first | rfl | rw [parseDepArgs_stable v k a _ (by grind) (by grind)] | split)

theorem parseDeps_stable (v a k : Nat) : ∀ (f : Nat) (ts : List Tk), 8 * ts.length + 4 ≤ v → ts.length < a → ts.length < f →
    parseDeps (v + k) (a + k) (f + k) ts = parseDeps v a f ts := by
  intro f
  induction f with
  | zero => intro ts _ _ h; omega
  | succ f ih =>
    intro ts hv ha hf
    have hd := acceptDep_le v a
    rw [show f + 1 + k = (f + k) + 1 by omega]
    unfold parseDeps
    repeat (first | rfl | rw [acceptDep_stable v a k _ (by grind) (by grind)] | rw [ih _ (by grind) (by grind) (by grind)] | split)

theorem parseVariadic_stable (v k : Nat) (ts : List Tk) (h : 8 * ts.length + 1 ≤ v) :
    parseVariadic (v + k) ts = parseVariadic v ts := by
  unfold parseVariadic
  repeat (first | rfl | rw [parseParam_stable v k _ _ (by grind)] | split)

theorem parseTail_stable (v k : Nat) (ts : List Tk) (h : 8 * ts.length + 4 ≤ v) :
    parseTail (v + k) ts = parseTail v ts := by
  have hd := parseDeps_le v v v
  unfold parseTail
  repeat (first | rfl | rw [parseDeps_stable v v k v _ (by grind) (by grind) (by grind)] | split)

theorem parseNamed_stable (v k : Nat) (q : Bool) (n : String) (ts : List Tk) (h : 8 * ts.length + 4 ≤ v) :
    parseNamed (v + k) q n ts = parseNamed v q n ts := by
  have h1 := parseParams_le v v
  have h2 := parseVariadic_le v
  unfold parseNamed
  repeat (first | rfl | rw [parseParams_stable v k v _ (by grind) (by grind)] | rw [parseVariadic_stable v k _ (by grind)] | rw [parseTail_stable v k _ (by grind)] | split)

theorem parseHeader_stable (v k : Nat) (ts : List Tk) (h : 8 * ts.length + 4 ≤ v) :
    parseHeader (v + k) ts = parseHeader v ts := by
  unfold parseHeader
  repeat (first | rfl | rw [parseNamed_stable v k _ _ _ (by grind)] | split)

end Just.Header

namespace Just.Items
open Just Just.Syntax Just.Header

theorem parseFrags_stable (v k : Nat) : ∀ (f : Nat) (ts : List Tk), 8 * ts.length + 4 ≤ v → ts.length < f →
    parseFrags (v + k) (f + k) ts = parseFrags v f ts := by
  intro f
  induction f with
  | zero => intro ts _ h; omega
  | succ f ih =>
    intro ts hv hf
    have he := (parserProg v).expression
    have s4 := (parserStable v).expression
    rw [show f + 1 + k = (f + k) + 1 by omega]
    unfold parseFrags
    repeat (first | rfl | rw [s4 _ k (by grind)] | rw [ih _ (by grind) (by grind)] | split)

theorem parseLines_stable (v w k : Nat) : ∀ (f : Nat) (ts : List Tk), 8 * ts.length + 4 ≤ v → ts.length < w → ts.length < f →
    parseLines (v + k) (w + k) (f + k) ts = parseLines v w f ts := by
  intro f
  induction f with
  | zero => intro ts _ _ h; omega
  | succ f ih =>
    intro ts hv hw hf
    rw [show f + 1 + k = (f + k) + 1 by omega]
    unfold parseLines
    split
    · rfl
    · rename_i hnd
      rw [parseFrags_stable v k w ts hv hw]
      cases hfr : parseFrags v w ts with
      | none => rfl
      | some x =>
        obtain ⟨l, r⟩ := x
        have hlt := parseFrags_lt v w ts l r hfr (fun x hx => hnd x hx)
        simp only
        rw [ih r (by omega) (by omega) (by omega)]

theorem parseBody_stable (v k : Nat) (ts : List Tk) (h : 8 * ts.length + 4 ≤ v) : parseBody (v + k) ts = parseBody v ts := by
  unfold parseBody
  repeat (first | rfl | rw [parseLines_stable v v k v _ (by grind) (by grind) (by grind)] | split)

theorem parseRecipe_stable (v k : Nat) (ts : List Tk) (h : 8 * ts.length + 4 ≤ v) : parseRecipe (v + k) ts = parseRecipe v ts := by
  have hh := parseHeader_lt v
  unfold parseRecipe
  repeat (first | rfl | rw [parseHeader_stable v k _ (by grind)] | rw [parseBody_stable v k _ (by grind)] | split)

theorem parseAssignment_stable (v k : Nat) (ts : List Tk) (h : 8 * ts.length + 4 ≤ v) :
    parseAssignment (v + k) ts = parseAssignment v ts := by
  have s4 := (parserStable v).expression
  unfold parseAssignment
  repeat (first | rfl | rw [s4 _ k (by grind)] | split)

theorem parsePath_stable (k : Nat) : ∀ (f : Nat) (ts : List Tk), ts.length < f → parsePath (f + k) ts = parsePath f ts := by
  intro f
  induction f with
  | zero => intro ts h; omega
  | succ f ih =>
    intro ts hf
    rw [show f + 1 + k = (f + k) + 1 by omega]
    unfold parsePath
    repeat (first | rfl | rw [ih _ (by grind)] | split)

theorem parseAlias_stable (v k : Nat) (ts : List Tk) (h : ts.length < v) : parseAlias (v + k) ts = parseAlias v ts := by
  unfold parseAlias
  repeat (first | rfl | rw [parsePath_stable k v _ (by grind)] | split)

end Just.Items

namespace Just.Ast
open Just Just.Syntax Just.Header Just.Items

theorem parseLitList_stable (k : Nat) : ∀ (f : Nat) (ts : List Tk), ts.length < f → parseLitList (f + k) ts = parseLitList f ts := by
  intro f
  induction f with
  | zero => intro ts h; omega
  | succ f ih =>
    intro ts hf
    have hl := parseLit_lt
    rw [show f + 1 + k = (f + k) + 1 by omega]
    unfold parseLitList
    repeat (first | rfl | rw [ih _ (by grind)] | split)

theorem parseAttrArgs_stable (v k : Nat) (ts : List Tk) (h : ts.length < v) : parseAttrArgs (v + k) ts = parseAttrArgs v ts := by
  unfold parseAttrArgs
  repeat (first | rfl | rw [parseLitList_stable k v _ (by grind)] | split)

theorem parseAttrGroup_stable (litLe : String → String → Bool) (v k : Nat) : ∀ (f : Nat) (acc : List Attr) (ts : List Tk),
    ts.length < v → ts.length < f → parseAttrGroup litLe (v + k) (f + k) acc ts = parseAttrGroup litLe v f acc ts := by
  intro f
  induction f with
  | zero => intro acc ts _ h; omega
  | succ f ih =>
    intro acc ts hv hf
    have ha := parseAttrArgs_le v
    rw [show f + 1 + k = (f + k) + 1 by omega]
    unfold parseAttrGroup
    repeat (first | rfl | rw [parseAttrArgs_stable v k _ (by grind)] | rw [ih _ _ (by grind) (by grind)] | split)

theorem parseAttributes_stable (litLe : String → String → Bool) (v k : Nat) : ∀ (f : Nat) (acc : List Attr) (ts : List Tk),
    ts.length < v → ts.length < f → parseAttributes litLe (v + k) (f + k) acc ts = parseAttributes litLe v f acc ts := by
  intro f
  induction f with
  | zero => intro acc ts _ h; omega
  | succ f ih =>
    intro acc ts hv hf
    have hg := parseAttrGroup_lt litLe v v
    rw [show f + 1 + k = (f + k) + 1 by omega]
    unfold parseAttributes
    repeat (first | rfl | rw [parseAttrGroup_stable litLe v k v _ _ (by grind) (by grind)] | rw [ih _ _ (by grind) (by grind)] | split)

theorem parseInterpArgs_stable (k : Nat) : ∀ (f : Nat) (ts : List Tk), ts.length < f → parseInterpArgs (f + k) ts = parseInterpArgs f ts := by
  intro f
  induction f with
  | zero => intro ts h; omega
  | succ f ih =>
    intro ts hf
    have hl := parseLit_lt
    rw [show f + 1 + k = (f + k) + 1 by omega]
    unfold parseInterpArgs
    repeat (first | rfl | rw [ih _ (by grind)] | split)

theorem parseInterpreter_stable (v k : Nat) (ts : List Tk) (h : ts.length < v) : parseInterpreter (v + k) ts = parseInterpreter v ts := by
  have hl := parseLit_lt
  unfold parseInterpreter
  repeat (first | rfl | rw [parseInterpArgs_stable k v _ (by grind)] | split)

theorem parseSet_stable (v k : Nat) (ts : List Tk) (h : ts.length < v) : parseSet (v + k) ts = parseSet v ts := by
  unfold parseSet
  repeat (first | rfl | rw [parseInterpreter_stable v k _ (by grind)] | split)

theorem recipeStep_stable (v k : Nat) (attrs : List Attr) (acc : List Item) (eol : Bool) (ts : List Tk) (h : 8 * ts.length + 4 ≤ v) :
    recipeStep (v + k) attrs acc eol ts = recipeStep v attrs acc eol ts := by
  unfold recipeStep
  rw [parseRecipe_stable v k ts h]

theorem identStep_stable (v k : Nat) (kw : String) (attrs : List Attr) (acc : List Item) (eol : Bool) (ts : List Tk)
    (h : 8 * ts.length + 4 ≤ v) : identStep (v + k) kw attrs acc eol ts = identStep v kw attrs acc eol ts := by
  unfold identStep
  rw [parseAlias_stable v k ts (by omega), parseAssignment_stable v k ts h, parseSet_stable v k ts (by omega),
    recipeStep_stable v k attrs acc eol ts h]

theorem step_stable (litLe : String → String → Bool) (v k : Nat) (acc : List Item) (eol : Bool) (ts : List Tk) (h : 8 * ts.length + 4 ≤ v) :
    step litLe (v + k) acc eol ts = step litLe v acc eol ts := by
  have ha := parseAttributes_le litLe v v []
  unfold step
  rw [parseAttributes_stable litLe v k v [] ts (by omega) (by omega)]
  cases hat : parseAttributes litLe v v [] ts with
  | none => rfl
  | some x =>
    obtain ⟨attrs, ts1⟩ := x
    have hle := ha ts attrs ts1 hat
    simp only
    repeat (first | rfl | rw [identStep_stable v k _ _ _ _ _ (by grind)] | rw [recipeStep_stable v k _ _ _ _ (by grind)] | split)

/-- the item loop: neither the loop fuel nor the fuel of the functions it calls matters once they exceed a linear bound -/
theorem parseItems_stable (litLe : String → String → Bool) (v k : Nat) : ∀ (f : Nat) (acc : List Item) (eol : Bool) (ts : List Tk),
    8 * ts.length + 4 ≤ v → ts.length < f → parseItems litLe (v + k) (f + k) acc eol ts = parseItems litLe v f acc eol ts := by
  intro f
  induction f with
  | zero => intro acc eol ts _ h; omega
  | succ f ih =>
    intro acc eol ts hv hf
    rw [show f + 1 + k = (f + k) + 1 by omega]
    simp only [parseItems, step_stable litLe v k acc eol ts hv]
    cases hs : step litLe v acc eol ts with
    | none => rfl
    | some o =>
      cases o with
      | done acc' => rfl
      | more acc' eol' rest =>
        have hp := step_progress litLe v acc eol ts _ hs
        simp only [Outcome.Progress] at hp
        simp only
        exact ih acc' eol' rest (by omega) (by omega)

/-- **`parse_ast` needs no fuel**: with `8 * tokens + 12` it returns what it returns with any larger amount. -/
theorem parseAst_stable (litLe : String → String → Bool) (v k : Nat) (ts : List Tk) (h : 8 * ts.length + 12 ≤ v) :
    parseAst litLe (v + k) ts = parseAst litLe v ts := by
  unfold parseAst
  split
  · rename_i r
    exact parseItems_stable litLe v k v [] false r (by simp at h; omega) (by simp at h; omega)
  · exact parseItems_stable litLe v k v [] false ts (by omega) (by omega)

end Just.Ast
