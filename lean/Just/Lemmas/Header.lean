import Just.Model.Header
import Just.Lemmas.SyntaxRoundtrip
/-
Round trip of recipe header lines: parse (print h) = h.
-/
namespace Just.Header
open Just Just.Syntax

/-- what `parse_value` returns: a literal, a variable or a call (of any name but `assert`: a parameter default is read by
`parse_value` directly, where `if` is no keyword), an `assert`, a parenthesised expression -/
def WFValue : Expr → Prop
  | .var n => n ≠ "assert"
  | .call n args => n ≠ "assert" ∧ fnOk n args.length = true ∧ WFs args
  | .str _ => True
  | .backtick _ => True
  | .assert a _ b m => WF a ∧ WF b ∧ WF m
  | .group e => WF e
  | .concat _ _ => False
  | .joinL _ _ => False
  | .joinR _ => False
  | .and _ _ => False
  | .or _ _ => False
  | .cond _ _ _ _ _ => False

/-- the default of a parameter is a value -/
def WFParam (p : Param) : Prop :=
  match p.default with
  | some d => WFValue d
  | none => True

/-- `parse_value` reads a printed value back -/
theorem parseValue_rt (d : Expr) (hw : WFValue d) (fuel : Nat) (rest : List Tk) (hf : 4 * d.size ≤ fuel) (hafter : After d rest) :
    parseValue fuel (printE d ++ rest) = some (d, rest) := by
  have hgen : WF d → level d = 0 → parseValue fuel (printE d ++ rest) = some (d, rest) := by
    intro hwf hl
    have := roundtrip_core d hwf 0 (by omega) (by omega) fuel rest (by omega) (fun _ _ => by simp [blocksE]) hafter
    simpa [parseAt] using this
  cases d with
  | var n =>
    obtain ⟨f', rfl⟩ : ∃ f', fuel = f' + 1 := ⟨fuel - 1, by simp [Expr.size] at hf; omega⟩
    simp only [WFValue] at hw
    simp only [printE, List.singleton_append]
    exact parseValue_var _ _ _ hw (hafter n rfl).1 (hafter n rfl).2
  | call n args =>
    simp only [Expr.size] at hf
    obtain ⟨f', rfl⟩ : ∃ f', fuel = f' + 1 := ⟨fuel - 1, by omega⟩
    simp only [WFValue] at hw
    have hargs := roundtripArgs_core args hw.2.2 f' rest (by omega)
    simp only [printE, List.append_assoc, List.cons_append, List.nil_append, List.singleton_append] at hargs ⊢
    exact parseValue_call_ok hw.1 hw.2.1 hargs
  | str s => exact hgen (by simp [WF]) (by simp [level])
  | backtick s => exact hgen (by simp [WF]) (by simp [level])
  | assert a o b m => simp only [WFValue] at hw; exact hgen (by simp only [WF]; exact hw) (by simp [level])
  | group e => simp only [WFValue] at hw; exact hgen (by simp only [WF]; exact hw) (by simp [level])
  | concat l r => simp [WFValue] at hw
  | joinL l r => simp [WFValue] at hw
  | joinR r => simp [WFValue] at hw
  | and l r => simp [WFValue] at hw
  | or l r => simp [WFValue] at hw
  | cond a o b t x => simp [WFValue] at hw

/-- arguments of a dependency: well-formed expressions; an argument after the first must not begin
with a token that would continue its predecessor: `&&`, `||`, or `/`, `+` when the predecessor does not end in a
conditional (`StopE`) - or, when the
predecessor ends with an identifier, `(` (a call) or, after `x`, a string (a shell-expanded literal) -/
def WFArgs : List Expr → Prop
  | [] => True
  | [e] => WF e
  | e :: e' :: es => WF e ∧ StopE 3 e (printE e') ∧ After e (printE e') ∧ WFArgs (e' :: es)

def WFDep (d : Dep) : Prop := WFArgs d.args

structure WFHeader (h : Header) : Prop where
  params : ∀ p ∈ h.params, p.kind = .singular ∧ WFParam p
  variadic : ∀ v, h.variadic = some v → v.kind ≠ .singular ∧ WFParam v
  priors : ∀ d ∈ h.priors, WFDep d
  subsequents : ∀ d ∈ h.subsequents, WFDep d

/-- what may follow a parameter: after a default nothing its last identifier would swallow, after a bare name no `=` -/
def AfterParam : Option Expr → List Tk → Prop
  | some d, rest => After d rest
  | none, rest => rest.head? ≠ some tEquals

theorem parseParam_rt (fuel : Nat) (p : Param) (hw : WFParam p) (rest : List Tk)
    (hfuel : ∀ d, p.default = some d → 4 * d.size ≤ fuel) (hrest : AfterParam p.default rest) :
    parseParam fuel p.kind (printDollar p.exported ++ [.ident p.name] ++ printDefault p.default ++ rest) = some (p, rest) := by
  obtain ⟨kind, exported, name, default⟩ := p
  simp only at hw hfuel hrest ⊢
  cases default with
  | none =>
    simp only [AfterParam] at hrest
    have hne : ∀ r, rest ≠ Tk.other "Equals" :: r := by
      intro r h; apply hrest; rw [h]; rfl
    cases exported with
    | true => simp only [printDollar, printDefault, if_true, tDollar, List.cons_append, List.nil_append, List.append_nil, parseParam]
    | false => simp only [printDollar, printDefault, Bool.false_eq_true, if_false, List.nil_append, List.cons_append, List.append_nil, parseParam]
  | some d =>
    simp only [WFParam] at hw
    simp only [AfterParam] at hrest
    have hv := parseValue_rt d hw fuel rest (hfuel d rfl) hrest
    cases exported with
    | true => simp only [printDollar, printDefault, if_true, tDollar, tEquals, List.cons_append, List.nil_append, List.append_assoc, parseParam, hv]
    | false => simp only [printDollar, printDefault, Bool.false_eq_true, if_false, tEquals, List.nil_append, List.cons_append, List.append_assoc, parseParam, hv]

theorem printParam_singular (p : Param) (h : p.kind = .singular) :
    printParam p = printDollar p.exported ++ [.ident p.name] ++ printDefault p.default := by
  simp [printParam, printKind, h]

/-- the first token of a printed parameter is a name or `$` -/
theorem printParam_head (p : Param) (hk : p.kind = .singular) (rest : List Tk) :
    (∃ n r, printParam p ++ rest = Tk.ident n :: r) ∨ (∃ r, printParam p ++ rest = Tk.other "Dollar" :: r) := by
  rw [printParam_singular p hk]
  cases p.exported with
  | true => right; exact ⟨Tk.ident p.name :: (printDefault p.default ++ rest), by simp [printDollar, tDollar]⟩
  | false => left; exact ⟨p.name, printDefault p.default ++ rest, by simp [printDollar]⟩

/-- what may follow the parameters: not a name, `$`, `=` or `(` (in a header: `+`, `*` or `:`) -/
structure EndsParams (rest : List Tk) : Prop where
  noIdent : ∀ n r, rest ≠ Tk.ident n :: r
  noDollar : ∀ r, rest ≠ Tk.other "Dollar" :: r
  noEquals : rest.head? ≠ some tEquals
  noParen : NoSwallow rest

theorem afterParam_of_head (d : Option Expr) (rest : List Tk)
    (h : (∃ n r, rest = Tk.ident n :: r) ∨ (∃ r, rest = Tk.other "Dollar" :: r)) : AfterParam d rest := by
  rcases h with ⟨n, r, rfl⟩ | ⟨r, rfl⟩ <;> cases d <;> simp only [AfterParam]
  · intro h; simp [tEquals] at h
  · exact after_cons _ _ _ (by simp) (by simp)
  · intro h; simp [tEquals] at h
  · exact after_cons _ _ _ (by simp) (by simp)

theorem parseParams_rt (vfuel : Nat) (ps : List Param) (hw : ∀ p ∈ ps, p.kind = .singular ∧ WFParam p)
    (hfuel : ∀ p ∈ ps, ∀ d, p.default = some d → 4 * d.size ≤ vfuel) (rest : List Tk) (hrest : EndsParams rest)
    (f : Nat) (hf : ps.length < f) :
    parseParams vfuel f (printParams ps ++ rest) = some (ps, rest) := by
  induction ps generalizing f with
  | nil =>
    obtain ⟨f', rfl⟩ : ∃ f', f = f' + 1 := ⟨f - 1, by omega⟩
    have h1 := hrest.noIdent
    have h2 := hrest.noDollar
    simp only [printParams, List.nil_append, parseParams]
  | cons p ps ih =>
    obtain ⟨f', rfl⟩ : ∃ f', f = f' + 1 := ⟨f - 1, by simp at hf; omega⟩
    have hp := hw p (by simp)
    have hnext : AfterParam p.default (printParams ps ++ rest) := by
      cases ps with
      | nil =>
        simp only [printParams, List.nil_append]
        cases p.default with
        | none => exact hrest.noEquals
        | some d => exact after_of_noSwallow d hrest.noParen
      | cons q qs =>
        have hq := hw q (by simp)
        apply afterParam_of_head
        simp only [printParams, List.append_assoc]
        exact printParam_head q hq.1 _
    have hpar := parseParam_rt vfuel p hp.2 (printParams ps ++ rest) (hfuel p (by simp)) hnext
    rw [hp.1] at hpar
    have hrec := ih (fun q hq => hw q (by simp [hq])) (fun q hq => hfuel q (by simp [hq])) f' (by simp at hf; omega)
    have hshape : printParams (p :: ps) ++ rest =
        printDollar p.exported ++ [.ident p.name] ++ printDefault p.default ++ (printParams ps ++ rest) := by
      simp only [printParams, printParam_singular p hp.1, List.append_assoc]
    rw [hshape]
    cases hex : p.exported with
    | true =>
      rw [hex] at hpar
      simp only [printDollar, if_true, tDollar, List.cons_append, List.nil_append, List.append_assoc] at hpar ⊢
      simp only [parseParams, hpar, hrec]
    | false =>
      rw [hex] at hpar
      simp only [printDollar, Bool.false_eq_true, if_false, List.nil_append, List.cons_append, List.append_assoc] at hpar ⊢
      simp only [parseParams, hpar, hrec]


/-! ### dependencies -/

theorem printE_ne_nil : (e : Expr) → printE e ≠ []
  | .str l => by rcases litTokens_cases l with ⟨cs, _, h⟩ | h <;> simp [printE, h]
  | .var _ => by simp [printE]
  | .backtick _ => by simp [printE]
  | .call _ _ => by simp [printE]
  | .concat l _ => by simp [printE, printE_ne_nil l]
  | .joinL l _ => by simp [printE, printE_ne_nil l]
  | .joinR _ => by simp [printE]
  | .and l _ => by simp [printE, printE_ne_nil l]
  | .or l _ => by simp [printE, printE_ne_nil l]
  | .cond _ _ _ _ _ => by simp [printE]
  | .assert _ _ _ _ => by simp [printE]
  | .group _ => by simp [printE]

theorem stopE_append {k : Nat} {e : Expr} {l : List Tk} (more : List Tk) (hne : l ≠ []) (h : StopE k e l) : StopE k e (l ++ more) := by
  intro t ht
  cases l with
  | nil => exact absurd rfl hne
  | cons x xs => exact h t (by simpa using ht)

theorem parseDepArgs_rt (efuel : Nat) (args : List Expr) (hw : WFArgs args)
    (hfuel : ∀ e ∈ args, 4 * e.size + 3 ≤ efuel) (rest : List Tk) (f : Nat) (hf : args.length < f) :
    parseDepArgs efuel f (printArgList args ++ .rparen :: rest) = some (args, rest) := by
  induction args generalizing f with
  | nil =>
    obtain ⟨f', rfl⟩ : ∃ f', f = f' + 1 := ⟨f - 1, by omega⟩
    simp [printArgList, parseDepArgs]
  | cons e es ih =>
    obtain ⟨f', rfl⟩ : ∃ f', f = f' + 1 := ⟨f - 1, by simp at hf; omega⟩
    have hwe : WF e := by
      cases es with
      | nil => exact hw
      | cons e' es' => exact hw.1
    have hwes : WFArgs es := by
      cases es with
      | nil => trivial
      | cons e' es' => exact hw.2.2.2
    have hafter : After e (printArgList es ++ .rparen :: rest) := by
      cases es with
      | nil => exact after_cons _ _ _ (by simp) (by simp)
      | cons e' es' =>
        simp only [printArgList, List.append_assoc]
        exact after_append _ (printE_ne_nil e') hw.2.2.1
    have hstop : StopE 3 e (printArgList es ++ .rparen :: rest) := by
      cases es with
      | nil => exact stopE_cons 3 _ _ _ (by simp [blocksE])
      | cons e' es' =>
        simp only [printArgList, List.append_assoc]
        exact stopE_append _ (printE_ne_nil e') hw.2.1
    have he := roundtrip_core e hwe 3 (level_le3 e) (Nat.le_refl _) efuel (printArgList es ++ .rparen :: rest)
      (hfuel e (by simp)) hstop hafter
    simp only [parseAt] at he
    have hrec := ih hwes (fun x hx => hfuel x (by simp [hx])) f' (by simp at hf; omega)
    have hne : ∀ r, printE e ++ (printArgList es ++ .rparen :: rest) ≠ Tk.rparen :: r := by
      intro r h
      exact head_ne_rparen e (printArgList es ++ .rparen :: rest) (by rw [h]; rfl)
    simp only [printArgList, List.append_assoc]
    simp only [parseDepArgs, he, hrec]

/-- what may follow a list of dependencies: not a name, not `(` (in a header: `&&` or the end of line) -/
structure EndsDeps (rest : List Tk) : Prop where
  noIdent : ∀ n r, rest ≠ Tk.ident n :: r
  noParen : ∀ r, rest ≠ Tk.lparen :: r

structure DepFuel (efuel afuel : Nat) (d : Dep) : Prop where
  exprs : ∀ e ∈ d.args, 4 * e.size + 3 ≤ efuel
  args : d.args.length < afuel

theorem acceptDep_rt (efuel afuel : Nat) (d : Dep) (hw : WFDep d) (hf : DepFuel efuel afuel d) (rest : List Tk) :
    acceptDep efuel afuel (printDep d ++ rest) = some (some d, rest) := by
  obtain ⟨recipe, args⟩ := d
  cases args with
  | nil => simp [printDep, acceptDep]
  | cons a as =>
    have := parseDepArgs_rt efuel (a :: as) hw hf.exprs rest afuel hf.args
    simp only [printDep, List.cons_append, List.nil_append, List.append_assoc, List.singleton_append] at this ⊢
    simp only [acceptDep, this]

theorem printDep_head (d : Dep) (rest : List Tk) :
    (∃ n r, printDep d ++ rest = Tk.ident n :: r) ∨ (∃ r, printDep d ++ rest = Tk.lparen :: r) := by
  obtain ⟨recipe, args⟩ := d
  cases args with
  | nil => left; exact ⟨recipe, rest, by simp [printDep]⟩
  | cons a as => right; exact ⟨Tk.ident recipe :: (printArgList (a :: as) ++ Tk.rparen :: rest), by simp [printDep]⟩

theorem parseDeps_rt (efuel afuel : Nat) (ds : List Dep) (hw : ∀ d ∈ ds, WFDep d)
    (hfuel : ∀ d ∈ ds, DepFuel efuel afuel d) (rest : List Tk) (hrest : EndsDeps rest) (f : Nat) (hf : ds.length < f) :
    parseDeps efuel afuel f (printDeps ds ++ rest) = some (ds, rest) := by
  induction ds generalizing f with
  | nil =>
    obtain ⟨f', rfl⟩ : ∃ f', f = f' + 1 := ⟨f - 1, by omega⟩
    have h1 := hrest.noIdent
    have h2 := hrest.noParen
    have h3 : ∀ n r, rest ≠ Tk.lparen :: Tk.ident n :: r := fun n r h => h2 _ h
    simp only [printDeps, List.nil_append, parseDeps, acceptDep]
  | cons d ds ih =>
    obtain ⟨f', rfl⟩ : ∃ f', f = f' + 1 := ⟨f - 1, by simp at hf; omega⟩
    have hd := acceptDep_rt efuel afuel d (hw d (by simp)) (hfuel d (by simp)) (printDeps ds ++ rest)
    have hrec := ih (fun x hx => hw x (by simp [hx])) (fun x hx => hfuel x (by simp [hx])) f' (by simp at hf; omega)
    simp only [printDeps, List.append_assoc]
    simp only [parseDeps, hd, hrec]


/-! ### the header line -/

structure HeaderFuel (fuel : Nat) (h : Header) : Prop where
  params : h.params.length < fuel
  defaults : ∀ p ∈ h.params, ∀ d, p.default = some d → 4 * d.size ≤ fuel
  variadic : ∀ v, h.variadic = some v → ∀ d, v.default = some d → 4 * d.size ≤ fuel
  priors : h.priors.length < fuel
  priorArgs : ∀ d ∈ h.priors, DepFuel fuel fuel d
  subsequents : h.subsequents.length < fuel
  subsequentArgs : ∀ d ∈ h.subsequents, DepFuel fuel fuel d

theorem endsDeps_eol (rest : List Tk) : EndsDeps (Tk.other "Eol" :: rest) :=
  ⟨fun n r h => by simp at h, fun r h => by simp at h⟩

theorem endsDeps_and (rest : List Tk) : EndsDeps (Tk.andand :: rest) :=
  ⟨fun n r h => by simp at h, fun r h => by simp at h⟩

/-- `: deps [&& deps] EOL` -/
theorem parseTail_rt (h : Header) (hw : WFHeader h) (fuel : Nat) (hf : HeaderFuel fuel h) (rest : List Tk) :
    parseTail fuel (tColon :: (printDeps h.priors ++ (printSubsequents h.subsequents ++ tEol :: rest)))
      = some ((h.priors, h.subsequents), rest) := by
  simp only [tColon, tEol]
  cases hs : h.subsequents with
  | nil =>
    have hp := parseDeps_rt fuel fuel h.priors hw.priors hf.priorArgs (Tk.other "Eol" :: rest) (endsDeps_eol rest) fuel hf.priors
    simp only [printSubsequents, List.nil_append, parseTail, hp, expectEol_eol]
  | cons s ss =>
    have hp := parseDeps_rt fuel fuel h.priors hw.priors hf.priorArgs (Tk.andand :: (printDeps (s :: ss) ++ Tk.other "Eol" :: rest))
      (endsDeps_and _) fuel hf.priors
    have hsub := parseDeps_rt fuel fuel (s :: ss) (by rw [← hs]; exact hw.subsequents) (by rw [← hs]; exact hf.subsequentArgs)
      (Tk.other "Eol" :: rest) (endsDeps_eol rest) fuel (by rw [← hs]; exact hf.subsequents)
    simp only [printSubsequents, List.cons_append, parseTail, hp, hsub, expectEol_eol]

theorem afterParam_colon (d : Option Expr) (rest : List Tk) : AfterParam d (Tk.other "Colon" :: rest) := by
  cases d <;> simp only [AfterParam]
  · intro h; simp [tEquals] at h
  · exact after_cons _ _ _ (by simp) (by simp)

/-- the variadic parameter -/
theorem parseVariadic_rt (h : Header) (hw : WFHeader h) (fuel : Nat) (hf : HeaderFuel fuel h) (rest : List Tk) :
    parseVariadic fuel (printVariadic h.variadic ++ Tk.other "Colon" :: rest) = some (h.variadic, Tk.other "Colon" :: rest) := by
  cases hv : h.variadic with
  | none => simp [printVariadic, parseVariadic]
  | some v =>
    have hwv := hw.variadic v hv
    have hp := parseParam_rt fuel v hwv.2 (Tk.other "Colon" :: rest) (hf.variadic v hv) (afterParam_colon _ _)
    cases hk : v.kind with
    | singular => exact absurd hk hwv.1
    | plus =>
      rw [hk] at hp
      simp only [printVariadic, printParam, printKind, hk, List.cons_append, List.nil_append, List.append_assoc, List.singleton_append] at hp ⊢
      simp only [parseVariadic, hp]
    | star =>
      rw [hk] at hp
      simp only [printVariadic, printParam, printKind, hk, tAsterisk, List.cons_append, List.nil_append, List.append_assoc, List.singleton_append] at hp ⊢
      simp only [parseVariadic, hp]

theorem endsParams_variadic (h : Header) (hw : WFHeader h) (rest : List Tk) :
    EndsParams (printVariadic h.variadic ++ Tk.other "Colon" :: rest) := by
  cases hv : h.variadic with
  | none =>
    simp only [printVariadic, List.nil_append]
    exact ⟨fun n r h => by simp at h, fun r h => by simp at h, by simp [tEquals], noSwallow_cons _ _ (by simp) (by simp)⟩
  | some v =>
    have hwv := hw.variadic v hv
    cases hk : v.kind with
    | singular => exact absurd hk hwv.1
    | plus =>
      simp only [printVariadic, printParam, printKind, hk, List.cons_append, List.nil_append, List.append_assoc]
      exact ⟨fun n r h => by simp at h, fun r h => by simp at h, by simp [tEquals], noSwallow_cons _ _ (by simp) (by simp)⟩
    | star =>
      simp only [printVariadic, printParam, printKind, hk, tAsterisk, List.cons_append, List.nil_append, List.append_assoc]
      exact ⟨fun n r h => by simp at h, fun r h => by simp at h, by simp [tEquals], noSwallow_cons _ _ (by simp) (by simp)⟩

/-- **Round trip of recipe header lines.** -/
theorem parseHeader_rt (h : Header) (hw : WFHeader h) (fuel : Nat) (hf : HeaderFuel fuel h) (rest : List Tk) :
    parseHeader fuel (printHeader h ++ rest) = some (h, rest) := by
  have hparams := parseParams_rt fuel h.params hw.params hf.defaults
    (printVariadic h.variadic ++ Tk.other "Colon" :: (printDeps h.priors ++ (printSubsequents h.subsequents ++ tEol :: rest)))
    (endsParams_variadic h hw _) fuel hf.params
  have hvar := parseVariadic_rt h hw fuel hf (printDeps h.priors ++ (printSubsequents h.subsequents ++ tEol :: rest))
  have htail := parseTail_rt h hw fuel hf rest
  simp only [tColon] at htail
  have hnamed : ∀ q, parseNamed fuel q h.name (printParams h.params ++ (printVariadic h.variadic ++
      Tk.other "Colon" :: (printDeps h.priors ++ (printSubsequents h.subsequents ++ tEol :: rest))))
      = some (⟨q, h.name, h.params, h.variadic, h.priors, h.subsequents⟩, rest) := by
    intro q
    simp only [parseNamed, hparams, hvar, htail]
  obtain ⟨quiet, name, params, variadic, priors, subs⟩ := h
  cases quiet with
  | true =>
    simp only [printHeader, printQuiet, if_true, tAt, tColon, List.cons_append, List.nil_append, List.append_assoc, List.singleton_append]
    simp only [parseHeader]
    exact hnamed true
  | false =>
    simp only [printHeader, printQuiet, Bool.false_eq_true, if_false, tColon, List.cons_append, List.nil_append, List.append_assoc, List.singleton_append]
    simp only [parseHeader]
    exact hnamed false

end Just.Header
