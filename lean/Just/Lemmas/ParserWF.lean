import Just.Lemmas.Ast
import Just.Lemmas.SyntaxWF
set_option linter.unusedSimpArgs false
set_option linter.unusedVariables false
/-
Whatever the parser returns meets the hypotheses of the round-trip theorems: where a sub-parse stopped, the
printed form of what it read stops too (`After`, `StopE`), the printed form of the next phrase begins like its
source, values are `WFValue`, headers `WFHeader`, recipes `WFRecipe`, items `WFItem`.
-/
namespace Just.Syntax
open Just

/-! ### where a sub-parse stops -/

structure ParserStops (f : Nat) : Prop where
  value : ∀ ts e r, parseValue f ts = some (e, r) → After e r ∧ endsValue e = true
  conjunct : ∀ ts e r, parseConjunct f ts = some (e, r) → After e r ∧ StopE 1 e r
  disjunct : ∀ ts e r, parseDisjunct f ts = some (e, r) → After e r ∧ StopE 2 e r
  expression : ∀ ts e r, parseExpression f ts = some (e, r) → After e r ∧ StopE 3 e r
  conditional : ∀ ts e r, parseConditional f ts = some (e, r) → endsIdent e = none ∧ endsValue e = false

theorem parserStops_zero : ParserStops 0 := by
  constructor <;> intros <;> simp_all [parseValue, parseConjunct, parseDisjunct, parseExpression, parseConditional]

theorem after_of_endsIdent_none {e : Expr} (h : endsIdent e = none) (r : List Tk) : After e r := by
  intro n hn; rw [h] at hn; cases hn

theorem stopE1_of_not_value {e : Expr} (h : endsValue e = false) (r : List Tk) : StopE 1 e r := by
  intro t _; simp [blocksE, h]

theorem stopE_raise {k : Nat} {e : Expr} {r : List Tk} (h : StopE k e r) (hnot : ∀ t, r.head? = some t → blocksE (k + 1) e t = false) :
    StopE (k + 1) e r := hnot

theorem parserStops_succ (f : Nat) (ih : ParserStops f) : ParserStops (f + 1) := by
  have i1 := ih.value
  have i2 := ih.conjunct
  have i3 := ih.disjunct
  have i4 := ih.expression
  have i5 := ih.conditional
  constructor
  · -- parse_value
    intro ts e r h
    unfold parseValue at h
    split at h
    · cases h; exact ⟨after_of_endsIdent_none rfl _, rfl⟩
    · cases h; exact ⟨after_of_endsIdent_none rfl _, rfl⟩
    · cases h; exact ⟨after_of_endsIdent_none rfl _, rfl⟩
    · cases h; exact ⟨after_of_endsIdent_none rfl _, rfl⟩
    · -- assert
      repeat' split at h
      all_goals (try (cases h; done))
      all_goals (cases h; exact ⟨after_of_endsIdent_none rfl _, rfl⟩)
    · -- call
      repeat' split at h
      all_goals (try (cases h; done))
      all_goals (cases h; exact ⟨after_of_endsIdent_none rfl _, rfl⟩)
    · -- variable
      rename_i n r' hx hna hlp
      cases h
      refine ⟨?_, rfl⟩
      intro m hm
      simp only [endsIdent, Option.some.injEq] at hm
      subst hm
      refine ⟨?_, ?_⟩
      · intro hh
        cases r with
        | nil => simp at hh
        | cons t r'' => simp at hh; subst hh; exact hlp r'' rfl
      · intro hxx s hh
        cases r with
        | nil => simp at hh
        | cons t r'' => simp at hh; subst hh; exact hx s r'' rfl hxx
    · -- group
      repeat' split at h
      all_goals (try (cases h; done))
      all_goals (cases h; exact ⟨after_of_endsIdent_none rfl _, rfl⟩)
    · cases h
  · -- parse_conjunct
    intro ts e r h
    unfold parseConjunct at h
    split at h
    · -- conditional
      have := i5 _ _ _ h
      exact ⟨after_of_endsIdent_none this.1 _, stopE1_of_not_value this.2 _⟩
    · -- `/ r`
      split at h
      · cases h
      · rename_i x ts2 hx
        cases h
        have := i2 _ _ _ hx
        exact ⟨fun n hn => this.1 n (by simpa [endsIdent] using hn), this.2.congr (by simp [endsValue])⟩
    · split at h
      · cases h
      · rename_i v ts1 hv
        have hvv := i1 _ _ _ hv
        split at h
        · split at h
          · cases h
          · rename_i x ts3 hx
            cases h
            have := i2 _ _ _ hx
            exact ⟨fun n hn => this.1 n (by simpa [endsIdent] using hn), this.2.congr (by simp [endsValue])⟩
        · split at h
          · cases h
          · rename_i x ts3 hx
            cases h
            have := i2 _ _ _ hx
            exact ⟨fun n hn => this.1 n (by simpa [endsIdent] using hn), this.2.congr (by simp [endsValue])⟩
        · rename_i hns hnp
          cases h
          refine ⟨hvv.1, ?_⟩
          intro t ht
          cases r with
          | nil => simp at ht
          | cons t' r' =>
            simp at ht; subst ht
            have h1 : t' ≠ Tk.slash := fun hh => hns r' (by rw [hh])
            have h2 : t' ≠ Tk.plus := fun hh => hnp r' (by rw [hh])
            simp [blocksE, h1, h2]
  · -- parse_disjunct
    intro ts e r h
    unfold parseDisjunct at h
    split at h
    · cases h
    · rename_i c ts1 hc
      have hcc := i2 _ _ _ hc
      split at h
      · split at h
        · cases h
        · rename_i x ts3 hx
          cases h
          have := i3 _ _ _ hx
          exact ⟨fun n hn => this.1 n (by simpa [endsIdent] using hn), this.2.congr (by simp [endsValue])⟩
      · rename_i hna
        cases h
        refine ⟨hcc.1, ?_⟩
        intro t ht
        cases r with
        | nil => simp at ht
        | cons t' r' =>
          simp at ht; subst ht
          have h1 : t' ≠ Tk.andand := fun hh => hna r' (by rw [hh])
          have h0 := hcc.2 t' (by simp)
          simp [blocksE] at h0 ⊢
          exact ⟨h0, h1⟩
  · -- parse_expression
    intro ts e r h
    unfold parseExpression at h
    split at h
    · cases h
    · rename_i d ts1 hd
      have hdd := i3 _ _ _ hd
      split at h
      · split at h
        · cases h
        · rename_i x ts3 hx
          cases h
          have := i4 _ _ _ hx
          exact ⟨fun n hn => this.1 n (by simpa [endsIdent] using hn), this.2.congr (by simp [endsValue])⟩
      · rename_i hno
        cases h
        refine ⟨hdd.1, ?_⟩
        intro t ht
        cases r with
        | nil => simp at ht
        | cons t' r' =>
          simp at ht; subst ht
          have h1 : t' ≠ Tk.barbar := fun hh => hno r' (by rw [hh])
          have h0 := hdd.2 t' (by simp)
          simp [blocksE] at h0 ⊢
          exact ⟨h0, h1⟩
  · -- parse_conditional
    intro ts e r h
    unfold parseConditional at h
    repeat' split at h
    all_goals (try (cases h; done))
    all_goals (cases h; exact ⟨rfl, rfl⟩)

theorem parserStops (f : Nat) : ParserStops f := by
  induction f with
  | zero => exact parserStops_zero
  | succ f ih => exact parserStops_succ f ih

/-! ### how a printed phrase begins -/

/-- the tokens a printed expression can begin with -/
def startTok : Tk → Bool
  | .str _ => true
  | .ident _ => true
  | .bt _ => true
  | .lparen => true
  | .slash => true
  | _ => false

theorem printE_head : (e : Expr) → ∃ t r, printE e = t :: r ∧ startTok t = true
  | .str l => by
    rcases litTokens_cases l with ⟨cs, _, h⟩ | h
    · exact ⟨_, _, by simp only [printE, h]; rfl, rfl⟩
    · exact ⟨_, _, by simp only [printE, h]; rfl, rfl⟩
  | .var n => ⟨_, _, by simp only [printE]; rfl, rfl⟩
  | .backtick s => ⟨_, _, by simp only [printE]; rfl, rfl⟩
  | .call f args => ⟨_, _, by simp only [printE, List.cons_append]; rfl, rfl⟩
  | .concat l r => by
    obtain ⟨t, r', h, ht⟩ := printE_head l
    exact ⟨t, _, by simp only [printE, h, List.cons_append]; rfl, ht⟩
  | .joinL l r => by
    obtain ⟨t, r', h, ht⟩ := printE_head l
    exact ⟨t, _, by simp only [printE, h, List.cons_append]; rfl, ht⟩
  | .joinR r => ⟨_, _, by simp only [printE, List.cons_append]; rfl, rfl⟩
  | .and l r => by
    obtain ⟨t, r', h, ht⟩ := printE_head l
    exact ⟨t, _, by simp only [printE, h, List.cons_append]; rfl, ht⟩
  | .or l r => by
    obtain ⟨t, r', h, ht⟩ := printE_head l
    exact ⟨t, _, by simp only [printE, h, List.cons_append]; rfl, ht⟩
  | .cond a o b t e => ⟨_, _, by simp only [printE, List.cons_append]; rfl, rfl⟩
  | .assert a o b m => ⟨_, _, by simp only [printE, List.cons_append]; rfl, rfl⟩
  | .group e => ⟨_, _, by simp only [printE, List.cons_append]; rfl, rfl⟩

/-- a parenthesis or a slash at the head of the printed form was at the head of the source -/
def HeadOK (e : Expr) (ts : List Tk) : Prop :=
  ∀ t, (printE e).head? = some t → (t = Tk.lparen ∨ t = Tk.slash) → ts.head? = some t

theorem headOK_of_left {l e : Expr} {ts : List Tk} {mid : List Tk} (h : HeadOK l ts) (hp : printE e = printE l ++ mid) : HeadOK e ts := by
  intro t ht hc
  obtain ⟨t', r', hl, _⟩ := printE_head l
  apply h t _ hc
  rw [hp, hl] at ht
  rw [hl]
  simpa using ht

structure ParserHead (f : Nat) : Prop where
  value : ∀ ts e r, parseValue f ts = some (e, r) → HeadOK e ts
  conjunct : ∀ ts e r, parseConjunct f ts = some (e, r) → HeadOK e ts
  disjunct : ∀ ts e r, parseDisjunct f ts = some (e, r) → HeadOK e ts
  expression : ∀ ts e r, parseExpression f ts = some (e, r) → HeadOK e ts
  conditional : ∀ ts e r, parseConditional f ts = some (e, r) → (printE e).head? = some (.ident "if")

theorem parserHead_zero : ParserHead 0 := by
  constructor <;> intros <;> simp_all [parseValue, parseConjunct, parseDisjunct, parseExpression, parseConditional]

theorem headOK_ident (e : Expr) (ts : List Tk) (h : ∃ n, (printE e).head? = some (.ident n)) : HeadOK e ts := by
  intro t ht hc
  obtain ⟨n, h⟩ := h
  rw [h] at ht
  simp at ht
  subst ht
  rcases hc with hc | hc <;> cases hc

theorem headOK_lit (l : String) (ts : List Tk) : HeadOK (.str l) ts := by
  intro t ht hc
  rcases litTokens_cases l with ⟨cs, _, h⟩ | h <;> (simp only [printE, h] at ht; simp at ht; subst ht; rcases hc with hc | hc <;> cases hc)

theorem parserHead_succ (f : Nat) (ih : ParserHead f) : ParserHead (f + 1) := by
  have i1 := ih.value
  have i2 := ih.conjunct
  have i3 := ih.disjunct
  have i4 := ih.expression
  have i5 := ih.conditional
  constructor
  · intro ts e r h
    unfold parseValue at h
    split at h
    · cases h; exact headOK_lit _ _
    · cases h; intro t ht hc; simp [printE] at ht; subst ht; rcases hc with hc | hc <;> cases hc
    · cases h; exact headOK_lit _ _
    · cases h; exact headOK_lit _ _
    · repeat' split at h
      all_goals (try (cases h; done))
      all_goals (cases h; exact headOK_ident _ _ ⟨"assert", by simp [printE]⟩)
    · repeat' split at h
      all_goals (try (cases h; done))
      all_goals (cases h; exact headOK_ident _ _ ⟨_, by simp only [printE, List.cons_append, List.head?_cons]; rfl⟩)
    · cases h; exact headOK_ident _ _ ⟨_, by simp only [printE, List.head?_cons]; rfl⟩
    · repeat' split at h
      all_goals (try (cases h; done))
      all_goals (cases h; intro t ht hc; simp [printE] at ht; subst ht; simp)
    · cases h
  · intro ts e r h
    unfold parseConjunct at h
    split at h
    · exact headOK_ident _ _ ⟨"if", i5 _ _ _ h⟩
    · split at h
      · cases h
      · cases h; intro t ht hc; simp [printE] at ht; subst ht; simp
    · split at h
      · cases h
      · rename_i v ts1 hv
        have hvv := i1 _ _ _ hv
        repeat' split at h
        all_goals (try (cases h; done))
        · cases h; exact headOK_of_left hvv (by simp only [printE, List.append_assoc]; rfl)
        · cases h; exact headOK_of_left hvv (by simp only [printE, List.append_assoc]; rfl)
        · cases h; exact hvv
  · intro ts e r h
    unfold parseDisjunct at h
    split at h
    · cases h
    · rename_i c ts1 hc
      have hcc := i2 _ _ _ hc
      repeat' split at h
      all_goals (try (cases h; done))
      · cases h; exact headOK_of_left hcc (by simp only [printE, List.append_assoc]; rfl)
      · cases h; exact hcc
  · intro ts e r h
    unfold parseExpression at h
    split at h
    · cases h
    · rename_i d ts1 hd
      have hdd := i3 _ _ _ hd
      repeat' split at h
      all_goals (try (cases h; done))
      · cases h; exact headOK_of_left hdd (by simp only [printE, List.append_assoc]; rfl)
      · cases h; exact hdd
  · intro ts e r h
    unfold parseConditional at h
    repeat' split at h
    all_goals (try (cases h; done))
    all_goals (cases h; simp [printE])

theorem parserHead (f : Nat) : ParserHead f := by
  induction f with
  | zero => exact parserHead_zero
  | succ f ih => exact parserHead_succ f ih

end Just.Syntax

namespace Just.Header
open Just Just.Syntax

theorem parseValue_wfvalue (f : Nat) (ts : List Tk) (e : Expr) (r : List Tk) (h : parseValue f ts = some (e, r)) : WFValue e := by
  cases f with
  | zero => simp [parseValue] at h
  | succ f =>
    have w := parserWF f
    unfold parseValue at h
    split at h
    · cases h; trivial
    · cases h; trivial
    · cases h; trivial
    · cases h; trivial
    · -- assert
      split at h
      · split at h
        · cases h
        · rename_i a o b r2 hc
          split at h
          · split at h
            · cases h
            · rename_i m r4 hm
              split at h
              · cases h
                have h1 := w.condition _ _ _ _ _ hc
                exact ⟨h1.1, h1.2, w.expression _ _ _ hm⟩
              · cases h
          · cases h
      · cases h
    · -- call
      rename_i n r' _ hna
      split at h
      · cases h
      · rename_i args r2 hs
        split at h
        · rename_i hfn
          cases h
          exact ⟨fun hn => hna hn, hfn, w.sequence _ _ _ hs⟩
        · cases h
    · -- variable
      rename_i n r' _ hna _
      cases h
      exact fun hn => hna hn
    · -- group
      split at h
      · cases h
      · rename_i e' r1 he
        split at h
        · cases h; exact w.expression _ _ _ he
        · cases h
    · cases h

theorem parseParam_wf (fuel : Nat) (kind : PKind) (ts : List Tk) (p : Param) (r : List Tk)
    (h : parseParam fuel kind ts = some (p, r)) : p.kind = kind ∧ WFParam p := by
  have hv := parseValue_wfvalue fuel
  unfold parseParam at h
  repeat' split at h
  all_goals (try (cases h; done))
  all_goals (simp only [Option.some.injEq, Prod.mk.injEq] at h; obtain ⟨rfl, rfl⟩ := h)
  all_goals (first | exact ⟨rfl, trivial⟩ | (refine ⟨rfl, ?_⟩; simp only [WFParam]; exact hv _ _ _ ‹_›))

theorem parseParams_wf (vfuel : Nat) : ∀ (f : Nat) (ts : List Tk) (ps : List Param) (r : List Tk),
    parseParams vfuel f ts = some (ps, r) → ∀ p ∈ ps, p.kind = .singular ∧ WFParam p := by
  intro f
  induction f with
  | zero => intro ts ps r h; simp [parseParams] at h
  | succ f ih =>
    intro ts ps r h
    unfold parseParams at h
    repeat' split at h
    all_goals (try (cases h; done))
    all_goals (simp only [Option.some.injEq, Prod.mk.injEq] at h; obtain ⟨rfl, rfl⟩ := h)
    all_goals (intro p hp; simp only [List.mem_cons, List.not_mem_nil] at hp)
    · rcases hp with rfl | hp
      · exact parseParam_wf vfuel _ _ _ _ ‹_›
      · exact ih _ _ _ ‹_› p hp
    · rcases hp with rfl | hp
      · exact parseParam_wf vfuel _ _ _ _ ‹_›
      · exact ih _ _ _ ‹_› p hp

theorem parseVariadic_wf (fuel : Nat) (ts : List Tk) (v : Option Param) (r : List Tk)
    (h : parseVariadic fuel ts = some (v, r)) : ∀ x, v = some x → x.kind ≠ .singular ∧ WFParam x := by
  unfold parseVariadic at h
  repeat' split at h
  all_goals (try (cases h; done))
  all_goals (simp only [Option.some.injEq, Prod.mk.injEq] at h; obtain ⟨rfl, rfl⟩ := h)
  all_goals (intro x hx)
  · cases hx
    have := parseParam_wf fuel _ _ _ _ ‹_›
    exact ⟨by rw [this.1]; simp, this.2⟩
  · cases hx
    have := parseParam_wf fuel _ _ _ _ ‹_›
    exact ⟨by rw [this.1]; simp, this.2⟩
  · cases hx

/-- two consecutive dependency arguments: where the first stopped, its printed form stops in front of the printed second -/
theorem chain_ok (e e' : Expr) (r1 : List Tk) (ha : After e r1) (hs : StopE 3 e r1) (hh : HeadOK e' r1) :
    StopE 3 e (printE e') ∧ After e (printE e') := by
  obtain ⟨t, r', hp, hst⟩ := printE_head e'
  have hhead : (printE e').head? = some t := by rw [hp]; rfl
  constructor
  · intro t' ht'
    rw [hhead] at ht'
    simp only [Option.some.injEq] at ht'
    subst ht'
    cases t <;> simp [startTok] at hst <;> (try (simp [blocksE]; done))
    -- the slash
    exact hs _ (hh _ hhead (.inr rfl))
  · intro n hn
    refine ⟨?_, ?_⟩
    · intro hl
      rw [hhead] at hl
      simp only [Option.some.injEq] at hl
      subst hl
      exact (ha n hn).1 (hh _ hhead (.inl rfl))
    · intro _ s hl
      rw [hhead] at hl
      simp only [Option.some.injEq] at hl
      subst hl
      simp [startTok] at hst

theorem parseDepArgs_wf (efuel : Nat) : ∀ (f : Nat) (ts : List Tk) (args : List Expr) (r : List Tk),
    parseDepArgs efuel f ts = some (args, r) → WFArgs args ∧ (∀ e es, args = e :: es → HeadOK e ts) := by
  intro f
  induction f with
  | zero => intro ts args r h; simp [parseDepArgs] at h
  | succ f ih =>
    intro ts args r h
    unfold parseDepArgs at h
    split at h
    · cases h; exact ⟨trivial, fun e es hh => by cases hh⟩
    · split at h
      · rename_i e r1 he
        split at h
        · rename_i es r' hes
          cases h
          have hw := (parserWF efuel).expression _ _ _ he
          have hst := (parserStops efuel).expression _ _ _ he
          have hhd := (parserHead efuel).expression _ _ _ he
          obtain ⟨hwes, hhes⟩ := ih _ _ _ hes
          refine ⟨?_, fun e0 es0 hh => by cases hh; exact hhd⟩
          cases es with
          | nil => exact hw
          | cons e' es' =>
            have hc := chain_ok e e' r1 hst.1 hst.2 (hhes e' es' rfl)
            exact ⟨hw, hc.1, hc.2, hwes⟩
        · cases h
      · cases h

theorem acceptDep_wf (efuel afuel : Nat) (ts : List Tk) (d : Dep) (r : List Tk)
    (h : acceptDep efuel afuel ts = some (some d, r)) : WFDep d := by
  unfold acceptDep at h
  repeat' split at h
  all_goals (try (cases h; done))
  · cases h; trivial
  · cases h; exact (parseDepArgs_wf efuel afuel _ _ _ ‹_›).1

theorem parseDeps_wf (efuel afuel : Nat) : ∀ (f : Nat) (ts : List Tk) (ds : List Dep) (r : List Tk),
    parseDeps efuel afuel f ts = some (ds, r) → ∀ d ∈ ds, WFDep d := by
  intro f
  induction f with
  | zero => intro ts ds r h; simp [parseDeps] at h
  | succ f ih =>
    intro ts ds r h
    unfold parseDeps at h
    repeat' split at h
    all_goals (try (cases h; done))
    · cases h
      intro d hd
      simp only [List.mem_cons] at hd
      rcases hd with rfl | hd
      · exact acceptDep_wf efuel afuel _ _ _ ‹_›
      · exact ih _ _ _ ‹_› d hd
    · cases h; intro d hd; cases hd

theorem parseHeader_wf (fuel : Nat) (ts : List Tk) (hd : Header) (r : List Tk)
    (h : parseHeader fuel ts = some (hd, r)) : WFHeader hd := by
  have key : ∀ q n ts1, parseNamed fuel q n ts1 = some (hd, r) → WFHeader hd := by
    intro q n ts1 hn
    unfold parseNamed at hn
    split at hn
    · cases hn
    · rename_i params ts2 hp
      split at hn
      · cases hn
      · rename_i v ts3 hv
        split at hn
        · cases hn
        · rename_i priors subs rest ht
          cases hn
          have hps := parseParams_wf fuel fuel _ _ _ hp
          have hvv := parseVariadic_wf fuel _ _ _ hv
          unfold parseTail at ht
          repeat' split at ht
          all_goals (try (cases ht; done))
          all_goals (simp only [Option.some.injEq, Prod.mk.injEq] at ht; obtain ⟨⟨rfl, rfl⟩, rfl⟩ := ht)
          · exact ⟨hps, hvv, parseDeps_wf fuel fuel fuel _ _ _ ‹_›, parseDeps_wf fuel fuel fuel _ _ _ ‹_›⟩
          · exact ⟨hps, hvv, parseDeps_wf fuel fuel fuel _ _ _ ‹_›, fun d hd => by cases hd⟩
  unfold parseHeader at h
  split at h
  · exact key _ _ _ h
  · exact key _ _ _ h
  · cases h

end Just.Header

namespace Just.Items
open Just Just.Syntax Just.Header

theorem parseFrags_wf (efuel : Nat) : ∀ (f : Nat) (ts : List Tk) (l : BLine) (r : List Tk),
    parseFrags efuel f ts = some (l, r) → ∀ x ∈ l, WFFrag x := by
  intro f
  induction f with
  | zero => intro ts l r h; simp [parseFrags] at h
  | succ f ih =>
    intro ts l r h
    unfold parseFrags at h
    repeat' split at h
    all_goals (try (cases h; done))
    all_goals (simp only [Option.some.injEq, Prod.mk.injEq] at h; obtain ⟨rfl, rfl⟩ := h)
    all_goals (intro x hx; simp only [List.mem_cons, List.not_mem_nil] at hx)
    · rcases hx with rfl | hx
      · trivial
      · exact ih _ _ _ ‹_› x hx
    · rcases hx with rfl | hx
      · exact (parserWF efuel).expression _ _ _ ‹_›
      · exact ih _ _ _ ‹_› x hx

theorem parseLines_wf (efuel ffuel : Nat) : ∀ (f : Nat) (ts : List Tk) (ls : List BLine) (r : List Tk),
    parseLines efuel ffuel f ts = some (ls, r) → ∀ l ∈ ls, ∀ x ∈ l, WFFrag x := by
  intro f
  induction f with
  | zero => intro ts ls r h; simp [parseLines] at h
  | succ f ih =>
    intro ts ls r h
    unfold parseLines at h
    repeat' split at h
    all_goals (try (cases h; done))
    all_goals (simp only [Option.some.injEq, Prod.mk.injEq] at h; obtain ⟨rfl, rfl⟩ := h)
    all_goals (intro l hl; simp only [List.mem_cons, List.not_mem_nil] at hl)
    · rcases hl with rfl | hl
      · exact parseFrags_wf efuel ffuel _ _ _ ‹_›
      · exact ih _ _ _ ‹_› l hl

theorem dropTrailingEmpty_sub : ∀ (ls : List BLine), ∀ l ∈ dropTrailingEmpty ls, l ∈ ls := by
  intro ls
  induction ls with
  | nil => intro l hl; simp [dropTrailingEmpty] at hl
  | cons a as ih =>
    intro l hl
    simp only [dropTrailingEmpty] at hl
    split at hl
    · split at hl
      · cases hl
      · simp only [List.mem_singleton] at hl; subst hl; simp
    · rename_i hne
      simp only [List.mem_cons] at hl
      rcases hl with rfl | hl
      · simp
      · exact List.mem_cons_of_mem _ (ih l hl)

theorem dropTrailingEmpty_noTrailing : ∀ (ls : List BLine), NoTrailingEmpty (dropTrailingEmpty ls) := by
  intro ls
  induction ls with
  | nil => trivial
  | cons a as ih =>
    simp only [dropTrailingEmpty]
    split
    · split
      · trivial
      · rename_i hne
        simp only [NoTrailingEmpty]
        intro h; subst h; simp at hne
    · rename_i hne
      cases hd : dropTrailingEmpty as with
      | nil => exact absurd hd hne
      | cons b bs =>
        rw [hd] at ih
        simpa [NoTrailingEmpty] using ih

theorem parseBody_wf (fuel : Nat) (ts : List Tk) (b : List BLine) (r : List Tk) (h : parseBody fuel ts = some (b, r)) :
    (∀ l ∈ b, ∀ x ∈ l, WFFrag x) ∧ NoTrailingEmpty b := by
  unfold parseBody at h
  split at h
  · split at h
    · rename_i ls r' hl
      cases h
      exact ⟨fun l hm => parseLines_wf fuel fuel fuel _ _ _ hl l (dropTrailingEmpty_sub ls l hm), dropTrailingEmpty_noTrailing ls⟩
    · cases h
  · cases h
    exact ⟨fun l hl => absurd hl (by simp), trivial⟩

theorem parseRecipe_wf (fuel : Nat) (ts : List Tk) (rc : Recipe) (r : List Tk) (h : parseRecipe fuel ts = some (rc, r)) : WFRecipe rc := by
  unfold parseRecipe at h
  repeat' split at h
  all_goals (try (cases h; done))
  cases h
  have hb := parseBody_wf fuel _ _ _ ‹_›
  exact ⟨parseHeader_wf fuel _ _ _ ‹_›, hb.1, hb.2⟩

end Just.Items

namespace Just.Ast
open Just Just.Syntax Just.Header Just.Items

/-! ### the attribute set stays sorted -/

/-- the order between two literals is a linear order (the real one compares cooked text, then the flags, then the raw text) -/
structure LinearLe (litLe : String → String → Bool) : Prop where
  total : ∀ a b, litLe a b = true ∨ litLe b a = true
  trans : ∀ a b c, litLe a b = true → litLe b c = true → litLe a c = true
  antisymm : ∀ a b, litLe a b = true → litLe b a = true → a = b

theorem argsLe_total {litLe : String → String → Bool} (hl : LinearLe litLe) : ∀ x y, argsLe litLe x y = true ∨ argsLe litLe y x = true := by
  intro x
  induction x with
  | nil => intro y; left; simp [argsLe]
  | cons a as ih =>
    intro y
    cases y with
    | nil => right; simp [argsLe]
    | cons b bs =>
      by_cases hab : a = b
      · subst hab; simpa [argsLe] using ih bs
      · have hba : ¬ b = a := fun h => hab h.symm
        simpa [argsLe, hab, hba] using hl.total a b

theorem argsLe_trans {litLe : String → String → Bool} (hl : LinearLe litLe) :
    ∀ x y z, argsLe litLe x y = true → argsLe litLe y z = true → argsLe litLe x z = true := by
  intro x
  induction x with
  | nil => intro y z _ _; simp [argsLe]
  | cons a as ih =>
    intro y z hxy hyz
    cases y with
    | nil => simp [argsLe] at hxy
    | cons b bs =>
      cases z with
      | nil => simp [argsLe] at hyz
      | cons c cs =>
        by_cases hab : a = b
        · subst hab
          by_cases hbc : a = c
          · subst hbc
            simp only [argsLe, beq_self_eq_true, if_true] at hxy hyz ⊢
            exact ih bs cs hxy hyz
          · simp only [argsLe, beq_self_eq_true, if_true] at hxy
            simpa [argsLe, hbc] using hyz
        · by_cases hbc : b = c
          · subst hbc
            simpa [argsLe, hab] using hxy
          · have h1 : litLe a b = true := by simpa [argsLe, hab] using hxy
            have h2 : litLe b c = true := by simpa [argsLe, hbc] using hyz
            have hac : ¬ a = c := by
              intro h; subst h
              exact hab (hl.antisymm a b h1 h2)
            simpa [argsLe, hac] using hl.trans a b c h1 h2

theorem attrLe_total {litLe : String → String → Bool} (hl : LinearLe litLe) (a b : Attr) : attrLe litLe a b = true ∨ attrLe litLe b a = true := by
  unfold attrLe
  by_cases h : attrIndex a.name = attrIndex b.name
  · simp only [h, beq_self_eq_true, if_true]
    exact argsLe_total hl _ _
  · have h' : ¬ attrIndex b.name = attrIndex a.name := fun x => h x.symm
    simp only [beq_iff_eq, h, h', if_false, decide_eq_true_eq]
    omega

theorem attrLe_trans {litLe : String → String → Bool} (hl : LinearLe litLe) (a b c : Attr)
    (h1 : attrLe litLe a b = true) (h2 : attrLe litLe b c = true) : attrLe litLe a c = true := by
  unfold attrLe at *
  by_cases hab : attrIndex a.name = attrIndex b.name
  · by_cases hbc : attrIndex b.name = attrIndex c.name
    · have hac : attrIndex a.name = attrIndex c.name := hab.trans hbc
      simp only [hab, hbc, hac, beq_self_eq_true, if_true] at h1 h2 ⊢
      exact argsLe_trans hl _ _ _ h1 h2
    · have hac : ¬ attrIndex a.name = attrIndex c.name := fun h => hbc (hab.symm.trans h)
      simp only [beq_iff_eq, hbc, hac, if_false, decide_eq_true_eq] at h2 ⊢
      omega
  · by_cases hbc : attrIndex b.name = attrIndex c.name
    · have hac : ¬ attrIndex a.name = attrIndex c.name := fun h => hab (h.trans hbc.symm)
      simp only [beq_iff_eq, hab, hac, if_false, decide_eq_true_eq] at h1 ⊢
      omega
    · simp only [beq_iff_eq, hab, hbc, if_false, decide_eq_true_eq] at h1 h2
      have hac : ¬ attrIndex a.name = attrIndex c.name := by omega
      simp only [beq_iff_eq, hac, if_false, decide_eq_true_eq]
      omega

/-- "duplicate of" is symmetric -/
theorem dup_symm (a b : Attr) :
    (b.name == a.name && (a.name != "group" || b.args == a.args)) = (a.name == b.name && (b.name != "group" || a.args == b.args)) := by
  have hargs : (b.args == a.args) = (a.args == b.args) := by
    rw [Bool.eq_iff_iff]; simp only [beq_iff_eq]; exact eq_comm
  have hname : (b.name == a.name) = (a.name == b.name) := by
    rw [Bool.eq_iff_iff]; simp only [beq_iff_eq]; exact eq_comm
  rw [hargs, hname]
  by_cases h : a.name = b.name
  · rw [h]
  · have : (a.name == b.name) = false := by simpa using h
    rw [this]; rfl

theorem insertAttr_mem (litLe : String → String → Bool) (a : Attr) (l : List Attr) (x : Attr) :
    x ∈ insertAttr litLe a l ↔ x = a ∨ x ∈ l := by
  induction l with
  | nil => simp [insertAttr]
  | cons b l ih =>
    simp only [insertAttr]
    split
    · simp only [List.mem_cons, ih]
      constructor
      · rintro (h | h | h)
        · exact .inr (.inl h)
        · exact .inl h
        · exact .inr (.inr h)
      · rintro (h | h | h)
        · exact .inr (.inl h)
        · exact .inl h
        · exact .inr (.inr h)
    · simp only [List.mem_cons]

theorem insertAttr_sorted {litLe : String → String → Bool} (hl : LinearLe litLe) (a : Attr) (l : List Attr)
    (hs : l.Pairwise (Compatible litLe)) (hd : isDup a l = false) : (insertAttr litLe a l).Pairwise (Compatible litLe) := by
  induction l with
  | nil => simp [insertAttr]
  | cons b l ih =>
    have hpc := List.pairwise_cons.mp hs
    have hd' : isDup a l = false ∧ (b.name == a.name && (a.name != "group" || b.args == a.args)) = false := by
      simp only [isDup, List.any_cons, Bool.or_eq_false_iff] at hd
      exact ⟨hd.2, hd.1⟩
    simp only [insertAttr]
    split
    · rename_i hle
      rw [List.pairwise_cons]
      refine ⟨?_, ih hpc.2 hd'.1⟩
      intro x hx
      rw [insertAttr_mem] at hx
      rcases hx with rfl | hx
      · exact ⟨hle, hd'.2⟩
      · exact hpc.1 x hx
    · rename_i hnle
      have hab : attrLe litLe a b = true := by
        rcases attrLe_total hl a b with h | h
        · exact h
        · exact absurd h hnle
      rw [List.pairwise_cons]
      refine ⟨?_, hs⟩
      intro x hx
      simp only [List.mem_cons] at hx
      rcases hx with rfl | hx
      · exact ⟨hab, by rw [← dup_symm]; exact hd'.2⟩
      · refine ⟨attrLe_trans hl a b x hab (hpc.1 x hx).1, ?_⟩
        have : isDup a l = false := hd'.1
        simp only [isDup, List.any_eq_false] at this
        have hx' := this x hx
        rw [← dup_symm]
        simpa using hx'

/-- the invariant of the attribute accumulator -/
def AttrsOK (litLe : String → String → Bool) (acc : List Attr) : Prop :=
  (∀ a ∈ acc, attrValid a = true) ∧ acc.Pairwise (Compatible litLe)

theorem attrsOK_insert {litLe : String → String → Bool} (hl : LinearLe litLe) (a : Attr) (acc : List Attr) (h : AttrsOK litLe acc)
    (hv : attrValid a = true) (hd : isDup a acc = false) : AttrsOK litLe (insertAttr litLe a acc) := by
  refine ⟨?_, insertAttr_sorted hl a acc h.2 hd⟩
  intro x hx
  rw [insertAttr_mem] at hx
  rcases hx with rfl | hx
  · exact hv
  · exact h.1 x hx

theorem parseAttrGroup_ok {litLe : String → String → Bool} (hl : LinearLe litLe) (fuel : Nat) : ∀ (f : Nat) (acc : List Attr) (ts : List Tk)
    (as : List Attr) (r : List Tk), AttrsOK litLe acc → parseAttrGroup litLe fuel f acc ts = some (as, r) → AttrsOK litLe as := by
  intro f
  induction f with
  | zero => intro acc ts as r _ h; simp [parseAttrGroup] at h
  | succ f ih =>
    intro acc ts as r hacc h
    unfold parseAttrGroup at h
    split at h
    · rename_i n r0
      split at h
      · cases h
      · rename_i args r1 hargs
        split at h
        · cases h
        · rename_i hv
          split at h
          · cases h
          · rename_i hd
            have hv' : attrValid ⟨n, args⟩ = true := by
              cases hx : attrValid ⟨n, args⟩ with
              | true => rfl
              | false => exact absurd hx hv
            have hd' : isDup ⟨n, args⟩ acc = false := by
              cases hx : isDup ⟨n, args⟩ acc with
              | false => rfl
              | true => exact absurd hx hd
            have hins := attrsOK_insert hl ⟨n, args⟩ acc hacc hv' hd'
            repeat' split at h
            all_goals (try (cases h; done))
            · exact ih _ _ _ _ hins h
            · cases h; exact hins
    · cases h

theorem parseAttributes_ok {litLe : String → String → Bool} (hl : LinearLe litLe) (fuel : Nat) : ∀ (f : Nat) (acc : List Attr) (ts : List Tk)
    (as : List Attr) (r : List Tk), AttrsOK litLe acc → parseAttributes litLe fuel f acc ts = some (as, r) → AttrsOK litLe as := by
  intro f
  induction f with
  | zero => intro acc ts as r _ h; simp [parseAttributes] at h
  | succ f ih =>
    intro acc ts as r hacc h
    unfold parseAttributes at h
    repeat' split at h
    all_goals (try (cases h; done))
    · exact ih _ _ _ _ (parseAttrGroup_ok hl fuel fuel _ _ _ _ hacc ‹_›) h
    · cases h; exact hacc


/-! ### settings, comments, doc comments -/

theorem parseSet_wf (fuel : Nat) (ts : List Tk) (st : Setting) (r : List Tk) (h : parseSet fuel ts = some (st, r)) : WFSetting st := by
  unfold parseSet at h
  split at h
  · rename_i name r0
    split at h
    · rename_i hform
      repeat' split at h
      all_goals (try (cases h; done))
      all_goals (cases h; exact hform)
    · rename_i hform
      repeat' split at h
      all_goals (try (cases h; done))
      all_goals (cases h; exact hform)
    · rename_i hform
      split at h
      · rename_i r1
        split at h
        · rename_i v r' hi
          cases h
          unfold parseInterpreter at hi
          repeat' split at hi
          all_goals (try (cases hi; done))
          all_goals (cases hi; exact hform)
        · cases h
      · cases h
    · cases h
  · cases h

theorem dropWhile_fixed {p : Char → Bool} : ∀ {l : List Char}, l.dropWhile p = l → ∀ x, l.head? = some x → p x = false := by
  intro l h x hx
  cases l with
  | nil => simp at hx
  | cons a as =>
    simp only [List.head?_cons, Option.some.injEq] at hx
    subst hx
    cases hp : p a with
    | false => rfl
    | true =>
      simp only [List.dropWhile, hp] at h
      have := List.dropWhile_suffix p (l := as)
      rw [h] at this
      have := this.length_le
      simp at this
      omega

theorem dropWhile_head {p : Char → Bool} (l : List Char) : ∀ x, (l.dropWhile p).head? = some x → p x = false := by
  induction l with
  | nil => intro x hx; simp at hx
  | cons a as ih =>
    intro x hx
    simp only [List.dropWhile] at hx
    split at hx
    · exact ih x hx
    · rename_i hp
      simp only [List.head?_cons, Option.some.injEq] at hx
      subst hx
      simpa using hp

theorem getLast?_of_suffix {l₁ l₂ : List Char} (h : l₁ <:+ l₂) (hne : l₁ ≠ []) : l₁.getLast? = l₂.getLast? := by
  obtain ⟨t, rfl⟩ := h
  induction t with
  | nil => rfl
  | cons a t ih =>
    rw [List.cons_append, List.getLast?_cons_of_ne_nil (by simp [hne])]
    exact ih
where
  List.getLast?_cons_of_ne_nil {a : Char} {l : List Char} (h : l ≠ []) : (a :: l).getLast? = l.getLast? := by
    cases l with
    | nil => exact absurd rfl h
    | cons b l => rfl

theorem trimEnd_idem (c : List Char) : trimEnd (trimEnd c) = trimEnd c := by
  unfold trimEnd
  rw [List.reverse_reverse]
  congr 1
  generalize c.reverse = l
  induction l with
  | nil => rfl
  | cons a as ih =>
    simp only [List.dropWhile]
    split
    · exact ih
    · rename_i hp
      simp only [List.dropWhile, hp]

/-- the last character of a trimmed comment is not white space -/
theorem trimmed_last (c : List Char) (h : trimEnd c = c) : ∀ x, c.getLast? = some x → Body.isWhite x = false := by
  intro x hx
  unfold trimEnd at h
  have h' : c.reverse.dropWhile Body.isWhite = c.reverse := by
    have := congrArg List.reverse h
    simpa using this
  apply dropWhile_fixed h' x
  rw [List.getLast?_eq_head?_reverse] at hx
  exact hx

/-- the doc comment popped from a trimmed comment item is well-formed when it is not empty -/
theorem docOf_wf (c : List Char) (h : trimEnd c = c) (hne : docOf c ≠ []) : WFDoc (docOf c) := by
  refine ⟨hne, dropWhile_head _, ?_⟩
  intro x hx
  have hs1 : docOf c <:+ c.drop 1 := List.dropWhile_suffix _
  have hs2 : c.drop 1 <:+ c := List.drop_suffix 1 c
  have hl := getLast?_of_suffix (hs1.trans hs2) hne
  rw [hl] at hx
  exact trimmed_last c h x hx


/-! ### every item `parse_ast` returns is well-formed -/

def AccOK (litLe : String → String → Bool) (acc : List Item) : Prop := ∀ it ∈ acc, WFItem litLe it

def Outcome.OK (litLe : String → String → Bool) : Outcome → Prop
  | .more acc _ _ => AccOK litLe acc
  | .done acc => AccOK litLe acc

theorem accOK_cons {litLe : String → String → Bool} {it : Item} {acc : List Item} (h1 : WFItem litLe it) (h2 : AccOK litLe acc) :
    AccOK litLe (it :: acc) := by
  intro x hx
  simp only [List.mem_cons] at hx
  rcases hx with rfl | hx
  · exact h1
  · exact h2 x hx

theorem popDoc_ok {litLe : String → String → Bool} (acc : List Item) (eol : Bool) (h : AccOK litLe acc) : AccOK litLe (popDoc acc eol).2 := by
  unfold popDoc
  split
  · exact h
  · split
    · rename_i c rest
      exact fun x hx => h x (List.mem_cons_of_mem _ hx)
    · exact h

theorem popDoc_doc {litLe : String → String → Bool} (acc : List Item) (eol : Bool) (h : AccOK litLe acc) :
    ∀ d, Option.filter (fun d => !d.isEmpty) (popDoc acc eol).1 = some d → WFDoc d := by
  intro d hd
  unfold popDoc at hd
  split at hd
  · simp at hd
  · split at hd
    · rename_i c rest
      have hc : trimEnd c = c := h (.comment c) (by simp)
      simp only [Option.filter] at hd
      split at hd
      · rename_i hne
        cases hd
        exact docOf_wf c hc (by intro he; simp [he] at hne)
      · cases hd
    · simp at hd

theorem recipeStep_wf {litLe : String → String → Bool} (fuel : Nat) (attrs : List Attr) (acc : List Item) (eol : Bool) (ts : List Tk)
    (o : Outcome) (hattrs : AttrsOK litLe attrs) (hacc : AccOK litLe acc) (h : recipeStep fuel attrs acc eol ts = some o) : o.OK litLe := by
  unfold recipeStep at h
  split at h
  · cases h
  · rename_i r rest hr
    split at h
    · cases h
    · rename_i hconf
      cases h
      simp only [Outcome.OK]
      apply accOK_cons _ (popDoc_ok acc eol hacc)
      have hc : recipeConflict attrs r.body = false := by
        cases hx : recipeConflict attrs r.body with
        | false => rfl
        | true => exact absurd hx hconf
      refine ⟨⟨⟨hattrs.1, hattrs.2⟩, parseRecipe_wf fuel _ _ _ hr, hc⟩, ?_, ?_⟩
      · intro hd; simp [hd]
      · intro d hd
        split at hd
        · cases hd
        · exact popDoc_doc acc eol hacc d hd

theorem modStep_wf {litLe : String → String → Bool} (attrs : List Attr) (acc : List Item) (eol : Bool) (ts : List Tk) (o : Outcome)
    (hacc : AccOK litLe acc) (h : modStep attrs acc eol ts = some o) : o.OK litLe := by
  unfold modStep at h
  repeat' split at h
  all_goals (try (cases h; done))
  all_goals (cases h; exact accOK_cons trivial (popDoc_ok acc eol hacc))

theorem importStep_wf {litLe : String → String → Bool} (attrs : List Attr) (acc : List Item) (eol : Bool) (ts : List Tk) (o : Outcome)
    (hacc : AccOK litLe acc) (h : importStep attrs acc eol ts = some o) : o.OK litLe := by
  unfold importStep at h
  repeat' split at h
  all_goals (try (cases h; done))
  all_goals (cases h; exact accOK_cons trivial hacc)

theorem parseAssignment_wf (fuel : Nat) (ts : List Tk) (a : Assignment) (r : List Tk) (h : parseAssignment fuel ts = some (a, r)) : WF a.value := by
  unfold parseAssignment at h
  repeat' split at h
  all_goals (try (cases h; done))
  all_goals (cases h; exact (parserWF fuel).expression _ _ _ ‹_›)

theorem identStep_wf {litLe : String → String → Bool} (fuel : Nat) (kw : String) (attrs : List Attr) (acc : List Item) (eol : Bool)
    (ts : List Tk) (o : Outcome) (hattrs : AttrsOK litLe attrs) (hacc : AccOK litLe acc)
    (h : identStep fuel kw attrs acc eol ts = some o) : o.OK litLe := by
  have hassign : ∀ (a : Assignment) (rest : List Tk), parseAssignment fuel ts = some (a, rest) →
      AccOK litLe (Item.assignment (!attrs.isEmpty || startsUnderscore a.name) a :: acc) := by
    intro a rest ha
    refine accOK_cons ⟨parseAssignment_wf fuel ts a rest ha, ?_⟩ hacc
    intro hu; simp [hu]
  unfold identStep at h
  split at h
  · -- alias
    repeat' split at h
    all_goals (try (cases h; done))
    all_goals (cases h; exact accOK_cons trivial hacc)
  · split at h
    · -- export
      repeat' split at h
      all_goals (try (cases h; done))
      all_goals (cases h; exact hassign _ _ ‹_›)
    · split at h
      · -- unexport
        repeat' split at h
        all_goals (try (cases h; done))
        all_goals (cases h; exact accOK_cons trivial hacc)
      · split at h
        · exact importStep_wf attrs acc eol ts o hacc h
        · split at h
          · exact modStep_wf attrs acc eol ts o hacc h
          · split at h
            · -- set
              repeat' split at h
              all_goals (try (cases h; done))
              all_goals (cases h; exact accOK_cons (parseSet_wf fuel _ _ _ ‹_›) hacc)
            · split at h
              · repeat' split at h
                all_goals (try (cases h; done))
                all_goals (cases h; exact hassign _ _ ‹_›)
              · exact recipeStep_wf fuel attrs acc eol ts o hattrs hacc h

theorem step_wf {litLe : String → String → Bool} (hl : LinearLe litLe) (fuel : Nat) (acc : List Item) (eol : Bool) (ts : List Tk) (o : Outcome)
    (hacc : AccOK litLe acc) (h : step litLe fuel acc eol ts = some o) : o.OK litLe := by
  unfold step at h
  split at h
  · cases h
  · rename_i attrs ts1 hat
    have hattrs : AttrsOK litLe attrs := parseAttributes_ok hl fuel fuel [] ts attrs ts1 ⟨fun a ha => absurd ha (by simp), List.Pairwise.nil⟩ hat
    split at h
    · -- comment
      repeat' split at h
      all_goals (try (cases h; done))
      all_goals (cases h; exact accOK_cons (trimEnd_idem _) hacc)
    · repeat' split at h
      all_goals (try (cases h; done))
      all_goals (cases h; exact hacc)
    · repeat' split at h
      all_goals (try (cases h; done))
      all_goals (cases h; exact hacc)
    · exact identStep_wf fuel _ attrs acc eol _ o hattrs hacc h
    · exact recipeStep_wf fuel attrs acc eol _ o hattrs hacc h
    · cases h

theorem parseItems_wf {litLe : String → String → Bool} (hl : LinearLe litLe) (fuel : Nat) : ∀ (f : Nat) (acc : List Item) (eol : Bool)
    (ts : List Tk) (items : List Item), AccOK litLe acc → parseItems litLe fuel f acc eol ts = some items → ∀ it ∈ items, WFItem litLe it := by
  intro f
  induction f with
  | zero => intro acc eol ts items _ h; simp [parseItems] at h
  | succ f ih =>
    intro acc eol ts items hacc h
    simp only [parseItems] at h
    split at h
    · cases h
    · rename_i acc' hs
      cases h
      have := step_wf hl fuel acc eol ts _ hacc hs
      intro it hit
      exact this it (by simpa using hit)
    · rename_i acc' eol' rest hs
      exact ih acc' eol' rest items (step_wf hl fuel acc eol ts _ hacc hs) h

/-- **Whatever `parse_ast` returns is well-formed**, for every token list and every fuel. -/
theorem parseAst_wf {litLe : String → String → Bool} (hl : LinearLe litLe) (fuel : Nat) (ts : List Tk) (items : List Item)
    (h : parseAst litLe fuel ts = some items) : ∀ it ∈ items, WFItem litLe it := by
  unfold parseAst at h
  split at h
  · exact parseItems_wf hl fuel fuel [] false _ items (fun it hit => absurd hit (by simp)) h
  · exact parseItems_wf hl fuel fuel [] false _ items (fun it hit => absurd hit (by simp)) h

end Just.Ast
