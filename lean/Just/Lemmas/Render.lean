import Just.Model.Render
import Just.Lemmas.Lexer
/-
Facts about positions, `lines` and the caret scan, used by the C12 theorems.
-/
namespace Just.Render
open Just.Lexer

/-- the current (partial) line after reading `pre`, reversed; `acc` is the partial line before -/
def accAfter : List Char → List Char → List Char
  | [], acc => acc
  | c :: cs, acc => if c = '\n' then accAfter cs [] else accAfter cs (c :: acc)

/-- the complete lines inside `pre` -/
def doneLines : List Char → List Char → List (List Char)
  | [], _ => []
  | c :: cs, acc => if c = '\n' then stripCr acc :: doneLines cs [] else doneLines cs (c :: acc)

/-- the text of the last, unfinished line of `pre` -/
def lastLine (pre : List Char) : List Char := (accAfter pre []).reverse

def dispWidth (w : Char → Nat) (cs : List Char) : Nat := (cs.map (charWidth w)).sum

theorem linesGo_append (pre rest acc : List Char) :
    linesGo (pre ++ rest) acc = doneLines pre acc ++ linesGo rest (accAfter pre acc) := by
  induction pre generalizing acc with
  | nil => simp [doneLines, accAfter]
  | cons c cs ih =>
    simp only [List.cons_append, linesGo, doneLines, accAfter]
    split <;> simp [ih]

theorem doneLines_length (pre acc : List Char) : (doneLines pre acc).length = pre.count '\n' := by
  induction pre generalizing acc with
  | nil => simp [doneLines]
  | cons c cs ih =>
    simp only [doneLines]
    split
    · rename_i h; subst h; simp [ih]
    · rename_i h
      rw [ih, List.count_cons_of_ne (by simpa using h)]

theorem foldl_stepPos (pre : List Char) (p : Pos) (acc : List Char) (hcol : p.column = utf8Len acc) :
    (pre.foldl stepPos p).line = p.line + pre.count '\n'
    ∧ (pre.foldl stepPos p).column = utf8Len (accAfter pre acc) := by
  induction pre generalizing p acc with
  | nil => simp [accAfter, hcol]
  | cons c cs ih =>
    simp only [List.foldl_cons, accAfter]
    by_cases h : c = '\n'
    · subst h
      have := ih (stepPos p '\n') [] (by simp [stepPos])
      simp only [if_true]
      refine ⟨?_, this.2⟩
      rw [this.1]; simp [stepPos]; omega
    · have := ih (stepPos p c) (c :: acc) (by simp [stepPos, h, hcol]; omega)
      simp only [h, if_false]
      refine ⟨?_, this.2⟩
      rw [this.1, List.count_cons_of_ne (by simpa using h)]; simp [stepPos, h]

theorem posR_reverse (pre : List Char) : posR pre.reverse = pre.foldl stepPos ⟨0, 0, 0⟩ := by
  have : ∀ (r : List Char), posR r = r.foldr (fun c p => stepPos p c) ⟨0, 0, 0⟩ := by
    intro r; induction r with
    | nil => rfl
    | cons c cs ih => simp [posR, ih]
  rw [this, List.foldr_reverse]

/-- line = number of line feeds before the token; column = bytes since the last line feed -/
theorem posOf_line (pre : List Char) : (posOf pre).line = pre.count '\n' := by
  have := (foldl_stepPos pre ⟨0, 0, 0⟩ [] rfl).1
  simpa [posOf, posR_reverse] using this

theorem posOf_column (pre : List Char) : (posOf pre).column = utf8Len (lastLine pre) := by
  have := (foldl_stepPos pre ⟨0, 0, 0⟩ [] rfl).2
  simpa [posOf, posR_reverse, lastLine] using this

/-- the line selected by `lines().nth(line)` for a token that starts after `pre` -/
theorem lines_at (pre rest : List Char) :
    (lines (pre ++ rest))[(posOf pre).line]? = (linesGo rest (accAfter pre [])).head? := by
  rw [lines, linesGo_append, posOf_line, ← doneLines_length pre []]
  simp [List.getElem?_append_right, List.head?_eq_getElem?]

theorem linesGo_noeol (a acc : List Char) (h : '\n' ∉ a) :
    linesGo a acc = if a = [] ∧ acc = [] then [] else [acc.reverse ++ a] := by
  induction a generalizing acc with
  | nil => cases acc <;> simp [linesGo]
  | cons c cs ih =>
    have hc : c ≠ '\n' := fun h' => h (by simp [h'])
    have hcs : '\n' ∉ cs := fun h' => h (by simp [h'])
    simp only [linesGo, hc, if_false, ih (c :: acc) hcs]
    simp

theorem linesGo_eol (a b acc : List Char) (h : '\n' ∉ a) :
    linesGo (a ++ '\n' :: b) acc = stripCr (a.reverse ++ acc) :: linesGo b [] := by
  induction a generalizing acc with
  | nil => simp [linesGo]
  | cons c cs ih =>
    have hc : c ≠ '\n' := fun h' => h (by simp [h'])
    have hcs : '\n' ∉ cs := fun h' => h (by simp [h'])
    simp only [List.cons_append, linesGo, hc, if_false, ih (c :: acc) hcs]
    simp

/-- scanning a prefix that lies entirely before the token column contributes only to space_column -/
theorem scan_before (w : Char → Nat) (column width : Nat) (a rest : List Char) (i : Nat)
    (h : i + utf8Len a ≤ column) :
    scan w column width (a ++ rest) i =
      (dispWidth w a + (scan w column width rest (i + utf8Len a)).1, (scan w column width rest (i + utf8Len a)).2) := by
  induction a generalizing i with
  | nil => simp [dispWidth]
  | cons c cs ih =>
    have hc : 0 < c.utf8Size := Char.utf8Size_pos c
    simp only [utf8Len_cons] at h
    simp only [List.cons_append, scan, utf8Len_cons]
    rw [ih (i + c.utf8Size) (by omega)]
    have h1 : i < column := by omega
    have h2 : ¬ (i ≥ column ∧ i < column + width) := by omega
    simp [h1, h2, dispWidth, Nat.add_assoc]

/-- scanning the token's own characters contributes only to space_width -/
theorem scan_inside (w : Char → Nat) (column width : Nat) (b rest : List Char) (i : Nat)
    (hlo : column ≤ i) (hhi : i + utf8Len b ≤ column + width) :
    scan w column width (b ++ rest) i =
      ((scan w column width rest (i + utf8Len b)).1, dispWidth w b + (scan w column width rest (i + utf8Len b)).2) := by
  induction b generalizing i with
  | nil => simp [dispWidth]
  | cons c cs ih =>
    have hc : 0 < c.utf8Size := Char.utf8Size_pos c
    simp only [utf8Len_cons] at hhi
    simp only [List.cons_append, scan, utf8Len_cons]
    rw [ih (i + c.utf8Size) (by omega) (by omega)]
    have h1 : ¬ i < column := by omega
    have h2 : (i ≥ column ∧ i < column + width) := by omega
    simp [h1, h2, dispWidth, Nat.add_assoc]

/-- characters after the token contribute nothing -/
theorem scan_after (w : Char → Nat) (column width : Nat) (c : List Char) (i : Nat)
    (h : column + width ≤ i) : scan w column width c i = (0, 0) := by
  induction c generalizing i with
  | nil => rfl
  | cons x xs ih =>
    simp only [scan]
    rw [ih (i + x.utf8Size) (by omega)]
    have h1 : ¬ i < column := by omega
    have h2 : ¬ (i ≥ column ∧ i < column + width) := by omega
    simp [h1, h2]

/-- the scan over `a ++ b ++ c` where the token is `b` -/
theorem scan_split (w : Char → Nat) (a b c : List Char) :
    scan w (utf8Len a) (utf8Len b) (a ++ b ++ c) 0 = (dispWidth w a, dispWidth w b) := by
  rw [List.append_assoc, scan_before w _ _ a (b ++ c) 0 (by omega)]
  rw [scan_inside w _ _ b c (0 + utf8Len a) (by omega) (by omega)]
  rw [scan_after w _ _ c _ (by omega)]
  simp

/-- the token runs past the end of the echoed line: the underline is clipped to the line -/
theorem scan_clipped (w : Char → Nat) (a b : List Char) (width : Nat) (h : utf8Len b ≤ width) :
    scan w (utf8Len a) width (a ++ b) 0 = (dispWidth w a, dispWidth w b) := by
  have := scan_before w (utf8Len a) width a (b ++ []) 0 (by omega)
  rw [List.append_nil] at this
  rw [this]
  have h2 := scan_inside w (utf8Len a) width b [] (0 + utf8Len a) (by omega) (by omega)
  rw [List.append_nil] at h2
  rw [h2]
  simp [scan]

end Just.Render
