/-
Soundness of the cycle-stack DFS: whatever it accepts is a topological order of known nodes.
-/
import Just.Model.Dfs
namespace Just.Dfs

/-- every node of the list is a graph node whose non-skipped successors all appear LATER in the
list, i.e. were completed before it -/
def Sorted (g : Graph) : List String → Prop
  | [] => True
  | n :: rest => (∃ ss, g.succ n = some ss ∧ ∀ s ∈ ss, g.skip s = true ∨ s ∈ rest) ∧ Sorted g rest

structure Inv (g : Graph) (stack done : List String) : Prop where
  sorted : Sorted g done
  nodup : done.Nodup
  disj : ∀ x ∈ stack, x ∉ done

structure Post (g : Graph) (stack done done' : List String) : Prop where
  inv : Inv g stack done'
  ext : ∃ pre, done' = pre ++ done

theorem succs_sound_of (g : Graph) (fuel : Nat)
    (hN : ∀ n done stack done', Inv g stack done → n ∉ stack → node g fuel n done stack = .ok done' →
      Post g stack done done' ∧ n ∈ done') :
    ∀ ss n done stack done', Inv g stack done → succs g fuel n ss done stack = .ok done' →
      Post g stack done done' ∧ ∀ s ∈ ss, g.skip s = true ∨ s ∈ done' := by
  intro ss
  induction ss with
  | nil =>
    intro n done stack done' hi h
    rw [succs] at h
    cases h
    exact ⟨⟨hi, [], rfl⟩, fun s hs => by cases hs⟩
  | cons s ss ih =>
    intro n done stack done' hi h
    rw [succs] at h
    split at h
    · rename_i hskip
      obtain ⟨hp, hall⟩ := ih n done stack done' hi h
      refine ⟨hp, ?_⟩
      intro s' hs'
      rcases List.mem_cons.mp hs' with rfl | hs'
      · simp only [Bool.or_eq_true, decide_eq_true_eq] at hskip
        rcases hskip with hd | hk
        · obtain ⟨pre, hpre⟩ := hp.ext
          right; rw [hpre]; exact List.mem_append_right _ hd
        · left; exact hk
      · exact hall s' hs'
    · split at h
      · cases h
      · rename_i hnstack
        split at h
        · split at h
          · cases h
          · rename_i done1 hnode
            have hns : s ∉ stack := by simpa using hnstack
            obtain ⟨hp1, hin1⟩ := hN s done stack done1 hi hns hnode
            obtain ⟨hp2, hall⟩ := ih n done1 stack done' hp1.inv h
            obtain ⟨pre1, hpre1⟩ := hp1.ext
            obtain ⟨pre2, hpre2⟩ := hp2.ext
            refine ⟨⟨hp2.inv, pre2 ++ pre1, by rw [hpre2, hpre1, List.append_assoc]⟩, ?_⟩
            intro s' hs'
            rcases List.mem_cons.mp hs' with rfl | hs'
            · right; rw [hpre2]; exact List.mem_append_right _ hin1
            · exact hall s' hs'
        · cases h

theorem node_sound (g : Graph) : ∀ fuel n done stack done', Inv g stack done → n ∉ stack →
    node g fuel n done stack = .ok done' → Post g stack done done' ∧ n ∈ done' := by
  intro fuel
  induction fuel with
  | zero => intro n done stack done' _ _ h; rw [node] at h; cases h
  | succ k ih =>
    have hS := succs_sound_of g k ih
    intro n done stack done' hi hns h
    rw [node] at h
    split at h
    · rename_i hin
      cases h
      exact ⟨⟨hi, [], rfl⟩, hin⟩
    · rename_i hnin
      split at h
      · cases h
      · rename_i ss hsucc
        split at h
        · cases h
        · rename_i done1 hsuccs
          cases h
          have hi' : Inv g (n :: stack) done :=
            ⟨hi.sorted, hi.nodup, fun x hx => by
              rcases List.mem_cons.mp hx with rfl | hx
              · exact hnin
              · exact hi.disj x hx⟩
          obtain ⟨hp, hall⟩ := hS ss n done (n :: stack) done1 hi' hsuccs
          have hn1 : n ∉ done1 := hp.inv.disj n (List.mem_cons_self ..)
          obtain ⟨pre, hpre⟩ := hp.ext
          refine ⟨⟨⟨⟨⟨ss, hsucc, hall⟩, hp.inv.sorted⟩, List.nodup_cons.mpr ⟨hn1, hp.inv.nodup⟩, ?_⟩,
            n :: pre, by rw [hpre]; rfl⟩, List.mem_cons_self ..⟩
          intro x hx hxin
          rcases List.mem_cons.mp hxin with rfl | hxin
          · exact hns hx
          · exact hp.inv.disj x (List.mem_cons_of_mem _ hx) hxin

theorem all_sound (g : Graph) (fuel : Nat) : ∀ roots done done', Inv g [] done →
    all g fuel roots done = .ok done' →
      Inv g [] done' ∧ (∀ x ∈ done, x ∈ done') ∧ ∀ r ∈ roots, r ∈ done' := by
  intro roots
  induction roots with
  | nil =>
    intro done done' hi h
    simp only [all] at h
    cases h
    exact ⟨hi, fun _ hx => hx, fun r hr => by cases hr⟩
  | cons r rs ih =>
    intro done done' hi h
    simp only [all] at h
    split at h
    · cases h
    · rename_i done1 hnode
      obtain ⟨hp, hin⟩ := node_sound g fuel r done [] done1 hi (by simp) hnode
      obtain ⟨hi2, hsub, hall⟩ := ih done1 done' hp.inv h
      obtain ⟨pre, hpre⟩ := hp.ext
      refine ⟨hi2, fun x hx => hsub x (by rw [hpre]; exact List.mem_append_right _ hx), ?_⟩
      intro r' hr'
      rcases List.mem_cons.mp hr' with rfl | hr'
      · exact hsub _ hin
      · exact hall r' hr'

/-- position of a node counted from the END of the completion order -/
def rankIn : List String → String → Nat
  | [], _ => 0
  | m :: rest, n => if m = n then rest.length + 1 else rankIn rest n

theorem rankIn_le (l : List String) (n : String) : rankIn l n ≤ l.length := by
  induction l with
  | nil => simp [rankIn]
  | cons m rest ih =>
    simp only [rankIn, List.length_cons]
    split
    · omega
    · omega

theorem rankIn_pos (l : List String) (n : String) (h : n ∈ l) : 0 < rankIn l n := by
  induction l with
  | nil => cases h
  | cons m rest ih =>
    simp only [rankIn]
    split
    · omega
    · rename_i hne
      rcases List.mem_cons.mp h with rfl | h
      · exact absurd rfl hne
      · exact ih h

/-- **an accepted graph is acyclic**: along a sorted, duplicate-free completion order every
non-skipped successor has a strictly smaller rank -/
theorem sorted_rank (g : Graph) : ∀ (l : List String), Sorted g l → l.Nodup →
    ∀ n ∈ l, ∃ ss, g.succ n = some ss ∧
      ∀ s ∈ ss, g.skip s = true ∨ (s ∈ l ∧ rankIn l s < rankIn l n) := by
  intro l
  induction l with
  | nil => intro _ _ n hn; cases hn
  | cons m rest ih =>
    intro hs hnd n hn
    obtain ⟨⟨ss, hss, hall⟩, hrest⟩ := hs
    have hm : m ∉ rest := (List.nodup_cons.mp hnd).1
    rcases List.mem_cons.mp hn with rfl | hn
    · refine ⟨ss, hss, fun s hsin => ?_⟩
      rcases hall s hsin with hk | hin
      · exact Or.inl hk
      · right
        refine ⟨List.mem_cons_of_mem _ hin, ?_⟩
        have hne : ¬ n = s := fun h => hm (h ▸ hin)
        simp only [rankIn, hne, if_false, if_true]
        have := rankIn_le rest s
        omega
    · obtain ⟨ss, hss', hall'⟩ := ih hrest (List.nodup_cons.mp hnd).2 n hn
      refine ⟨ss, hss', fun s hsin => ?_⟩
      rcases hall' s hsin with hk | ⟨hin, hlt⟩
      · exact Or.inl hk
      · right
        refine ⟨List.mem_cons_of_mem _ hin, ?_⟩
        have hne1 : ¬ m = s := fun h => hm (h ▸ hin)
        have hne2 : ¬ m = n := fun h => hm (h ▸ hn)
        simp only [rankIn, hne1, hne2, if_false]
        exact hlt

end Just.Dfs
