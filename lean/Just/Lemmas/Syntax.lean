import Just.Model.Syntax
/-
Lemmas for the print / parse round trip of expressions.
-/
namespace Just.Syntax
open Just

/-- syntactic level of an expression: 0 value, 1 conjunct, 2 disjunct, 3 expression -/
def level : Expr → Nat
  | .str _ => 0
  | .var _ => 0
  | .backtick _ => 0
  | .call _ _ => 0
  | .assert _ _ _ _ => 0
  | .group _ => 0
  | .concat _ _ => 1
  | .joinL _ _ => 1
  | .joinR _ => 1
  | .cond _ _ _ _ _ => 1
  | .and _ _ => 2
  | .or _ _ => 3

def okName (n : String) : Prop := n ≠ "if" ∧ n ≠ "assert"

mutual
/-- the shapes the parser can produce: operands of the right-recursive operators are of lower
level on the left; `if` and `assert` are not names -/
def WF : Expr → Prop
  | .str _ => True
  | .backtick _ => True
  | .var n => okName n
  | .call f args => okName f ∧ fnOk f args.length = true ∧ WFs args
  | .concat l r => level l = 0 ∧ level r ≤ 1 ∧ WF l ∧ WF r
  | .joinL l r => level l = 0 ∧ level r ≤ 1 ∧ WF l ∧ WF r
  | .joinR r => level r ≤ 1 ∧ WF r
  | .and l r => level l ≤ 1 ∧ level r ≤ 2 ∧ WF l ∧ WF r
  | .or l r => level l ≤ 2 ∧ WF l ∧ WF r
  | .cond a _ b t e => WF a ∧ WF b ∧ WF t ∧ WF e
  | .assert a _ b m => WF a ∧ WF b ∧ WF m
  | .group e => WF e
def WFs : Exprs → Prop
  | .nil => True
  | .cons e es => WF e ∧ WFs es
end

/-- tokens that would make the parser at level `k` continue instead of returning -/
def blocks : Nat → Tk → Bool
  | 0, _ => false
  | 1, t => t == .slash || t == .plus
  | 2, t => t == .slash || t == .plus || t == .andand
  | _, t => t == .slash || t == .plus || t == .andand || t == .barbar

/-- what follows does not continue a level-`k` phrase -/
def Stop (k : Nat) (rest : List Tk) : Prop := ∀ t, rest.head? = some t → blocks k t = false

theorem Stop.mono {k : Nat} {rest : List Tk} (h : Stop (k + 1) rest) : Stop k rest := by
  intro t ht
  have := h t ht
  match k with
  | 0 => simp [blocks]
  | 1 => simp [blocks] at this ⊢; exact ⟨this.1.1, this.1.2⟩
  | 2 => simp [blocks] at this ⊢; exact ⟨⟨this.1.1.1, this.1.1.2⟩, this.1.2⟩
  | k + 3 => simpa [blocks] using this

/-- the identifier a printed expression ends with, if it ends with one: what comes next could then be read
as part of it (`name (` is a call, `x'…'` a shell-expanded string) -/
def endsIdent : Expr → Option String
  | .var n => some n
  | .concat _ r => endsIdent r
  | .joinL _ r => endsIdent r
  | .joinR r => endsIdent r
  | .and _ r => endsIdent r
  | .or _ r => endsIdent r
  | .str _ => none
  | .backtick _ => none
  | .call _ _ => none
  | .cond _ _ _ _ _ => none
  | .assert _ _ _ _ => none
  | .group _ => none

/-- what follows `e` is not swallowed by a trailing identifier of `e` -/
def After (e : Expr) (rest : List Tk) : Prop :=
  ∀ n, endsIdent e = some n → rest.head? ≠ some .lparen ∧ (n = "x" → ∀ s, rest.head? ≠ some (.strAdj s))

theorem after_cons (e : Expr) (t : Tk) (rest : List Tk) (h1 : t ≠ .lparen) (h2 : ∀ s, t ≠ .strAdj s) : After e (t :: rest) := by
  intro n _
  refine ⟨by simpa using h1, fun _ s => by simpa using h2 s⟩

/-- a continuation whose first token can never be swallowed by a trailing identifier -/
def NoSwallow (rest : List Tk) : Prop := rest.head? ≠ some .lparen ∧ ∀ s, rest.head? ≠ some (.strAdj s)

theorem after_of_noSwallow (e : Expr) {rest : List Tk} (h : NoSwallow rest) : After e rest :=
  fun _ _ => ⟨h.1, fun _ s => h.2 s⟩

theorem noSwallow_cons (t : Tk) (rest : List Tk) (h1 : t ≠ .lparen) (h2 : ∀ s, t ≠ .strAdj s) : NoSwallow (t :: rest) :=
  ⟨by simpa using h1, fun s => by simpa using h2 s⟩

theorem after_append {e : Expr} {l : List Tk} (more : List Tk) (hne : l ≠ []) (h : After e l) : After e (l ++ more) := by
  cases l with
  | nil => exact absurd rfl hne
  | cons x xs => simpa [After] using h

theorem after_nil (e : Expr) : After e [] := by
  intro n _; simp

theorem after_of_none {e : Expr} (h : endsIdent e = none) (rest : List Tk) : After e rest := by
  intro n hn; rw [h] at hn; cases hn

theorem Stop.le {j k : Nat} {rest : List Tk} (h : Stop k rest) (hjk : j ≤ k) : Stop j rest := by
  induction k with
  | zero => have : j = 0 := by omega
            subst this; exact h
  | succ k ih =>
    by_cases hj : j = k + 1
    · subst hj; exact h
    · exact ih h.mono (by omega)

theorem stop_cons (k : Nat) (t : Tk) (rest : List Tk) (h : blocks k t = false) : Stop k (t :: rest) := by
  intro t' ht'
  simp only [List.head?_cons, Option.some.injEq] at ht'
  subst ht'; exact h

theorem stop_nil (k : Nat) : Stop k [] := by
  intro t ht; simp at ht

/-- the rightmost operand chain of `e` ends in a value (what `parse_conjunct` extends with `/` or `+`), not in a
conditional (which it returns as it is) -/
def endsValue : Expr → Bool
  | .cond _ _ _ _ _ => false
  | .concat _ r => endsValue r
  | .joinL _ r => endsValue r
  | .joinR r => endsValue r
  | .and _ r => endsValue r
  | .or _ r => endsValue r
  | .str _ => true
  | .var _ => true
  | .backtick _ => true
  | .call _ _ => true
  | .assert _ _ _ _ => true
  | .group _ => true

/-- the tokens that make the level-`k` parser go on after having read `e` -/
def blocksE (k : Nat) (e : Expr) (t : Tk) : Bool :=
  (decide (1 ≤ k) && endsValue e && (t == .slash || t == .plus)) || (decide (2 ≤ k) && t == .andand) || (decide (3 ≤ k) && t == .barbar)

/-- what follows does not continue the level-`k` phrase `e` (exact: `/` and `+` only extend a phrase that ends in a value) -/
def StopE (k : Nat) (e : Expr) (rest : List Tk) : Prop := ∀ t, rest.head? = some t → blocksE k e t = false

theorem blocksE_le_blocks (k : Nat) (e : Expr) (t : Tk) (h : blocks k t = false) : blocksE k e t = false := by
  match k with
  | 0 => simp [blocksE]
  | 1 => simp [blocks] at h; simp [blocksE, h]
  | 2 => simp [blocks] at h; simp [blocksE, h]
  | k + 3 => simp [blocks] at h; simp [blocksE, h]

theorem StopE.of_stop {k : Nat} {e : Expr} {rest : List Tk} (h : Stop k rest) : StopE k e rest :=
  fun t ht => blocksE_le_blocks k e t (h t ht)

theorem stopE_cons (k : Nat) (e : Expr) (t : Tk) (rest : List Tk) (h : blocksE k e t = false) : StopE k e (t :: rest) := by
  intro t' ht'
  simp only [List.head?_cons, Option.some.injEq] at ht'
  subst ht'; exact h

theorem stopE_nil (k : Nat) (e : Expr) : StopE k e [] := by
  intro t ht; simp at ht

theorem StopE.le {j k : Nat} {e : Expr} {rest : List Tk} (h : StopE k e rest) (hjk : j ≤ k) : StopE j e rest := by
  intro t ht
  have := h t ht
  simp only [blocksE, Bool.or_eq_false_iff, Bool.and_eq_false_iff, decide_eq_false_iff_not] at this ⊢
  obtain ⟨⟨h1, h2⟩, h3⟩ := this
  refine ⟨⟨?_, ?_⟩, ?_⟩
  · rcases h1 with (h1 | h1) | h1
    · left; left; omega
    · left; right; exact h1
    · right; exact h1
  · rcases h2 with h2 | h2
    · left; omega
    · right; exact h2
  · rcases h3 with h3 | h3
    · left; omega
    · right; exact h3

theorem StopE.congr {k : Nat} {e e' : Expr} {rest : List Tk} (h : StopE k e rest) (hev : endsValue e' = endsValue e) : StopE k e' rest := by
  intro t ht
  have := h t ht
  simpa [blocksE, hev] using this

theorem StopE.noSlash {k : Nat} {e : Expr} {rest : List Tk} (h : StopE k e rest) (hk : 1 ≤ k) (hv : endsValue e = true) :
    (∀ r, rest ≠ Tk.slash :: r) ∧ (∀ r, rest ≠ Tk.plus :: r) := by
  constructor
  · intro r hr; have := h .slash (by rw [hr]; rfl); simp [blocksE, hk, hv] at this
  · intro r hr; have := h .plus (by rw [hr]; rfl); simp [blocksE, hk, hv] at this

theorem StopE.noAnd {k : Nat} {e : Expr} {rest : List Tk} (h : StopE k e rest) (hk : 2 ≤ k) : ∀ r, rest ≠ Tk.andand :: r := by
  intro r hr; have := h .andand (by rw [hr]; rfl); simp [blocksE, hk] at this

theorem StopE.noOr {k : Nat} {e : Expr} {rest : List Tk} (h : StopE k e rest) (hk : 3 ≤ k) : ∀ r, rest ≠ Tk.barbar :: r := by
  intro r hr; have := h .barbar (by rw [hr]; rfl); simp [blocksE, hk] at this

/-- parser entry point of level `k` -/
def parseAt : Nat → Nat → List Tk → Option (Expr × List Tk)
  | 0 => parseValue
  | 1 => parseConjunct
  | 2 => parseDisjunct
  | _ => parseExpression

/-- the first token of a value is none of the tokens `parse_conjunct` dispatches on -/
def ValueStart (ts : List Tk) : Prop := ts.head? ≠ some (.ident "if") ∧ ts.head? ≠ some .slash

theorem conjunct_of_value {f : Nat} {ts rest : List Tk} {e : Expr} (hv : parseValue f ts = some (e, rest))
    (hs : ValueStart ts) (hstop : StopE 1 e rest) (hval : endsValue e = true) : parseConjunct (f + 1) ts = some (e, rest) := by
  unfold parseConjunct
  obtain ⟨h1, h2⟩ := hs
  split
  · rename_i ts1; simp at h1
  · rename_i ts1; simp at h2
  · simp only [hv]
    split
    · rename_i ts2 _; exact absurd rfl ((hstop.noSlash (Nat.le_refl _) hval).1 _)
    · rename_i ts2 _; exact absurd rfl ((hstop.noSlash (Nat.le_refl _) hval).2 _)
    · rfl

theorem disjunct_of_conjunct {f : Nat} {ts rest : List Tk} {e : Expr} (hv : parseConjunct f ts = some (e, rest))
    (hstop : StopE 2 e rest) : parseDisjunct (f + 1) ts = some (e, rest) := by
  unfold parseDisjunct
  simp only [hv]
  split
  · rename_i ts2; exact absurd rfl (hstop.noAnd (Nat.le_refl _) _)
  · rfl

theorem expression_of_disjunct {f : Nat} {ts rest : List Tk} {e : Expr} (hv : parseDisjunct f ts = some (e, rest))
    (hstop : StopE 3 e rest) : parseExpression (f + 1) ts = some (e, rest) := by
  unfold parseExpression
  simp only [hv]
  split
  · rename_i ts2; exact absurd rfl (hstop.noOr (Nat.le_refl _) _)
  · rfl

/-- climb from level `j` to level `k` -/
theorem lift {j : Nat} {f : Nat} {ts rest : List Tk} {e : Expr} (hv : parseAt j f ts = some (e, rest))
    (hstart : j = 0 → ValueStart ts) (k : Nat) (hjk : j ≤ k) (hk : k ≤ 3) (hstop : StopE k e rest)
    (hval : j = 0 → endsValue e = true) :
    parseAt k (f + (k - j)) ts = some (e, rest) := by
  induction k with
  | zero =>
    have : j = 0 := by omega
    subst this; simpa using hv
  | succ k ih =>
    by_cases hj : j = k + 1
    · subst hj; simpa using hv
    · have hjk' : j ≤ k := by omega
      have ih' := ih hjk' (by omega) (hstop.le (by omega))
      have e1 : f + (k + 1 - j) = (f + (k - j)) + 1 := by omega
      rw [e1]
      match k, ih', hstop with
      | 0, ih', hstop =>
        have hj0 : j = 0 := by omega
        exact conjunct_of_value ih' (hstart hj0) hstop (hval hj0)
      | 1, ih', hstop => exact disjunct_of_conjunct ih' hstop
      | 2, ih', hstop => exact expression_of_disjunct ih' hstop
      | k + 3, _, _ => omega

end Just.Syntax

namespace Just.Syntax
open Just

theorem size_pos : (e : Expr) → 1 ≤ e.size
  | .str _ => by simp [Expr.size]
  | .var _ => by simp [Expr.size]
  | .backtick _ => by simp [Expr.size]
  | .call _ _ => by simp [Expr.size]
  | .concat _ _ => by simp [Expr.size]
  | .joinL _ _ => by simp [Expr.size]
  | .joinR _ => by simp [Expr.size]
  | .and _ _ => by simp [Expr.size]
  | .or _ _ => by simp [Expr.size]
  | .cond _ _ _ _ _ => by simp [Expr.size]
  | .assert _ _ _ _ => by simp [Expr.size]
  | .group _ => by simp [Expr.size]

/-- the first token of a printed expression is never a closing parenthesis -/
theorem litTokens_cases (l : String) :
    (∃ cs, l.toList = 'x' :: cs ∧ litTokens l = [.ident "x", .strAdj (String.ofList cs)]) ∨ litTokens l = [.str l] := by
  unfold litTokens
  split
  · rename_i cs h; exact .inl ⟨cs, h, rfl⟩
  · exact .inr rfl

theorem head_ne_rparen : (e : Expr) → ∀ rest, (printE e ++ rest).head? ≠ some .rparen
  | .str l, _ => by
    rcases litTokens_cases l with ⟨cs, _, h⟩ | h <;> simp [printE, h]
  | .var _, _ => by simp [printE]
  | .backtick _, _ => by simp [printE]
  | .call _ _, _ => by simp [printE]
  | .concat l r, rest => by
    have := head_ne_rparen l ([.plus] ++ printE r ++ rest)
    simpa [printE, List.append_assoc] using this
  | .joinL l r, rest => by
    have := head_ne_rparen l ([.slash] ++ printE r ++ rest)
    simpa [printE, List.append_assoc] using this
  | .joinR _, _ => by simp [printE]
  | .and l r, rest => by
    have := head_ne_rparen l ([.andand] ++ printE r ++ rest)
    simpa [printE, List.append_assoc] using this
  | .or l r, rest => by
    have := head_ne_rparen l ([.barbar] ++ printE r ++ rest)
    simpa [printE, List.append_assoc] using this
  | .cond _ _ _ _ _, _ => by simp [printE]
  | .assert _ _ _ _, _ => by simp [printE]
  | .group _, _ => by simp [printE]

/-- a value starts with a token `parse_conjunct` hands to `parse_value` -/
theorem valueStart_of_level0 (e : Expr) (hw : WF e) (hl : level e = 0) (rest : List Tk) : ValueStart (printE e ++ rest) := by
  cases e with
  | str l => rcases litTokens_cases l with ⟨cs, _, h⟩ | h <;> simp [ValueStart, printE, h]
  | var n => simp only [WF, okName] at hw; simp [ValueStart, printE, hw.1]
  | backtick s => simp [ValueStart, printE]
  | call f args => simp only [WF, okName] at hw; simp [ValueStart, printE, hw.1.1]
  | assert a o b m => simp [ValueStart, printE]
  | group e => simp [ValueStart, printE]
  | concat l r => simp [level] at hl
  | joinL l r => simp [level] at hl
  | joinR r => simp [level] at hl
  | cond a o b t e => simp [level] at hl
  | and l r => simp [level] at hl
  | or l r => simp [level] at hl

theorem printElse_noncond (e : Expr) (h : ∀ a o b t x, e ≠ .cond a o b t x) :
    printElse e = [.lbrace] ++ printE e ++ [.rbrace] := by
  cases e with
  | cond a o b t x => exact absurd rfl (h a o b t x)
  | _ => simp [printElse, printE]

theorem printElse_cond (a : Expr) (o : CondOp) (b t x : Expr) :
    printElse (.cond a o b t x) = printE (.cond a o b t x) := by
  simp [printElse, printE]

/-- reach any level `k ≥ L` from the round trip at the expression's own level `L` -/
theorem climb (e : Expr) (L : Nat)
    (own : ∀ f rest, 4 * e.size + L ≤ f → StopE L e rest → After e rest → parseAt L f (printE e ++ rest) = some (e, rest))
    (hstart : L = 0 → ∀ rest, ValueStart (printE e ++ rest)) (hval : L = 0 → endsValue e = true) :
    ∀ k, L ≤ k → k ≤ 3 → ∀ f rest, 4 * e.size + k ≤ f → StopE k e rest → After e rest →
      parseAt k f (printE e ++ rest) = some (e, rest) := by
  intro k hLk hk3 f rest hf hstop hafter
  have h0 := own (f - (k - L)) rest (by omega) (hstop.le hLk) hafter
  have := lift h0 (fun h => hstart h rest) k hLk hk3 hstop hval
  rwa [show f - (k - L) + (k - L) = f by omega] at this

/-- `parse_condition` on a printed condition, from the round trips of its two sides -/
theorem condition_rt (a b : Expr) (o : CondOp)
    (ha : ∀ f rest, 4 * a.size + 3 ≤ f → StopE 3 a rest → After a rest → parseExpression f (printE a ++ rest) = some (a, rest))
    (hb : ∀ f rest, 4 * b.size + 3 ≤ f → StopE 3 b rest → After b rest → parseExpression f (printE b ++ rest) = some (b, rest))
    (g : Nat) (rest : List Tk) (hga : 4 * a.size + 4 ≤ g) (hgb : 4 * b.size + 4 ≤ g) (hstop : StopE 3 b rest)
    (hafter : After b rest) :
    parseCondition g (printE a ++ .op o :: (printE b ++ rest)) = some ((a, o, b), rest) := by
  obtain ⟨g', rfl⟩ : ∃ g', g = g' + 1 := ⟨g - 1, by omega⟩
  unfold parseCondition
  rw [ha g' _ (by omega) (stopE_cons 3 _ _ _ (by simp [blocksE])) (after_cons _ _ _ (by simp) (by simp))]
  simp only
  rw [hb g' _ (by omega) hstop hafter]

end Just.Syntax

namespace Just.Syntax
theorem level_le3 (e : Just.Expr) : level e ≤ 3 := by cases e <;> simp [level]
end Just.Syntax

namespace Just.Syntax
open Just

/-! ### one parser step, stated by its successful outcome -/

theorem parseValue_str (f : Nat) (s : String) (r : List Tk) : parseValue (f + 1) (.str s :: r) = some (.str s, r) := by
  simp [parseValue]

theorem parseValue_bt (f : Nat) (s : String) (r : List Tk) : parseValue (f + 1) (.bt s :: r) = some (.backtick s, r) := by
  simp [parseValue]

theorem parseValue_group_ok {f : Nat} {r r2 : List Tk} {e : Expr} (h : parseExpression f r = some (e, .rparen :: r2)) :
    parseValue (f + 1) (.lparen :: r) = some (.group e, r2) := by
  simp [parseValue, h]

theorem parseValue_assert_ok {f : Nat} {r1 r3 r5 : List Tk} {a b m : Expr} {o : CondOp}
    (h1 : parseCondition f r1 = some ((a, o, b), .comma :: r3)) (h2 : parseExpression f r3 = some (m, .rparen :: r5)) :
    parseValue (f + 1) (.ident "assert" :: .lparen :: r1) = some (.assert a o b m, r5) := by
  simp [parseValue, h1, h2]

theorem parseValue_call_ok {f : Nat} {n : String} {r r' : List Tk} {args : Exprs} (hn : n ≠ "assert")
    (hfn : fnOk n args.length = true) (h : parseSequence f r = some (args, r')) :
    parseValue (f + 1) (.ident n :: .lparen :: r) = some (.call n args, r') := by
  unfold parseValue
  split <;> try (simp_all; done)
  rename_i h1 h2 h3 heq
  simp only [List.cons.injEq, Tk.ident.injEq] at heq
  exact (h3 r heq.2.symm).elim

theorem parseValue_var (f : Nat) (n : String) (r : List Tk) (hn : n ≠ "assert") (hr : r.head? ≠ some .lparen)
    (hx : n = "x" → ∀ s, r.head? ≠ some (.strAdj s)) :
    parseValue (f + 1) (.ident n :: r) = some (.var n, r) := by
  unfold parseValue
  split <;> simp_all

theorem parseValue_xstr (f : Nat) (s : String) (r : List Tk) :
    parseValue (f + 1) (.ident "x" :: .strAdj s :: r) = some (.str (xLit s), r) := by
  simp [parseValue]

theorem xLit_ofList {l : String} {cs : List Char} (h : l.toList = 'x' :: cs) : xLit (String.ofList cs) = l := by
  unfold xLit
  rw [String.toList_ofList, ← h, String.ofList_toList]

theorem parseConjunct_if (f : Nat) (r : List Tk) : parseConjunct (f + 1) (.ident "if" :: r) = parseConditional f r := by
  simp [parseConjunct]

theorem parseConjunct_slash_ok {f : Nat} {r ts2 : List Tk} {x : Expr} (h : parseConjunct f r = some (x, ts2)) :
    parseConjunct (f + 1) (.slash :: r) = some (.joinR x, ts2) := by
  simp [parseConjunct, h]

theorem parseConjunct_plus_ok {f : Nat} {ts ts2 ts3 : List Tk} {v r : Expr} (hs : ValueStart ts)
    (h1 : parseValue f ts = some (v, .plus :: ts2)) (h2 : parseConjunct f ts2 = some (r, ts3)) :
    parseConjunct (f + 1) ts = some (.concat v r, ts3) := by
  unfold parseConjunct
  split
  · rename_i heq; exact absurd (by simp) hs.1
  · rename_i heq; exact absurd (by simp) hs.2
  · simp [h1, h2]

theorem parseConjunct_join_ok {f : Nat} {ts ts2 ts3 : List Tk} {v r : Expr} (hs : ValueStart ts)
    (h1 : parseValue f ts = some (v, .slash :: ts2)) (h2 : parseConjunct f ts2 = some (r, ts3)) :
    parseConjunct (f + 1) ts = some (.joinL v r, ts3) := by
  unfold parseConjunct
  split
  · rename_i heq; exact absurd (by simp) hs.1
  · rename_i heq; exact absurd (by simp) hs.2
  · simp [h1, h2]

theorem parseDisjunct_and_ok {f : Nat} {ts ts2 ts3 : List Tk} {c r : Expr}
    (h1 : parseConjunct f ts = some (c, .andand :: ts2)) (h2 : parseDisjunct f ts2 = some (r, ts3)) :
    parseDisjunct (f + 1) ts = some (.and c r, ts3) := by
  simp [parseDisjunct, h1, h2]

theorem parseExpression_or_ok {f : Nat} {ts ts2 ts3 : List Tk} {d r : Expr}
    (h1 : parseDisjunct f ts = some (d, .barbar :: ts2)) (h2 : parseExpression f ts2 = some (r, ts3)) :
    parseExpression (f + 1) ts = some (.or d r, ts3) := by
  simp [parseExpression, h1, h2]

theorem parseSequence_end (f : Nat) (r : List Tk) : parseSequence (f + 1) (.rparen :: r) = some (.nil, r) := by
  simp [parseSequence]

theorem parseSequence_last_ok {f : Nat} {ts r2 : List Tk} {e : Expr} (hne : ts.head? ≠ some .rparen)
    (h : parseExpression f ts = some (e, .rparen :: r2)) :
    parseSequence (f + 1) ts = some (.cons e .nil, r2) := by
  unfold parseSequence
  split
  · rename_i heq; exact absurd (by simp) hne
  · simp [h]

theorem parseSequence_comma_ok {f : Nat} {ts r2 r3 : List Tk} {e : Expr} {es : Exprs} (hne : ts.head? ≠ some .rparen)
    (h1 : parseExpression f ts = some (e, .comma :: r2)) (h2 : parseSequence f r2 = some (es, r3)) :
    parseSequence (f + 1) ts = some (.cons e es, r3) := by
  unfold parseSequence
  split
  · rename_i heq; exact absurd (by simp) hne
  · simp [h1, h2]

theorem parseConditional_elseif_ok {f : Nat} {ts ts2 ts4 ts5 : List Tk} {a b t e : Expr} {o : CondOp}
    (h1 : parseCondition f ts = some ((a, o, b), .lbrace :: ts2))
    (h2 : parseExpression f ts2 = some (t, .rbrace :: .ident "else" :: .ident "if" :: ts4))
    (h3 : parseConditional f ts4 = some (e, ts5)) :
    parseConditional (f + 1) ts = some (.cond a o b t e, ts5) := by
  simp [parseConditional, h1, h2, h3]

theorem parseConditional_else_ok {f : Nat} {ts ts2 ts4 ts6 : List Tk} {a b t e : Expr} {o : CondOp}
    (h1 : parseCondition f ts = some ((a, o, b), .lbrace :: ts2))
    (h2 : parseExpression f ts2 = some (t, .rbrace :: .ident "else" :: .lbrace :: ts4))
    (h3 : parseExpression f ts4 = some (e, .rbrace :: ts6)) :
    parseConditional (f + 1) ts = some (.cond a o b t e, ts6) := by
  simp [parseConditional, h1, h2, h3]

end Just.Syntax
