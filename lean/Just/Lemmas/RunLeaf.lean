/-
Events emitted by expression evaluation, parameter binding and recipe bodies are "leaf" events:
backticks, echoes, spawns and scripts — never prompts or body labels.
-/
import Just.Model.Run
namespace Just.Run

def Ev.isLeaf : Ev → Bool
  | .bt _ => true
  | .echo _ => true
  | .spawn _ _ _ => true
  | .script _ _ _ => true
  | .prompt _ => false
  | .body _ _ _ => false

def Leaf (es : List Ev) : Prop := ∀ e ∈ es, e.isLeaf = true

theorem Leaf.nil : Leaf [] := by intro e h; cases h

theorem Leaf.append {a b : List Ev} (ha : Leaf a) (hb : Leaf b) : Leaf (a ++ b) := by
  intro e h
  rcases List.mem_append.mp h with h | h
  · exact ha e h
  · exact hb e h

theorem evalA_leaf (cfg : Cfg) (env : Env) (ps : Args) (a : AExpr) : Leaf (evalA cfg env ps a).1 := by
  induction a with
  | lit s => simp [evalA, Leaf]
  | param i => simp only [evalA]; split <;> simp [Leaf]
  | cat a b iha ihb =>
    simp only [evalA]
    split
    · rename_i e1 e heq; rw [heq] at iha; exact iha
    · rename_i e1 x heq
      rw [heq] at iha
      split
      · rename_i e2 e heq2; rw [heq2] at ihb; exact iha.append ihb
      · rename_i e2 y heq2; rw [heq2] at ihb; exact iha.append ihb
  | bt c =>
    simp only [evalA]
    split
    · simp [Leaf]
    · split <;> simp [Leaf, Ev.isLeaf]

theorem evalList_leaf (cfg : Cfg) (env : Env) (ps : Args) (as : List AExpr) :
    Leaf (evalList cfg env ps as).1 := by
  induction as with
  | nil => simp [evalList, Leaf]
  | cons a as ih =>
    simp only [evalList]
    have ha := evalA_leaf cfg env ps a
    split
    · rename_i e1 e heq; rw [heq] at ha; exact ha
    · rename_i e1 x heq
      rw [heq] at ha
      split
      · rename_i e2 e heq2; rw [heq2] at ih; exact ha.append ih
      · rename_i e2 y heq2; rw [heq2] at ih; exact ha.append ih

theorem bindParams_leaf (cfg : Cfg) (env : Env) (ps : List (Option AExpr)) (ws bound : Args) :
    Leaf (bindParams cfg env ps ws bound).1 := by
  induction ps generalizing ws bound with
  | nil => simp [bindParams, Leaf]
  | cons p ps ih =>
    cases ws with
    | cons w ws => simp only [bindParams]; exact ih ws _
    | nil =>
      cases p with
      | none => simp [bindParams, Leaf]
      | some d =>
        simp only [bindParams]
        have ha := evalA_leaf cfg env bound d
        split
        · rename_i e1 e heq; rw [heq] at ha; exact ha
        · rename_i e1 v heq
          rw [heq] at ha
          exact ha.append (ih [] (bound ++ [v]))

theorem runCmd_leaf (cfg : Cfg) (env : Env) (ri : Nat) (r : Recipe) (given : Args) (l : Line)
    (cmd : String) : Leaf (runCmd cfg env ri r given l cmd).1 := by
  unfold runCmd
  have h1 : Leaf (if echoes cfg r l = true then [Ev.echo cmd] else []) := by
    split <;> simp [Leaf, Ev.isLeaf]
  have h2 : Leaf [Ev.spawn ri given cmd] := by simp [Leaf, Ev.isLeaf]
  simp only
  split
  · exact h1
  · split <;> exact h1.append h2

theorem runLines_leaf (cfg : Cfg) (env : Env) (ri : Nat) (r : Recipe) (given ps : Args)
    (ls : List Line) : Leaf (runLines cfg env ri r given ps ls).1 := by
  induction ls with
  | nil => simp [runLines, Leaf]
  | cons l ls ih =>
    simp only [runLines]
    have ha := evalList_leaf cfg env ps l.frags
    split
    · rename_i e1 e heq; rw [heq] at ha; exact ha
    · rename_i e1 parts heq
      rw [heq] at ha
      split
      · exact ha.append ih
      · have hc := runCmd_leaf cfg env ri r given l (concat parts)
        split
        · rename_i e2 e heq2; rw [heq2] at hc; exact ha.append hc
        · rename_i e2 heq2; rw [heq2] at hc; exact (ha.append hc).append ih

theorem evalLines_leaf (cfg : Cfg) (env : Env) (ps : Args) (ls : List Line) :
    Leaf (evalLines cfg env ps ls).1 := by
  induction ls with
  | nil => simp [evalLines, Leaf]
  | cons l ls ih =>
    simp only [evalLines]
    have ha := evalList_leaf cfg env ps l.frags
    split
    · rename_i e1 e heq; rw [heq] at ha; exact ha
    · rename_i e1 x heq
      rw [heq] at ha
      split
      · rename_i e2 e heq2; rw [heq2] at ih; exact ha.append ih
      · rename_i e2 y heq2; rw [heq2] at ih; exact ha.append ih

theorem runBody_leaf (cfg : Cfg) (env : Env) (ri : Nat) (r : Recipe) (given ps : Args) :
    Leaf (runBody cfg env ri r given ps).1 := by
  unfold runBody
  split
  · unfold runScript
    have ha := evalLines_leaf cfg env ps r.body
    split
    · rename_i e1 e heq; rw [heq] at ha; exact ha
    · rename_i e1 lines heq
      rw [heq] at ha
      have h2 : Leaf (if (!cfg.quiet && (cfg.dryRun || r.quiet)) = true then lines.map Ev.echo else []) := by
        split
        · intro e he
          obtain ⟨x, _, rfl⟩ := List.mem_map.mp he
          rfl
        · exact Leaf.nil
      have h3 : Leaf [Ev.script ri given (joinLines lines)] := by simp [Leaf, Ev.isLeaf]
      simp only
      split
      · exact ha.append h2
      · split <;> exact (ha.append h2).append h3
  · exact runLines_leaf cfg env ri r given ps r.body

theorem bindParams_leaf' {cfg : Cfg} {env : Env} {ps : List (Option AExpr)} {ws bound : Args}
    {e1 : List Ev} {r : Except Err Args} (h : bindParams cfg env ps ws bound = (e1, r)) : Leaf e1 := by
  have := bindParams_leaf cfg env ps ws bound; rw [h] at this; exact this

theorem evalList_leaf' {cfg : Cfg} {env : Env} {ps : Args} {as : List AExpr}
    {e1 : List Ev} {r : Except Err (List String)} (h : evalList cfg env ps as = (e1, r)) : Leaf e1 := by
  have := evalList_leaf cfg env ps as; rw [h] at this; exact this

theorem runBody_leaf' {cfg : Cfg} {env : Env} {ri : Nat} {r : Recipe} {given ps : Args}
    {e1 : List Ev} {res : Except Err Unit} (h : runBody cfg env ri r given ps = (e1, res)) : Leaf e1 := by
  have := runBody_leaf cfg env ri r given ps; rw [h] at this; exact this

end Just.Run
