/-
A readable big-step specification `Runs` of the recipe runner and the proof that the executable
model `runRecipe` / `runDeps` refines it.  Property theorems are proved by induction on `Runs`.
-/
import Just.Model.Run
namespace Just.Run

/-- What is being run: one recipe invocation, or a list of dependencies of a recipe. -/
inductive Call where
  | recipe (fuel : Nat) (sub : Bool) (ri : Nat) (given : Args) (ran : Ran) (k : Nat)
  | deps (fuel : Nat) (sub : Bool) (ds : List Dep) (ps : Args) (ran : Ran) (k : Nat)

/-- The confirmation prompt of a recipe, if it asks. -/
def promptOf (cfg : Cfg) (r : Recipe) (ri : Nat) : List Ev :=
  if r.confirm && !cfg.yes then [Ev.prompt ri] else []

/-- Big-step specification: `Runs P cfg env call events result`. -/
inductive Runs (P : Prog) (cfg : Cfg) (env : Env) : Call → List Ev → Except Err Ran → Prop where
  /-- an invocation that already ran with these arguments does nothing -/
  | memo {fuel sub ri given ran k} : (ri, given) ∈ ran →
      Runs P cfg env (.recipe (fuel + 1) sub ri given ran k) [] (.ok ran)
  | outOfFuel {sub ri given ran k} :
      Runs P cfg env (.recipe 0 sub ri given ran k) [] (.error .fuel)
  | noRecipe {fuel sub ri given ran k} : (ri, given) ∉ ran → P.recipes[ri]? = none →
      Runs P cfg env (.recipe (fuel + 1) sub ri given ran k) [] (.error .internal)
  /-- not confirmed: only the prompt happens -/
  | notConfirmed {fuel sub ri given ran k r} : (ri, given) ∉ ran → P.recipes[ri]? = some r →
      (r.confirm && !cfg.yes) = true → env.ans k = false →
      Runs P cfg env (.recipe (fuel + 1) sub ri given ran k) [Ev.prompt ri] (.error .notConfirmed)
  | bindFail {fuel sub ri given ran k r e1 e} : (ri, given) ∉ ran → P.recipes[ri]? = some r →
      ((r.confirm && !cfg.yes) = true → env.ans k = true) →
      bindParams cfg env r.params given [] = (e1, .error e) →
      Runs P cfg env (.recipe (fuel + 1) sub ri given ran k) (promptOf cfg r ri ++ e1) (.error e)
  | priorsFail {fuel sub ri given ran k r e1 ps e2 e} : (ri, given) ∉ ran → P.recipes[ri]? = some r →
      ((r.confirm && !cfg.yes) = true → env.ans k = true) →
      bindParams cfg env r.params given [] = (e1, .ok ps) →
      Runs P cfg env (.deps fuel sub r.priors ps ran (k + countPrompts (promptOf cfg r ri))) e2 (.error e) →
      Runs P cfg env (.recipe (fuel + 1) sub ri given ran k) (promptOf cfg r ri ++ e1 ++ e2) (.error e)
  | bodyFail {fuel sub ri given ran k r e1 ps e2 ran1 e3 e} : (ri, given) ∉ ran → P.recipes[ri]? = some r →
      ((r.confirm && !cfg.yes) = true → env.ans k = true) →
      bindParams cfg env r.params given [] = (e1, .ok ps) →
      Runs P cfg env (.deps fuel sub r.priors ps ran (k + countPrompts (promptOf cfg r ri))) e2 (.ok ran1) →
      runBody cfg env ri r given ps = (e3, .error e) →
      Runs P cfg env (.recipe (fuel + 1) sub ri given ran k)
        (promptOf cfg r ri ++ e1 ++ e2 ++ [.body ri given sub] ++ e3) (.error e)
  | subsFail {fuel sub ri given ran k r e1 ps e2 ran1 e3 e4 e} : (ri, given) ∉ ran → P.recipes[ri]? = some r →
      ((r.confirm && !cfg.yes) = true → env.ans k = true) →
      bindParams cfg env r.params given [] = (e1, .ok ps) →
      Runs P cfg env (.deps fuel sub r.priors ps ran (k + countPrompts (promptOf cfg r ri))) e2 (.ok ran1) →
      runBody cfg env ri r given ps = (e3, .ok ()) →
      Runs P cfg env (.deps fuel true r.subs ps [] (k + countPrompts (promptOf cfg r ri) + countPrompts e2)) e4 (.error e) →
      Runs P cfg env (.recipe (fuel + 1) sub ri given ran k)
        (promptOf cfg r ri ++ e1 ++ e2 ++ [.body ri given sub] ++ e3 ++ e4) (.error e)
  /-- the full run: prompt, parameters, priors (sharing the memo), body, subsequents (fresh memo),
  then the invocation is recorded -/
  | done {fuel sub ri given ran k r e1 ps e2 ran1 e3 e4 ranS} : (ri, given) ∉ ran → P.recipes[ri]? = some r →
      ((r.confirm && !cfg.yes) = true → env.ans k = true) →
      bindParams cfg env r.params given [] = (e1, .ok ps) →
      Runs P cfg env (.deps fuel sub r.priors ps ran (k + countPrompts (promptOf cfg r ri))) e2 (.ok ran1) →
      runBody cfg env ri r given ps = (e3, .ok ()) →
      Runs P cfg env (.deps fuel true r.subs ps [] (k + countPrompts (promptOf cfg r ri) + countPrompts e2)) e4 (.ok ranS) →
      Runs P cfg env (.recipe (fuel + 1) sub ri given ran k)
        (promptOf cfg r ri ++ e1 ++ e2 ++ [.body ri given sub] ++ e3 ++ e4) (.ok ((ri, given) :: ran1))
  | depsNil {fuel sub ps ran k} : Runs P cfg env (.deps fuel sub [] ps ran k) [] (.ok ran)
  | depsSkip {fuel sub d ds ps ran k} : cfg.noDeps = true →
      Runs P cfg env (.deps fuel sub (d :: ds) ps ran k) [] (.ok ran)
  | depsEvalFail {fuel sub d ds ps ran k e1 e} : cfg.noDeps = false →
      evalList cfg env ps d.args = (e1, .error e) →
      Runs P cfg env (.deps fuel sub (d :: ds) ps ran k) e1 (.error e)
  | depsRecFail {fuel sub d ds ps ran k e1 given e2 e} : cfg.noDeps = false →
      evalList cfg env ps d.args = (e1, .ok given) →
      Runs P cfg env (.recipe fuel sub d.target given ran k) e2 (.error e) →
      Runs P cfg env (.deps fuel sub (d :: ds) ps ran k) (e1 ++ e2) (.error e)
  /-- dependencies run left to right, threading the memo -/
  | depsCons {fuel sub d ds ps ran k e1 given e2 ran1 e3 res} : cfg.noDeps = false →
      evalList cfg env ps d.args = (e1, .ok given) →
      Runs P cfg env (.recipe fuel sub d.target given ran k) e2 (.ok ran1) →
      Runs P cfg env (.deps fuel sub ds ps ran1 (k + countPrompts e2)) e3 res →
      Runs P cfg env (.deps fuel sub (d :: ds) ps ran k) (e1 ++ e2 ++ e3) res

theorem runRecipe_zero (P : Prog) (cfg : Cfg) (env : Env) (sub ri given ran k) :
    runRecipe P cfg env 0 sub ri given ran k = ([], .error .fuel) := by
  rw [runRecipe]

/-- Step lemma for dependencies, given the refinement for recipes at the same fuel. -/
theorem runDeps_sound_of (P : Prog) (cfg : Cfg) (env : Env) (fuel : Nat)
    (hR : ∀ sub ri given ran k es res, runRecipe P cfg env fuel sub ri given ran k = (es, res) →
      Runs P cfg env (.recipe fuel sub ri given ran k) es res) :
    ∀ ds sub ps ran k es res, runDeps P cfg env fuel sub ds ps ran k = (es, res) →
      Runs P cfg env (.deps fuel sub ds ps ran k) es res := by
  intro ds
  induction ds with
  | nil =>
    intro sub ps ran k es res h
    rw [runDeps] at h
    cases h
    exact .depsNil
  | cons d ds ih =>
    intro sub ps ran k es res h
    rw [runDeps] at h
    split at h
    · rename_i hnd
      cases h
      exact .depsSkip hnd
    · rename_i hnd
      have hnd' : cfg.noDeps = false := by simpa using hnd
      split at h
      · rename_i e1 e heq
        cases h
        exact .depsEvalFail hnd' heq
      · rename_i e1 gv heq
        split at h
        · rename_i e2 e heq2
          cases h
          exact .depsRecFail hnd' heq (hR _ _ _ _ _ _ _ heq2)
        · rename_i e2 ran1 heq2
          cases h
          exact .depsCons hnd' heq (hR _ _ _ _ _ _ _ heq2) (ih _ _ _ _ _ _ (Prod.ext rfl rfl))

/-- The executable model refines the specification (for every fuel). -/
theorem runRecipe_sound (P : Prog) (cfg : Cfg) (env : Env) :
    ∀ fuel sub ri given ran k es res, runRecipe P cfg env fuel sub ri given ran k = (es, res) →
      Runs P cfg env (.recipe fuel sub ri given ran k) es res := by
  intro fuel
  induction fuel with
  | zero =>
    intro sub ri given ran k es res h
    rw [runRecipe_zero] at h
    cases h
    exact .outOfFuel
  | succ n ih =>
    have ihD := runDeps_sound_of P cfg env n ih
    intro sub ri given ran k es res h
    rw [runRecipe] at h
    split at h
    · rename_i hm
      cases h
      exact .memo hm
    · rename_i hm
      split at h
      · rename_i hr
        cases h
        exact .noRecipe hm hr
      · rename_i r hr
        simp only at h
        split at h
        · rename_i hc
          have hasked : (r.confirm && !cfg.yes) = true := by
            cases hx : (r.confirm && !cfg.yes) <;> simp_all
          have hans : env.ans k = false := by
            cases hx : env.ans k <;> simp_all
          simp only [hasked, if_true] at h
          cases h
          exact .notConfirmed hm hr hasked hans
        · rename_i hc
          have hans : (r.confirm && !cfg.yes) = true → env.ans k = true := by
            intro hx
            cases hy : env.ans k <;> simp_all
          have hp : (if (r.confirm && !cfg.yes) = true then [Ev.prompt ri] else []) = promptOf cfg r ri := rfl
          rw [hp] at h
          split at h
          · rename_i e1 e heq
            cases h
            exact .bindFail hm hr hans heq
          · rename_i e1 ps heq
            split at h
            · rename_i e2 e heq2
              cases h
              exact .priorsFail hm hr hans heq (ihD _ _ _ _ _ _ _ heq2)
            · rename_i e2 ran1 heq2
              split at h
              · rename_i e3 e heq3
                cases h
                exact .bodyFail hm hr hans heq (ihD _ _ _ _ _ _ _ heq2) heq3
              · rename_i e3 heq3
                split at h
                · rename_i e4 e heq4
                  cases h
                  exact .subsFail hm hr hans heq (ihD _ _ _ _ _ _ _ heq2) heq3 (ihD _ _ _ _ _ _ _ heq4)
                · rename_i e4 ranS heq4
                  cases h
                  exact .done hm hr hans heq (ihD _ _ _ _ _ _ _ heq2) heq3 (ihD _ _ _ _ _ _ _ heq4)

theorem runDeps_sound (P : Prog) (cfg : Cfg) (env : Env) (fuel : Nat) :
    ∀ ds sub ps ran k es res, runDeps P cfg env fuel sub ds ps ran k = (es, res) →
      Runs P cfg env (.deps fuel sub ds ps ran k) es res :=
  runDeps_sound_of P cfg env fuel (runRecipe_sound P cfg env fuel)

end Just.Run
