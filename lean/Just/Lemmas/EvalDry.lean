/-
Under `--dry-run` the evaluator starts no process for a backtick, at whatever position of whatever
expression the backtick stands (src/evaluator.rs `Expression::Backtick`: `if dry_run { the text }`).
`shell()` is outside this statement: it is a function call and does run (recorded observation).
-/
import Just.Model.Eval
namespace Just.Eval
open Just

/-- the processes started so far: the backtick / `shell()` events of the log -/
def started (log : List Ev) : List String :=
  log.filterMap (fun ev => match ev with | .bt c => some c | _ => none)

@[simp] theorem started_append (a b : List Ev) : started (a ++ b) = started a ++ started b := by
  simp [started, List.filterMap_append]
@[simp] theorem started_ev (n : String) : started [Ev.evalAssign n] = [] := rfl
@[simp] theorem started_bt (c : String) : started [Ev.bt c] = [c] := rfl

mutual
/-- no call of `shell()` anywhere in the expression -/
def noShell : Expr → Bool
  | .str _ => true
  | .var _ => true
  | .backtick _ => true
  | .call fn args => fn != "shell" && noShellL args
  | .concat l r => noShell l && noShell r
  | .joinL l r => noShell l && noShell r
  | .joinR r => noShell r
  | .and l r => noShell l && noShell r
  | .or l r => noShell l && noShell r
  | .cond a _ b t e => noShell a && noShell b && noShell t && noShell e
  | .assert a _ b m => noShell a && noShell b && noShell m
  | .group e => noShell e
def noShellL : Exprs → Bool
  | .nil => true
  | .cons e es => noShell e && noShellL es
end

/-- the module's pending assignments hold no `shell()` call either -/
def tableNoShell : Option (List (String × Expr)) → Prop
  | none => True
  | some as => ∀ p ∈ as, noShell p.2 = true

theorem lookup_noShell (as : List (String × Expr)) (h : ∀ p ∈ as, noShell p.2 = true) (x : String) (e : Expr)
    (hl : as.lookup x = some e) : noShell e = true := by
  induction as with
  | nil => simp at hl
  | cons p as ih =>
    obtain ⟨k, v⟩ := p
    simp only [List.lookup_cons] at hl
    split at hl
    · cases hl; exact h (k, _) (by simp)
    · exact ih (fun q hq => h q (List.mem_cons_of_mem _ hq)) hl

/-- what the three mutually recursive evaluator functions guarantee with `fuel` -/
def DryAt (ctx : Ctx) (assigns : Option (List (String × Expr))) (fuel : Nat) : Prop :=
  (∀ e st, noShell e = true → started (evalExpr ctx assigns fuel e st).1.log = started st.log) ∧
  (∀ es st, noShellL es = true → started (evalExprs ctx assigns fuel es st).1.log = started st.log) ∧
  (∀ n e st, noShell e = true → started (evalAssignment ctx assigns fuel n e st).1.log = started st.log)

theorem dryAt_zero (ctx : Ctx) (assigns : Option (List (String × Expr))) : DryAt ctx assigns 0 := by
  refine ⟨?_, ?_, ?_⟩ <;> intros <;> simp [evalExpr, evalExprs, evalAssignment]


/-- sequencing helper: a sub-evaluation that starts nothing, then a continuation that starts nothing -/
theorem started_via {α : Type} (r : Res α) (st : St) (h : started r.1.log = started st.log) :
    ∀ st1 x, r = (st1, x) → started st1.log = started st.log := by
  intro st1 x hr; rw [hr] at h; exact h

theorem dryAt_succ (ctx : Ctx) (hd : ctx.dryRun = true) (assigns : Option (List (String × Expr)))
    (ht : tableNoShell assigns) (fuel : Nat) (ih : DryAt ctx assigns fuel) : DryAt ctx assigns (fuel + 1) := by
  obtain ⟨ihE, ihL, ihA⟩ := ih
  refine ⟨?_, ?_, ?_⟩
  · intro e st hn
    cases e with
    | str s => simp [evalExpr]
    | var x =>
      simp only [evalExpr]
      split
      · rfl
      · cases assigns with
        | none =>
          simp only
          split <;> (split <;> simp)
        | some as =>
          simp only
          cases hl : as.lookup x with
          | none => simp only []; split <;> (split <;> rfl)
          | some e' =>
            have hne : noShell e' = true := lookup_noShell as ht x e' hl
            split
            · exact ihA x e' st hne
            · split
              · rfl
              · exact ihA x e' st hne
    | backtick c => simp [evalExpr, hd]
    | call fn args =>
      simp only [noShell, Bool.and_eq_true, bne_iff_ne, ne_eq] at hn
      simp only [evalExpr]
      have h1 := ihL args st hn.2
      split
      · rename_i st1 er heq; exact started_via _ st h1 st1 _ heq
      · rename_i st1 vs heq
        have h1' := started_via _ st h1 st1 _ heq
        simp only [hn.1, if_false]
        split <;> exact h1'
    | concat l r =>
      simp only [noShell, Bool.and_eq_true] at hn
      simp only [evalExpr]
      have h1 := ihE l st hn.1
      split
      · rename_i st1 er heq; exact started_via _ st h1 st1 _ heq
      · rename_i st1 a heq
        have h1' := started_via _ st h1 st1 _ heq
        have h2 := ihE r st1 hn.2
        split
        · rename_i st2 er heq2; rw [← h1']; exact started_via _ st1 h2 st2 _ heq2
        · rename_i st2 b heq2; rw [← h1']; exact started_via _ st1 h2 st2 _ heq2
    | joinL l r =>
      simp only [noShell, Bool.and_eq_true] at hn
      simp only [evalExpr]
      have h1 := ihE l st hn.1
      split
      · rename_i st1 er heq; exact started_via _ st h1 st1 _ heq
      · rename_i st1 a heq
        have h1' := started_via _ st h1 st1 _ heq
        have h2 := ihE r st1 hn.2
        split
        · rename_i st2 er heq2; rw [← h1']; exact started_via _ st1 h2 st2 _ heq2
        · rename_i st2 b heq2; rw [← h1']; exact started_via _ st1 h2 st2 _ heq2
    | joinR r =>
      simp only [noShell] at hn
      simp only [evalExpr]
      have h1 := ihE r st hn
      split
      · rename_i st1 er heq; exact started_via _ st h1 st1 _ heq
      · rename_i st1 b heq; exact started_via _ st h1 st1 _ heq
    | and l r =>
      simp only [noShell, Bool.and_eq_true] at hn
      simp only [evalExpr]
      have h1 := ihE l st hn.1
      split
      · rename_i st1 er heq; exact started_via _ st h1 st1 _ heq
      · rename_i st1 a heq
        have h1' := started_via _ st h1 st1 _ heq
        split
        · exact h1'
        · rw [← h1']; exact ihE r st1 hn.2
    | or l r =>
      simp only [noShell, Bool.and_eq_true] at hn
      simp only [evalExpr]
      have h1 := ihE l st hn.1
      split
      · rename_i st1 er heq; exact started_via _ st h1 st1 _ heq
      · rename_i st1 a heq
        have h1' := started_via _ st h1 st1 _ heq
        split
        · exact h1'
        · rw [← h1']; exact ihE r st1 hn.2
    | cond a op b t e =>
      simp only [noShell, Bool.and_eq_true] at hn
      simp only [evalExpr]
      have h1 := ihE a st hn.1.1.1
      split
      · rename_i st1 er heq; exact started_via _ st h1 st1 _ heq
      · rename_i st1 va heq
        have h1' := started_via _ st h1 st1 _ heq
        have h2 := ihE b st1 hn.1.1.2
        split
        · rename_i st2 er heq2; rw [← h1']; exact started_via _ st1 h2 st2 _ heq2
        · rename_i st2 vb heq2
          have h2' := started_via _ st1 h2 st2 _ heq2
          split
          · rw [← h1', ← h2']; exact ihE t st2 hn.1.2
          · rw [← h1', ← h2']; exact ihE e st2 hn.2
    | assert a op b m =>
      simp only [noShell, Bool.and_eq_true] at hn
      simp only [evalExpr]
      have h1 := ihE a st hn.1.1
      split
      · rename_i st1 er heq; exact started_via _ st h1 st1 _ heq
      · rename_i st1 va heq
        have h1' := started_via _ st h1 st1 _ heq
        have h2 := ihE b st1 hn.1.2
        split
        · rename_i st2 er heq2; rw [← h1']; exact started_via _ st1 h2 st2 _ heq2
        · rename_i st2 vb heq2
          have h2' := started_via _ st1 h2 st2 _ heq2
          split
          · rw [← h1', ← h2']
          · have h3 := ihE m st2 hn.2
            split
            · rename_i st3 er heq3; rw [← h1', ← h2']; exact started_via _ st2 h3 st3 _ heq3
            · rename_i st3 msg heq3; rw [← h1', ← h2']; exact started_via _ st2 h3 st3 _ heq3
    | group e =>
      simp only [noShell] at hn
      simp only [evalExpr]
      exact ihE e st hn
  · intro es st hn
    cases es with
    | nil => simp [evalExprs]
    | cons e es =>
      simp only [noShellL, Bool.and_eq_true] at hn
      simp only [evalExprs]
      have h1 := ihE e st hn.1
      split
      · rename_i st1 er heq; exact started_via _ st h1 st1 _ heq
      · rename_i st1 v heq
        have h1' := started_via _ st h1 st1 _ heq
        have h2 := ihL es st1 hn.2
        split
        · rename_i st2 er heq2; rw [← h1']; exact started_via _ st1 h2 st2 _ heq2
        · rename_i st2 vs heq2; rw [← h1']; exact started_via _ st1 h2 st2 _ heq2
  · intro n e st hn
    simp only [evalAssignment]
    split
    · rfl
    · have h1 := ihE e { st with log := st.log ++ [.evalAssign n] } hn
      have hs : started ({ st with log := st.log ++ [.evalAssign n] } : St).log = started st.log := by simp
      split
      · rename_i st1 er heq; rw [← hs]; exact started_via _ _ h1 st1 _ heq
      · rename_i st1 v heq; rw [← hs]; exact started_via _ _ h1 st1 _ heq

theorem dryAt (ctx : Ctx) (hd : ctx.dryRun = true) (assigns : Option (List (String × Expr)))
    (ht : tableNoShell assigns) : ∀ fuel, DryAt ctx assigns fuel
  | 0 => dryAt_zero ctx assigns
  | fuel + 1 => dryAt_succ ctx hd assigns ht fuel (dryAt ctx hd assigns ht fuel)

end Just.Eval
