import Just.Model.Cook
namespace Just.Cook

theorem hexDigit_of_isHex (c : Char) (h : isHex c = true) : ∃ d, hexDigit c = some d := by
  unfold isHex at h
  unfold hexDigit
  by_cases h1 : ('0' ≤ c && c ≤ '9') = true
  · exact ⟨c.toNat - '0'.toNat, by simp [h1]⟩
  · by_cases h2 : ('A' ≤ c && c ≤ 'F') = true
    · exact ⟨c.toNat - 'A'.toNat + 10, by simp [h1, h2]⟩
    · by_cases h3 : ('a' ≤ c && c ≤ 'f') = true
      · exact ⟨c.toNat - 'a'.toNat + 10, by simp [h1, h2, h3]⟩
      · simp [h1, h2, h3] at h

theorem hexValAux_some (hex : List Char) (acc : Nat) (h : ∀ c ∈ hex, isHex c = true) : ∃ n, hexValAux hex acc = some n := by
  induction hex generalizing acc with
  | nil => exact ⟨acc, rfl⟩
  | cons c cs ih =>
    obtain ⟨d, hd⟩ := hexDigit_of_isHex c (h c (by simp))
    simp only [hexValAux, hd]
    exact ih _ (fun x hx => h x (by simp [hx]))

/-- the scan only ever collects hexadecimal digits -/
def StateOK : State → Prop
  | .unicodeValue hex => ∀ c ∈ hex, isHex c = true
  | _ => True

theorem step_ok (st : State) (c : Char) (hs : StateOK st) :
    step st c ≠ .error .unwrapFailed ∧ ∀ st' out, step st c = .ok (st', out) → StateOK st' := by
  cases st with
  | initial =>
    simp only [step]
    split <;> simp [StateOK]
  | backslash =>
    simp only [step]
    repeat' split
    all_goals simp [StateOK]
  | backslashCr =>
    simp only [step]
    split <;> simp [StateOK]
  | unicode =>
    simp only [step]
    split <;> simp [StateOK]
  | unicodeValue hex =>
    simp only [StateOK] at hs
    simp only [step]
    split
    · split
      · simp
      · rename_i hne
        have hne' : hex.isEmpty = false := by simpa using hne
        obtain ⟨n, hn⟩ := hexValAux_some hex 0 hs
        have hv : hexVal hex = some n := by simp [hexVal, hne', hn]
        simp only [hv]
        split <;> simp [StateOK]
    · split
      · rename_i hc
        split
        · simp
        · refine ⟨by simp, ?_⟩
          intro st' out h
          simp only [Except.ok.injEq, Prod.mk.injEq] at h
          rw [← h.1]
          simp only [StateOK]
          intro x hx
          rcases List.mem_append.mp hx with hx | hx
          · exact hs x hx
          · simp only [List.mem_singleton] at hx; subst hx; exact hc
      · simp

theorem cookLoop_no_unwrap (st : State) (text acc : List Char) (hs : StateOK st) :
    cookLoop st text acc ≠ .error .unwrapFailed := by
  induction text generalizing st acc with
  | nil => simp only [cookLoop]; repeat' split
           all_goals simp
  | cons c cs ih =>
    simp only [cookLoop]
    have h := step_ok st c hs
    cases hstep : step st c with
    | error e =>
      simp only
      intro he
      simp only [Except.error.injEq] at he
      subst he
      exact h.1 hstep
    | ok p =>
      obtain ⟨st', out⟩ := p
      simp only
      exact ih st' _ (h.2 st' out hstep)

end Just.Cook
