import Just.Model.Items
import Just.Lemmas.Header
/-
Round trips of recipe bodies, assignments and aliases at token level.
-/
namespace Just.Items
open Just Just.Syntax Just.Header

def WFFrag : Frag → Prop
  | .text _ => True
  | .interp e => WF e

def fragFuel (efuel : Nat) : Frag → Prop
  | .text _ => True
  | .interp e => 4 * e.size + 3 ≤ efuel

theorem parseFrags_rt (efuel : Nat) (l : BLine) (hw : ∀ f ∈ l, WFFrag f) (hfuel : ∀ f ∈ l, fragFuel efuel f)
    (rest : List Tk) (f : Nat) (hf : l.length < f) :
    parseFrags efuel f (printLine l ++ Tk.other "Eol" :: rest) = some (l, rest) := by
  induction l generalizing f with
  | nil =>
    obtain ⟨f', rfl⟩ : ∃ f', f = f' + 1 := ⟨f - 1, by omega⟩
    simp [printLine, parseFrags]
  | cons x xs ih =>
    obtain ⟨f', rfl⟩ : ∃ f', f = f' + 1 := ⟨f - 1, by simp at hf; omega⟩
    have hrec := ih (fun y hy => hw y (by simp [hy])) (fun y hy => hfuel y (by simp [hy])) f' (by simp at hf; omega)
    cases x with
    | text s =>
      simp only [printLine, printFrag, List.cons_append, List.nil_append, List.singleton_append]
      simp only [parseFrags, hrec]
    | interp e =>
      have hwe : WF e := hw (.interp e) (by simp)
      have hfe : 4 * e.size + 3 ≤ efuel := hfuel (.interp e) (by simp)
      have he := roundtrip_core e hwe 3 (level_le3 e) (Nat.le_refl _) efuel
        (Tk.other "InterpolationEnd" :: (printLine xs ++ Tk.other "Eol" :: rest)) hfe (stopE_cons 3 _ _ _ (by simp [blocksE]))
        (after_cons _ _ _ (by simp) (by simp))
      simp only [parseAt] at he
      simp only [printLine, printFrag, tInterpolationStart, tInterpolationEnd, List.cons_append, List.nil_append, List.append_assoc,
        List.singleton_append]
      simp only [parseFrags, he, hrec]

/-- a printed line followed by its `Eol` never starts with `Dedent` -/
theorem printLine_not_dedent (l : BLine) (rest : List Tk) : ∀ r, printLine l ++ Tk.other "Eol" :: rest ≠ Tk.other "Dedent" :: r := by
  intro r h
  cases l with
  | nil => simp [printLine] at h
  | cons x xs =>
    cases x with
    | text s => simp [printLine, printFrag] at h
    | interp e => simp [printLine, printFrag, tInterpolationStart] at h

theorem parseLines_rt (efuel ffuel : Nat) (ls : List BLine) (hw : ∀ l ∈ ls, ∀ f ∈ l, WFFrag f)
    (hfuel : ∀ l ∈ ls, ∀ f ∈ l, fragFuel efuel f) (hlen : ∀ l ∈ ls, l.length < ffuel) (rest : List Tk) (f : Nat)
    (hf : ls.length < f) :
    parseLines efuel ffuel f (printLines ls ++ Tk.other "Dedent" :: rest) = some (ls, rest) := by
  induction ls generalizing f with
  | nil =>
    obtain ⟨f', rfl⟩ : ∃ f', f = f' + 1 := ⟨f - 1, by omega⟩
    simp [printLines, parseLines]
  | cons l ls ih =>
    obtain ⟨f', rfl⟩ : ∃ f', f = f' + 1 := ⟨f - 1, by simp at hf; omega⟩
    have hl := parseFrags_rt efuel l (hw l (by simp)) (hfuel l (by simp)) (printLines ls ++ Tk.other "Dedent" :: rest) ffuel
      (hlen l (by simp))
    have hrec := ih (fun x hx => hw x (by simp [hx])) (fun x hx => hfuel x (by simp [hx])) (fun x hx => hlen x (by simp [hx])) f'
      (by simp at hf; omega)
    have hnd := printLine_not_dedent l (printLines ls ++ Tk.other "Dedent" :: rest)
    simp only [printLines, tEol, List.cons_append, List.append_assoc]
    simp only [parseLines, hl, hrec]

/-- no trailing empty line (what `parse_body` guarantees of its result) -/
def NoTrailingEmpty : List BLine → Prop
  | [] => True
  | [l] => l ≠ []
  | _ :: l' :: ls => NoTrailingEmpty (l' :: ls)

theorem dropTrailingEmpty_id (ls : List BLine) (h : NoTrailingEmpty ls) : dropTrailingEmpty ls = ls := by
  induction ls with
  | nil => rfl
  | cons l ls ih =>
    cases ls with
    | nil =>
      simp only [NoTrailingEmpty] at h
      simp only [dropTrailingEmpty]
      cases l with
      | nil => exact absurd rfl h
      | cons x xs => rfl
    | cons l' ls' =>
      have := ih h
      simp only [dropTrailingEmpty] at this ⊢
      rw [this]

structure BodyFuel (fuel : Nat) (ls : List BLine) : Prop where
  exprs : ∀ l ∈ ls, ∀ f ∈ l, fragFuel fuel f
  frags : ∀ l ∈ ls, l.length < fuel
  lines : ls.length < fuel

/-- **Round trip of recipe bodies**: text fragments and interpolations, line by line. -/
theorem parseBody_rt (fuel : Nat) (ls : List BLine) (hw : ∀ l ∈ ls, ∀ f ∈ l, WFFrag f) (hne : NoTrailingEmpty ls)
    (hf : BodyFuel fuel ls) (rest : List Tk) (hrest : ∀ r, rest ≠ Tk.other "Indent" :: r) :
    parseBody fuel (printBody ls ++ rest) = some (ls, rest) := by
  cases ls with
  | nil => simp only [printBody, List.nil_append, parseBody]
  | cons l ls' =>
    have h := parseLines_rt fuel fuel (l :: ls') hw hf.exprs hf.frags rest fuel hf.lines
    simp only [printBody, tIndent, tDedent, List.cons_append, List.append_assoc, List.singleton_append, List.nil_append] at h ⊢
    simp only [parseBody, h, dropTrailingEmpty_id (l :: ls') hne]

structure WFRecipe (r : Recipe) : Prop where
  header : WFHeader r.header
  body : ∀ l ∈ r.body, ∀ f ∈ l, WFFrag f
  noTrailingEmpty : NoTrailingEmpty r.body

structure RecipeFuel (fuel : Nat) (r : Recipe) : Prop where
  header : HeaderFuel fuel r.header
  body : BodyFuel fuel r.body

/-- **Round trip of a whole recipe** (header line and body). -/
theorem parseRecipe_rt (fuel : Nat) (r : Recipe) (hw : WFRecipe r) (hf : RecipeFuel fuel r) (rest : List Tk)
    (hrest : ∀ t, rest ≠ Tk.other "Indent" :: t) :
    parseRecipe fuel (printRecipe r ++ rest) = some (r, rest) := by
  have hh := parseHeader_rt r.header hw.header fuel hf.header (printBody r.body ++ rest)
  have hb := parseBody_rt fuel r.body hw.body hw.noTrailingEmpty hf.body rest hrest
  simp only [printRecipe, List.append_assoc]
  simp only [parseRecipe, hh, hb]

/-! ### assignments and aliases -/

theorem parseAssignment_rt (fuel : Nat) (a : Assignment) (hw : WF a.value) (hf : 4 * a.value.size + 3 ≤ fuel) (rest : List Tk) :
    parseAssignment fuel (printAssignment a ++ rest) = some (a, rest) := by
  obtain ⟨exported, name, value⟩ := a
  have he := roundtrip_core value hw 3 (level_le3 value) (Nat.le_refl _) fuel (Tk.other "Eol" :: rest) hf
    (stopE_cons 3 _ _ _ (by simp [blocksE])) (after_cons _ _ _ (by simp) (by simp))
  simp only [parseAt] at he
  cases exported with
  | true =>
    simp only [printAssignment, printExport, if_true, tColonEquals, tEol, List.cons_append, List.nil_append, List.append_assoc,
      List.singleton_append]
    simp only [parseAssignment, he, expectEol_eol]
  | false =>
    simp only [printAssignment, printExport, Bool.false_eq_true, if_false, tColonEquals, tEol, List.cons_append, List.nil_append,
      List.append_assoc, List.singleton_append]
    have hno : ∀ n r, Tk.ident name :: Tk.other "ColonEquals" :: (printE value ++ Tk.other "Eol" :: rest)
        ≠ Tk.ident "export" :: Tk.ident n :: Tk.other "ColonEquals" :: r := by
      intro n r h; simp at h
    simp only [parseAssignment, he, expectEol_eol]

theorem parsePath_rt (ps : List String) (rest : List Tk) (hrest : ∀ p r, rest ≠ Tk.other "ColonColon" :: Tk.ident p :: r)
    (f : Nat) (hf : ps.length < f) : parsePath f (printPath ps ++ rest) = some (ps, rest) := by
  induction ps generalizing f with
  | nil =>
    obtain ⟨f', rfl⟩ : ∃ f', f = f' + 1 := ⟨f - 1, by omega⟩
    simp only [printPath, List.nil_append, parsePath]
  | cons p ps ih =>
    obtain ⟨f', rfl⟩ : ∃ f', f = f' + 1 := ⟨f - 1, by simp at hf; omega⟩
    have hrec := ih f' (by simp at hf; omega)
    simp only [printPath, tColonColon, List.cons_append]
    simp only [parsePath, hrec]

theorem parseAlias_rt (fuel : Nat) (a : Alias) (hf : a.path.length < fuel) (rest : List Tk) :
    parseAlias fuel (printAlias a ++ rest) = some (a, rest) := by
  obtain ⟨name, target, path⟩ := a
  have hp := parsePath_rt path (Tk.other "Eol" :: rest) (fun p r h => by simp at h) fuel hf
  simp only [printAlias, tColonEquals, tEol, List.cons_append, List.nil_append, List.append_assoc, List.singleton_append]
  simp only [parseAlias, hp, expectEol_eol]

end Just.Items
