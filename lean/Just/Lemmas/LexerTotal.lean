import Just.Model.Lexer
/-
Termination of the lexer's main loop: no lexing function ever gives text back, and every
iteration of the main loop that does not end the loop consumes at least one character.  Hence the
fuel of the model's main loop (length of the text + 1) is never exhausted: the fuel is an artefact
of the model, and the loop it stands for (`loop { … }` in `Lexer::tokenize`) terminates.
-/
namespace Just.Lexer

def ErrKind.isFuel : ErrKind → Bool
  | .fuel => true
  | _ => false

/-- outcome predicate: on success the remaining text did not grow; an error is never `fuel` -/
def Shrunk {α : Type} (s : St) : Except Err (α × St) → Prop
  | .ok (_, s') => s'.rest.length ≤ s.rest.length
  | .error e => e.kind.isFuel = false

structure Shrinks {α : Type} (m : M α) : Prop where
  run : ∀ s, Shrunk s (m s)

theorem Shrinks.pure {α : Type} (a : α) : Shrinks (pure a : M α) := ⟨fun s => Nat.le_refl _⟩

theorem Shrinks.bind {α β : Type} {x : M α} {f : α → M β} (hx : Shrinks x) (hf : ∀ a, Shrinks (f a)) :
    Shrinks (x >>= f) := by
  constructor
  intro s
  have h1 := hx.run s
  show Shrunk s ((x >>= f) s)
  simp only [Bind.bind, StateT.bind]
  cases h : x s with
  | error e => simp only [h, Shrunk] at h1 ⊢; exact h1
  | ok p =>
    obtain ⟨a, s'⟩ := p
    simp only [h, Shrunk] at h1
    have h2 := (hf a).run s'
    show Shrunk s (f a s')
    cases h3 : f a s' with
    | error e => simp only [h3, Shrunk] at h2 ⊢; exact h2
    | ok q => obtain ⟨b, s''⟩ := q; simp only [h3, Shrunk] at h2 ⊢; omega

theorem Shrinks.getBind {β : Type} {f : St → M β} (hf : ∀ s0, Shrinks (f s0)) : Shrinks (get >>= f) :=
  ⟨fun s => (hf s).run s⟩

theorem Shrinks.ite {α : Type} {c : Prop} [Decidable c] {x y : M α} (hx : Shrinks x) (hy : Shrinks y) :
    Shrinks (if c then x else y) := by
  split <;> assumption

theorem Shrinks.failWith {α : Type} {e : St → Err} (h : ∀ s, (e s).kind.isFuel = false) : Shrinks (failWith e : M α) :=
  ⟨fun s => h s⟩

theorem Shrinks.throw {α : Type} {e : Err} (h : e.kind.isFuel = false) : Shrinks (MonadExcept.throw e : M α) :=
  ⟨fun _ => h⟩

theorem internalError_kind (msg : String) (s : St) : (internalError msg s).kind.isFuel = false := rfl

theorem mkError_kind (k : ErrKind) (hk : k.isFuel = false) (s : St) : (mkError k s).kind.isFuel = false := by
  unfold mkError
  split
  · exact hk
  · exact internalError_kind _ _

theorem Shrinks.advance : Shrinks advance := by
  constructor
  intro s
  unfold Lexer.advance
  split
  · rename_i c cs h; simp [Shrunk, h]
  · exact internalError_kind _ _

theorem Shrinks.token (k : Kind) : Shrinks (token k) := ⟨fun s => Nat.le_refl _⟩

theorem Shrinks.setFrame (f : St → Frame) : Shrinks (setFrame f) := by
  constructor
  intro s
  unfold Lexer.setFrame
  split
  · exact Nat.le_refl _
  · exact internalError_kind _ _

macro "shr_step" : tactic => `(tactic| first
  | with_reducible exact Shrinks.pure _
  | with_reducible exact Shrinks.advance
  | with_reducible exact Shrinks.token _
  | with_reducible exact Shrinks.setFrame _
  | with_reducible exact Shrinks.failWith (fun s => mkError_kind _ rfl s)
  | with_reducible exact Shrinks.failWith (fun s => internalError_kind _ s)
  | with_reducible exact Shrinks.throw rfl
  | with_reducible apply_assumption
  | (with_reducible apply Shrinks.getBind; intro _)
  | with_reducible apply Shrinks.bind
  | with_reducible apply Shrinks.ite
  | intro _
  | split)
macro "shr" : tactic => `(tactic| repeat shr_step)

theorem Shrinks.presume (c : Char) : Shrinks (presume c) := by unfold Lexer.presume; shr
theorem Shrinks.accepted (c : Char) : Shrinks (accepted c) := by unfold Lexer.accepted; shr

theorem Shrinks.presumeStr (cs : List Char) : Shrinks (presumeStr cs) := by
  have := @Shrinks.presume
  induction cs with
  | nil => unfold Lexer.presumeStr; shr
  | cons c cs ih => unfold Lexer.presumeStr; shr

theorem Shrinks.advanceWhileAux (p : Char → Bool) (cs : List Char) : Shrinks (advanceWhileAux p cs) := by
  induction cs with
  | nil => unfold Lexer.advanceWhileAux; shr
  | cons c cs ih => unfold Lexer.advanceWhileAux; shr

theorem Shrinks.advanceWhile (p : Char → Bool) : Shrinks (advanceWhile p) := by
  have := @Shrinks.advanceWhileAux
  unfold Lexer.advanceWhile; shr

theorem Shrinks.advanceN (n : Nat) : Shrinks (advanceN n) := by
  induction n with
  | zero => unfold Lexer.advanceN; shr
  | succ n ih => unfold Lexer.advanceN; shr

theorem Shrinks.lexSingle (k : Kind) : Shrinks (lexSingle k) := by unfold Lexer.lexSingle; shr
theorem Shrinks.lexDouble (k : Kind) : Shrinks (lexDouble k) := by unfold Lexer.lexDouble; shr

theorem Shrinks.lexWhitespace : Shrinks lexWhitespace := by
  have := @Shrinks.advanceWhile
  unfold Lexer.lexWhitespace; shr

theorem Shrinks.lexDedent : Shrinks lexDedent := by unfold Lexer.lexDedent; shr

theorem Shrinks.dedentUntil (ws : List Char) (st : List (List Char)) : Shrinks (dedentUntil ws st) := by
  have := @Shrinks.lexDedent
  induction st with
  | nil => unfold Lexer.dedentUntil; shr
  | cons c cs ih => unfold Lexer.dedentUntil; shr

theorem Shrinks.advanceToEolAux (cs : List Char) : Shrinks (advanceToEolAux cs) := by
  induction cs with
  | nil => unfold Lexer.advanceToEolAux; shr
  | cons c cs ih => unfold Lexer.advanceToEolAux; shr

theorem Shrinks.lexComment : Shrinks lexComment := by
  have := @Shrinks.presume
  have := @Shrinks.advanceToEolAux
  unfold Lexer.lexComment; shr

theorem Shrinks.lexIdentifier : Shrinks lexIdentifier := by
  have := @Shrinks.advanceWhile
  unfold Lexer.lexIdentifier; shr

theorem Shrinks.openDelimiter (d : Delim) : Shrinks (openDelimiter d) := by
  unfold Lexer.openDelimiter; shr

theorem Shrinks.closeDelimiter (d : Delim) : Shrinks (closeDelimiter d) := by
  unfold Lexer.closeDelimiter; shr

theorem Shrinks.delimiterAction (k : Kind) : Shrinks (delimiterAction k) := by
  have := @Shrinks.openDelimiter
  have := @Shrinks.closeDelimiter
  unfold Lexer.delimiterAction; shr

theorem Shrinks.lexDelimiter (k : Kind) : Shrinks (lexDelimiter k) := by
  have := @Shrinks.delimiterAction
  have := @Shrinks.lexSingle
  unfold Lexer.lexDelimiter; shr

theorem Shrinks.unexpectedSecond : Shrinks unexpectedSecond := by
  unfold Lexer.unexpectedSecond; shr

theorem Shrinks.tryChoices (cs : List (Char × Kind)) : Shrinks (tryChoices cs) := by
  have := @Shrinks.accepted
  induction cs with
  | nil => unfold Lexer.tryChoices; shr
  | cons c cs ih => unfold Lexer.tryChoices; shr

theorem Shrinks.lexChoices (f : Char) (cs : List (Char × Kind)) (o : Option Kind) : Shrinks (lexChoices f cs o) := by
  have := @Shrinks.presume
  have := @Shrinks.tryChoices
  have := @Shrinks.unexpectedSecond
  unfold Lexer.lexChoices; shr

theorem Shrinks.lexDigraph (l r : Char) (k : Kind) : Shrinks (lexDigraph l r k) := by
  have := @Shrinks.presume
  have := @Shrinks.accepted
  have := @Shrinks.unexpectedSecond
  unfold Lexer.lexDigraph; shr

theorem Shrinks.lexColon : Shrinks lexColon := by
  have := @Shrinks.presume
  have := @Shrinks.accepted
  unfold Lexer.lexColon; shr

theorem Shrinks.lexEscape : Shrinks lexEscape := by
  have := @Shrinks.presume
  have := @Shrinks.accepted
  have := @Shrinks.advanceWhile
  unfold Lexer.lexEscape; shr

theorem Shrinks.lexEolHead : Shrinks lexEolHead := by
  have := @Shrinks.presume
  have := @Shrinks.accepted
  unfold Lexer.lexEolHead; shr

theorem Shrinks.lexEol : Shrinks lexEol := by
  have := @Shrinks.lexEolHead
  unfold Lexer.lexEol; shr

theorem Shrinks.stringLoop (d : List Char) (e : Bool) (k : ErrKind) (hk : k.isFuel = false) (cs : List Char) (esc : Bool) :
    Shrinks (stringLoop d e k cs esc) := by
  have hf : Shrinks (Lexer.failWith (mkError k) : M Unit) := Shrinks.failWith (fun s => mkError_kind _ hk s)
  induction cs generalizing esc with
  | nil => unfold Lexer.stringLoop; exact hf
  | cons c cs ih => unfold Lexer.stringLoop; shr

def stringErrKind (kind : Kind) : ErrKind :=
  if kind = .backtick then ErrKind.unterminatedBacktick else ErrKind.unterminatedString

theorem stringErrKind_notFuel (kind : Kind) : (stringErrKind kind).isFuel = false := by
  unfold stringErrKind; split <;> rfl

theorem Shrinks.lexString : Shrinks lexString := by
  have := @Shrinks.presumeStr
  have h1 := fun d e kind cs esc => @Shrinks.stringLoop d e (stringErrKind kind) (stringErrKind_notFuel kind) cs esc
  unfold Lexer.lexString
  apply Shrinks.getBind
  intro s0
  split
  · shr
  · rename_i delim kind escapes _
    show Shrinks (do
      Lexer.presumeStr delim
      let s1 ← get
      Lexer.stringLoop delim escapes (stringErrKind kind) s1.rest false
      Lexer.presumeStr delim
      Lexer.token kind)
    shr

theorem Shrinks.lexOther (s : St) (c : Char) : Shrinks (lexOther s c) := by
  have := @Shrinks.lexWhitespace
  have := @Shrinks.lexChoices
  have := @Shrinks.lexComment
  have := @Shrinks.lexSingle
  have := @Shrinks.lexDigraph
  have := @Shrinks.lexDelimiter
  have := @Shrinks.lexColon
  have := @Shrinks.lexEscape
  have := @Shrinks.lexEol
  have := @Shrinks.lexString
  have := @Shrinks.lexIdentifier
  unfold Lexer.lexOther; shr

theorem Shrinks.lexNormal (c : Char) : Shrinks (lexNormal c) := by
  have := @Shrinks.lexWhitespace
  have := @Shrinks.lexOther
  unfold Lexer.lexNormal; shr

theorem Shrinks.lexInterpolation (t : Tok) (c : Char) : Shrinks (lexInterpolation t c) := by
  have := @Shrinks.lexNormal
  have := @Shrinks.lexDouble
  unfold Lexer.lexInterpolation; shr

theorem Shrinks.bodyLoop (cs : List Char) (n : Nat) : Shrinks (bodyLoop cs n) := by
  induction cs generalizing n with
  | nil => unfold Lexer.bodyLoop; shr
  | cons c cs ih => unfold Lexer.bodyLoop; shr

theorem Shrinks.flushText : Shrinks flushText := by unfold Lexer.flushText; shr
theorem Shrinks.pushInterpolation : Shrinks pushInterpolation := by unfold Lexer.pushInterpolation; shr

theorem Shrinks.bodyTerminator (t : Terminator) : Shrinks (bodyTerminator t) := by
  have := @Shrinks.lexSingle
  have := @Shrinks.lexDouble
  have := @Shrinks.pushInterpolation
  unfold Lexer.bodyTerminator; shr

theorem Shrinks.lexBody : Shrinks lexBody := by
  have := @Shrinks.bodyLoop
  have := @Shrinks.flushText
  have := @Shrinks.bodyTerminator
  unfold Lexer.lexBody; shr

theorem Shrinks.lexLineStart : Shrinks lexLineStart := by
  have := @Shrinks.advanceWhile
  have := @Shrinks.advanceN
  have := @Shrinks.dedentUntil
  unfold Lexer.lexLineStart; shr

theorem Shrinks.lineStartIfNeeded : Shrinks lineStartIfNeeded := by
  have := @Shrinks.lexLineStart
  unfold Lexer.lineStartIfNeeded; shr

theorem Shrinks.dedentAll (st : List (List Char)) : Shrinks (dedentAll st) := by
  have := @Shrinks.lexDedent
  induction st with
  | nil => unfold Lexer.dedentAll; shr
  | cons c cs ih => unfold Lexer.dedentAll; shr

theorem Shrinks.finish : Shrinks finish := by
  have := @Shrinks.dedentAll
  unfold Lexer.finish; shr

end Just.Lexer

namespace Just.Lexer

/-! ### strict consumption -/

/-- on success at least one character was consumed -/
structure Eats {α : Type} (m : M α) : Prop where
  run : ∀ s a s', m s = .ok (a, s') → s'.rest.length < s.rest.length

theorem Shrinks.le {α : Type} {m : M α} (h : Shrinks m) {s : St} {a : α} {s' : St} (he : m s = .ok (a, s')) :
    s'.rest.length ≤ s.rest.length := by
  have := h.run s
  rw [he] at this
  exact this

theorem bind_ok {α β : Type} {x : M α} {f : α → M β} {s : St} {b : β} {s'' : St}
    (h : (x >>= f) s = .ok (b, s'')) : ∃ a s', x s = .ok (a, s') ∧ f a s' = .ok (b, s'') := by
  simp only [Bind.bind, StateT.bind] at h
  cases hx : x s with
  | error e => simp [hx, Except.bind] at h
  | ok p =>
    obtain ⟨a, s'⟩ := p
    refine ⟨a, s', rfl, ?_⟩
    simpa [hx, Except.bind] using h

theorem Eats.bindLeft {α β : Type} {x : M α} {f : α → M β} (hx : Eats x) (hf : ∀ a, Shrinks (f a)) :
    Eats (x >>= f) := by
  constructor
  intro s b s'' h
  obtain ⟨a, s', h1, h2⟩ := bind_ok h
  have := hx.run _ _ _ h1
  have := (hf a).le h2
  omega

theorem Eats.bindRight {α β : Type} {x : M α} {f : α → M β} (hx : Shrinks x) (hf : ∀ a, Eats (f a)) :
    Eats (x >>= f) := by
  constructor
  intro s b s'' h
  obtain ⟨a, s', h1, h2⟩ := bind_ok h
  have := hx.le h1
  have := (hf a).run _ _ _ h2
  omega

theorem Eats.getBind {β : Type} {f : St → M β} (hf : ∀ s0, Eats (f s0)) : Eats (get >>= f) :=
  ⟨fun s b s' h => (hf s).run s b s' h⟩

theorem Eats.ite {α : Type} {c : Prop} [Decidable c] {x y : M α} (hx : Eats x) (hy : Eats y) :
    Eats (if c then x else y) := by
  split <;> assumption

theorem Eats.failWith {α : Type} (e : St → Err) : Eats (Lexer.failWith e : M α) :=
  ⟨fun s a s' h => by simp [Lexer.failWith] at h⟩

theorem Eats.throw {α : Type} (e : Err) : Eats (MonadExcept.throw e : M α) :=
  ⟨fun s a s' h => by cases h⟩

theorem Eats.advance : Eats Lexer.advance := by
  constructor
  intro s a s' h
  unfold Lexer.advance at h
  split at h
  · rename_i c cs hr
    simp only [Except.ok.injEq, Prod.mk.injEq] at h
    rw [← h.2, hr]; simp
  · cases h

theorem Eats.presume (c : Char) : Eats (Lexer.presume c) := by
  unfold Lexer.presume
  apply Eats.getBind; intro s0
  apply Eats.ite
  · exact Eats.advance
  · exact Eats.failWith _

theorem Eats.lexSingle (k : Kind) : Eats (Lexer.lexSingle k) := by
  unfold Lexer.lexSingle
  exact Eats.bindLeft Eats.advance (fun _ => Shrinks.token _)

theorem Eats.lexDouble (k : Kind) : Eats (Lexer.lexDouble k) := by
  unfold Lexer.lexDouble
  exact Eats.bindLeft Eats.advance (fun _ => Shrinks.bind Shrinks.advance (fun _ => Shrinks.token _))

/-- first action is `presume` / `advance`, the rest only shrinks -/
macro "eat_head" : tactic => `(tactic| first
  | (apply Eats.bindLeft (Eats.presume _); intro _; shr)
  | (apply Eats.bindLeft Eats.advance; intro _; shr))

theorem Eats.lexComment : Eats Lexer.lexComment := by
  have := @Shrinks.advanceToEolAux
  unfold Lexer.lexComment; eat_head

theorem Eats.lexIdentifier : Eats Lexer.lexIdentifier := by
  have := @Shrinks.advanceWhile
  unfold Lexer.lexIdentifier; eat_head

theorem Eats.lexChoices (f : Char) (cs : List (Char × Kind)) (o : Option Kind) : Eats (Lexer.lexChoices f cs o) := by
  have := @Shrinks.tryChoices
  have := @Shrinks.unexpectedSecond
  unfold Lexer.lexChoices; eat_head

theorem Eats.lexDigraph (l r : Char) (k : Kind) : Eats (Lexer.lexDigraph l r k) := by
  have := @Shrinks.accepted
  have := @Shrinks.unexpectedSecond
  unfold Lexer.lexDigraph; eat_head

theorem Eats.lexColon : Eats Lexer.lexColon := by
  have := @Shrinks.accepted
  unfold Lexer.lexColon; eat_head

theorem Eats.lexEscape : Eats Lexer.lexEscape := by
  have := @Shrinks.accepted
  have := @Shrinks.advanceWhile
  unfold Lexer.lexEscape; eat_head

theorem Eats.lexDelimiter (k : Kind) : Eats (Lexer.lexDelimiter k) := by
  unfold Lexer.lexDelimiter
  exact Eats.bindRight (Shrinks.delimiterAction k) (fun _ => Eats.lexSingle k)

theorem accepted_spec {c : Char} {s : St} {b : Bool} {s' : St} (h : Lexer.accepted c s = .ok (b, s')) :
    (b = true ∧ s'.rest.length < s.rest.length) ∨ (b = false ∧ s' = s) := by
  unfold Lexer.accepted at h
  have h' : (if nextIs s c = true then (do Lexer.advance; Pure.pure true) else Pure.pure false : M Bool) s = .ok (b, s') := h
  split at h'
  · left
    obtain ⟨a, s1, h1, h2⟩ := bind_ok h'
    have := Eats.advance.run _ _ _ h1
    cases h2
    exact ⟨rfl, this⟩
  · right
    cases h'
    exact ⟨rfl, rfl⟩

theorem Eats.lexEolHead : Eats Lexer.lexEolHead := by
  constructor
  intro s a s' h
  unfold Lexer.lexEolHead at h
  obtain ⟨b, s1, h1, h2⟩ := bind_ok h
  rcases accepted_spec h1 with ⟨rfl, hlt⟩ | ⟨rfl, rfl⟩
  · simp only [if_true] at h2
    have hs : Shrinks (do
        let b2 ← Lexer.accepted '\n'
        if (!b2) = true then Lexer.failWith (mkError .unpairedCarriageReturn) else Pure.pure () : M Unit) := by
      have := @Shrinks.accepted
      shr
    have := hs.le h2
    omega
  · simp only [Bool.false_eq_true, if_false] at h2
    exact (Eats.presume '\n').run _ _ _ h2

theorem Eats.lexEol : Eats Lexer.lexEol := by
  unfold Lexer.lexEol
  apply Eats.bindLeft Eats.lexEolHead
  intro _; shr

theorem isDelimiterStart_cons {cs d : List Char} {k : Kind} {b : Bool}
    (h : isDelimiterStart cs = some (d, k, b)) : ∃ c r, d = c :: r := by
  unfold isDelimiterStart at h
  repeat' split at h
  all_goals first
    | (cases h; exact ⟨_, _, rfl⟩)
    | cases h

theorem Eats.lexString : Eats Lexer.lexString := by
  have := @Shrinks.presumeStr
  have h1 := fun d e kind cs esc => @Shrinks.stringLoop d e (stringErrKind kind) (stringErrKind_notFuel kind) cs esc
  unfold Lexer.lexString
  apply Eats.getBind
  intro s0
  split
  · eat_head
  · rename_i delim kind escapes hd
    obtain ⟨c, r, rfl⟩ := isDelimiterStart_cons hd
    show Eats (do
      Lexer.presumeStr (c :: r)
      let s1 ← get
      Lexer.stringLoop (c :: r) escapes (stringErrKind kind) s1.rest false
      Lexer.presumeStr (c :: r)
      Lexer.token kind)
    apply Eats.bindLeft
    · unfold Lexer.presumeStr
      exact Eats.bindLeft (Eats.presume c) (fun _ => Shrinks.presumeStr r)
    · intro _; shr

theorem Eats.lexOther (s : St) (c : Char) : Eats (Lexer.lexOther s c) := by
  unfold Lexer.lexOther
  repeat' apply Eats.ite
  all_goals first
    | exact Eats.failWith _
    | exact Eats.lexChoices _ _ _
    | exact Eats.lexComment
    | exact Eats.lexSingle _
    | exact Eats.lexDigraph _ _ _
    | exact Eats.lexDelimiter _
    | exact Eats.lexColon
    | exact Eats.lexEscape
    | exact Eats.lexEol
    | exact Eats.lexString
    | exact Eats.lexIdentifier
    | eat_head

/-- `lex_normal` consumes when it is called on the next character -/
theorem lexNormal_eats {start : Char} {s : St} {a : Unit} {s' : St} (hhead : s.rest.head? = some start)
    (h : Lexer.lexNormal start s = .ok (a, s')) : s'.rest.length < s.rest.length := by
  unfold Lexer.lexNormal at h
  have h' : (if (start = ' ' || start = '\t') = true then Lexer.lexWhitespace else Lexer.lexOther s start) s = .ok (a, s') := h
  split at h'
  · rename_i hb
    cases hr : s.rest with
    | nil => simp [hr] at hhead
    | cons c cs =>
      simp only [hr, List.head?_cons, Option.some.injEq] at hhead
      subst hhead
      unfold Lexer.lexWhitespace Lexer.advanceWhile at h'
      have h2 : (do Lexer.advanceWhileAux isBlankChar s.rest; Lexer.token Kind.whitespace : M Unit) s = .ok (a, s') := h'
      rw [hr] at h2
      unfold Lexer.advanceWhileAux at h2
      have hblank : isBlankChar c = true := by simpa [isBlankChar] using hb
      simp only [hblank, if_true] at h2
      have : Eats (do
          (do Lexer.advance; Lexer.advanceWhileAux isBlankChar cs)
          Lexer.token Kind.whitespace : M Unit) :=
        Eats.bindLeft (Eats.bindLeft Eats.advance (fun _ => Shrinks.advanceWhileAux _ _)) (fun _ => Shrinks.token _)
      have := this.run _ _ _ h2
      rw [hr] at this
      exact this
  · exact (Eats.lexOther s start).run _ _ _ h'

theorem lexInterpolation_eats {t : Tok} {start : Char} {s : St} {a : Unit} {s' : St} (hhead : s.rest.head? = some start)
    (h : Lexer.lexInterpolation t start s = .ok (a, s')) : s'.rest.length < s.rest.length := by
  unfold Lexer.lexInterpolation at h
  have h' : (if restStartsWith s ['}', '}'] = true then
      (match s.interp with
      | [] => (do Lexer.advance; Lexer.advance; Lexer.failWith (internalError "lex_interpolation: empty interpolation stack") : M Unit)
      | _ :: below => do
        Lexer.setFrame (fun s => { s.frame with interp := below })
        Lexer.lexDouble .interpolationEnd)
    else if atEolOrEof s = true then MonadExcept.throw { kind := .unterminatedInterpolation, tok := t }
    else Lexer.lexNormal start) s = .ok (a, s') := h
  split at h'
  · cases hi : s.interp with
    | nil =>
      simp only [hi] at h'
      have : Eats (do Lexer.advance; Lexer.advance; Lexer.failWith (internalError "lex_interpolation: empty interpolation stack") : M Unit) := by
        eat_head
      exact this.run _ _ _ h'
    | cons i below =>
      simp only [hi] at h'
      exact (Eats.bindRight (Shrinks.setFrame _) (fun _ => Eats.lexDouble _)).run _ _ _ h'
  · split at h'
    · cases h'
    · exact lexNormal_eats hhead h'

/-- the body scan: never grows the text; when it reports end of file from a non-empty text, it consumed -/
theorem bodyLoop_spec (cs : List Char) (k : Nat) (s : St) (t : Terminator) (s' : St)
    (h : Lexer.bodyLoop cs k s = .ok (t, s')) :
    s'.rest.length ≤ s.rest.length ∧ (cs ≠ [] → (t = .endOfFile → s'.rest.length < s.rest.length)) := by
  refine ⟨(Shrinks.bodyLoop cs k).le h, ?_⟩
  intro hne
  cases cs with
  | nil => exact absurd rfl hne
  | cons c cs =>
    intro ht
    unfold Lexer.bodyLoop at h
    have adv : ∀ n, (do Lexer.advance; Lexer.bodyLoop cs n : M Terminator) s = .ok (t, s') → s'.rest.length < s.rest.length :=
      fun n hh => (Eats.bindLeft Eats.advance (fun _ => Shrinks.bodyLoop cs n)).run _ _ _ hh
    split at h
    · exact adv _ h
    split at h
    · exact adv _ h
    split at h
    · cases h; cases ht
    split at h
    · cases h; cases ht
    split at h
    · cases h; cases ht
    · exact adv _ h

theorem Eats.bodyTerminator_nonEof {t : Terminator} (ht : t ≠ .endOfFile) : Eats (Lexer.bodyTerminator t) := by
  unfold Lexer.bodyTerminator
  cases t with
  | endOfFile => exact absurd rfl ht
  | newline => exact Eats.lexSingle _
  | newlineCarriageReturn => exact Eats.lexDouble _
  | interpolation => exact Eats.bindLeft (Eats.lexDouble _) (fun _ => Shrinks.pushInterpolation)

theorem lexBody_eats {s : St} {a : Unit} {s' : St} (hne : s.rest ≠ [])
    (h : Lexer.lexBody s = .ok (a, s')) : s'.rest.length < s.rest.length := by
  unfold Lexer.lexBody at h
  have h' : (do
      let t ← Lexer.bodyLoop s.rest 0
      Lexer.flushText
      Lexer.bodyTerminator t : M Unit) s = .ok (a, s') := h
  obtain ⟨t, s1, h1, h2⟩ := bind_ok h'
  obtain ⟨_, s2, h3, h4⟩ := bind_ok h2
  have hb := bodyLoop_spec _ _ _ _ _ h1
  have hf := Shrinks.flushText.le h3
  by_cases ht : t = .endOfFile
  · have := hb.2 hne ht
    have := (Shrinks.bodyTerminator t).le h4
    omega
  · have := (Eats.bodyTerminator_nonEof ht).run _ _ _ h4
    omega

theorem dispatch_eats {first : Char} {s : St} {a : Unit} {s' : St} (hhead : s.rest.head? = some first)
    (h : Lexer.dispatch first s = .ok (a, s')) : s'.rest.length < s.rest.length := by
  unfold Lexer.dispatch at h
  have h' : (match s.interp with
      | istart :: _ => Lexer.lexInterpolation istart first
      | [] => if s.recipeBody = true then Lexer.lexBody else Lexer.lexNormal first) s = .ok (a, s') := h
  cases hi : s.interp with
  | cons i below =>
    simp only [hi] at h'
    exact lexInterpolation_eats hhead h'
  | nil =>
    simp only [hi] at h'
    split at h'
    · exact lexBody_eats (by intro hn; simp [hn] at hhead) h'
    · exact lexNormal_eats hhead h'

/-- an iteration of the main loop that continues has consumed at least one character -/
theorem stepMain_eats {s : St} {s' : St} (h : Lexer.stepMain s = .ok (true, s')) :
    s'.rest.length < s.rest.length := by
  unfold Lexer.stepMain at h
  obtain ⟨_, s1, h1, h2⟩ := bind_ok h
  have hle := Shrinks.lineStartIfNeeded.le h1
  have h2' : (match s1.rest with
      | [] => (Pure.pure false : M Bool)
      | first :: _ => do Lexer.dispatch first; Pure.pure true) s1 = .ok (true, s') := h2
  cases hr : s1.rest with
  | nil =>
    simp only [hr] at h2'
    cases h2'
  | cons first tl =>
    simp only [hr] at h2'
    obtain ⟨_, s2, h3, h4⟩ := bind_ok h2'
    cases h4
    have := dispatch_eats (by simp [hr]) h3
    omega

theorem Shrinks.dispatch (c : Char) : Shrinks (Lexer.dispatch c) := by
  have := @Shrinks.lexInterpolation
  have := @Shrinks.lexBody
  have := @Shrinks.lexNormal
  unfold Lexer.dispatch; shr

theorem Shrinks.stepMain : Shrinks Lexer.stepMain := by
  have := @Shrinks.lineStartIfNeeded
  have := @Shrinks.dispatch
  unfold Lexer.stepMain; shr

/-- with more fuel than remaining characters the main loop never runs out of fuel -/
theorem mainLoop_fuel (n : Nat) (s : St) (hn : s.rest.length < n) : Shrunk s (Lexer.mainLoop n s) := by
  induction n generalizing s with
  | zero => omega
  | succ n ih =>
    unfold Lexer.mainLoop
    show Shrunk s ((Lexer.stepMain >>= fun b => if b = true then Lexer.mainLoop n else Pure.pure ()) s)
    simp only [Bind.bind, StateT.bind]
    have hs := Shrinks.stepMain.run s
    cases hstep : Lexer.stepMain s with
    | error e => rw [hstep] at hs; exact hs
    | ok p =>
      obtain ⟨b, s1⟩ := p
      cases b with
      | false =>
        rw [hstep] at hs
        exact hs
      | true =>
        have hlt := stepMain_eats hstep
        have := ih s1 (by omega)
        show Shrunk s (Lexer.mainLoop n s1)
        cases hm : Lexer.mainLoop n s1 with
        | error e => rw [hm] at this; exact this
        | ok q => obtain ⟨u, s2⟩ := q; rw [hm] at this; simp only [Shrunk] at this ⊢; omega

/-- the lexer never runs out of fuel: its main loop terminates on every text -/
theorem tokenize_terminates (src : List Char) (e : Err) (h : tokenize src = .error e) : e.kind.isFuel = false := by
  unfold tokenize at h
  split at h
  · rename_i e' heq
    simp only [Except.error.injEq] at h
    subst h
    unfold tokenizeM at heq
    have hm := mainLoop_fuel (src.length + 1) (initial src) (by simp [initial])
    simp only [Bind.bind, StateT.bind] at heq
    cases hml : Lexer.mainLoop (src.length + 1) (initial src) with
    | error e1 =>
      rw [hml] at hm heq
      simp only [Except.bind, Except.error.injEq] at heq
      subst heq
      exact hm
    | ok p =>
      obtain ⟨_, s1⟩ := p
      rw [hml] at heq
      simp only [Except.bind] at heq
      have := Shrinks.finish.run s1
      rw [heq] at this
      exact this
  · repeat' split at h
    all_goals first
      | (simp only [Except.error.injEq] at h; subst h; rfl)
      | cases h

end Just.Lexer
