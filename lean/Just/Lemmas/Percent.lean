import Just.Model.Percent
namespace Just.Percent

theorem unhex_hexDigit (n : Nat) (h : n < 16) : unhex (hexDigit n) = some n := by
  unfold hexDigit unhex
  by_cases h10 : n < 10
  · simp only [h10, if_true]
    have h1 : 48 ≤ 48 + n ∧ 48 + n ≤ 57 := by omega
    simp only [h1, and_self, if_true]
    congr 1; omega
  · simp only [h10, if_false]
    have h1 : ¬ (48 ≤ 55 + n ∧ 55 + n ≤ 57) := by omega
    have h2 : 65 ≤ 55 + n ∧ 55 + n ≤ 70 := by omega
    simp only [h1, if_false, h2, and_self, if_true]
    congr 1; omega

theorem safe_ne_percent (b : Nat) (h : isSafe b = true) : b ≠ 37 := by
  intro h37; subst h37; simp [isSafe, isAlnum] at h

theorem decode_cons_ne (c : Nat) (rest : List Nat) (h : c ≠ 37) :
    decode (c :: rest) = (decode rest).map (c :: ·) := by
  rw [decode.eq_def]
  simp [h]

theorem decode_percent (h l : Nat) (rest : List Nat) :
    decode (37 :: h :: l :: rest) = combine (unhex h) (unhex l) (decode rest) := by
  rw [decode.eq_def]
  simp

theorem decode_encode : ∀ (bs : List Nat), (∀ b ∈ bs, b < 256) → decode (encode bs) = some bs := by
  intro bs
  induction bs with
  | nil => intro _; rfl
  | cons b rest ih =>
    intro hb
    have hrest := ih (fun x hx => hb x (List.mem_cons_of_mem _ hx))
    have hb256 : b < 256 := hb b (by simp)
    simp only [encode, encodeByte]
    by_cases hs : isSafe b = true
    · simp only [hs, if_true, List.cons_append, List.nil_append]
      rw [decode_cons_ne b _ (safe_ne_percent b hs), hrest]
      rfl
    · simp only [hs, Bool.false_eq_true, if_false, List.cons_append, List.nil_append]
      rw [decode_percent]
      rw [unhex_hexDigit (b / 16) (by omega), unhex_hexDigit (b % 16) (by omega), hrest]
      simp only [combine, Option.some.injEq, List.cons.injEq, and_true]
      omega

/-- every byte of the output is a safe byte, a `%`, or a hexadecimal digit -/
theorem encode_output : ∀ (bs : List Nat), (∀ b ∈ bs, b < 256) →
    ∀ c ∈ encode bs, isSafe c = true ∨ c = 37 ∨ (unhex c).isSome = true := by
  intro bs
  induction bs with
  | nil => intro _ c hc; cases hc
  | cons b rest ih =>
    intro hb c hc
    have hb256 : b < 256 := hb b (by simp)
    simp only [encode, List.mem_append] at hc
    rcases hc with hc | hc
    · unfold encodeByte at hc
      split at hc
      · simp at hc; subst hc; left; assumption
      · simp only [List.mem_cons, List.not_mem_nil, or_false] at hc
        rcases hc with rfl | rfl | rfl
        · right; left; rfl
        · right; right; rw [unhex_hexDigit _ (by omega)]; rfl
        · right; right; rw [unhex_hexDigit _ (by omega)]; rfl
    · exact ih (fun x hx => hb x (List.mem_cons_of_mem _ hx)) c hc

end Just.Percent
