import Just.Model.Dfs
/-
The fuel of the cycle-stack DFS is an artefact: with more fuel than there are nodes it is never
exhausted (the stack of nodes in progress has no repetition, so the recursion is at most as deep as
the number of nodes).
-/
namespace Just.Dfs

structure StackOk (g : Graph) (nodes stack : List String) : Prop where
  nodup : stack.Nodup
  sub : ∀ x ∈ stack, x ∈ nodes

theorem stack_le {g : Graph} {nodes stack : List String} (h : StackOk g nodes stack) : stack.length ≤ nodes.length :=
  List.Nodup.length_le_of_subset h.nodup (fun x hx => h.sub x hx)

theorem succs_no_fuel_of (g : Graph) (nodes : List String) (hnodes : ∀ s, (g.succ s).isSome = true → s ∈ nodes) (fuel : Nat)
    (hN : ∀ n done stack, StackOk g nodes stack → n ∉ stack → nodes.length < fuel + stack.length →
      node g fuel n done stack ≠ .error .fuel) :
    ∀ ss n done stack, StackOk g nodes stack → nodes.length < fuel + stack.length →
      succs g fuel n ss done stack ≠ .error .fuel := by
  intro ss
  induction ss with
  | nil => intro n done stack _ _ h; rw [succs] at h; cases h
  | cons s ss ih =>
    intro n done stack hs hf h
    rw [succs] at h
    split at h
    · exact ih n done stack hs hf h
    · split at h
      · cases h
      · rename_i hnstack
        split at h
        · split at h
          · rename_i e hnode
            cases h
            exact hN s done stack hs (by simpa using hnstack) hf hnode
          · rename_i done1 _
            exact ih n done1 stack hs hf h
        · cases h

theorem node_no_fuel (g : Graph) (nodes : List String) (hnodes : ∀ s, (g.succ s).isSome = true → s ∈ nodes) :
    ∀ fuel n done stack, StackOk g nodes stack → n ∉ stack → nodes.length < fuel + stack.length →
      node g fuel n done stack ≠ .error .fuel := by
  intro fuel
  induction fuel with
  | zero =>
    intro n done stack hs _ hf
    have := stack_le hs
    omega
  | succ k ih =>
    have hS := succs_no_fuel_of g nodes hnodes k ih
    intro n done stack hs hns hf h
    rw [node] at h
    split at h
    · cases h
    · split at h
      · cases h
      · rename_i ss hsucc
        split at h
        · rename_i e hsuccs
          cases h
          have hs' : StackOk g nodes (n :: stack) :=
            ⟨List.nodup_cons.mpr ⟨hns, hs.nodup⟩, fun x hx => by
              rcases List.mem_cons.mp hx with rfl | hx
              · exact hnodes _ (by simp [hsucc])
              · exact hs.sub x hx⟩
          exact hS ss n done (n :: stack) hs' (by simp; omega) hsuccs
        · cases h

/-- resolving every root with more fuel than nodes never runs out of fuel -/
theorem all_no_fuel (g : Graph) (nodes : List String) (hnodes : ∀ s, (g.succ s).isSome = true → s ∈ nodes)
    (fuel : Nat) (hf : nodes.length < fuel) : ∀ roots done, all g fuel roots done ≠ .error .fuel := by
  intro roots
  induction roots with
  | nil => intro done h; simp [all] at h
  | cons r rs ih =>
    intro done h
    simp only [all] at h
    split at h
    · rename_i e hnode
      cases h
      exact node_no_fuel g nodes hnodes fuel r done [] ⟨List.nodup_nil, fun x hx => by cases hx⟩ (by simp) (by simpa using hf) hnode
    · rename_i done1 _
      exact ih done1 h

end Just.Dfs

namespace Just.Dfs

theorem lookup_isSome_mem {α : Type} (l : List (String × α)) (s : String) (h : (l.lookup s).isSome = true) :
    s ∈ l.map Prod.fst := by
  induction l with
  | nil => simp at h
  | cons p ps ih =>
    obtain ⟨k, v⟩ := p
    simp only [List.lookup] at h
    split at h
    · rename_i heq
      have : s = k := by simpa using heq
      simp [this]
    · simp only [List.map_cons, List.mem_cons]
      exact Or.inr (ih h)

end Just.Dfs
