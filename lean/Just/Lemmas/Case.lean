/-
Lemmas about the case-conversion model `Just.Case`: what the words are made of, what their
concatenation is, and that a text already in the style is cut back into its own words.
-/
import Just.Model.Case
namespace Just.Case

theorem lower_iff (c : Nat) : isLower c = true ↔ 97 ≤ c ∧ c ≤ 122 := by simp [isLower]
theorem upper_iff (c : Nat) : isUpper c = true ↔ 65 ≤ c ∧ c ≤ 90 := by simp [isUpper]
theorem digit_iff (c : Nat) : isDigit c = true ↔ 48 ≤ c ∧ c ≤ 57 := by simp [isDigit]
theorem alnum_iff (c : Nat) : isAlnum c = true ↔ isLower c = true ∨ isUpper c = true ∨ isDigit c = true := by
  simp [isAlnum, or_assoc]

/-! ### the concatenation of the words is the text without its separators -/

theorem scan_flatten : ∀ (w : List Nat) (m : Mode) (cur : List Nat), w ≠ [] →
    (scan m cur w).flatten = cur.reverse ++ w
  | [], _, _, h => absurd rfl h
  | [c], _, cur, _ => by simp [scan]
  | c :: next :: rest, m, cur, _ => by
    unfold scan
    split
    · simp [scan_flatten (next :: rest) .boundary [] (by simp)]
    · split
      · simp [scan_flatten (next :: rest) .boundary [c] (by simp)]
      · simp [scan_flatten (next :: rest) (nextMode m c) (c :: cur) (by simp)]

theorem scan_nil (m : Mode) (cur : List Nat) : scan m cur [] = [] := by simp [scan]

theorem scan_flatten' (w : List Nat) : (scan .boundary [] w).flatten = w := by
  cases w with
  | nil => simp [scan]
  | cons c r => simpa using scan_flatten (c :: r) .boundary [] (by simp)

theorem pieces_flatten : ∀ (s cur : List Nat), (pieces cur s).flatten = cur.reverse ++ s.filter isAlnum
  | [], cur => by simp [pieces]
  | c :: rest, cur => by
    unfold pieces
    by_cases h : isAlnum c = true
    · simp [h, pieces_flatten rest (c :: cur)]
    · simp [h, pieces_flatten rest []]

theorem flatMap_flatten {α β : Type} (f : α → List (List β)) : ∀ (l : List α),
    (l.flatMap f).flatten = (l.map (fun a => (f a).flatten)).flatten
  | [] => rfl
  | a :: l => by simp [flatMap_flatten f l]

theorem words_flatten (s : List Nat) : (words s).flatten = s.filter isAlnum := by
  unfold words
  rw [flatMap_flatten]
  have : (fun a => (scan Mode.boundary [] a).flatten) = id := by funext a; exact scan_flatten' a
  rw [this]; simpa using pieces_flatten s []

/-! ### every word is a non-empty run of letters and digits -/

theorem scan_nonempty : ∀ (w : List Nat) (m : Mode) (cur : List Nat),
    (m = .upper → cur ≠ []) → ∀ x ∈ scan m cur w, x ≠ []
  | [], _, _, _ => by simp [scan]
  | [_], _, cur, _ => by simp [scan]
  | c :: next :: rest, m, cur, hm => by
    unfold scan
    split
    · intro x hx
      rcases List.mem_cons.mp hx with rfl | hx
      · simp
      · exact scan_nonempty (next :: rest) .boundary [] (by simp) x hx
    · split
      · rename_i h2
        intro x hx
        rcases List.mem_cons.mp hx with rfl | hx
        · have : m = .upper := by
            simp only [Bool.and_eq_true, decide_eq_true_eq] at h2; exact h2.1.1
          simpa using hm this
        · exact scan_nonempty (next :: rest) .boundary [c] (by simp) x hx
      · exact scan_nonempty (next :: rest) (nextMode m c) (c :: cur) (by simp)

theorem words_mem_flatten (s : List Nat) (w : List Nat) (hw : w ∈ words s) : ∀ c ∈ w, c ∈ (words s).flatten :=
  fun _ hc => List.mem_flatten.mpr ⟨w, hw, hc⟩

/-- every word is non-empty and consists of letters and digits -/
theorem words_alnum (s : List Nat) : ∀ w ∈ words s, w ≠ [] ∧ ∀ c ∈ w, isAlnum c = true := by
  intro w hw
  constructor
  · unfold words at hw
    obtain ⟨p, _, hp⟩ := List.mem_flatMap.mp hw
    exact scan_nonempty p .boundary [] (by simp) w hp
  · intro c hc
    have := words_mem_flatten s w hw c hc
    rw [words_flatten] at this
    exact (List.mem_filter.mp this).2

/-! ### joining -/

theorem mem_joinWith (sep : List Nat) : ∀ (ws : List (List Nat)) (c : Nat), c ∈ joinWith sep ws →
    c ∈ sep ∨ ∃ w ∈ ws, c ∈ w
  | [], c, h => by simp [joinWith] at h
  | [w], c, h => by right; exact ⟨w, by simp, by simpa [joinWith] using h⟩
  | w :: w2 :: ws, c, h => by
    simp only [joinWith, List.mem_append] at h
    rcases h with (h | h) | h
    · right; exact ⟨w, by simp, h⟩
    · left; exact h
    · rcases mem_joinWith sep (w2 :: ws) c h with h | ⟨x, hx, hc⟩
      · left; exact h
      · right; exact ⟨x, List.mem_cons_of_mem _ hx, hc⟩

theorem filter_joinWith (sep : List Nat) (hs : ∀ c ∈ sep, isAlnum c = false) : ∀ (ws : List (List Nat)),
    (∀ w ∈ ws, ∀ c ∈ w, isAlnum c = true) → (joinWith sep ws).filter isAlnum = ws.flatten
  | [], _ => by simp [joinWith]
  | [w], h => by
    simp only [joinWith, List.flatten_cons, List.flatten_nil, List.append_nil]
    exact List.filter_eq_self.mpr (h w (by simp))
  | w :: w2 :: ws, h => by
    have h1 : w.filter isAlnum = w := List.filter_eq_self.mpr (h w (by simp))
    have h2 : sep.filter isAlnum = [] := List.filter_eq_nil_iff.mpr (by intro c hc; simp [hs c hc])
    have ih := filter_joinWith sep hs (w2 :: ws) (fun x hx => h x (List.mem_cons_of_mem _ hx))
    simp only [joinWith, List.filter_append, h1, h2, ih, List.flatten_cons, List.append_nil]

/-! ### a text already written in a lower-case style is cut back into its own words -/

theorem scan_no_upper : ∀ (w : List Nat) (m : Mode) (cur : List Nat), w ≠ [] → (∀ c ∈ w, isUpper c = false) →
    scan m cur w = [cur.reverse ++ w]
  | [], _, _, h, _ => absurd rfl h
  | [c], _, cur, _, _ => by simp [scan]
  | c :: next :: rest, m, cur, _, hu => by
    have hn : isUpper next = false := hu next (by simp)
    have hc : isUpper c = false := hu c (by simp)
    unfold scan
    simp only [hn, hc, Bool.and_false, Bool.false_and, Bool.false_eq_true, if_false]
    rw [scan_no_upper (next :: rest) _ _ (by simp) (fun x hx => hu x (List.mem_cons_of_mem _ hx))]
    simp

theorem pieces_append : ∀ (w cur rest : List Nat), (∀ c ∈ w, isAlnum c = true) →
    pieces cur (w ++ rest) = pieces (w.reverse ++ cur) rest
  | [], _, _, _ => by simp
  | c :: w, cur, rest, h => by
    have hc : isAlnum c = true := h c (by simp)
    simp only [List.cons_append, pieces, hc, if_true]
    rw [pieces_append w (c :: cur) rest (fun x hx => h x (List.mem_cons_of_mem _ hx))]
    simp

/-- cutting a joined list of separator-free words at the separator gives the words back -/
theorem pieces_joinWith (sep : Nat) (hsep : isAlnum sep = false) : ∀ (w : List Nat) (ws : List (List Nat)),
    (∀ x ∈ w :: ws, ∀ c ∈ x, isAlnum c = true) → pieces [] (joinWith [sep] (w :: ws)) = w :: ws
  | w, [], h => by
    have := pieces_append w [] [] (h w (by simp))
    simp only [List.append_nil] at this
    simp [joinWith, this, pieces]
  | w, w2 :: ws, h => by
    have h1 := pieces_append w [] ([sep] ++ joinWith [sep] (w2 :: ws)) (h w (by simp))
    simp only [joinWith, List.append_assoc]
    rw [h1]
    simp only [List.singleton_append, pieces, hsep, Bool.false_eq_true, if_false, List.append_nil, List.reverse_reverse]
    rw [pieces_joinWith sep hsep w2 ws (fun x hx => h x (List.mem_cons_of_mem _ hx))]

theorem flatMap_singleton {α : Type} (f : α → List α) : ∀ (l : List α), (∀ a ∈ l, f a = [a]) → l.flatMap f = l
  | [], _ => rfl
  | a :: l, h => by
    simp only [List.flatMap_cons, h a (by simp)]
    rw [flatMap_singleton f l (fun x hx => h x (List.mem_cons_of_mem _ hx))]; rfl

/-- the words of a text that consists of non-empty runs of lower-case letters and digits joined by one
separator character are those runs -/
theorem words_joinWith (sep : Nat) (hsep : isAlnum sep = false) (ws : List (List Nat))
    (h : ∀ w ∈ ws, w ≠ [] ∧ ∀ c ∈ w, isAlnum c = true ∧ isUpper c = false) :
    words (joinWith [sep] ws) = ws := by
  cases ws with
  | nil => simp [joinWith, words, pieces, scan]
  | cons w ws =>
    unfold words
    rw [pieces_joinWith sep hsep w ws (fun x hx c hc => ((h x hx).2 c hc).1)]
    apply flatMap_singleton
    intro a ha
    have := scan_no_upper a .boundary [] (h a ha).1 (fun c hc => ((h a ha).2 c hc).2)
    simpa using this

theorem toLower_not_upper (c : Nat) (h : isAlnum c = true) : isAlnum (toLower c) = true ∧ isUpper (toLower c) = false := by
  unfold toLower
  by_cases hu : isUpper c = true
  · have := (upper_iff c).mp hu
    simp only [hu, if_true]
    constructor
    · rw [alnum_iff]; left; rw [lower_iff]; omega
    · cases hh : isUpper (c + 32) with
      | false => rfl
      | true => have := (upper_iff _).mp hh; omega
  · simp only [hu, Bool.false_eq_true, if_false]
    exact ⟨h, by simp⟩

theorem toLower_id (c : Nat) (h : isUpper c = false) : toLower c = c := by simp [toLower, h]

theorem lowerWord_id (w : List Nat) (h : ∀ c ∈ w, isUpper c = false) : lowerWord w = w := by
  unfold lowerWord
  induction w with
  | nil => rfl
  | cons c w ih =>
    simp only [List.map_cons, toLower_id c (h c (by simp))]
    rw [ih (fun x hx => h x (List.mem_cons_of_mem _ hx))]

theorem map_id_of {α : Type} (f : α → α) : ∀ (l : List α), (∀ a ∈ l, f a = a) → l.map f = l
  | [], _ => rfl
  | a :: l, h => by
    simp only [List.map_cons, h a (by simp)]
    rw [map_id_of f l (fun x hx => h x (List.mem_cons_of_mem _ hx))]

/-- the lower-cased words of any text: non-empty runs of lower-case letters and digits -/
theorem lowered_words (s : List Nat) : ∀ w ∈ (words s).map lowerWord,
    w ≠ [] ∧ ∀ c ∈ w, isAlnum c = true ∧ isUpper c = false := by
  intro w hw
  obtain ⟨v, hv, rfl⟩ := List.mem_map.mp hw
  have := words_alnum s v hv
  constructor
  · simpa [lowerWord] using this.1
  · intro c hc
    obtain ⟨d, hd, rfl⟩ := List.mem_map.mp hc
    exact toLower_not_upper d (this.2 d hd)

/-- a lower-case style is a fixed point: converting the converted text changes nothing -/
theorem lower_style_idempotent (sep : Nat) (hsep : isAlnum sep = false) (s : List Nat) :
    joinWith [sep] ((words (joinWith [sep] ((words s).map lowerWord))).map lowerWord)
      = joinWith [sep] ((words s).map lowerWord) := by
  rw [words_joinWith sep hsep _ (lowered_words s)]
  rw [map_id_of lowerWord _ (fun w hw => lowerWord_id w (fun c hc => (((lowered_words s) w hw).2 c hc).2))]

theorem joinWith_nil : ∀ ws : List (List Nat), joinWith [] ws = ws.flatten
  | [] => rfl
  | [w] => by simp [joinWith]
  | w :: w2 :: ws => by simp [joinWith, joinWith_nil (w2 :: ws)]

theorem toLower_toUpper (c : Nat) : toLower (toUpper c) = toLower c := by
  unfold toLower toUpper
  by_cases hl : isLower c = true
  · have h1 := (lower_iff c).mp hl
    have hu : isUpper (c - 32) = true := by rw [upper_iff]; omega
    have hu2 : isUpper c = false := by
      cases h : isUpper c with
      | false => rfl
      | true => have := (upper_iff c).mp h; omega
    simp only [hl, if_true, hu, hu2, Bool.false_eq_true, if_false]
    omega
  · simp [hl]

theorem toLower_toLower (c : Nat) : toLower (toLower c) = toLower c := by
  unfold toLower
  by_cases hu : isUpper c = true
  · have h1 := (upper_iff c).mp hu
    have : isUpper (c + 32) = false := by
      cases h : isUpper (c + 32) with
      | false => rfl
      | true => have := (upper_iff _).mp h; omega
    simp [hu, this]
  · simp [hu]

theorem capWord_lower (w : List Nat) : (capWord w).map toLower = w.map toLower := by
  cases w with
  | nil => rfl
  | cons c cs => simp [capWord, toLower_toUpper, toLower_toLower]

end Just.Case
