/-
Lemmas about the `--unsorted` key `(import_offsets, name.offset)` of `Just.Listing`.
-/
import Just.Model.Listing
namespace Just.Listing

theorem sliceCmp_refl : ∀ l : List Nat, sliceCmp l l = .eq
  | [] => rfl
  | a :: l => by simp [sliceCmp, sliceCmp_refl l]

theorem sliceCmp_nil_cons (b : Nat) (bs : List Nat) : sliceCmp [] (b :: bs) = .lt := rfl

theorem mem_insertPlaced (r x : Placed) : ∀ l : List Placed, x ∈ insertPlaced r l ↔ x = r ∨ x ∈ l
  | [] => by simp [insertPlaced]
  | y :: ys => by
    unfold insertPlaced
    split
    · simp
    · simp only [List.mem_cons, mem_insertPlaced r x ys]
      constructor
      · rintro (h | h | h)
        · exact Or.inr (Or.inl h)
        · exact Or.inl h
        · exact Or.inr (Or.inr h)
      · rintro (h | h | h)
        · exact Or.inr (Or.inl h)
        · exact Or.inl h
        · exact Or.inr (Or.inr h)

theorem sliceCmp_lt_trans : ∀ (a b c : List Nat), sliceCmp a b = .lt → sliceCmp b c = .lt → sliceCmp a c = .lt
  | [], [], _, h, _ => by simp [sliceCmp] at h
  | [], _ :: _, [], _, h => by simp [sliceCmp] at h
  | [], _ :: _, _ :: _, _, _ => rfl
  | _ :: _, [], _, h, _ => by simp [sliceCmp] at h
  | _ :: _, _ :: _, [], _, h => by simp [sliceCmp] at h
  | x :: xs, y :: ys, z :: zs, h1, h2 => by
    simp only [sliceCmp] at h1 h2 ⊢
    by_cases hxy : x < y
    · by_cases hyz : y < z
      · have : x < z := Nat.lt_trans hxy hyz
        simp [this]
      · simp only [hyz, if_false] at h2
        by_cases hzy : z < y
        · simp [hzy] at h2
        · have : y = z := by omega
          subst this; simp [hxy]
    · simp only [hxy, if_false] at h1
      by_cases hyx : y < x
      · simp [hyx] at h1
      · simp only [hyx, if_false] at h1
        have hxy' : x = y := by omega
        subst hxy'
        by_cases hyz : x < z
        · simp [hyz]
        · simp only [hyz, if_false] at h2 ⊢
          by_cases hzy : z < x
          · simp [hzy] at h2
          · simp only [hzy, if_false] at h2 ⊢
            exact sliceCmp_lt_trans xs ys zs h1 h2

theorem sliceCmp_eq_iff : ∀ (a b : List Nat), sliceCmp a b = .eq ↔ a = b
  | [], [] => by simp [sliceCmp]
  | [], _ :: _ => by simp [sliceCmp]
  | _ :: _, [] => by simp [sliceCmp]
  | x :: xs, y :: ys => by
    simp only [sliceCmp]
    by_cases hxy : x < y
    · simp [hxy]; omega
    · by_cases hyx : y < x
      · simp [hxy, hyx]; omega
      · have : x = y := by omega
        subst this
        simp [sliceCmp_eq_iff xs ys]

theorem placedLt_trans (a b c : Placed) (h1 : placedLt a b = true) (h2 : placedLt b c = true) : placedLt a c = true := by
  unfold placedLt at *
  cases hab : sliceCmp a.imports b.imports with
  | gt => simp [hab] at h1
  | lt =>
    cases hbc : sliceCmp b.imports c.imports with
    | gt => simp [hbc] at h2
    | lt => simp [sliceCmp_lt_trans _ _ _ hab hbc]
    | eq =>
      have := (sliceCmp_eq_iff _ _).mp hbc
      rw [← this, hab]
  | eq =>
    have hab' := (sliceCmp_eq_iff _ _).mp hab
    rw [hab'] 
    cases hbc : sliceCmp b.imports c.imports with
    | gt => simp [hbc] at h2
    | lt => rfl
    | eq =>
      simp only [hab, hbc] at h1 h2 ⊢
      simp only [decide_eq_true_eq] at h1 h2 ⊢
      omega


theorem sliceCmp_swap : ∀ (a b : List Nat), sliceCmp b a = (sliceCmp a b).swap
  | [], [] => rfl
  | [], _ :: _ => rfl
  | _ :: _, [] => rfl
  | x :: xs, y :: ys => by
    simp only [sliceCmp]
    by_cases hxy : x < y
    · have : ¬ y < x := by omega
      simp [hxy, this, Ordering.swap]
    · by_cases hyx : y < x
      · simp [hxy, hyx, Ordering.swap]
      · simp [hxy, hyx, sliceCmp_swap xs ys]

theorem placedLt_asymm (a b : Placed) (h : placedLt a b = true) : placedLt b a = false := by
  unfold placedLt at *
  rw [sliceCmp_swap a.imports b.imports]
  cases hab : sliceCmp a.imports b.imports with
  | gt => simp [hab] at h
  | lt => simp [Ordering.swap]
  | eq =>
    simp only [hab, decide_eq_true_eq] at h
    simp only [Ordering.swap, decide_eq_false_iff_not]
    omega

/-- listed in key order: no later recipe's key is smaller than an earlier one's -/
def InKeyOrder (l : List Placed) : Prop := l.Pairwise (fun a b => placedLt b a = false)

theorem insertPlaced_inKeyOrder (r : Placed) : ∀ l : List Placed, InKeyOrder l → InKeyOrder (insertPlaced r l)
  | [], _ => by simp [insertPlaced, InKeyOrder]
  | x :: xs, h => by
    unfold insertPlaced
    have hx := List.pairwise_cons.mp h
    split
    · rename_i hlt
      refine List.pairwise_cons.mpr ⟨?_, h⟩
      intro y hy
      rcases List.mem_cons.mp hy with rfl | hy
      · exact placedLt_asymm _ _ hlt
      · cases hyr : placedLt y r with
        | false => rfl
        | true =>
          have := placedLt_trans y r x hyr hlt
          rw [hx.1 y hy] at this
          cases this
    · rename_i hnlt
      refine List.pairwise_cons.mpr ⟨?_, insertPlaced_inKeyOrder r xs hx.2⟩
      intro y hy
      rcases (mem_insertPlaced r y xs).mp hy with rfl | hy
      · simpa using hnlt
      · exact hx.1 y hy

theorem unsortedOrder_inKeyOrder : ∀ l : List Placed, InKeyOrder (unsortedOrder l)
  | [] => by simp [unsortedOrder, InKeyOrder]
  | a :: l => by
    have ih := unsortedOrder_inKeyOrder l
    simp only [unsortedOrder, List.foldr_cons] at ih ⊢
    exact insertPlaced_inKeyOrder a _ ih

end Just.Listing
