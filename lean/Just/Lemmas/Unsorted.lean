/-
Lemmas about the `--unsorted` key `(import_offsets, name.offset)` of `Just.Listing`.
-/
import Just.Model.Listing
namespace Just.Listing

theorem sliceCmp_refl : ∀ l : List Nat, sliceCmp l l = .eq
  | [] => rfl
  | a :: l => by simp [sliceCmp, sliceCmp_refl l]

theorem sliceCmp_nil_cons (b : Nat) (bs : List Nat) : sliceCmp [] (b :: bs) = .lt := rfl

theorem mem_insertPlaced (r x : Placed) : ∀ l : List Placed, x ∈ insertPlaced r l ↔ x = r ∨ x ∈ l
  | [] => by simp [insertPlaced]
  | y :: ys => by
    unfold insertPlaced
    split
    · simp
    · simp only [List.mem_cons, mem_insertPlaced r x ys]
      constructor
      · rintro (h | h | h)
        · exact Or.inr (Or.inl h)
        · exact Or.inl h
        · exact Or.inr (Or.inr h)
      · rintro (h | h | h)
        · exact Or.inr (Or.inl h)
        · exact Or.inl h
        · exact Or.inr (Or.inr h)

end Just.Listing
