import Just.Lemmas.SyntaxWF
/-
What the parser returns only calls functions that exist, with a number of arguments they accept: the parser's
`Thunk::resolve` check (`fnOk`) is the analyzer model's `callsOk`.
-/
namespace Just.Syntax
open Just

mutual
theorem callsOk_of_wf : (e : Expr) → WF e → e.callsOk = true
  | .str _, _ => rfl
  | .var _, _ => rfl
  | .backtick _, _ => rfl
  | .call f args, h => by
    simp only [WF] at h
    have h1 : fnOk f args.length = true := h.2.1
    have h2 := callsOkAny_of_wfs args h.2.2
    simp only [Expr.callsOk, h2, Bool.and_true]
    unfold fnOk at h1
    exact h1
  | .concat l r, h => by simp only [WF] at h; simp [Expr.callsOk, callsOk_of_wf l h.2.2.1, callsOk_of_wf r h.2.2.2]
  | .joinL l r, h => by simp only [WF] at h; simp [Expr.callsOk, callsOk_of_wf l h.2.2.1, callsOk_of_wf r h.2.2.2]
  | .joinR r, h => by simp only [WF] at h; simp [Expr.callsOk, callsOk_of_wf r h.2]
  | .and l r, h => by simp only [WF] at h; simp [Expr.callsOk, callsOk_of_wf l h.2.2.1, callsOk_of_wf r h.2.2.2]
  | .or l r, h => by simp only [WF] at h; simp [Expr.callsOk, callsOk_of_wf l h.2.1, callsOk_of_wf r h.2.2]
  | .cond a _ b t e, h => by
    simp only [WF] at h
    simp [Expr.callsOk, callsOk_of_wf a h.1, callsOk_of_wf b h.2.1, callsOk_of_wf t h.2.2.1, callsOk_of_wf e h.2.2.2]
  | .assert a _ b m, h => by
    simp only [WF] at h
    simp [Expr.callsOk, callsOk_of_wf a h.1, callsOk_of_wf b h.2.1, callsOk_of_wf m h.2.2]
  | .group e, h => by simp only [WF] at h; simp [Expr.callsOk, callsOk_of_wf e h]
theorem callsOkAny_of_wfs : (es : Exprs) → WFs es → es.callsOk = true
  | .nil, _ => rfl
  | .cons e es, h => by simp only [WFs] at h; simp [Exprs.callsOk, callsOk_of_wf e h.1, callsOkAny_of_wfs es h.2]
end

/-- every expression the parser returns passes the analyzer model's call check -/
theorem parsed_callsOk (f : Nat) (ts : List Tk) (e : Expr) (r : List Tk) (h : parseExpression f ts = some (e, r)) : e.callsOk = true :=
  callsOk_of_wf e ((parserWF f).expression ts e r h)

end Just.Syntax
