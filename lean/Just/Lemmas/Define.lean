import Just.Model.Define
namespace Just.Define

/-- two definitions may stand in one module: different names, or two recipes under
`allow-duplicate-recipes` -/
def Compatible (allow : Bool) (a b : Def) : Prop :=
  a.name = b.name → allow = true ∧ a.kind = .recipe ∧ b.kind = .recipe

theorem Compatible.symm {allow : Bool} {a b : Def} (h : Compatible allow a b) : Compatible allow b a := by
  intro hn
  have := h hn.symm
  exact ⟨this.1, this.2.2, this.2.1⟩

/-- the table entry of a name is compatible with a later definition -/
def TableOk (allow : Bool) (defs : List (String × DKind)) (ds : List Def) : Prop :=
  ∀ d ∈ ds, ∀ k0, defs.lookup d.name = some k0 → allow = true ∧ k0 = .recipe ∧ d.kind = .recipe

theorem define_isSome (allow : Bool) (defs : List (String × DKind)) (d : Def) :
    (define defs d (allowedFor allow d)).isSome ↔
      (∀ k0, defs.lookup d.name = some k0 → allow = true ∧ k0 = .recipe ∧ d.kind = .recipe) := by
  unfold define
  cases h : defs.lookup d.name with
  | none => simp
  | some k0 =>
    simp only [Option.some.injEq, forall_eq']
    cases hk : d.kind <;> cases k0 <;> simp [allowedFor, hk]

theorem define_result (defs : List (String × DKind)) (d : Def) (a : Bool) (defs' : List (String × DKind))
    (h : define defs d a = some defs') : defs' = (d.name, d.kind) :: defs := by
  unfold define at h
  split at h
  · split at h
    · exact (Option.some.inj h).symm
    · cases h
  · exact (Option.some.inj h).symm

theorem defineAll_isSome (allow : Bool) : ∀ (ds : List Def) (defs : List (String × DKind)),
    (defineAll allow ds defs).isSome ↔ (ds.Pairwise (Compatible allow) ∧ TableOk allow defs ds) := by
  intro ds
  induction ds with
  | nil => intro defs; simp [defineAll, TableOk]
  | cons d ds ih =>
    intro defs
    simp only [defineAll, List.pairwise_cons]
    cases hd : define defs d (allowedFor allow d) with
    | none =>
      have h1 : ¬ (define defs d (allowedFor allow d)).isSome := by simp [hd]
      rw [define_isSome] at h1
      simp only [Option.isSome_none, Bool.false_eq_true, false_iff]
      intro ⟨_, htab⟩
      exact h1 (htab d (by simp))
    | some defs' =>
      have h1 : (define defs d (allowedFor allow d)).isSome := by simp [hd]
      rw [define_isSome] at h1
      have hdefs := define_result defs d _ defs' hd
      subst hdefs
      simp only
      rw [ih]
      constructor
      · intro ⟨hp, htab⟩
        refine ⟨⟨?_, hp⟩, ?_⟩
        · intro b hb hn
          have := htab b hb d.kind (by simp [List.lookup, hn])
          exact ⟨this.1, this.2.1, this.2.2⟩
        · intro b hb k0 hk
          rcases List.mem_cons.mp hb with rfl | hb
          · exact h1 k0 hk
          · by_cases hn : b.name = d.name
            · have := htab b hb d.kind (by simp [List.lookup, hn])
              rw [hn] at hk
              have h2 := h1 k0 hk
              exact ⟨this.1, h2.2.1, this.2.2⟩
            · have hne : (b.name == d.name) = false := by simpa using hn
              exact htab b hb k0 (by simpa [List.lookup, hne] using hk)
      · intro ⟨⟨hhead, hp⟩, htab⟩
        refine ⟨hp, ?_⟩
        intro b hb k0 hk
        by_cases hn : b.name = d.name
        · have hc := hhead b hb hn.symm
          simp only [List.lookup, hn, beq_self_eq_true] at hk
          have : k0 = d.kind := (Option.some.inj hk).symm
          subst this
          exact ⟨hc.1, hc.2.1, hc.2.2⟩
        · have hne : (b.name == d.name) = false := by simpa using hn
          exact htab b (List.mem_cons_of_mem _ hb) k0 (by simpa [List.lookup, hne] using hk)

theorem order_perm (items : List Def) : (order items).Perm items := by
  unfold order
  have := List.filter_append_perm isRecipe items
  exact (List.perm_append_comm).trans this

theorem hasDup_iff : ∀ (xs : List String), hasDup xs = false ↔ xs.Nodup := by
  intro xs
  induction xs with
  | nil => simp [hasDup]
  | cons x xs ih => simp [hasDup, ih, List.nodup_cons]

end Just.Define
