import Just.Model.Eval
/-
Every assignment is evaluated at most once (`evaluate_assignment` binds the value, and a bound
name is never evaluated again), for assignment tables whose references are acyclic - which is what
the assignment resolver guarantees (C03).
-/
namespace Just.Eval
open Just

/-- the names whose expression started evaluating, in order -/
def logged (log : List Ev) : List String :=
  log.filterMap (fun ev => match ev with | .evalAssign n => some n | _ => none)

def bound (st : St) (n : String) : Prop := (lookupScope st n).isSome = true

@[simp] theorem logged_append (a b : List Ev) : logged (a ++ b) = logged a ++ logged b := by
  simp [logged, List.filterMap_append]

@[simp] theorem logged_bt (c : String) : logged [Ev.bt c] = [] := rfl
@[simp] theorem logged_ev (n : String) : logged [Ev.evalAssign n] = [n] := rfl

variable (rank : String → Nat)

/-- what holds before a step evaluated under the (exclusive) rank bound `R` -/
structure Pre (R : Nat) (st : St) : Prop where
  nodup : (logged st.log).Nodup
  old : ∀ n ∈ logged st.log, bound st n ∨ R ≤ rank n

/-- a successful step: new names are below `R` and bound afterwards, nothing is unbound, no repeats -/
structure Ext (R : Nat) (st st' : St) : Prop where
  new : ∃ new, logged st'.log = logged st.log ++ new ∧ ∀ n ∈ new, rank n < R ∧ bound st' n
  mono : ∀ n, bound st n → bound st' n
  nodup : (logged st'.log).Nodup

/-- outcome of a step: success extends the state as above; a failure only keeps "no repeats" -/
def Post {α : Type} (R : Nat) (st : St) (r : Res α) : Prop :=
  match r.2 with
  | .ok _ => Ext rank R st r.1
  | .error _ => (logged r.1.log).Nodup

theorem Ext.refl {R : Nat} {st : St} (h : (logged st.log).Nodup) : Ext rank R st st :=
  ⟨⟨[], by simp, by simp⟩, fun _ h => h, h⟩

theorem Ext.trans {R : Nat} {st st1 st2 : St} (h1 : Ext rank R st st1) (h2 : Ext rank R st1 st2) : Ext rank R st st2 := by
  obtain ⟨n1, e1, p1⟩ := h1.new
  obtain ⟨n2, e2, p2⟩ := h2.new
  refine ⟨⟨n1 ++ n2, by rw [e2, e1, List.append_assoc], ?_⟩, fun n h => h2.mono n (h1.mono n h), h2.nodup⟩
  intro n hn
  rcases List.mem_append.mp hn with h | h
  · exact ⟨(p1 n h).1, h2.mono n (p1 n h).2⟩
  · exact p2 n h

theorem Ext.pre {R : Nat} {st st' : St} (hp : Pre rank R st) (h : Ext rank R st st') : Pre rank R st' := by
  obtain ⟨new, e, p⟩ := h.new
  refine ⟨h.nodup, ?_⟩
  intro n hn
  rw [e] at hn
  rcases List.mem_append.mp hn with h' | h'
  · rcases hp.old n h' with hb | hr
    · exact Or.inl (h.mono n hb)
    · exact Or.inr hr
  · exact Or.inl (p n h').2

/-- a lower bound is implied by a higher one -/
theorem Ext.weaken {R R' : Nat} {st st' : St} (h : Ext rank R' st st') (hle : R' ≤ R) : Ext rank R st st' := by
  obtain ⟨new, e, p⟩ := h.new
  exact ⟨⟨new, e, fun n hn => ⟨Nat.lt_of_lt_of_le (p n hn).1 hle, (p n hn).2⟩⟩, h.mono, h.nodup⟩

/-- appending a backtick event changes nothing that matters -/
theorem Ext.bt {R : Nat} {st : St} (c : String) (h : (logged st.log).Nodup) :
    Ext rank R st { st with log := st.log ++ [.bt c] } := by
  refine ⟨⟨[], by simp, by simp⟩, fun _ hb => hb, by simpa using h⟩

/-- sequencing: a successful step followed by any step -/
theorem Post.seq {α : Type} {R : Nat} {st st1 : St} {r : Res α} (h1 : Ext rank R st st1) (h2 : Post rank R st1 r) :
    Post rank R st r := by
  unfold Post at h2 ⊢
  cases hr : r.2 with
  | ok v => rw [hr] at h2; exact h1.trans rank h2
  | error e => rw [hr] at h2; exact h2


@[simp] theorem post_ok {α : Type} (R : Nat) (st st1 : St) (v : α) :
    Post rank R st ((st1, .ok v) : Res α) ↔ Ext rank R st st1 := Iff.rfl

@[simp] theorem post_err {α : Type} (R : Nat) (st st1 : St) (e : Err) :
    Post rank R st ((st1, .error e) : Res α) ↔ (logged st1.log).Nodup := Iff.rfl

/-- the references of the table are acyclic: a name ranks above every assigned name its expression mentions -/
def Ranked (as : List (String × Expr)) : Prop :=
  ∀ x e, as.lookup x = some e → ∀ y ∈ e.vars, (as.lookup y).isSome = true → rank y < rank x

/-- every variable of `vs` that names an assignment ranks below `R` -/
def Below (as : List (String × Expr)) (R : Nat) (vs : List String) : Prop :=
  ∀ y ∈ vs, (as.lookup y).isSome = true → rank y < R

theorem Below.left {as : List (String × Expr)} {R : Nat} {a b : List String} (h : Below rank as R (a ++ b)) : Below rank as R a :=
  fun y hy => h y (List.mem_append.mpr (Or.inl hy))

theorem Below.right {as : List (String × Expr)} {R : Nat} {a b : List String} (h : Below rank as R (a ++ b)) : Below rank as R b :=
  fun y hy => h y (List.mem_append.mpr (Or.inr hy))

/-- statements proved together by induction on the fuel -/
structure OnceAt (ctx : Ctx) (as : List (String × Expr)) (fuel : Nat) : Prop where
  expr : ∀ e st R, Pre rank R st → Below rank as R e.vars → Post rank R st (evalExpr ctx (some as) fuel e st)
  exprs : ∀ es st R, Pre rank R st → Below rank as R es.vars → Post rank R st (evalExprs ctx (some as) fuel es st)
  assignment : ∀ x e st R, Pre rank R st → as.lookup x = some e → rank x < R →
    Post rank R st (evalAssignment ctx (some as) fuel x e st)

theorem onceAt_zero (ctx : Ctx) (as : List (String × Expr)) : OnceAt rank ctx as 0 := by
  constructor
  · intro e st R hp _; simp [evalExpr]; exact hp.nodup
  · intro es st R hp _; simp [evalExprs]; exact hp.nodup
  · intro x e st R hp _ _; simp [evalAssignment]; exact hp.nodup

/-- run a sub-evaluation and continue: the shape of every sequential case -/
theorem bindE {α β : Type} {R : Nat} {st : St} {r : Res α} {out : Res β}
    (h1 : Post rank R st r)
    (herr : ∀ st1 e, r = (st1, .error e) → out = (st1, .error e))
    (hok : ∀ st1 a, r = (st1, .ok a) → Ext rank R st st1 → Post rank R st1 out) :
    Post rank R st out := by
  obtain ⟨st1, res⟩ := r
  cases res with
  | error e => rw [herr st1 e rfl]; exact h1
  | ok a => exact Post.seq rank h1 (hok st1 a rfl h1)


theorem bound_cons (st : St) (x v n : String) (h : bound st n) : bound { st with scope := (x, v) :: st.scope } n := by
  unfold bound lookupScope at h ⊢
  simp only [List.lookup]
  split
  · rfl
  · exact h

theorem bound_head (st : St) (x v : String) : bound { st with scope := (x, v) :: st.scope } x := by
  unfold bound lookupScope
  simp [List.lookup]

theorem onceAt_succ (ctx : Ctx) (as : List (String × Expr)) (hr : Ranked rank as) (fuel : Nat)
    (ih : OnceAt rank ctx as fuel) : OnceAt rank ctx as (fuel + 1) := by
  -- the assignment case first: the variable case of expressions needs it at `fuel` only (through `ih`)
  have hassign : ∀ x e st R, Pre rank R st → as.lookup x = some e → rank x < R →
      Post rank R st (evalAssignment ctx (some as) (fuel + 1) x e st) := by
    intro x e st R hp hx hxr
    simp only [evalAssignment]
    cases hl : lookupScope st x with
    | some v => simp only; exact Ext.refl rank hp.nodup
    | none =>
      simp only
      have hnot : x ∉ logged st.log := by
        intro hmem
        rcases hp.old x hmem with hb | hR
        · unfold bound at hb; rw [hl] at hb; cases hb
        · omega
      have hp0 : Pre rank (rank x) { st with log := st.log ++ [.evalAssign x] } := by
        refine ⟨?_, ?_⟩
        · simp only [logged_append, logged_ev]
          exact List.nodup_append.mpr ⟨hp.nodup, by simp, by
            intro a ha b hb
            simp only [List.mem_singleton] at hb
            subst hb
            intro e; subst e; exact hnot ha⟩
        · intro n hn
          simp only [logged_append, logged_ev, List.mem_append, List.mem_singleton] at hn
          rcases hn with hn | rfl
          · rcases hp.old n hn with hb | hR
            · exact Or.inl hb
            · exact Or.inr (by omega)
          · exact Or.inr (Nat.le_refl _)
      have hb0 : Below rank as (rank x) e.vars := fun y hy hk => hr x e hx y hy hk
      have h1 := ih.expr e _ (rank x) hp0 hb0
      cases hres : evalExpr ctx (some as) fuel e { st with log := st.log ++ [.evalAssign x] } with
      | mk st1 res =>
        rw [hres] at h1
        cases res with
        | error er => simp only; exact h1
        | ok v =>
          simp only
          have hx1 : Ext rank (rank x) { st with log := st.log ++ [.evalAssign x] } st1 := h1
          obtain ⟨new', e', p'⟩ := hx1.new
          refine ⟨⟨x :: new', ?_, ?_⟩, ?_, ?_⟩
          · show logged st1.log = logged st.log ++ x :: new'
            rw [e']; simp
          · intro n hn
            rcases List.mem_cons.mp hn with rfl | hn
            · exact ⟨hxr, bound_head st1 _ v⟩
            · exact ⟨by have := (p' n hn).1; omega, bound_cons st1 x v n (p' n hn).2⟩
          · intro n hb
            exact bound_cons st1 x v n (hx1.mono n hb)
          · exact hx1.nodup
  refine ⟨?_, ?_, hassign⟩
  · -- expressions
    intro e st R hp hb
    cases e with
    | str s => simp only [evalExpr]; exact Ext.refl rank hp.nodup
    | var x =>
      have hbx : (as.lookup x).isSome = true → rank x < R := fun h => hb x (by simp [Expr.vars]) h
      simp only [evalExpr]
      cases hl : lookupScope st x with
      | some v => simp only; exact Ext.refl rank hp.nodup
      | none =>
        simp only
        cases hpend : as.lookup x with
        | none =>
          simp only
          split
          · split
            · exact Ext.refl rank hp.nodup
            · exact hp.nodup
          · split
            · exact Ext.refl rank hp.nodup
            · exact hp.nodup
        | some e' =>
          simp only
          have hA := ih.assignment x e' st R hp hpend (hbx (by simp [hpend]))
          split
          · exact hA
          · split
            · exact Ext.refl rank hp.nodup
            · exact hA
    | backtick c =>
      simp only [evalExpr]
      split
      · exact Ext.refl rank hp.nodup
      · split
        · exact Ext.bt rank c hp.nodup
        · show (logged (st.log ++ [Ev.bt c])).Nodup
          simpa using hp.nodup
    | call fn args =>
      simp only [evalExpr]
      apply bindE rank (ih.exprs args st R hp (by simpa [Expr.vars] using hb))
      · intro st1 e h; simp only [h]
      · intro st1 vs h hx
        simp only [h]
        split
        · split
          · split
            · exact Ext.bt rank _ hx.nodup
            · show (logged (st1.log ++ [Ev.bt _])).Nodup
              simpa using hx.nodup
          · exact hx.nodup
        · split
          · exact Ext.refl rank hx.nodup
          · exact hx.nodup
          · exact hx.nodup
    | concat l r =>
      have hb' : Below rank as R (l.vars ++ r.vars) := by simpa [Expr.vars] using hb
      simp only [evalExpr]
      apply bindE rank (ih.expr l st R hp (hb'.left rank))
      · intro st1 e h; simp only [h]
      · intro st1 a h hx
        simp only [h]
        apply bindE rank (ih.expr r st1 R (hx.pre rank hp) (hb'.right rank))
        · intro st2 e h2; simp only [h2]
        · intro st2 b h2 hx2; simp only [h2]; exact Ext.refl rank hx2.nodup
    | joinL l r =>
      have hb' : Below rank as R (l.vars ++ r.vars) := by simpa [Expr.vars] using hb
      simp only [evalExpr]
      apply bindE rank (ih.expr l st R hp (hb'.left rank))
      · intro st1 e h; simp only [h]
      · intro st1 a h hx
        simp only [h]
        apply bindE rank (ih.expr r st1 R (hx.pre rank hp) (hb'.right rank))
        · intro st2 e h2; simp only [h2]
        · intro st2 b h2 hx2; simp only [h2]; exact Ext.refl rank hx2.nodup
    | joinR r =>
      simp only [evalExpr]
      apply bindE rank (ih.expr r st R hp (by simpa [Expr.vars] using hb))
      · intro st1 e h; simp only [h]
      · intro st1 a h hx; simp only [h]; exact Ext.refl rank hx.nodup
    | and l r =>
      have hb' : Below rank as R (l.vars ++ r.vars) := by simpa [Expr.vars] using hb
      simp only [evalExpr]
      apply bindE rank (ih.expr l st R hp (hb'.left rank))
      · intro st1 e h; simp only [h]
      · intro st1 a h hx
        simp only [h]
        split
        · exact Ext.refl rank hx.nodup
        · exact ih.expr r st1 R (hx.pre rank hp) (hb'.right rank)
    | or l r =>
      have hb' : Below rank as R (l.vars ++ r.vars) := by simpa [Expr.vars] using hb
      simp only [evalExpr]
      apply bindE rank (ih.expr l st R hp (hb'.left rank))
      · intro st1 e h; simp only [h]
      · intro st1 a h hx
        simp only [h]
        split
        · exact Ext.refl rank hx.nodup
        · exact ih.expr r st1 R (hx.pre rank hp) (hb'.right rank)
    | cond a op b t e =>
      have hb' : Below rank as R (a.vars ++ (b.vars ++ (t.vars ++ e.vars))) := by simpa [Expr.vars, List.append_assoc] using hb
      simp only [evalExpr]
      apply bindE rank (ih.expr a st R hp (hb'.left rank))
      · intro st1 er h; simp only [h]
      · intro st1 va h hx
        simp only [h]
        have hp1 := hx.pre rank hp
        apply bindE rank (ih.expr b st1 R hp1 ((hb'.right rank).left rank))
        · intro st2 er h2; simp only [h2]
        · intro st2 vb h2 hx2
          simp only [h2]
          have hp2 := hx2.pre rank hp1
          split
          · exact ih.expr t st2 R hp2 (((hb'.right rank).right rank).left rank)
          · exact ih.expr e st2 R hp2 (((hb'.right rank).right rank).right rank)
    | assert a op b m =>
      have hb' : Below rank as R (a.vars ++ (b.vars ++ m.vars)) := by simpa [Expr.vars, List.append_assoc] using hb
      simp only [evalExpr]
      apply bindE rank (ih.expr a st R hp (hb'.left rank))
      · intro st1 er h; simp only [h]
      · intro st1 va h hx
        simp only [h]
        have hp1 := hx.pre rank hp
        apply bindE rank (ih.expr b st1 R hp1 ((hb'.right rank).left rank))
        · intro st2 er h2; simp only [h2]
        · intro st2 vb h2 hx2
          simp only [h2]
          have hp2 := hx2.pre rank hp1
          split
          · exact Ext.refl rank hx2.nodup
          · apply bindE rank (ih.expr m st2 R hp2 ((hb'.right rank).right rank))
            · intro st3 er h3; simp only [h3]
            · intro st3 msg h3 hx3; simp only [h3]; exact hx3.nodup
    | group e =>
      simp only [evalExpr]
      exact ih.expr e st R hp (by simpa [Expr.vars] using hb)
  · -- expression lists
    intro es st R hp hb
    cases es with
    | nil => simp only [evalExprs]; exact Ext.refl rank hp.nodup
    | cons e es =>
      have hb' : Below rank as R (e.vars ++ es.vars) := by simpa [Exprs.vars] using hb
      simp only [evalExprs]
      apply bindE rank (ih.expr e st R hp (hb'.left rank))
      · intro st1 er h; simp only [h]
      · intro st1 v h hx
        simp only [h]
        apply bindE rank (ih.exprs es st1 R (hx.pre rank hp) (hb'.right rank))
        · intro st2 er h2; simp only [h2]
        · intro st2 vs h2 hx2; simp only [h2]; exact Ext.refl rank hx2.nodup

theorem onceAt (ctx : Ctx) (as : List (String × Expr)) (hr : Ranked rank as) (fuel : Nat) : OnceAt rank ctx as fuel := by
  induction fuel with
  | zero => exact onceAt_zero rank ctx as
  | succ n ih => exact onceAt_succ rank ctx as hr n ih

theorem evalAll_once (ctx : Ctx) (as : List (String × Expr)) (hr : Ranked rank as) (fuel : Nat) (R : Nat)
    (hR : ∀ x e, as.lookup x = some e → rank x < R) (rest : List (String × Expr))
    (hrest : ∀ p ∈ rest, as.lookup p.1 = some p.2) (st : St) (hp : Pre rank R st) :
    Post rank R st (evalAll ctx as fuel rest st) := by
  induction rest generalizing st with
  | nil => simp only [evalAll]; exact Ext.refl rank hp.nodup
  | cons p rest ih =>
    obtain ⟨n, e⟩ := p
    have hne : as.lookup n = some e := hrest (n, e) (by simp)
    simp only [evalAll]
    apply bindE rank ((onceAt rank ctx as hr fuel).assignment n e st R hp hne (hR n e hne))
    · intro st1 er h; simp only [h]
    · intro st1 v h hx
      simp only [h]
      exact ih (fun p hp' => hrest p (by simp [hp'])) st1 (hx.pre rank hp)

end Just.Eval
