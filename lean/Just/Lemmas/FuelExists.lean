import Just.Lemmas.Ast
/-
Every fuel bound of the round-trip theorems is met by all sufficiently large amounts of fuel.
-/
namespace Just.Ast
open Just Just.Syntax Just.Header Just.Items

/-- `P` holds for every sufficiently large amount -/
def Ev (P : Nat → Prop) : Prop := ∃ F0, ∀ F, F0 ≤ F → P F

theorem Ev.and {P Q : Nat → Prop} (hp : Ev P) (hq : Ev Q) : Ev (fun F => P F ∧ Q F) := by
  obtain ⟨a, ha⟩ := hp
  obtain ⟨b, hb⟩ := hq
  exact ⟨a + b, fun F hF => ⟨ha F (by omega), hb F (by omega)⟩⟩

theorem Ev.le (n : Nat) : Ev (fun F => n ≤ F) := ⟨n, fun _ h => h⟩
theorem Ev.lt (n : Nat) : Ev (fun F => n < F) := ⟨n + 1, fun _ h => by omega⟩
theorem Ev.true : Ev (fun _ => True) := ⟨0, fun _ _ => trivial⟩

theorem Ev.mono {P Q : Nat → Prop} (h : ∀ F, P F → Q F) (hp : Ev P) : Ev Q := by
  obtain ⟨a, ha⟩ := hp
  exact ⟨a, fun F hF => h F (ha F hF)⟩

theorem Ev.forall_mem {α : Type} (P : Nat → α → Prop) (l : List α) (h : ∀ a ∈ l, Ev (fun F => P F a)) : Ev (fun F => ∀ a ∈ l, P F a) := by
  induction l with
  | nil => exact ⟨0, fun _ _ a ha => absurd ha (by simp)⟩
  | cons x xs ih =>
    have h1 := h x (by simp)
    have h2 := ih (fun a ha => h a (by simp [ha]))
    refine (h1.and h2).mono ?_
    intro F ⟨hx, hxs⟩ a ha
    simp only [List.mem_cons] at ha
    rcases ha with rfl | ha
    · exact hx
    · exact hxs a ha

theorem Ev.forall_opt {α : Type} (P : Nat → α → Prop) (o : Option α) (h : ∀ a, o = some a → Ev (fun F => P F a)) :
    Ev (fun F => ∀ a, o = some a → P F a) := by
  cases o with
  | none => exact ⟨0, fun _ _ a ha => by cases ha⟩
  | some x => exact (h x rfl).mono (fun F hx a ha => by cases ha; exact hx)

theorem ev_depFuel (d : Dep) : Ev (fun F => DepFuel F F d) := by
  have h1 : Ev (fun F => ∀ e ∈ d.args, 4 * e.size + 3 ≤ F) := Ev.forall_mem _ _ (fun e _ => Ev.le _)
  exact (h1.and (Ev.lt d.args.length)).mono (fun F ⟨a, b⟩ => ⟨a, b⟩)

theorem ev_headerFuel (h : Header) : Ev (fun F => HeaderFuel F h) := by
  have h1 := Ev.lt h.params.length
  have h2 : Ev (fun F => ∀ p ∈ h.params, ∀ d, p.default = some d → 4 * d.size ≤ F) :=
    Ev.forall_mem _ _ (fun p _ => Ev.forall_opt _ _ (fun d _ => Ev.le _))
  have h3 : Ev (fun F => ∀ v, h.variadic = some v → ∀ d, v.default = some d → 4 * d.size ≤ F) :=
    Ev.forall_opt _ _ (fun v _ => Ev.forall_opt _ _ (fun d _ => Ev.le _))
  have h4 := Ev.lt h.priors.length
  have h5 : Ev (fun F => ∀ d ∈ h.priors, DepFuel F F d) := Ev.forall_mem _ _ (fun d _ => ev_depFuel d)
  have h6 := Ev.lt h.subsequents.length
  have h7 : Ev (fun F => ∀ d ∈ h.subsequents, DepFuel F F d) := Ev.forall_mem _ _ (fun d _ => ev_depFuel d)
  exact ((((((h1.and h2).and h3).and h4).and h5).and h6).and h7).mono
    (fun F ⟨⟨⟨⟨⟨⟨a, b⟩, c⟩, d⟩, e⟩, f⟩, g⟩ => ⟨a, b, c, d, e, f, g⟩)

theorem ev_bodyFuel (ls : List BLine) : Ev (fun F => BodyFuel F ls) := by
  have h1 : Ev (fun F => ∀ l ∈ ls, ∀ f ∈ l, fragFuel F f) :=
    Ev.forall_mem _ _ (fun l _ => Ev.forall_mem _ _ (fun f _ => by
      cases f with
      | text s => exact Ev.true
      | interp e => exact Ev.le _))
  have h2 : Ev (fun F => ∀ l ∈ ls, l.length < F) := Ev.forall_mem _ _ (fun l _ => Ev.lt _)
  exact ((h1.and h2).and (Ev.lt ls.length)).mono (fun F ⟨⟨a, b⟩, c⟩ => ⟨a, b, c⟩)

theorem ev_itemFuel (it : Item) : Ev (fun F => ItemFuel F it) := by
  cases it with
  | alias p a => exact Ev.lt _
  | assignment p a => exact Ev.le _
  | comment c => exact Ev.true
  | «import» o p => exact Ev.true
  | module o n p d as => exact Ev.true
  | «set» s =>
    cases hv : s.value with
    | flag b => exact ⟨0, fun F _ c as h => by simp [ItemFuel, hv] at h⟩
    | lit l => exact ⟨0, fun F _ c as h => by simp [ItemFuel, hv] at h⟩
    | interp c as => exact ⟨as.length + 1, fun F hF c' as' h => by simp only [hv, SetVal.interp.injEq] at h; obtain ⟨_, rfl⟩ := h; exact hF⟩
  | unexport n => exact Ev.true
  | recipe doc attrs r =>
    have h1 : Ev (fun F => ∀ a ∈ attrs, a.args.length ≤ F) := Ev.forall_mem _ _ (fun a _ => Ev.le _)
    have h2 := Ev.lt attrs.length
    have h3 : Ev (fun F => RecipeFuel F r) := ((ev_headerFuel r.header).and (ev_bodyFuel r.body)).mono (fun F ⟨a, b⟩ => ⟨a, b⟩)
    have h4 := Ev.lt (r.body.length + 1)
    exact (((h1.and h2).and h3).and h4).mono (fun F ⟨⟨⟨a, b⟩, c⟩, d⟩ => ⟨a, b, c, d⟩)

/-- all the fuel bounds of `file_roundtrip` hold from some amount on -/
theorem ev_fileFuel (items : List Item) : Ev (fun F => (∀ it ∈ items, ItemFuel (F + 2) it) ∧ 3 * items.length ≤ F) := by
  have h1 : Ev (fun F => ∀ it ∈ items, ItemFuel F it) := Ev.forall_mem _ _ (fun it _ => ev_itemFuel it)
  obtain ⟨a, ha⟩ := h1
  exact ⟨a + 3 * items.length, fun F hF => ⟨ha (F + 2) (by omega), by omega⟩⟩

end Just.Ast
