/-
Discovery and fallback look at nothing but the candidate names of a directory (`Just.Search`).
-/
import Just.Model.Search
namespace Just.Search


/-- two chains of directories that differ only in entries that are no justfile candidates -/
def sameCand : List Level → List Level → Prop
  | [], [] => True
  | d :: ds, e :: es =>
    (d.entries.filter isCandidate = e.entries.filter isCandidate ∧ d.knows = e.knows ∧ d.fallback = e.fallback) ∧ sameCand ds es
  | _, _ => False

theorem sameCand_length : ∀ (ds es : List Level), sameCand ds es → ds.length = es.length
  | [], [], _ => rfl
  | _ :: ds, _ :: es, h => by simp [sameCand_length ds es h.2]
  | [], _ :: _, h => by cases h
  | _ :: _, [], h => by cases h

theorem sameCand_drop : ∀ (n : Nat) (ds es : List Level), sameCand ds es → sameCand (ds.drop n) (es.drop n)
  | 0, _, _, h => by simpa using h
  | n + 1, [], [], _ => by simp [sameCand]
  | n + 1, _ :: ds, _ :: es, h => by simpa using sameCand_drop n ds es h.2
  | _ + 1, [], _ :: _, h => by cases h
  | _ + 1, _ :: _, [], h => by cases h

theorem search_same : ∀ (ds es : List Level) (i : Nat), sameCand ds es → search ds i = search es i
  | [], [], _, _ => rfl
  | d :: ds, e :: es, i, h => by
    unfold search
    rw [h.1.1]
    split
    · exact search_same ds es (i + 1) h.2
    · rfl
    · rfl
  | [], _ :: _, _, h => by cases h
  | _ :: _, [], _, h => by cases h

theorem climb_same (searching : Bool) : ∀ (fuel : Nat) (ds es : List Level) (level : Nat) (name : String),
    sameCand ds es → climb searching fuel ds level name = climb searching fuel es level name
  | 0, _, _, _, _, _ => by simp [climb]
  | _ + 1, [], [], _, _, _ => by simp [climb]
  | fuel + 1, d :: above, e :: above', level, name, h => by
    unfold climb
    rw [h.1.2.1, h.1.2.2, search_same above above' (level + 1) h.2]
    split
    · rfl
    · split
      · split
        · rename_i l n _
          exact climb_same searching fuel _ _ l n (sameCand_drop _ above above' h.2)
        · rfl
      · rfl
  | _ + 1, [], _ :: _, _, _, h => by cases h
  | _ + 1, _ :: _, [], _, _, h => by cases h

end Just.Search
