import Just.Model.Words
namespace Just.Words

theorem isIdentContinue_ne_eq (c : Char) (h : isIdentContinue c = true) : c ≠ '=' := by
  intro e; subst e; simp [isIdentContinue, isIdentStart] at h

theorem isIdentStart_ne_eq (c : Char) (h : isIdentStart c = true) : c ≠ '=' := by
  intro e; subst e; simp [isIdentStart] at h

theorem splitFirstEq_append (n v : List Char) (h : '=' ∉ n) : splitFirstEq (n ++ '=' :: v) = some (n, v) := by
  induction n with
  | nil => simp [splitFirstEq]
  | cons c cs ih =>
    have hc : c ≠ '=' := fun e => h (by simp [e])
    have hcs : '=' ∉ cs := fun m => h (List.mem_cons_of_mem _ m)
    simp [splitFirstEq, hc, ih hcs]

theorem ident_no_eq : ∀ (n : List Char), isIdentifier n = true → '=' ∉ n
  | [], h => by simp [isIdentifier] at h
  | c :: cs, h => by
    simp only [isIdentifier, Bool.and_eq_true, List.all_eq_true] at h
    intro hm
    rcases List.mem_cons.mp hm with e | hm
    · exact isIdentStart_ne_eq c h.1 e.symm
    · exact isIdentContinue_ne_eq _ (h.2 _ hm) rfl

end Just.Words
