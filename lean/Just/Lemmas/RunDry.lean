import Just.Lemmas.RunSpec
/-
What `--dry-run` prints is what a real run executes: for recipes without backticks and children that all
succeed, the lines printed by the dry run, one after the other, are the texts of the commands and scripts
the real run starts, in the same order.
-/
namespace Just.Run

/-- what a dry run shows: every echoed line, each with its line end -/
def dryText : List Ev → String
  | [] => ""
  | .echo t :: es => t ++ "\n" ++ dryText es
  | _ :: es => dryText es

/-- what a real run executes: every command line with its line end, every script as written to its file -/
def realText : List Ev → String
  | [] => ""
  | .spawn _ _ c :: es => c ++ "\n" ++ realText es
  | .script _ _ t :: es => t ++ realText es
  | _ :: es => realText es

@[simp] theorem dryText_nil : dryText [] = "" := rfl
@[simp] theorem realText_nil : realText [] = "" := rfl

@[simp] theorem dryText_append (a b : List Ev) : dryText (a ++ b) = dryText a ++ dryText b := by
  induction a with
  | nil => simp
  | cons e es ih => cases e <;> simp [dryText, ih, String.append_assoc]

@[simp] theorem realText_append (a b : List Ev) : realText (a ++ b) = realText a ++ realText b := by
  induction a with
  | nil => simp
  | cons e es ih => cases e <;> simp [realText, ih, String.append_assoc]

@[simp] theorem countPrompts_append' (a b : List Ev) : countPrompts (a ++ b) = countPrompts a + countPrompts b := by
  induction a with
  | nil => simp [countPrompts]
  | cons e es ih => cases e <;> simp [countPrompts, ih] <;> omega

theorem dryText_map_echo (ls : List String) : dryText (ls.map Ev.echo) = joinLines ls := by
  induction ls with
  | nil => rfl
  | cons l ls ih => simp [dryText, joinLines, ih]

def AExpr.btFree : AExpr → Bool
  | .lit _ => true
  | .param _ => true
  | .cat a b => a.btFree && b.btFree
  | .bt _ => false

/-- no backtick in any default, dependency argument or line of the recipe -/
structure Recipe.BtFree (r : Recipe) : Prop where
  params : ∀ d, some d ∈ r.params → d.btFree = true
  priors : ∀ d ∈ r.priors, ∀ a ∈ d.args, a.btFree = true
  subs : ∀ d ∈ r.subs, ∀ a ∈ d.args, a.btFree = true
  body : ∀ l ∈ r.body, ∀ a ∈ l.frags, a.btFree = true

/-- the two configurations of the comparison: the same command line with and without `--dry-run` -/
structure DryOf (cfgR cfgD : Cfg) : Prop where
  dryD : cfgD.dryRun = true
  dryR : cfgR.dryRun = false
  yes : cfgD.yes = cfgR.yes
  noDeps : cfgD.noDeps = cfgR.noDeps
  quietD : cfgD.quiet = false      -- `--dry-run` and `--quiet` exclude each other on the command line

/-- same outcome; the dry run's echoes are the real run's commands; the same confirmations were asked -/
def Rel2 {α : Type} (d r : Res α) : Prop := d.2 = r.2 ∧ dryText d.1 = realText r.1 ∧ countPrompts d.1 = countPrompts r.1

theorem Rel2.cases {α : Type} {d r : Res α} (h : Rel2 d r) :
    ∃ ed er res, d = (ed, res) ∧ r = (er, res) ∧ dryText ed = realText er ∧ countPrompts ed = countPrompts er := by
  obtain ⟨ed, rd⟩ := d
  obtain ⟨er, rr⟩ := r
  obtain ⟨h1, h2, h3⟩ := h
  simp only at h1 h2 h3
  subst h1
  exact ⟨ed, er, rd, rfl, rfl, h2, h3⟩

theorem Rel2.silent {α : Type} (x : Except Err α) : Rel2 (([] : List Ev), x) ([], x) := ⟨rfl, rfl, rfl⟩

/-- without backticks evaluation emits nothing and does not depend on the configuration -/
theorem evalA_btFree (_cfg : Cfg) (env : Env) (ps : Args) (a : AExpr) (ha : a.btFree = true) :
    ∃ x, ∀ cfg', evalA cfg' env ps a = ([], x) := by
  induction a with
  | lit s => exact ⟨.ok s, fun _ => rfl⟩
  | param i =>
    cases hi : ps[i]? with
    | some v => exact ⟨.ok v, fun _ => by simp only [evalA, hi]⟩
    | none => exact ⟨.error .internal, fun _ => by simp only [evalA, hi]⟩
  | cat a b iha ihb =>
    simp only [AExpr.btFree, Bool.and_eq_true] at ha
    obtain ⟨xa, hxa⟩ := iha ha.1
    obtain ⟨xb, hxb⟩ := ihb ha.2
    cases xa with
    | error e => exact ⟨.error e, fun c => by simp only [evalA, hxa c]⟩
    | ok va =>
      cases xb with
      | error e => exact ⟨.error e, fun c => by simp only [evalA, hxa c, hxb c, List.append_nil]⟩
      | ok vb => exact ⟨.ok (va ++ vb), fun c => by simp only [evalA, hxa c, hxb c, List.append_nil]⟩
  | bt c => simp [AExpr.btFree] at ha

theorem evalList_btFree (_cfg : Cfg) (env : Env) (ps : Args) (as : List AExpr) (ha : ∀ a ∈ as, a.btFree = true) :
    ∃ x, ∀ cfg', evalList cfg' env ps as = ([], x) := by
  induction as with
  | nil => exact ⟨.ok [], fun _ => rfl⟩
  | cons a as ih =>
    obtain ⟨xa, hxa⟩ := evalA_btFree _cfg env ps a (ha a (by simp))
    obtain ⟨xs, hxs⟩ := ih (fun b hb => ha b (by simp [hb]))
    cases xa with
    | error e => exact ⟨.error e, fun c => by simp only [evalList, hxa c]⟩
    | ok v =>
      cases xs with
      | error e => exact ⟨.error e, fun c => by simp only [evalList, hxa c, hxs c, List.append_nil]⟩
      | ok vs => exact ⟨.ok (v :: vs), fun c => by simp only [evalList, hxa c, hxs c, List.append_nil]⟩

theorem bindParams_btFree (_cfg : Cfg) (env : Env) (params : List (Option AExpr)) (hp : ∀ d, some d ∈ params → d.btFree = true) :
    ∀ ws bound, ∃ x, ∀ cfg', bindParams cfg' env params ws bound = ([], x) := by
  induction params with
  | nil => intro ws bound; exact ⟨.ok bound, fun _ => rfl⟩
  | cons p ps ih =>
    intro ws bound
    have ih' := ih (fun d hd => hp d (by simp [hd]))
    cases ws with
    | cons w ws =>
      obtain ⟨x, hx⟩ := ih' ws (bound ++ [w])
      exact ⟨x, fun c => by simp only [bindParams, hx c]⟩
    | nil =>
      cases p with
      | none => exact ⟨.error .internal, fun _ => rfl⟩
      | some d =>
        obtain ⟨xd, hxd⟩ := evalA_btFree _cfg env bound d (hp d (by simp))
        cases xd with
        | error e => exact ⟨.error e, fun c => by simp only [bindParams, hxd c]⟩
        | ok v =>
          obtain ⟨x, hx⟩ := ih' [] (bound ++ [v])
          exact ⟨x, fun c => by simp only [bindParams, hxd c, hx c, List.append_nil]⟩

theorem evalLines_btFree (_cfg : Cfg) (env : Env) (ps : Args) (ls : List Line) (hl : ∀ l ∈ ls, ∀ a ∈ l.frags, a.btFree = true) :
    ∃ x, ∀ cfg', evalLines cfg' env ps ls = ([], x) := by
  induction ls with
  | nil => exact ⟨.ok [], fun _ => rfl⟩
  | cons l ls ih =>
    obtain ⟨xa, hxa⟩ := evalList_btFree _cfg env ps l.frags (hl l (by simp))
    obtain ⟨xs, hxs⟩ := ih (fun m hm => hl m (by simp [hm]))
    cases xa with
    | error e => exact ⟨.error e, fun c => by simp only [evalLines, hxa c]⟩
    | ok v =>
      cases xs with
      | error e => exact ⟨.error e, fun c => by simp only [evalLines, hxa c, hxs c, List.append_nil]⟩
      | ok vs => exact ⟨.ok (concat v :: vs), fun c => by simp only [evalLines, hxa c, hxs c, List.append_nil]⟩


@[simp] theorem realText_map_echo (ls : List String) : realText (ls.map Ev.echo) = "" := by
  induction ls with
  | nil => rfl
  | cons l ls ih => simp [realText, ih]

@[simp] theorem countPrompts_map_echo (ls : List String) : countPrompts (ls.map Ev.echo) = 0 := by
  induction ls with
  | nil => rfl
  | cons l ls ih => simp [countPrompts, ih]

@[simp] theorem dryText_ite_prompt (c : Prop) [Decidable c] (ri : Nat) : dryText (if c then [Ev.prompt ri] else []) = "" := by
  split <;> rfl

@[simp] theorem realText_ite_prompt (c : Prop) [Decidable c] (ri : Nat) : realText (if c then [Ev.prompt ri] else []) = "" := by
  split <;> rfl

@[simp] theorem realText_ite_echoes (c : Prop) [Decidable c] (ls : List String) : realText (if c then ls.map Ev.echo else []) = "" := by
  split <;> simp

@[simp] theorem countPrompts_ite_echoes (c : Prop) [Decidable c] (ls : List String) : countPrompts (if c then ls.map Ev.echo else []) = 0 := by
  split <;> simp [countPrompts]

@[simp] theorem realText_ite_echo (c : Prop) [Decidable c] (t : String) : realText (if c then [Ev.echo t] else []) = "" := by
  split <;> rfl

@[simp] theorem countPrompts_ite_echo (c : Prop) [Decidable c] (t : String) : countPrompts (if c then [Ev.echo t] else []) = 0 := by
  split <;> rfl

variable {cfgR cfgD : Cfg} (h : DryOf cfgR cfgD) {env : Env} (hok : ∀ c, env.status c = .ok)
include h hok

theorem runCmd_rel2 (ri : Nat) (r : Recipe) (given : Args) (l : Line) (cmd : String) :
    Rel2 (runCmd cfgD env ri r given l cmd) (runCmd cfgR env ri r given l cmd) := by
  unfold runCmd Rel2
  simp only [h.dryD, h.dryR, echoes, Bool.true_or, if_true, Bool.false_eq_true, if_false, hok cmd, Status.toErr]
  refine ⟨by simp, ?_, ?_⟩
  · simp [dryText, realText]
  · simp [countPrompts]

theorem runLines_rel2 (ri : Nat) (r : Recipe) (given ps : Args) (ls : List Line) (hl : ∀ l ∈ ls, ∀ a ∈ l.frags, a.btFree = true) :
    Rel2 (runLines cfgD env ri r given ps ls) (runLines cfgR env ri r given ps ls) := by
  induction ls with
  | nil => exact Rel2.silent _
  | cons l ls ih =>
    have ih' := ih (fun m hm => hl m (by simp [hm]))
    obtain ⟨x, hx⟩ := evalList_btFree cfgR env ps l.frags (hl l (by simp))
    simp only [runLines, hx cfgD, hx cfgR]
    cases x with
    | error e => exact Rel2.silent _
    | ok parts =>
      simp only
      by_cases hc : concat parts = ""
      · simp only [hc, if_true, List.nil_append]
        obtain ⟨ed, er, res, h1, h2, h3, h4⟩ := ih'.cases
        rw [h1, h2]
        exact ⟨rfl, h3, h4⟩
      · simp only [hc, if_false, List.nil_append]
        obtain ⟨cd, cr, cres, c1, c2, c3, c4⟩ := (runCmd_rel2 h hok ri r given l (concat parts)).cases
        rw [c1, c2]
        cases cres with
        | error e => exact ⟨rfl, c3, c4⟩
        | ok u =>
          obtain ⟨ed, er, res, h1, h2, h3, h4⟩ := ih'.cases
          rw [h1, h2]
          exact ⟨rfl, by simp [c3, h3], by simp [c4, h4]⟩

theorem runScript_rel2 (ri : Nat) (r : Recipe) (given ps : Args) (hl : ∀ l ∈ r.body, ∀ a ∈ l.frags, a.btFree = true) :
    Rel2 (runScript cfgD env ri r given ps) (runScript cfgR env ri r given ps) := by
  obtain ⟨x, hx⟩ := evalLines_btFree cfgR env ps r.body hl
  unfold runScript
  simp only [hx cfgD, hx cfgR]
  cases x with
  | error e => exact Rel2.silent _
  | ok lines =>
    simp only [h.dryD, h.dryR, h.quietD, Bool.not_false, Bool.true_or, Bool.true_and, if_true, Bool.false_eq_true, if_false,
      hok (joinLines lines), Status.toErr, List.nil_append, Bool.false_or]
    refine ⟨by simp, ?_, ?_⟩
    · simp [dryText_map_echo, realText]
    · simp [countPrompts]

theorem runBody_rel2 (ri : Nat) (r : Recipe) (given ps : Args) (hl : ∀ l ∈ r.body, ∀ a ∈ l.frags, a.btFree = true) :
    Rel2 (runBody cfgD env ri r given ps) (runBody cfgR env ri r given ps) := by
  unfold runBody
  split
  · exact runScript_rel2 h hok ri r given ps hl
  · exact runLines_rel2 h hok ri r given ps r.body hl

omit hok in
theorem runDeps_rel2_of (P : Prog) (fuel : Nat)
    (hR : ∀ sub ri given ran k, Rel2 (runRecipe P cfgD env fuel sub ri given ran k) (runRecipe P cfgR env fuel sub ri given ran k)) :
    ∀ ds, (∀ d ∈ ds, ∀ a ∈ d.args, a.btFree = true) → ∀ sub ps ran k,
      Rel2 (runDeps P cfgD env fuel sub ds ps ran k) (runDeps P cfgR env fuel sub ds ps ran k) := by
  intro ds
  induction ds with
  | nil => intro _ sub ps ran k; rw [runDeps, runDeps]; exact Rel2.silent _
  | cons d ds ih =>
    intro hd sub ps ran k
    have ih' := ih (fun x hx => hd x (by simp [hx]))
    obtain ⟨x, hx⟩ := evalList_btFree cfgR env ps d.args (hd d (by simp))
    rw [runDeps, runDeps]
    simp only [h.noDeps, hx cfgD, hx cfgR]
    by_cases hnd : cfgR.noDeps = true
    · simp only [hnd, if_true]; exact Rel2.silent _
    · simp only [hnd, if_false, Bool.false_eq_true]
      cases x with
      | error e => exact Rel2.silent _
      | ok gv =>
        simp only [List.nil_append]
        obtain ⟨e2d, e2r, r2, h1, h2, h3, h4⟩ := (hR sub d.target gv ran k).cases
        rw [h1, h2]
        cases r2 with
        | error e => exact ⟨rfl, h3, h4⟩
        | ok ran1 =>
          simp only
          rw [h4]
          obtain ⟨e3d, e3r, r3, h5, h6, h7, h8⟩ := (ih' sub ps ran1 (k + countPrompts e2r)).cases
          rw [h5, h6]
          exact ⟨rfl, by simp [h3, h7], by simp [h4, h8]⟩

theorem runRecipe_rel2 (P : Prog) (hP : ∀ r ∈ P.recipes, r.BtFree) : ∀ fuel sub ri given ran k,
    Rel2 (runRecipe P cfgD env fuel sub ri given ran k) (runRecipe P cfgR env fuel sub ri given ran k) := by
  intro fuel
  induction fuel with
  | zero => intro sub ri given ran k; rw [runRecipe_zero, runRecipe_zero]; exact Rel2.silent _
  | succ n ih =>
    have ihD := runDeps_rel2_of h P n ih
    intro sub ri given ran k
    rw [runRecipe, runRecipe]
    by_cases hm : (ri, given) ∈ ran
    · simp only [hm, if_true]; exact Rel2.silent _
    · simp only [hm, if_false]
      cases hr : P.recipes[ri]? with
      | none => exact Rel2.silent _
      | some r =>
        have hbf : r.BtFree := hP r (List.mem_of_getElem? hr)
        obtain ⟨x, hx⟩ := bindParams_btFree cfgR env r.params hbf.params given []
        simp only [h.yes, hx cfgD, hx cfgR]
        by_cases hc : ((r.confirm && !cfgR.yes) && !env.ans k) = true
        · simp only [hc, if_true]; exact ⟨rfl, by simp, rfl⟩
        · simp only [hc, if_false, Bool.false_eq_true]
          cases x with
          | error e => exact ⟨rfl, by simp, rfl⟩
          | ok ps =>
            simp only [List.append_nil]
            obtain ⟨e2d, e2r, r2, h1, h2, h3, h4⟩ := (ihD r.priors hbf.priors sub ps ran
              (k + countPrompts (if (r.confirm && !cfgR.yes) = true then [Ev.prompt ri] else []))).cases
            rw [h1, h2]
            cases r2 with
            | error e => exact ⟨rfl, by simp [h3], by simp [h4]⟩
            | ok ran1 =>
              simp only
              obtain ⟨e3d, e3r, r3, h5, h6, h7, h8⟩ := (runBody_rel2 h hok ri r given ps hbf.body).cases
              rw [h5, h6]
              cases r3 with
              | error e => exact ⟨rfl, by simp [h3, h7, dryText, realText], by simp [h4, h8, countPrompts]⟩
              | ok u =>
                simp only
                rw [h4]
                obtain ⟨e4d, e4r, r4, h9, h10, h11, h12⟩ := (ihD r.subs hbf.subs true ps []
                  (k + countPrompts (if (r.confirm && !cfgR.yes) = true then [Ev.prompt ri] else []) + countPrompts e2r)).cases
                rw [h9, h10]
                cases r4 with
                | error e => exact ⟨rfl, by simp [h3, h7, h11, dryText, realText], by simp [h4, h8, h12, countPrompts]⟩
                | ok ranS => exact ⟨rfl, by simp [h3, h7, h11, dryText, realText], by simp [h4, h8, h12, countPrompts]⟩

theorem runInvs_rel2 (P : Prog) (hP : ∀ r ∈ P.recipes, r.BtFree) (fuel : Nat) (invs : List Key) : ∀ ran k,
    Rel2 (runInvs P cfgD env fuel invs ran k) (runInvs P cfgR env fuel invs ran k) := by
  induction invs with
  | nil => intro ran k; exact Rel2.silent _
  | cons inv invs ih =>
    intro ran k
    obtain ⟨ri, given⟩ := inv
    simp only [runInvs]
    obtain ⟨e1d, e1r, r1, h1, h2, h3, h4⟩ := (runRecipe_rel2 h hok P hP fuel false ri given ran k).cases
    rw [h1, h2]
    cases r1 with
    | error e => exact ⟨rfl, h3, h4⟩
    | ok ran1 =>
      simp only
      rw [h4]
      obtain ⟨e2d, e2r, r2, h5, h6, h7, h8⟩ := (ih ran1 (k + countPrompts e1r)).cases
      rw [h5, h6]
      exact ⟨rfl, by simp [h3, h7], by simp [h4, h8]⟩

/-- module-level backticks: skipped by the dry run, run (and here succeeding) in the real one -/
theorem runAssigns_rel2 (cs : List String) : Rel2 (runAssigns cfgD env cs) (runAssigns cfgR env cs) := by
  induction cs with
  | nil => exact Rel2.silent _
  | cons c cs ih =>
    simp only [runAssigns, evalA, h.dryD, h.dryR, if_true, Bool.false_eq_true, if_false, hok c, Status.toErr]
    obtain ⟨ed, er, res, h1, h2, h3, h4⟩ := ih.cases
    rw [h1, h2]
    exact ⟨rfl, by simp [h3, realText], by simp [h4, countPrompts]⟩

theorem runMain_rel2 (P : Prog) (hP : ∀ r ∈ P.recipes, r.BtFree) (invs : List Key) :
    (runMain P cfgD env invs).2 = (runMain P cfgR env invs).2
    ∧ dryText (runMain P cfgD env invs).1 = realText (runMain P cfgR env invs).1 := by
  simp only [runMain]
  obtain ⟨e1d, e1r, r1, h1, h2, h3, h4⟩ := (runAssigns_rel2 h hok P.assigns).cases
  rw [h1, h2]
  cases r1 with
  | error e => exact ⟨rfl, h3⟩
  | ok u =>
    simp only
    obtain ⟨e2d, e2r, r2, h5, h6, h7, h8⟩ := (runInvs_rel2 h hok P hP (P.recipes.length + 1) invs [] 0).cases
    rw [h5, h6]
    cases r2 with
    | error e => exact ⟨rfl, by simp [h3, h7]⟩
    | ok ran => exact ⟨rfl, by simp [h3, h7]⟩

end Just.Run
