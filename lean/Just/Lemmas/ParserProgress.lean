import Just.Model.Ast
/-
Progress: every parsing function of the token-level model returns strictly fewer tokens than it was given
(or, for the optional / repeated parts, not more); hence every turn of the item loop of `parse_ast` consumes
at least one token and the loop takes at most as many turns as there are tokens.
-/
namespace Just.Syntax
open Just

structure ParserProg (f : Nat) : Prop where
  value : ∀ ts e r, parseValue f ts = some (e, r) → r.length < ts.length
  conjunct : ∀ ts e r, parseConjunct f ts = some (e, r) → r.length < ts.length
  disjunct : ∀ ts e r, parseDisjunct f ts = some (e, r) → r.length < ts.length
  expression : ∀ ts e r, parseExpression f ts = some (e, r) → r.length < ts.length
  conditional : ∀ ts e r, parseConditional f ts = some (e, r) → r.length < ts.length
  condition : ∀ ts c r, parseCondition f ts = some (c, r) → r.length < ts.length
  sequence : ∀ ts es r, parseSequence f ts = some (es, r) → r.length < ts.length

theorem parserProg_zero : ParserProg 0 := by
  constructor <;> intros <;> simp_all [parseValue, parseConjunct, parseDisjunct, parseExpression, parseConditional,
    parseCondition, parseSequence]

theorem parserProg_succ (f : Nat) (ih : ParserProg f) : ParserProg (f + 1) := by
  have h1 := ih.value
  have h2 := ih.conjunct
  have h3 := ih.disjunct
  have h4 := ih.expression
  have h5 := ih.conditional
  have h6 := ih.condition
  have h7 := ih.sequence
  constructor
  · intro ts e r h
    unfold parseValue at h
    repeat' split at h
    all_goals grind
  · intro ts e r h
    unfold parseConjunct at h
    repeat' split at h
    all_goals grind
  · intro ts e r h
    unfold parseDisjunct at h
    repeat' split at h
    all_goals grind
  · intro ts e r h
    unfold parseExpression at h
    repeat' split at h
    all_goals grind
  · intro ts e r h
    unfold parseConditional at h
    repeat' split at h
    all_goals grind
  · intro ts c r h
    unfold parseCondition at h
    repeat' split at h
    all_goals grind
  · intro ts es r h
    unfold parseSequence at h
    repeat' split at h
    all_goals grind

theorem parserProg (f : Nat) : ParserProg f := by
  induction f with
  | zero => exact parserProg_zero
  | succ f ih => exact parserProg_succ f ih

end Just.Syntax

namespace Just.Header
open Just Just.Syntax

theorem expectEol_le (ts r : List Tk) (h : expectEol ts = some r) : r.length ≤ ts.length := by
  unfold expectEol at h
  repeat' split at h
  all_goals grind

theorem parseParam_lt (fuel : Nat) (kind : PKind) (ts : List Tk) (p : Param) (r : List Tk)
    (h : parseParam fuel kind ts = some (p, r)) : r.length < ts.length := by
  have hv := (parserProg fuel).value
  unfold parseParam at h
  repeat' split at h
  all_goals grind

theorem parseParams_le (vfuel : Nat) : ∀ (f : Nat) (ts : List Tk) (ps : List Param) (r : List Tk),
    parseParams vfuel f ts = some (ps, r) → r.length ≤ ts.length := by
  intro f
  induction f with
  | zero => intro ts ps r h; simp [parseParams] at h
  | succ f ih =>
    intro ts ps r h
    have hp := parseParam_lt vfuel
    unfold parseParams at h
    repeat' split at h
    all_goals grind

theorem parseDepArgs_lt (efuel : Nat) : ∀ (f : Nat) (ts : List Tk) (es : List Expr) (r : List Tk),
    parseDepArgs efuel f ts = some (es, r) → r.length < ts.length := by
  intro f
  induction f with
  | zero => intro ts es r h; simp [parseDepArgs] at h
  | succ f ih =>
    intro ts es r h
    have he := (parserProg efuel).expression
    unfold parseDepArgs at h
    repeat' split at h
    all_goals grind

theorem acceptDep_le (efuel afuel : Nat) (ts : List Tk) (d : Option Dep) (r : List Tk)
    (h : acceptDep efuel afuel ts = some (d, r)) : r.length ≤ ts.length ∧ (d.isSome → r.length < ts.length) := by
  have ha := parseDepArgs_lt efuel afuel
  unfold acceptDep at h
  repeat' split at h
  all_goals grind

theorem parseDeps_le (efuel afuel : Nat) : ∀ (f : Nat) (ts : List Tk) (ds : List Dep) (r : List Tk),
    parseDeps efuel afuel f ts = some (ds, r) → r.length ≤ ts.length := by
  intro f
  induction f with
  | zero => intro ts ds r h; simp [parseDeps] at h
  | succ f ih =>
    intro ts ds r h
    have ha := acceptDep_le efuel afuel
    unfold parseDeps at h
    repeat' split at h
    all_goals grind

theorem parseVariadic_le (fuel : Nat) (ts : List Tk) (v : Option Param) (r : List Tk)
    (h : parseVariadic fuel ts = some (v, r)) : r.length ≤ ts.length := by
  have hp := parseParam_lt fuel
  unfold parseVariadic at h
  repeat' split at h
  all_goals grind

theorem parseTail_lt (fuel : Nat) (ts : List Tk) (x : List Dep × List Dep) (r : List Tk)
    (h : parseTail fuel ts = some (x, r)) : r.length < ts.length := by
  have hd := parseDeps_le fuel fuel fuel
  have he := expectEol_le
  unfold parseTail at h
  repeat' split at h
  all_goals grind

theorem parseNamed_lt (fuel : Nat) (q : Bool) (n : String) (ts : List Tk) (hd : Header) (r : List Tk)
    (h : parseNamed fuel q n ts = some (hd, r)) : r.length < ts.length := by
  have h1 := parseParams_le fuel fuel
  have h2 := parseVariadic_le fuel
  have h3 := parseTail_lt fuel
  unfold parseNamed at h
  repeat' split at h
  all_goals grind

theorem parseHeader_lt (fuel : Nat) (ts : List Tk) (hd : Header) (r : List Tk)
    (h : parseHeader fuel ts = some (hd, r)) : r.length < ts.length := by
  have h1 := parseNamed_lt fuel
  unfold parseHeader at h
  repeat' split at h
  all_goals grind

end Just.Header

namespace Just.Items
open Just Just.Syntax Just.Header

theorem parseFrags_le (efuel : Nat) : ∀ (f : Nat) (ts : List Tk) (l : BLine) (r : List Tk),
    parseFrags efuel f ts = some (l, r) → r.length ≤ ts.length := by
  intro f
  induction f with
  | zero => intro ts l r h; simp [parseFrags] at h
  | succ f ih =>
    intro ts l r h
    have he := (parserProg efuel).expression
    unfold parseFrags at h
    repeat' split at h
    all_goals grind

/-- a line that does not begin at a `Dedent` consumes at least one token -/
theorem parseFrags_lt (efuel f : Nat) (ts : List Tk) (l : BLine) (r : List Tk) (h : parseFrags efuel f ts = some (l, r))
    (hd : ∀ x, ts ≠ Tk.other "Dedent" :: x) : r.length < ts.length := by
  have he := (parserProg efuel).expression
  have hle := parseFrags_le efuel
  cases f with
  | zero => simp [parseFrags] at h
  | succ f =>
    unfold parseFrags at h
    repeat' split at h
    all_goals grind

theorem parseLines_lt (efuel ffuel : Nat) : ∀ (f : Nat) (ts : List Tk) (ls : List BLine) (r : List Tk),
    parseLines efuel ffuel f ts = some (ls, r) → r.length < ts.length := by
  intro f
  induction f with
  | zero => intro ts ls r h; simp [parseLines] at h
  | succ f ih =>
    intro ts ls r h
    have hf := parseFrags_le efuel ffuel
    unfold parseLines at h
    repeat' split at h
    all_goals grind

theorem parseBody_le (fuel : Nat) (ts : List Tk) (b : List BLine) (r : List Tk)
    (h : parseBody fuel ts = some (b, r)) : r.length ≤ ts.length := by
  have hl := parseLines_lt fuel fuel fuel
  unfold parseBody at h
  repeat' split at h
  all_goals grind

theorem parseRecipe_lt (fuel : Nat) (ts : List Tk) (rc : Recipe) (r : List Tk)
    (h : parseRecipe fuel ts = some (rc, r)) : r.length < ts.length := by
  have h1 := parseHeader_lt fuel
  have h2 := parseBody_le fuel
  unfold parseRecipe at h
  repeat' split at h
  all_goals grind

theorem parseAssignment_lt (fuel : Nat) (ts : List Tk) (a : Assignment) (r : List Tk)
    (h : parseAssignment fuel ts = some (a, r)) : r.length < ts.length := by
  have he := (parserProg fuel).expression
  have hl := expectEol_le
  unfold parseAssignment at h
  repeat' split at h
  all_goals grind

theorem parsePath_le : ∀ (f : Nat) (ts : List Tk) (ps : List String) (r : List Tk),
    parsePath f ts = some (ps, r) → r.length ≤ ts.length := by
  intro f
  induction f with
  | zero => intro ts ps r h; simp [parsePath] at h
  | succ f ih =>
    intro ts ps r h
    unfold parsePath at h
    repeat' split at h
    all_goals grind

theorem parseAlias_lt (fuel : Nat) (ts : List Tk) (a : Alias) (r : List Tk)
    (h : parseAlias fuel ts = some (a, r)) : r.length < ts.length := by
  have hp := parsePath_le fuel
  have hl := expectEol_le
  unfold parseAlias at h
  repeat' split at h
  all_goals grind

end Just.Items

namespace Just.Ast
open Just Just.Syntax Just.Header Just.Items

theorem parseLit_lt (ts : List Tk) (l : String) (r : List Tk) (h : parseLit ts = some (l, r)) : r.length < ts.length := by
  unfold parseLit at h
  repeat' split at h
  all_goals grind

theorem parseLitList_lt : ∀ (f : Nat) (ts : List Tk) (ls : List String) (r : List Tk),
    parseLitList f ts = some (ls, r) → r.length < ts.length := by
  intro f
  induction f with
  | zero => intro ts ls r h; simp [parseLitList] at h
  | succ f ih =>
    intro ts ls r h
    have hl := parseLit_lt
    unfold parseLitList at h
    repeat' split at h
    all_goals grind

theorem parseAttrArgs_le (fuel : Nat) (ts : List Tk) (as : List String) (r : List Tk)
    (h : parseAttrArgs fuel ts = some (as, r)) : r.length ≤ ts.length := by
  have h1 := parseLit_lt
  have h2 := parseLitList_lt fuel
  unfold parseAttrArgs at h
  repeat' split at h
  all_goals grind

theorem parseAttrGroup_lt (litLe : String → String → Bool) (fuel : Nat) : ∀ (f : Nat) (acc : List Attr) (ts : List Tk)
    (as : List Attr) (r : List Tk), parseAttrGroup litLe fuel f acc ts = some (as, r) → r.length < ts.length := by
  intro f
  induction f with
  | zero => intro acc ts as r h; simp [parseAttrGroup] at h
  | succ f ih =>
    intro acc ts as r h
    have h1 := parseAttrArgs_le fuel
    have h2 := expectEol_le
    unfold parseAttrGroup at h
    repeat' split at h
    all_goals grind

theorem parseAttributes_le (litLe : String → String → Bool) (fuel : Nat) : ∀ (f : Nat) (acc : List Attr) (ts : List Tk)
    (as : List Attr) (r : List Tk), parseAttributes litLe fuel f acc ts = some (as, r) → r.length ≤ ts.length := by
  intro f
  induction f with
  | zero => intro acc ts as r h; simp [parseAttributes] at h
  | succ f ih =>
    intro acc ts as r h
    have h1 := parseAttrGroup_lt litLe fuel fuel
    unfold parseAttributes at h
    repeat' split at h
    all_goals grind

theorem parseSetBool_le (ts : List Tk) (b : Bool) (r : List Tk) (h : parseSetBool ts = some (b, r)) : r.length ≤ ts.length := by
  unfold parseSetBool at h
  repeat' split at h
  all_goals grind

theorem parseInterpArgs_le : ∀ (f : Nat) (ts : List Tk) (ls : List String) (r : List Tk),
    parseInterpArgs f ts = some (ls, r) → r.length ≤ ts.length := by
  intro f
  induction f with
  | zero => intro ts ls r h; simp [parseInterpArgs] at h
  | succ f ih =>
    intro ts ls r h
    have hl := parseLit_lt
    unfold parseInterpArgs at h
    repeat' split at h
    all_goals grind

theorem parseInterpreter_lt (fuel : Nat) (ts : List Tk) (v : SetVal) (r : List Tk)
    (h : parseInterpreter fuel ts = some (v, r)) : r.length < ts.length := by
  have h1 := parseLit_lt
  have h2 := parseInterpArgs_le fuel
  unfold parseInterpreter at h
  repeat' split at h
  all_goals grind

theorem parseSet_lt (fuel : Nat) (ts : List Tk) (s : Setting) (r : List Tk)
    (h : parseSet fuel ts = some (s, r)) : r.length < ts.length := by
  have h1 := parseLit_lt
  have h2 := parseInterpreter_lt fuel
  have h3 := parseSetBool_le
  unfold parseSet at h
  repeat' split at h
  all_goals grind


/-- an outcome that goes on leaves strictly fewer tokens -/
def Outcome.Progress (ts : List Tk) : Outcome → Prop
  | .more _ _ rest => rest.length < ts.length
  | .done _ => True

theorem Outcome.Progress.mono {ts1 ts : List Tk} {o : Outcome} (h : o.Progress ts1) (hle : ts1.length ≤ ts.length) : o.Progress ts := by
  cases o with
  | more a e r => simp only [Outcome.Progress] at h ⊢; omega
  | done a => trivial

theorem recipeStep_progress (fuel : Nat) (attrs : List Attr) (acc : List Item) (eol : Bool) (ts : List Tk) (o : Outcome)
    (h : recipeStep fuel attrs acc eol ts = some o) : o.Progress ts := by
  have h1 := parseRecipe_lt fuel
  unfold recipeStep at h
  repeat' split at h
  all_goals grind [Outcome.Progress]

theorem acceptQuestion_le (ts : List Tk) : (acceptQuestion ts).2.length ≤ ts.length := by
  unfold acceptQuestion
  split <;> simp

theorem parseModPath_le (ts : List Tk) (p : Option String) (r : List Tk) (h : parseModPath ts = some (p, r)) : r.length ≤ ts.length := by
  have h1 := parseLit_lt
  unfold parseModPath at h
  repeat' split at h
  all_goals ((try simp only [Option.map_eq_some_iff] at h); grind)

theorem modStep_progress (attrs : List Attr) (acc : List Item) (eol : Bool) (ts : List Tk) (o : Outcome)
    (h : modStep attrs acc eol ts = some o) : o.Progress ts := by
  have h1 := parseModPath_le
  unfold modStep at h
  split at h
  · rename_i r
    have hq := acceptQuestion_le r
    repeat' split at h
    all_goals grind [Outcome.Progress]
  · cases h

theorem importStep_progress (attrs : List Attr) (acc : List Item) (eol : Bool) (ts : List Tk) (o : Outcome)
    (h : importStep attrs acc eol ts = some o) : o.Progress ts := by
  have h1 := parseLit_lt
  unfold importStep at h
  split at h
  · rename_i r
    have hq := acceptQuestion_le r
    repeat' split at h
    all_goals grind [Outcome.Progress]
  · cases h

theorem identStep_progress (fuel : Nat) (kw : String) (attrs : List Attr) (acc : List Item) (eol : Bool) (ts : List Tk) (o : Outcome)
    (h : identStep fuel kw attrs acc eol ts = some o) : o.Progress ts := by
  have h1 := parseAlias_lt fuel
  have h2 := parseAssignment_lt fuel
  have h3 := expectEol_le
  have h4 := importStep_progress attrs acc eol ts
  have h5 := modStep_progress attrs acc eol ts
  have h6 := parseSet_lt fuel
  have h7 := recipeStep_progress fuel attrs acc eol ts
  unfold identStep at h
  repeat' split at h
  all_goals grind [Outcome.Progress]

/-- **Every turn of the loop of `parse_ast` that goes on has consumed at least one token.** -/
theorem step_progress (litLe : String → String → Bool) (fuel : Nat) (acc : List Item) (eol : Bool) (ts : List Tk) (o : Outcome)
    (h : step litLe fuel acc eol ts = some o) : o.Progress ts := by
  have h1 := parseAttributes_le litLe fuel fuel []
  have h2 := expectEol_le
  unfold step at h
  split at h
  · cases h
  · rename_i attrs ts1 hattr
    have hle := h1 ts attrs ts1 hattr
    split at h
    · repeat' split at h
      all_goals grind [Outcome.Progress]
    · repeat' split at h
      all_goals grind [Outcome.Progress]
    · repeat' split at h
      all_goals grind [Outcome.Progress]
    · exact (identStep_progress fuel _ attrs acc eol _ o h).mono hle
    · exact (recipeStep_progress fuel attrs acc eol _ o h).mono hle
    · cases h

/-- **The loop takes at most as many turns as there are tokens**: loop fuel beyond the number of tokens is never used. -/
theorem parseItems_fuel (litLe : String → String → Bool) (fuel : Nat) : ∀ (f : Nat) (acc : List Item) (eol : Bool) (ts : List Tk) (k : Nat),
    ts.length < f → parseItems litLe fuel (f + k) acc eol ts = parseItems litLe fuel f acc eol ts := by
  intro f
  induction f with
  | zero => intro acc eol ts k h; omega
  | succ f ih =>
    intro acc eol ts k hlen
    rw [show f + 1 + k = (f + k) + 1 by omega]
    simp only [parseItems]
    cases hs : step litLe fuel acc eol ts with
    | none => rfl
    | some o =>
      cases o with
      | done acc' => rfl
      | more acc' eol' rest =>
        have hp := step_progress litLe fuel acc eol ts _ hs
        simp only [Outcome.Progress] at hp
        exact ih acc' eol' rest k (by omega)

end Just.Ast
