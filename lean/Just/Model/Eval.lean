/-
Model of expression evaluation: `Evaluator::evaluate_expression`, `evaluate_condition`,
`evaluate_assignment`, `evaluate_assignments` (src/evaluator.rs), a concrete set of the string
functions of src/function.rs, `Scope` lookups (src/scope.rs).
Child processes (backticks, `shell()`) and every function outside the concrete set are parameters.
-/
import Just.Model.Expr
import Just.Model.Path
import Just.Model.Percent
import Just.Model.Case
namespace Just.Eval
open Just

inductive Ev where
  | bt (cmd : String)             -- a backtick / `shell()` was spawned
  | evalAssign (name : String)    -- (ghost) the expression of assignment `name` starts evaluating
  deriving Repr, DecidableEq, Inhabited

inductive Err where
  | backtick (cmd : String)
  | function (fn msg : String)
  | assert (msg : String)
  | undefinedVariable (x : String)     -- `Error::Internal` in the code
  | unsupported (fn : String)          -- function outside the concrete set
  | fuel
  deriving Repr, DecidableEq, Inhabited

structure Ctx where
  /-- stdout of a backtick (trailing newline stripped) or `none` if it fails -/
  bt : String → Option String
  /-- just's environment merged with dotenv -/
  envVar : String → Option String
  dryRun : Bool := false
  isDependency : Bool := false
  /-- bindings of the enclosing scopes (parent modules, constants) -/
  parent : String → Option String
  /-- `true` = the repaired lookup order (a module's own assignment before the enclosing scopes) -/
  ownFirst : Bool := true

structure St where
  scope : List (String × String)    -- bindings of the scope being filled, newest first
  log : List Ev
  deriving Repr, Inhabited

abbrev Res (α : Type) := St × Except Err α

/-! ### concrete string functions (ASCII whitespace and letters) -/

def isWs (c : Char) : Bool := c = ' ' || c = '\t' || c = '\n' || c = '\r'

def splitWsL : List Char → List Char → List (List Char)
  | [], cur => if cur.isEmpty then [] else [cur.reverse]
  | c :: cs, cur =>
    if isWs c then (if cur.isEmpty then splitWsL cs [] else cur.reverse :: splitWsL cs [])
    else splitWsL cs (c :: cur)

def splitWs (s : String) : List String := (splitWsL s.toList []).map String.ofList

def joinSp : List String → String
  | [] => ""
  | [x] => x
  | x :: xs => x ++ " " ++ joinSp xs

/-- `str::replace` for a non-empty pattern (leftmost, non-overlapping) -/
def replaceL (pat rep : List Char) : Nat → List Char → List Char
  | 0, s => s
  | _, [] => []
  | fuel + 1, c :: cs =>
    if pat.isPrefixOf (c :: cs) then rep ++ replaceL pat rep fuel ((c :: cs).drop pat.length)
    else c :: replaceL pat rep fuel cs

def replace (s pat rep : String) : String :=
  if pat = "" then s else String.ofList (replaceL pat.toList rep.toList (s.length + 1) s.toList)

def quote (s : String) : String := "'" ++ replace s "'" "'\\''" ++ "'"

def trimStartL (l : List Char) : List Char := l.dropWhile isWs
def trimEndL (l : List Char) : List Char := (l.reverse.dropWhile isWs).reverse

def startsWith (s p : String) : Bool := p.toList.isPrefixOf s.toList
def endsWith (s p : String) : Bool := p.toList.reverse.isPrefixOf s.toList.reverse
def dropStart (s : String) (n : Nat) : String := String.ofList (s.toList.drop n)
def dropEnd (s : String) (n : Nat) : String := String.ofList (s.toList.take (s.length - n))

def trimEndMatchesL (pat : List Char) : Nat → List Char → List Char
  | 0, s => s
  | fuel + 1, s =>
    if pat.reverse.isPrefixOf s.reverse then trimEndMatchesL pat fuel (s.take (s.length - pat.length)) else s

def trimStartMatchesL (pat : List Char) : Nat → List Char → List Char
  | 0, s => s
  | fuel + 1, s => if pat.isPrefixOf s then trimStartMatchesL pat fuel (s.drop pat.length) else s

def trimEndMatches (s pat : String) : String :=
  if pat = "" then s else String.ofList (trimEndMatchesL pat.toList (s.length + 1) s.toList)

def trimStartMatches (s pat : String) : String :=
  if pat = "" then s else String.ofList (trimStartMatchesL pat.toList (s.length + 1) s.toList)

def capitalize (s : String) : String :=
  match s.toList with
  | [] => ""
  | c :: cs => String.ofList (c.toUpper :: cs.map Char.toLower)

def isInfix (pat : List Char) : List Char → Bool
  | [] => pat.isEmpty
  | c :: cs => pat.isPrefixOf (c :: cs) || isInfix pat cs

/-- literal (regex-metacharacter-free) pattern search -/
def contains (s pat : String) : Bool := isInfix pat.toList s.toList

/-- a pure function of the concrete set; `none` = not in the set -/
def pureFn (ctx : Ctx) (fn : String) (args : List String) : Option (Except String String) :=
  match fn, args with
  | "quote", [s] => some (.ok (quote s))
  | "replace", [s, a, b] => some (.ok (replace s a b))
  | "trim", [s] => some (.ok (String.ofList (trimEndL (trimStartL s.toList))))
  | "trim_start", [s] => some (.ok (String.ofList (trimStartL s.toList)))
  | "trim_end", [s] => some (.ok (String.ofList (trimEndL s.toList)))
  | "trim_end_match", [s, p] => some (.ok (if p != "" && endsWith s p then dropEnd s p.length else s))
  | "trim_start_match", [s, p] => some (.ok (if p != "" && startsWith s p then dropStart s p.length else s))
  | "trim_end_matches", [s, p] => some (.ok (trimEndMatches s p))
  | "trim_start_matches", [s, p] => some (.ok (trimStartMatches s p))
  | "uppercase", [s] => some (.ok (String.ofList (s.toList.map Char.toUpper)))
  | "lowercase", [s] => some (.ok (String.ofList (s.toList.map Char.toLower)))
  | "capitalize", [s] => some (.ok (capitalize s))
  | "append", [suffix, s] => some (.ok (joinSp ((splitWs s).map (· ++ suffix))))
  | "prepend", [pre, s] => some (.ok (joinSp ((splitWs s).map (pre ++ ·))))
  | "env", [k] => some (match ctx.envVar k with
      | some v => .ok v
      | none => .error ("environment variable `" ++ k ++ "` not present"))
  | "env", [k, d] => some (.ok ((ctx.envVar k).getD d))
  | "env_var", [k] => some (match ctx.envVar k with
      | some v => .ok v
      | none => .error ("environment variable `" ++ k ++ "` not present"))
  | "env_var_or_default", [k, d] => some (.ok ((ctx.envVar k).getD d))
  | "encode_uri_component", [t] =>
    some (.ok (String.ofList ((Percent.encode (t.toUTF8.toList.map UInt8.toNat)).map Char.ofNat)))
  | "clean", [p] => some (.ok (String.ofList (Path.cleanFn p.toList)))
  | "file_name", [p] => some (match Path.fileName p.toList with
      | some f => .ok (String.ofList f)
      | none => .error ("Could not extract file name from `" ++ p ++ "`"))
  | "file_stem", [p] => some (match Path.fileStem p.toList with
      | some f => .ok (String.ofList f)
      | none => .error ("Could not extract file stem from `" ++ p ++ "`"))
  | "extension", [p] => some (match Path.extensionOf p.toList with
      | some f => .ok (String.ofList f)
      | none => .error ("Could not extract extension from `" ++ p ++ "`"))
  | "parent_directory", [p] => some (match Path.parentStr p.toList with
      | some f => .ok (String.ofList f)
      | none => .error ("Could not extract parent directory from `" ++ p ++ "`"))
  | "without_extension", [p] => some (match Path.withoutExtension p.toList with
      | some f => .ok (String.ofList f)
      | none => .error ("Could not extract parent or file stem from `" ++ p ++ "`"))
  | "join", base :: w :: rest => some (.ok (String.ofList (Path.joinPaths base.toList ((w :: rest).map String.toList))))
  | "error", [m] => some (.error m)
  | "is_dependency", [] => some (.ok (if ctx.isDependency then "true" else "false"))
  | fn, [s] => (Case.apply fn (s.toList.map Char.toNat)).map (fun l => .ok (String.ofList (l.map Char.ofNat)))
  | _, _ => none

def lookupScope (st : St) (x : String) : Option String := st.scope.lookup x

def evalCondOp (op : CondOp) (l r : String) : Bool :=
  match op with
  | .eq => l == r
  | .ne => l != r
  | .match => contains l r
  | .nomatch => !contains l r

/-! ### the evaluator -/

mutual
/-- `Evaluator::evaluate_expression`; `assigns` = the module's assignment table while the
module's assignments are being evaluated (`None` in recipe context) -/
def evalExpr (ctx : Ctx) (assigns : Option (List (String × Expr))) :
    Nat → Expr → St → Res String
  | 0, _, st => (st, .error .fuel)
  | _ + 1, .str s, st => (st, .ok s)
  | fuel + 1, .var x, st =>
    match lookupScope st x with
    | some v => (st, .ok v)
    | none =>
      let pending := match assigns with
        | some as => as.lookup x
        | none => none
      if ctx.ownFirst then
        -- repaired order: the module's own (pending) assignment before the enclosing scopes
        match pending with
        | some e => evalAssignment ctx assigns fuel x e st
        | none =>
          match ctx.parent x with
          | some v => (st, .ok v)
          | none => (st, .error (.undefinedVariable x))
      else
        -- pinned order: `scope.value` walks every enclosing scope first
        match ctx.parent x with
        | some v => (st, .ok v)
        | none =>
          match pending with
          | some e => evalAssignment ctx assigns fuel x e st
          | none => (st, .error (.undefinedVariable x))
  | _ + 1, .backtick c, st =>
    if ctx.dryRun then (st, .ok ("`" ++ c ++ "`"))
    else
      let st' := { st with log := st.log ++ [.bt c] }
      match ctx.bt c with
      | some out => (st', .ok out)
      | none => (st', .error (.backtick c))
  | fuel + 1, .call fn args, st =>
    match evalExprs ctx assigns fuel args st with
    | (st1, .error e) => (st1, .error e)
    | (st1, .ok vs) =>
      if fn = "shell" then
        match vs with
        | c :: _ =>
          let st2 := { st1 with log := st1.log ++ [.bt c] }
          match ctx.bt c with
          | some out => (st2, .ok out)
          | none => (st2, .error (.function fn "shell failed"))
        | [] => (st1, .error (.unsupported fn))
      else
        match pureFn ctx fn vs with
        | some (.ok v) => (st1, .ok v)
        | some (.error m) => (st1, .error (.function fn m))
        | none => (st1, .error (.unsupported fn))
  | fuel + 1, .concat l r, st =>
    match evalExpr ctx assigns fuel l st with
    | (st1, .error e) => (st1, .error e)
    | (st1, .ok a) =>
      match evalExpr ctx assigns fuel r st1 with
      | (st2, .error e) => (st2, .error e)
      | (st2, .ok b) => (st2, .ok (a ++ b))
  | fuel + 1, .joinL l r, st =>
    match evalExpr ctx assigns fuel l st with
    | (st1, .error e) => (st1, .error e)
    | (st1, .ok a) =>
      match evalExpr ctx assigns fuel r st1 with
      | (st2, .error e) => (st2, .error e)
      | (st2, .ok b) => (st2, .ok (a ++ "/" ++ b))
  | fuel + 1, .joinR r, st =>
    match evalExpr ctx assigns fuel r st with
    | (st1, .error e) => (st1, .error e)
    | (st1, .ok b) => (st1, .ok ("/" ++ b))
  | fuel + 1, .and l r, st =>
    match evalExpr ctx assigns fuel l st with
    | (st1, .error e) => (st1, .error e)
    | (st1, .ok a) => if a = "" then (st1, .ok "") else evalExpr ctx assigns fuel r st1
  | fuel + 1, .or l r, st =>
    match evalExpr ctx assigns fuel l st with
    | (st1, .error e) => (st1, .error e)
    | (st1, .ok a) => if a ≠ "" then (st1, .ok a) else evalExpr ctx assigns fuel r st1
  | fuel + 1, .cond a op b t e, st =>
    match evalExpr ctx assigns fuel a st with
    | (st1, .error er) => (st1, .error er)
    | (st1, .ok va) =>
      match evalExpr ctx assigns fuel b st1 with
      | (st2, .error er) => (st2, .error er)
      | (st2, .ok vb) =>
        if evalCondOp op va vb then evalExpr ctx assigns fuel t st2 else evalExpr ctx assigns fuel e st2
  | fuel + 1, .assert a op b m, st =>
    match evalExpr ctx assigns fuel a st with
    | (st1, .error er) => (st1, .error er)
    | (st1, .ok va) =>
      match evalExpr ctx assigns fuel b st1 with
      | (st2, .error er) => (st2, .error er)
      | (st2, .ok vb) =>
        if evalCondOp op va vb then (st2, .ok "")
        else match evalExpr ctx assigns fuel m st2 with
          | (st3, .error er) => (st3, .error er)
          | (st3, .ok msg) => (st3, .error (.assert msg))
  | fuel + 1, .group e, st => evalExpr ctx assigns fuel e st

def evalExprs (ctx : Ctx) (assigns : Option (List (String × Expr))) :
    Nat → Exprs → St → Res (List String)
  | 0, _, st => (st, .error .fuel)
  | _ + 1, .nil, st => (st, .ok [])
  | fuel + 1, .cons e es, st =>
    match evalExpr ctx assigns fuel e st with
    | (st1, .error er) => (st1, .error er)
    | (st1, .ok v) =>
      match evalExprs ctx assigns fuel es st1 with
      | (st2, .error er) => (st2, .error er)
      | (st2, .ok vs) => (st2, .ok (v :: vs))

/-- `Evaluator::evaluate_assignment`: evaluate and bind unless already bound in the current scope -/
def evalAssignment (ctx : Ctx) (assigns : Option (List (String × Expr))) :
    Nat → String → Expr → St → Res String
  | 0, _, _, st => (st, .error .fuel)
  | fuel + 1, name, e, st =>
    match lookupScope st name with
    | some v => (st, .ok v)
    | none =>
      match evalExpr ctx assigns fuel e { st with log := st.log ++ [.evalAssign name] } with
      | (st1, .error er) => (st1, .error er)
      | (st1, .ok v) => ({ st1 with scope := (name, v) :: st1.scope }, .ok v)
end

/-- the loop of `evaluate_assignments` over the table in name order -/
def evalAll (ctx : Ctx) (as : List (String × Expr)) (fuel : Nat) : List (String × Expr) → St → Res Unit
  | [], st => (st, .ok ())
  | (n, e) :: rest, st =>
    match evalAssignment ctx (some as) fuel n e st with
    | (st1, .error er) => (st1, .error er)
    | (st1, .ok _) => evalAll ctx as fuel rest st1

/-- `Evaluator::evaluate_assignments`: overrides are bound first -/
def evaluateAssignments (ctx : Ctx) (as : List (String × Expr)) (overrides : List (String × String))
    (fuel : Nat) : Res Unit :=
  let bound := overrides.filter (fun o => (as.lookup o.1).isSome)
  evalAll ctx as fuel as { scope := bound.reverse, log := [] }

end Just.Eval
