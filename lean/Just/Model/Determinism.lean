/-
Model of where iteration order can reach the output of non-executing commands: every table of a
compiled justfile is a `BTreeMap` (sorted, represented as a list) except `Justfile.unexports`,
which in the pinned source is a `HashSet` serialized by iteration (src/justfile.rs); the repaired
code uses a `BTreeSet`.
-/
namespace Just.Determinism

structure Compiled (α : Type) where
  /-- ordered tables (recipes, aliases, assignments, modules, settings …): order fixed by the keys -/
  tables : List (List α)
  /-- the SET of unexported names, listed in the order the container happens to iterate -/
  unexports : List α

/-- pinned source: the JSON array of `unexports` is the hash set's iteration order -/
def dumpHash {α : Type} (c : Compiled α) : List (List α) × List α := (c.tables, c.unexports)

/-- repaired source: an ordered set -/
def dumpOrdered {α : Type} (le : α → α → Bool) (c : Compiled α) : List (List α) × List α :=
  (c.tables, c.unexports.mergeSort le)

/-! ### name-keyed tables

`Table<K, V>` (src/table.rs) wraps a `BTreeMap<&str, V>`: `insert` puts the value at its key's
place in key order, replacing an earlier value of the same key; iteration, `Serialize` and every
listing follow key order. -/

/-- `Table::insert` / `BTreeMap::insert` on the sorted association list -/
def tinsert {α : Type} (k : String) (v : α) : List (String × α) → List (String × α)
  | [] => [(k, v)]
  | (k', v') :: rest =>
    if k = k' then (k, v) :: rest
    else if k < k' then (k, v) :: (k', v') :: rest
    else (k', v') :: tinsert k v rest

/-- the table after inserting the definitions in the order they are met -/
def build {α : Type} (defs : List (String × α)) : List (String × α) :=
  defs.foldl (fun t d => tinsert d.1 d.2 t) []

/-- what a listing or the dump shows of a table: the keys in iteration order -/
def keysOf {α : Type} (t : List (String × α)) : List String := t.map Prod.fst

end Just.Determinism
