/-
Model of where iteration order can reach the output of non-executing commands: every table of a
compiled justfile is a `BTreeMap` (sorted, represented as a list) except `Justfile.unexports`,
which in the pinned source is a `HashSet` serialized by iteration (src/justfile.rs); the repaired
code uses a `BTreeSet`.
-/
namespace Just.Determinism

structure Compiled (α : Type) where
  /-- ordered tables (recipes, aliases, assignments, modules, settings …): order fixed by the keys -/
  tables : List (List α)
  /-- the SET of unexported names, listed in the order the container happens to iterate -/
  unexports : List α

/-- pinned source: the JSON array of `unexports` is the hash set's iteration order -/
def dumpHash {α : Type} (c : Compiled α) : List (List α) × List α := (c.tables, c.unexports)

/-- repaired source: an ordered set -/
def dumpOrdered {α : Type} (le : α → α → Bool) (c : Compiled α) : List (List α) × List α :=
  (c.tables, c.unexports.mergeSort le)

/-! ### name-keyed tables

`Table<K, V>` (src/table.rs) wraps a `BTreeMap<&str, V>`: `insert` puts the value at its key's
place in key order, replacing an earlier value of the same key; iteration, `Serialize` and every
listing follow key order. -/

/-- `Table::insert` / `BTreeMap::insert` on the sorted association list -/
def tinsert {α : Type} (k : String) (v : α) : List (String × α) → List (String × α)
  | [] => [(k, v)]
  | (k', v') :: rest =>
    if k = k' then (k, v) :: rest
    else if k < k' then (k, v) :: (k', v') :: rest
    else (k', v') :: tinsert k v rest

/-- the table after inserting the definitions in the order they are met -/
def build {α : Type} (defs : List (String × α)) : List (String × α) :=
  defs.foldl (fun t d => tinsert d.1 d.2 t) []

/-- what a listing or the dump shows of a table: the keys in iteration order -/
def keysOf {α : Type} (t : List (String × α)) : List String := t.map Prod.fst

/-! ### suggestions ("Did you mean …?")

`Justfile::find_suggestion` (src/justfile.rs): the candidates are iterated in the order of their tables, those at edit
distance below 3 are kept, and `min_by_key` returns the FIRST of the nearest ones.  The edit distance (crate
`edit-distance`) is a parameter. -/

def pickNearest (dist : String → Nat) : Option String → List String → Option String
  | best, [] => best
  | none, c :: cs => pickNearest dist (some c) cs
  | some b, c :: cs => pickNearest dist (if dist c < dist b then some c else some b) cs

def suggest (dist : String → Nat) (cands : List String) : Option String :=
  pickNearest dist none (cands.filter (fun c => dist c < 3))

/-- `suggest_recipe`: the recipes' names, then the aliases' names, each in table order -/
def suggestRecipe {α β : Type} (dist : String → Nat) (recipes : List (String × α)) (aliases : List (String × β)) : Option String :=
  suggest dist (keysOf (build recipes) ++ keysOf (build aliases))

end Just.Determinism
