/-
Model of where iteration order can reach the output of non-executing commands: every table of a
compiled justfile is a `BTreeMap` (sorted, represented as a list) except `Justfile.unexports`,
which in the pinned source is a `HashSet` serialized by iteration (src/justfile.rs); the repaired
code uses a `BTreeSet`.
-/
namespace Just.Determinism

structure Compiled (α : Type) where
  /-- ordered tables (recipes, aliases, assignments, modules, settings …): order fixed by the keys -/
  tables : List (List α)
  /-- the SET of unexported names, listed in the order the container happens to iterate -/
  unexports : List α

/-- pinned source: the JSON array of `unexports` is the hash set's iteration order -/
def dumpHash {α : Type} (c : Compiled α) : List (List α) × List α := (c.tables, c.unexports)

/-- repaired source: an ordered set -/
def dumpOrdered {α : Type} (le : α → α → Bool) (c : Compiled α) : List (List α) × List α :=
  (c.tables, c.unexports.mergeSort le)

end Just.Determinism
