/-
Model of what environment a child process receives: `CommandExt::export` / `export_scope`
(src/command_ext.rs) over the scope chain (src/scope.rs).  An environment is a function from
names to optional values; `Command::env` / `env_remove` are point updates.
-/
namespace Just.EnvExport

structure Binding where
  name : String
  value : String
  exported : Bool     -- `export NAME := …` or `$param`
  constant : Bool     -- built-in constants (never exported, not even under `set export`)
  deriving Repr, Inhabited

/-- one scope's bindings (names are unique within a scope) -/
abbrev Scope := List Binding

abbrev Env := String → Option String

def setEnv (e : Env) (k v : String) : Env := fun n => if n = k then some v else e n
def removeEnv (e : Env) (k : String) : Env := fun n => if n = k then none else e n

def isExported (setExport : Bool) (b : Binding) : Bool := b.exported || (setExport && !b.constant)

/-- the exports of one scope, applied in order -/
def exportBindings (setExport : Bool) : Scope → Env → Env
  | [], e => e
  | b :: bs, e =>
    exportBindings setExport bs (if isExported setExport b then setEnv e b.name b.value else e)

def removeAll : List String → Env → Env
  | [], e => e
  | k :: ks, e => removeAll ks (removeEnv e k)

/-- `export_scope`, for a chain given outermost scope first: at every level the unexported names
are removed, then that level's exported bindings are set -/
def exportScopes (setExport : Bool) (unexports : List String) : List Scope → Env → Env
  | [], e => e
  | s :: rest, e =>
    exportScopes setExport unexports rest (exportBindings setExport s (removeAll unexports e))

def setAll : List (String × String) → Env → Env
  | [], e => e
  | (k, v) :: kvs, e => setAll kvs (setEnv e k v)

/-- `Command::export`: the dotenv entries, then every scope of the chain EXCEPT the innermost one
(the scope being defined / the empty body scope).  `chain` is outermost first. -/
def childEnv (base : Env) (dotenv : List (String × String)) (setExport : Bool)
    (unexports : List String) (chain : List Scope) : Env :=
  exportScopes setExport unexports chain.dropLast (setAll dotenv base)

end Just.EnvExport
