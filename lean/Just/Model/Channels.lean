/-
Model of the three channels through which a command-line word reaches a recipe's commands:
`Evaluator::evaluate_parameters` (src/evaluator.rs: the parameter scope and the positional
vector), `Recipe::run_linewise` / `run_script` (src/recipe.rs: argv of the child) and
`CommandExt::export` (src/command_ext.rs: environment of the child, model in `EnvExport`).
The third channel, `{{quote(x)}}`, is `Just.Quote`.
-/
import Just.Model.Args
import Just.Model.EnvExport
namespace Just.Channels
open Just.Args Just.EnvExport

/-- a recipe parameter: name, `$` marker, kind and default (`Args.Param`) -/
structure NParam where
  name : String
  exported : Bool
  p : Param
  deriving Repr, Inhabited

def mkBinding (q : NParam) (v : String) : Binding :=
  { name := q.name, value := v, exported := q.exported, constant := false }

/-- `Evaluator::evaluate_parameters`: the bindings of the parameter scope (in parameter order)
and the positional vector.  `bound` = the values of the earlier parameters (what a default may
refer to).  `none` is the evaluator's internal error (missing parameter without default). -/
def evalParams : List NParam → List String → List String → Option (Scope × List String)
  | [], _, _ => some ([], [])
  | q :: qs, [], bound =>
    match q.p.default with
    | some d =>
      let v := evalDefault bound d
      (evalParams qs [] (bound ++ [v])).map fun (sc, pos) => (mkBinding q v :: sc, v :: pos)
    | none =>
      if q.p.kind = .star then
        (evalParams qs [] (bound ++ [""])).map fun (sc, pos) => (mkBinding q "" :: sc, pos)
      else none
  | q :: qs, w :: ws, bound =>
    if q.p.isVariadic then
      let v := joinWith " " (w :: ws)
      (evalParams qs [] (bound ++ [v])).map fun (sc, pos) => (mkBinding q v :: sc, (w :: ws) ++ pos)
    else
      (evalParams qs ws (bound ++ [w])).map fun (sc, pos) => (mkBinding q w :: sc, w :: pos)

/-- argv of a linewise recipe's command: the shell and its arguments, the command text, and under
positional-arguments the recipe name (`$0`) followed by the positional vector -/
def linewiseArgv (shell : List String) (command : String) (positionalArgs : Bool) (name : String)
    (pos : List String) : List String :=
  shell ++ [command] ++ (if positionalArgs then name :: pos else [])

/-- argv of a shebang / script recipe: interpreter and its arguments, the script path, and under
positional-arguments the positional vector -/
def scriptArgv (interp : List String) (path : String) (positionalArgs : Bool) (pos : List String) :
    List String :=
  interp ++ [path] ++ (if positionalArgs then pos else [])

/-- environment of a recipe's child: `outer` are the scopes around the parameter scope, outermost
first (constants, parent modules, the module's assignments); the innermost scope (the recipe
body's own, empty) is not exported -/
def recipeEnv (base : Env) (dotenv : List (String × String)) (setExport : Bool)
    (unexports : List String) (outer : List Scope) (params : Scope) : Env :=
  childEnv base dotenv setExport unexports (outer ++ [params, []])

end Just.Channels
