/-
Model of where commands run: `ExecutionContext::working_directory`
(src/execution_context.rs), `Recipe::working_directory` (src/recipe.rs), `Source::root/import/
module` (src/source.rs), and the directory functions (src/function.rs).
Paths are absolute, as lists of components; joining an absolute path replaces the base.
-/
namespace Just.Workdir

abbrev Path := List String

inductive Rel where
  | abs (p : Path)
  | rel (p : List String)
  deriving Repr, Inhabited

/-- `PathBuf::join` -/
def join (base : Path) : Rel → Path
  | .abs p => p
  | .rel p => base ++ p

/-- how a source file was reached from its parent file -/
inductive Edge where
  | import (fileDir : Path)   -- `import "…"`: the file lies in `fileDir`
  | module (fileDir : Path)   -- `mod name`: the module's source file lies in `fileDir`
  deriving Repr, Inhabited

/-- `Source.working_directory` along a chain of edges starting from the root justfile
(`Source::root`, `Source::import`, `Source::module`); `none` = still the root module -/
def moduleDirOf : List Edge → Option Path → Option Path
  | [], acc => acc
  | .import _ :: es, acc => moduleDirOf es acc
  | .module d :: es, _ => moduleDirOf es (some d)

/-- directory of the source file at the end of the chain -/
def sourceDirOf (rootDir : Path) : List Edge → Path
  | [] => rootDir
  | [.import d] => d
  | [.module d] => d
  | _ :: es => sourceDirOf rootDir es

structure Search where
  justfileDir : Path     -- directory of the root justfile
  workDir : Path         -- `--working-directory`, else the justfile directory
  deriving Repr, Inhabited

structure Ctx where
  invocationDir : Path
  search : Search
  chain : List Edge            -- how the file containing the recipe was reached
  setting : Option Rel         -- `set working-directory` of the recipe's module
  deriving Repr, Inhabited

structure Attrs where
  noCd : Bool
  attr : Option Rel            -- `[working-directory(…)]`
  deriving Repr, Inhabited

/-- `ExecutionContext::working_directory` -/
def moduleWD (c : Ctx) : Path :=
  let base := match moduleDirOf c.chain none with
    | some d => d
    | none => c.search.workDir
  match c.setting with
  | some r => join base r
  | none => base

/-- where a recipe line / script runs (`None` current_dir = the invocation directory) -/
def recipeCwd (c : Ctx) (a : Attrs) : Path :=
  if a.noCd then c.invocationDir
  else match a.attr with
    | some r => join (moduleWD c) r
    | none => moduleWD c

/-- where backticks and `shell()` run -/
def backtickCwd (c : Ctx) : Path := moduleWD c

def invocationDirectory (c : Ctx) : Path := c.invocationDir
def justfileDirectory (c : Ctx) : Path := c.search.justfileDir
def sourceDirectory (c : Ctx) : Path := sourceDirOf c.search.justfileDir c.chain

end Just.Workdir
