/-
Model of the case-conversion functions `kebabcase`, `snakecase`, `shoutykebabcase`,
`shoutysnakecase`, `titlecase`, `uppercamelcase`, `lowercamelcase` (src/function.rs), i.e. of
`heck::transform` (heck 0.5.0, src/lib.rs) with the word writers `lowercase`, `uppercase`,
`capitalize`, on ASCII text: the text is cut at every character that is not a letter or digit;
inside such a piece a new word starts between a lower-case letter (digits carry the case of the
letter before them) and an upper-case letter, and before the last of a run of upper-case letters
that is followed by a lower-case letter.  Characters are natural numbers (code points); a text
with a code point above 127 is outside the model (`none` in `Case.apply`).
-/
namespace Just.Case

def isLower (c : Nat) : Bool := 97 ≤ c && c ≤ 122
def isUpper (c : Nat) : Bool := 65 ≤ c && c ≤ 90
def isDigit (c : Nat) : Bool := 48 ≤ c && c ≤ 57
def isAlnum (c : Nat) : Bool := isLower c || isUpper c || isDigit c

def toLower (c : Nat) : Nat := if isUpper c then c + 32 else c
def toUpper (c : Nat) : Nat := if isLower c then c - 32 else c

/-- `WordMode` of `transform` -/
inductive Mode where
  | boundary | lower | upper
  deriving DecidableEq, Repr

/-- the mode after the character `c` when no word ends here -/
def nextMode (m : Mode) (c : Nat) : Mode :=
  if isLower c then .lower else if isUpper c then .upper else m

/-- The `while let` loop of `transform` over one piece without separators: `cur` holds the
    characters of the word being collected (`word[init..i]`, newest first). -/
def scan : Mode → List Nat → List Nat → List (List Nat)
  | _, _, [] => []
  | _, cur, [c] => [(c :: cur).reverse]
  | m, cur, c :: next :: rest =>
    if nextMode m c = .lower && isUpper next then
      (c :: cur).reverse :: scan .boundary [] (next :: rest)
    else if m = .upper && isUpper c && isLower next then
      cur.reverse :: scan .boundary [c] (next :: rest)
    else
      scan (nextMode m c) (c :: cur) (next :: rest)

/-- `s.split(|c| !c.is_alphanumeric())`: `cur` is the piece being collected (newest first) -/
def pieces : List Nat → List Nat → List (List Nat)
  | cur, [] => [cur.reverse]
  | cur, c :: rest => if isAlnum c then pieces (c :: cur) rest else cur.reverse :: pieces [] rest

/-- the words `transform` hands to `with_word`, in order -/
def words (s : List Nat) : List (List Nat) :=
  (pieces [] s).flatMap (scan .boundary [])

def lowerWord (w : List Nat) : List Nat := w.map toLower
def upperWord (w : List Nat) : List Nat := w.map toUpper
def capWord : List Nat → List Nat
  | [] => []
  | c :: cs => toUpper c :: cs.map toLower

/-- words written with `sep` between them (`boundary` is called before every word but the first) -/
def joinWith (sep : List Nat) : List (List Nat) → List Nat
  | [] => []
  | [w] => w
  | w :: ws => w ++ sep ++ joinWith sep ws

def kebab (s : List Nat) : List Nat := joinWith [45] ((words s).map lowerWord)
def snake (s : List Nat) : List Nat := joinWith [95] ((words s).map lowerWord)
def shoutyKebab (s : List Nat) : List Nat := joinWith [45] ((words s).map upperWord)
def shoutySnake (s : List Nat) : List Nat := joinWith [95] ((words s).map upperWord)
def title (s : List Nat) : List Nat := joinWith [32] ((words s).map capWord)
def upperCamel (s : List Nat) : List Nat := joinWith [] ((words s).map capWord)
def lowerCamel (s : List Nat) : List Nat :=
  match words s with
  | [] => []
  | w :: ws => joinWith [] (lowerWord w :: ws.map capWord)

def isAscii (s : List Nat) : Bool := s.all (· < 128)

/-- the function named `fn` on the text `s`; `none` outside the model -/
def apply (fn : String) (s : List Nat) : Option (List Nat) :=
  if !isAscii s then none else
  match fn with
  | "kebabcase" => some (kebab s)
  | "snakecase" => some (snake s)
  | "shoutykebabcase" => some (shoutyKebab s)
  | "shoutysnakecase" => some (shoutySnake s)
  | "titlecase" => some (title s)
  | "uppercamelcase" => some (upperCamel s)
  | "lowercamelcase" => some (lowerCamel s)
  | _ => none

end Just.Case
