/-
Model of just's `quote()` (src/function.rs) and of POSIX shell word recognition for the quoting
subset: single quotes, backslash escapes outside quotes, blanks; every other unquoted special
character makes the recogniser give up (`none`, "outside the subset").
-/
namespace Just.Quote

/-- body of `quote`: each `'` becomes `'\''` -/
def quoteChars : List Char → List Char
  | [] => []
  | c :: cs =>
    if c = '\'' then '\'' :: '\\' :: '\'' :: '\'' :: quoteChars cs else c :: quoteChars cs

/-- `quote(s)`: `format!("'{}'", s.replace('\'', "'\\''"))` -/
def quote (s : List Char) : List Char := '\'' :: (quoteChars s ++ ['\''])

inductive Mode where
  | out    -- between words
  | word   -- inside an unquoted part of a word
  | sq     -- inside single quotes
  | esc    -- right after an unquoted backslash
  deriving DecidableEq, Repr

structure St where
  mode : Mode
  cur : List Char            -- current word, reversed
  acc : List (List Char)     -- finished words, reversed
  deriving Repr

def isBlank (c : Char) : Bool := c = ' ' || c = '\t'

/-- characters with a meaning of their own when unquoted (outside the modelled subset) -/
def isSpecial (c : Char) : Bool :=
  c = '\n' || c = '|' || c = '&' || c = ';' || c = '<' || c = '>' || c = '(' || c = ')' ||
  c = '$' || c = '`' || c = '"' || c = '*' || c = '?' || c = '[' || c = ']' || c = '#' ||
  c = '~' || c = '=' || c = '%' || c = '{' || c = '}' || c = '!' || c = '\x00'

def stepC (st : St) (c : Char) : Option St :=
  match st.mode with
  | .sq => if c = '\'' then some { st with mode := .word } else some { st with cur := c :: st.cur }
  | .esc => if c = '\n' then none else some { st with mode := .word, cur := c :: st.cur }
  | .out =>
    if c = '\'' then some { st with mode := .sq, cur := [] }
    else if c = '\\' then some { st with mode := .esc, cur := [] }
    else if isBlank c then some st
    else if isSpecial c then none
    else some { st with mode := .word, cur := [c] }
  | .word =>
    if c = '\'' then some { st with mode := .sq }
    else if c = '\\' then some { st with mode := .esc }
    else if isBlank c then some { mode := .out, cur := [], acc := st.cur.reverse :: st.acc }
    else if isSpecial c then none
    else some { st with cur := c :: st.cur }

def shRun (st : St) : List Char → Option St
  | [] => some st
  | c :: cs =>
    match stepC st c with
    | none => none
    | some st' => shRun st' cs

def finish (st : St) : Option (List (List Char)) :=
  match st.mode with
  | .out => some st.acc.reverse
  | .word => some (st.cur.reverse :: st.acc).reverse
  | .sq => none
  | .esc => none

def init : St := { mode := .out, cur := [], acc := [] }

/-- the words a POSIX shell sees in `input` (for inputs inside the subset) -/
def shSplit (input : List Char) : Option (List (List Char)) :=
  match shRun init input with
  | none => none
  | some st => finish st

end Just.Quote
