/-
Model of how command-line words bind to recipes and parameters:
`Positional::from_values` (src/positional.rs), `ArgumentParser` (src/argument_parser.rs),
`ModulePath::try_from` (src/module_path.rs), `Recipe::min_arguments/max_arguments`
(src/recipe.rs) and `Evaluator::evaluate_parameters` (src/evaluator.rs).
-/
namespace Just.Args

inductive PKind where
  | singular | plus | star
  deriving DecidableEq, Repr, Inhabited

/-- a default value: concatenation of literal pieces and references to earlier parameters -/
inductive Piece where
  | lit (s : String)
  | ref (i : Nat)
  deriving Repr, Inhabited

structure Param where
  kind : PKind
  default : Option (List Piece)
  deriving Repr, Inhabited

structure Sig where
  id : String          -- identifies the recipe (module path + name) in the harness
  name : String
  params : List Param
  deriving Repr, Inhabited

/-- a module: recipes and aliases by name (`get_recipe`), submodules, default recipe, and whether
the recipe table itself (aliases apart) is non-empty -/
inductive Mod where
  | mk (recipes : List (String × Sig)) (modules : List (String × Mod)) (default : Option Sig)
      (hasRecipes : Bool)
  deriving Repr, Inhabited

def Mod.recipes : Mod → List (String × Sig) | .mk r _ _ _ => r
def Mod.modules : Mod → List (String × Mod) | .mk _ m _ _ => m
def Mod.default : Mod → Option Sig | .mk _ _ d _ => d
def Mod.hasRecipes : Mod → Bool | .mk _ _ _ h => h

def lookup {α : Type} : List (String × α) → String → Option α
  | [], _ => none
  | (k, v) :: rest, key => if k = key then some v else lookup rest key

def Param.isVariadic (p : Param) : Bool := p.kind != .singular

/-- `Recipe::min_arguments` -/
def minArgs (s : Sig) : Nat :=
  (s.params.filter (fun p => p.default.isNone && p.kind != .star)).length

/-- `Recipe::max_arguments` (`none` = unbounded) -/
def maxArgs (s : Sig) : Option Nat :=
  if s.params.any Param.isVariadic then none else some s.params.length

inductive Err where
  | unknownRecipe (what : String)
  | unknownSubmodule (path : String)
  | expectedSubmodule (path : String)
  | argCount (recipe : String) (found min : Nat) (max : Option Nat)
  | defaultRequiresArgs (recipe : String)
  | noRecipes
  | noDefault
  | missingParameter     -- the evaluator's internal error
  | fuel
  deriving Repr, Inhabited, DecidableEq

structure Group where
  sig : Sig
  path : List String       -- resolved path (module names, recipe name)
  pathWords : List String  -- the words of the command line that named it
  args : List String
  deriving Repr, Inhabited

def joinWith (sep : String) : List String → String
  | [] => ""
  | [x] => x
  | x :: xs => x ++ sep ++ joinWith sep xs

/-- `ArgumentParser::resolve_recipe`: returns the recipe, its path and the number of words used. -/
def resolve (modulePath : Bool) : Mod → List String → List String → Nat →
    Except Err (Sig × List String × Nat)
  | cur, [], path, i =>
    match cur.default with
    | some r =>
      if minArgs r > 0 then .error (.defaultRequiresArgs r.name) else .ok (r, path ++ [r.name], i)
    | none => if !cur.hasRecipes then .error .noRecipes else .error .noDefault
  | cur, a :: rest, path, i =>
    let sep := if modulePath then "::" else " "
    match lookup cur.modules a with
    | some m => resolve modulePath m rest (path ++ [a]) (i + 1)
    | none =>
      match lookup cur.recipes a with
      | some r =>
        if modulePath && !rest.isEmpty then .error (.expectedSubmodule (joinWith sep (path ++ [a])))
        else .ok (r, path ++ [a], i + 1)
      | none =>
        if modulePath && !rest.isEmpty then .error (.unknownSubmodule (joinWith sep (path ++ [a])))
        else .error (.unknownRecipe (joinWith sep (path ++ [a])))

def isIdentStart (c : Char) : Bool := c.isAlpha || c = '_'
def isIdentContinue (c : Char) : Bool := isIdentStart c || c.isDigit || c = '-'

/-- `Lexer::is_identifier` -/
def isIdentifier (s : String) : Bool :=
  match s.toList with
  | [] => false
  | c :: cs => isIdentStart c && cs.all isIdentContinue

/-- `ModulePath::try_from(&[word])` for a word containing `:` -/
def modulePathOf (w : String) : Option (List String) :=
  if w.startsWith ":" || w.endsWith ":" || (w.splitOn ":::").length > 1 then none
  else
    let parts := w.splitOn "::"
    if parts.all isIdentifier then some parts else none

/-- first half of `ArgumentParser::parse_group`: which recipe the next words name.
Returns the recipe, its path, the words that named it and the words left. -/
def resolveHead (root : Mod) (words : List String) :
    Except Err (Sig × List String × List String × List String) :=
  match words with
  | [] =>
    match resolve false root [] [] 0 with
    | .error e => .error e
    | .ok (r, path, _) => .ok (r, path, [], [])
  | next :: after =>
    if next.contains ':' then
      match modulePathOf next with
      | none => .error (.unknownRecipe next)
      | some comps =>
        match resolve true root comps [] 0 with
        | .error e => .error e
        | .ok (r, path, _) => .ok (r, path, [next], after)
    else
      match resolve false root words [] 0 with
      | .error e => .error e
      | .ok (r, path, consumed) => .ok (r, path, words.take consumed, words.drop consumed)

/-- `cmp::min(rest.len(), recipe.max_arguments())` -/
def argCount (r : Sig) (restLen : Nat) : Nat :=
  match maxArgs r with
  | none => restLen
  | some m => min restLen m

/-- `ArgumentParser::parse_group` on the remaining words: one group and the words left over. -/
def parseGroup (root : Mod) (words : List String) : Except Err (Group × List String) :=
  match resolveHead root words with
  | .error e => .error e
  | .ok (r, path, pathWords, rest) =>
    if argCount r rest.length < minArgs r then
      .error (.argCount r.name rest.length (minArgs r) (maxArgs r))
    else
      .ok ({ sig := r, path := path, pathWords := pathWords, args := rest.take (argCount r rest.length) },
        rest.drop (argCount r rest.length))

/-- `ArgumentParser::parse_arguments` -/
def parseLoop (root : Mod) : Nat → List String → Except Err (List Group)
  | 0, _ => .error .fuel
  | fuel + 1, words =>
    match parseGroup root words with
    | .error e => .error e
    | .ok (g, rest) =>
      if rest.isEmpty then .ok [g]
      else match parseLoop root fuel rest with
        | .error e => .error e
        | .ok gs => .ok (g :: gs)

def parseArguments (root : Mod) (words : List String) : Except Err (List Group) :=
  parseLoop root (words.length + 1) words

def evalDefault (bound : List String) : List Piece → String
  | [] => ""
  | .lit s :: ps => s ++ evalDefault bound ps
  | .ref i :: ps => bound.getD i "" ++ evalDefault bound ps

/-- `Evaluator::evaluate_parameters`: the value bound to each parameter, in order. -/
def bindArgs : List Param → List String → List String → Except Err (List String)
  | [], _, bound => .ok bound
  | p :: ps, [], bound =>
    match p.default with
    | some d => bindArgs ps [] (bound ++ [evalDefault bound d])
    | none => if p.kind = .star then bindArgs ps [] (bound ++ [""]) else .error .missingParameter
  | p :: ps, w :: ws, bound =>
    if p.isVariadic then bindArgs ps [] (bound ++ [joinWith " " (w :: ws)])
    else bindArgs ps ws (bound ++ [w])

/-- `Positional::override_from_value` -/
def overrideOf (w : String) : Option (String × String) :=
  match w.splitOn "=" with
  | [] => none
  | [_] => none
  | name :: rest => if isIdentifier name then some (name, joinWith "=" rest) else none

structure Positional where
  overrides : List (String × String) := []
  searchDir : Option String := none
  args : List String := []
  deriving Repr, Inhabited

/-- text up to and including the last `/`, and the tail after it -/
def splitLastSlash (w : String) : Option (String × String) :=
  match (w.splitOn "/").reverse with
  | [] => none
  | [_] => none
  | tail :: revInit => some (joinWith "/" revInit.reverse ++ "/", tail)

/-- `Positional::from_values` -/
def positional : List String → Positional → Positional
  | [], acc => acc
  | w :: ws, acc =>
    if acc.searchDir.isNone && acc.args.isEmpty then
      match overrideOf w with
      | some o => positional ws { acc with overrides := acc.overrides ++ [o] }
      | none =>
        if w = "." || w = ".." then positional ws { acc with searchDir := some w }
        else match splitLastSlash w with
          | some (dir, tail) =>
            positional ws { acc with searchDir := some dir, args := if tail = "" then acc.args else acc.args ++ [tail] }
          | none => positional ws { acc with args := acc.args ++ [w] }
    else positional ws { acc with args := acc.args ++ [w] }

/-- `Analyzer::analyze_recipe` and the parser on parameter lists: a variadic parameter is last, and no requiredCount
parameter follows a defaulted one -/
def validParams : List Param → Bool
  | [] => true
  | p :: ps =>
    (if p.isVariadic then ps.isEmpty else true) &&
    (if p.default.isSome then ps.all (fun q => q.default.isSome || q.kind = .star) else true) &&
    validParams ps


end Just.Args
