/-
Model of just's fatal-signal bookkeeping (src/signal_handler.rs `interrupt` / `spawn`, and the
callers in src/recipe.rs, src/command_ext.rs): a transition system whose steps are atomic because
the real handler state sits behind one mutex.

`record` = whether the handler remembers the signal in `caught`.  In the pinned source that
assignment is compiled only on BSD/macOS (`record = false` on Linux); the repaired code records
on every platform (`record = true`).
-/
import Just.Model.Run
import Just.Generated.Tables
namespace Just.Signals
open Just.Run (Status Err)

inductive Sig where
  | hup | int | quit | term
  deriving DecidableEq, Repr, Inhabited

/-- the variant's name in `enum Signal` (src/signal.rs) -/
def Sig.variant : Sig → String
  | .hup => "Hangup"
  | .int => "Interrupt"
  | .quit => "Quit"
  | .term => "Terminate"

def Sig.num : Sig → Nat
  | .hup => 1
  | .int => 2
  | .quit => 3
  | .term => 15

/-- a command the main thread runs: a recipe line (possibly `-`), a script, a backtick -/
structure Cmd where
  infallible : Bool
  deriving DecidableEq, Repr, Inhabited

inductive Step where
  | spawn                 -- main thread spawns and registers the next command
  | finish (st : Status)  -- the registered child ends with `st`; main thread unregisters it and decides
  | signal (g : Sig)      -- the handler thread processes `g`
  deriving Repr, Inhabited

structure St where
  todo : List Cmd
  running : Option Cmd := none
  caught : Option Sig := none
  exited : Option Nat := none
  spawned : Nat := 0
  forwarded : Nat := 0
  deriving Repr, Inhabited

def init (cmds : List Cmd) : St := { todo := cmds }

/-- what the main thread does once the child of `c` has ended with `st` -/
def afterChild (s : St) (c : Cmd) (st : Status) : St :=
  let s' := { s with running := none }
  match st.toErr with
  | some e =>
    if c.infallible then (if s'.todo.isEmpty then { s' with exited := some 0 } else s')
    else { s' with exited := some e.exit }
  | none =>
    if c.infallible then (if s'.todo.isEmpty then { s' with exited := some 0 } else s')
    else match s'.caught with
      | some g => { s' with exited := some (128 + g.num) }
      | none => if s'.todo.isEmpty then { s' with exited := some 0 } else s'

def step (record : Bool) (s : St) (x : Step) : St :=
  if s.exited.isSome then s else
  match x with
  | .signal g =>
    match s.running with
    | none => { s with exited := some (128 + g.num) }
    | some _ =>
      { s with
        caught := if record then (match s.caught with | some c => some c | none => some g) else s.caught
        forwarded := if g = .term then s.forwarded + 1 else s.forwarded }
  | .spawn =>
    match s.running, s.todo with
    | none, c :: cs => { s with running := some c, todo := cs, spawned := s.spawned + 1 }
    | _, _ => s
  | .finish st =>
    match s.running with
    | none => s
    | some c => afterChild s c st

def run (record : Bool) (s : St) : List Step → St
  | [] => s
  | x :: xs => run record (step record s x) xs

end Just.Signals
