/-
Model of loading and merging source files: `Compiler::compile` (src/compiler.rs: LIFO stack of
`Source`s with their `file_path` chain, circular-import check, optional edges), `Source::import` /
`Source::module` depths (src/source.rs), and the item collection / duplicate resolution of
`Analyzer::justfile` (src/analyzer.rs: imports flattened LIFO, each file once; a definition
replaces an earlier one when its depth is not larger).
Files are numbered; `none` as an edge target means the file does not exist.
-/
namespace Just.Imports

inductive Item where
  | import (target : Option Nat) (optional : Bool)
  | module (name : String) (target : Option Nat) (optional : Bool)
  | recipe (name : String)
  | variable (name : String)
  deriving Repr, DecidableEq, Inhabited

structure File where
  items : List Item
  allowDupRecipes : Bool := false
  allowDupVars : Bool := false
  deriving Repr, Inhabited

abbrev FS := List File

inductive Err where
  | circular (current target : Nat)
  | missingImport (current : Nat)
  | missingModule (current : Nat) (name : String)
  | duplicateRecipe (name : String)
  | duplicateVariable (name : String)
  | duplicateModule (name : String)
  | fuel
  | badFile
  deriving Repr, DecidableEq, Inhabited

/-- a `Source`: the file, the chain of files that led to it (itself last), its depth -/
structure Source where
  file : Nat
  chain : List Nat
  depth : Nat
  deriving Repr, Inhabited

/-- the sources one file pushes, in item order (`none` = error) -/
def pushes (cur : Source) : List Item → Except Err (List Source)
  | [] => .ok []
  | .import (some t) _ :: rest =>
    if t ∈ cur.chain then .error (.circular cur.file t)
    else match pushes cur rest with
      | .error e => .error e
      | .ok ss => .ok (⟨t, cur.chain ++ [t], cur.depth + 1⟩ :: ss)
  | .import none optional :: rest =>
    if optional then pushes cur rest else .error (.missingImport cur.file)
  | .module _ (some t) _ :: rest =>
    if t ∈ cur.chain then .error (.circular cur.file t)
    else match pushes cur rest with
      | .error e => .error e
      | .ok ss => .ok (⟨t, cur.chain ++ [t], cur.depth + 1⟩ :: ss)
  | .module name none optional :: rest =>
    if optional then pushes cur rest else .error (.missingModule cur.file name)
  | _ :: rest => pushes cur rest

/-- `asts.insert(path, ast)`: the depth recorded for a file is that of its LAST load -/
def record (depths : List (Nat × Nat)) (f d : Nat) : List (Nat × Nat) :=
  (f, d) :: depths.filter (fun p => p.1 != f)

/-- `Compiler::compile`'s loop: pop the top source, load it, push what it refers to (the last
pushed is loaded next) -/
def loadLoop (fs : FS) : Nat → List Source → List (Nat × Nat) → List Source →
    Except Err (List (Nat × Nat) × List Source)
  | 0, _, _, _ => .error .fuel
  | _, [], depths, log => .ok (depths, log)
  | fuel + 1, cur :: stack, depths, log =>
    match fs[cur.file]? with
    | none => .error .badFile
    | some file =>
      match pushes cur file.items with
      | .error e => .error e
      | .ok ss =>
        loadLoop fs fuel (ss.reverse ++ stack) (record depths cur.file cur.depth) (log ++ [cur])

/-- returns the recorded depth per file and (ghost) every source that was loaded, in order -/
def load (fs : FS) (fuel : Nat) : Except Err (List (Nat × Nat) × List Source) :=
  loadLoop fs fuel [⟨0, [0], 0⟩] [] []

/-! ### merging: one module = the import closure of its root file -/

structure Def where
  name : String
  file : Nat
  depth : Nat
  deriving Repr, DecidableEq, Inhabited

/-- the order in which the analyzer processes the files of one module: the root, then imports
popped LIFO, each file once (`imports.insert`) -/
def processLoop (fs : FS) : Nat → List Nat → List Nat → List Nat → List Nat
  | 0, _, _, acc => acc
  | _, [], _, acc => acc
  | fuel + 1, f :: stack, seen, acc =>
    match fs[f]? with
    | none => processLoop fs fuel stack seen acc
    | some file =>
      let step := file.items.foldl (fun (a : List Nat × List Nat) it =>
        match it with
        | .import (some t) _ => if t ∈ a.2 then a else (a.1 ++ [t], t :: a.2)
        | _ => a) ([], seen)
      processLoop fs fuel (step.1.reverse ++ stack) step.2 (acc ++ [f])

def processed (fs : FS) (root : Nat) : List Nat :=
  processLoop fs (fs.length + 1) [root] [root] []

def depthOf (depths : List (Nat × Nat)) (f : Nat) : Nat := (depths.lookup f).getD 0

def recipesOf (fs : FS) (depths : List (Nat × Nat)) (f : Nat) : List Def :=
  match fs[f]? with
  | none => []
  | some file => file.items.filterMap (fun it =>
      match it with
      | .recipe n => some ⟨n, f, depthOf depths f⟩
      | _ => none)

def varsOf (fs : FS) (depths : List (Nat × Nat)) (f : Nat) : List Def :=
  match fs[f]? with
  | none => []
  | some file => file.items.filterMap (fun it =>
      match it with
      | .variable n => some ⟨n, f, depthOf depths f⟩
      | _ => none)

/-- the table update of the analyzer: a definition replaces the current one of the same name when
its depth is NOT LARGER -/
def insertDef (table : List Def) (d : Def) : List Def :=
  match table.find? (fun x => x.name = d.name) with
  | none => table ++ [d]
  | some old => if d.depth ≤ old.depth then table.map (fun x => if x.name = d.name then d else x) else table

def dedup (defs : List Def) : List Def := defs.foldl insertDef []

def firstDuplicate : List String → Option String
  | [] => none
  | n :: rest => if rest.contains n then some n else firstDuplicate rest

/-- settings of a module: any file of its closure may set them (`Settings::from_table`) -/
def anyFile (fs : FS) (files : List Nat) (p : File → Bool) : Bool :=
  files.any (fun f => match fs[f]? with | some file => p file | none => false)

structure ModuleTable where
  root : Nat
  files : List Nat
  recipes : List Def
  vars : List Def
  subs : List (String × Nat)
  deriving Repr, Inhabited

/-- one module's tables (submodules by name with their root file) -/
def analyzeModule (fs : FS) (depths : List (Nat × Nat)) (root : Nat) : Except Err ModuleTable :=
  let files := processed fs root
  let recipes := files.flatMap (recipesOf fs depths)
  let vars := files.flatMap (varsOf fs depths)
  let subs := files.flatMap (fun f => match fs[f]? with
    | none => ([] : List (String × Nat))
    | some file => file.items.filterMap (fun it => match it with
      | .module n (some t) _ => some (n, t)
      | _ => none))
  match firstDuplicate (subs.map Prod.fst) with
  | some n => .error (.duplicateModule n)
  | none =>
    if !anyFile fs files File.allowDupRecipes && (firstDuplicate (recipes.map Def.name)).isSome then
      .error (.duplicateRecipe ((firstDuplicate (recipes.map Def.name)).getD ""))
    else if !anyFile fs files File.allowDupVars && (firstDuplicate (vars.map Def.name)).isSome then
      .error (.duplicateVariable ((firstDuplicate (vars.map Def.name)).getD ""))
    else .ok { root := root, files := files, recipes := dedup recipes, vars := dedup vars, subs := subs }

end Just.Imports
