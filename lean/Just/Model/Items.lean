import Just.Model.Header
/-
Token-level model of the remaining parts of simple items: recipe bodies (`parse_body` and the body
part of `ColorDisplay for Recipe`), assignments (`parse_assignment`, `Display for Assignment`) and
aliases (`parse_alias`, `Display for Alias<Namepath>`).
-/
namespace Just.Items
open Just Just.Syntax Just.Header

def tIndent : Tk := .other "Indent"
def tDedent : Tk := .other "Dedent"
def tInterpolationStart : Tk := .other "InterpolationStart"
def tInterpolationEnd : Tk := .other "InterpolationEnd"

inductive Frag where
  | text (lexeme : String)
  | interp (e : Expr)
  deriving Repr, Inhabited

abbrev BLine := List Frag

/-! ### bodies -/

def printFrag : Frag → List Tk
  | .text s => [.text s]
  | .interp e => tInterpolationStart :: (printE e ++ [tInterpolationEnd])

def printLine : BLine → List Tk
  | [] => []
  | f :: fs => printFrag f ++ printLine fs

/-- lines, each followed by its end of line -/
def printLines : List BLine → List Tk
  | [] => []
  | l :: ls => printLine l ++ tEol :: printLines ls

/-- the body as the lexer presents it: `Indent`, the lines, `Dedent`; no tokens at all for an empty body -/
def printBody : List BLine → List Tk
  | [] => []
  | l :: ls => tIndent :: (printLines (l :: ls) ++ [tDedent])

/-- fragments of one line, up to its `Eol` (consumed) or to a `Dedent` (left) -/
def parseFrags (efuel : Nat) : Nat → List Tk → Option (BLine × List Tk)
  | 0, _ => none
  | f + 1, ts =>
    match ts with
    | .other "Eol" :: r => some ([], r)
    | .other "Dedent" :: _ => some ([], ts)
    | .text s :: r =>
      match parseFrags efuel f r with
      | some (fs, r') => some (.text s :: fs, r')
      | none => none
    | .other "InterpolationStart" :: r =>
      match parseExpression efuel r with
      | some (e, r1) =>
        match r1 with
        | .other "InterpolationEnd" :: r2 =>
          match parseFrags efuel f r2 with
          | some (fs, r') => some (.interp e :: fs, r')
          | none => none
        | _ => none
      | none => none
    | _ => none

/-- `while !self.accepted(Dedent)` -/
def parseLines (efuel ffuel : Nat) : Nat → List Tk → Option (List BLine × List Tk)
  | 0, _ => none
  | f + 1, ts =>
    match ts with
    | .other "Dedent" :: r => some ([], r)
    | _ =>
      match parseFrags efuel ffuel ts with
      | some (l, r) =>
        match parseLines efuel ffuel f r with
        | some (ls, r') => some (l :: ls, r')
        | none => none
      | none => none

/-- `while lines.last().is_some_and(Line::is_empty) { lines.pop(); }` -/
def dropTrailingEmpty : List BLine → List BLine
  | [] => []
  | l :: ls =>
    match dropTrailingEmpty ls with
    | [] => if l.isEmpty then [] else [l]
    | ls' => l :: ls'

/-- `parse_body` -/
def parseBody (fuel : Nat) (ts : List Tk) : Option (List BLine × List Tk) :=
  match ts with
  | .other "Indent" :: r =>
    match parseLines fuel fuel fuel r with
    | some (ls, r') => some (dropTrailingEmpty ls, r')
    | none => none
  | _ => some ([], ts)

/-! ### a recipe: header line and body -/

structure Recipe where
  header : Header
  body : List BLine
  deriving Repr, Inhabited

def printRecipe (r : Recipe) : List Tk := printHeader r.header ++ printBody r.body

/-- `parse_recipe` up to the end of the body -/
def parseRecipe (fuel : Nat) (ts : List Tk) : Option (Recipe × List Tk) :=
  match parseHeader fuel ts with
  | some (h, r) =>
    match parseBody fuel r with
    | some (b, r') => some (⟨h, b⟩, r')
    | none => none
  | none => none

/-! ### assignments and aliases -/

structure Assignment where
  exported : Bool
  name : String
  value : Expr
  deriving Repr, Inhabited

def printExport (exported : Bool) : List Tk := if exported then [.ident "export"] else []

def printAssignment (a : Assignment) : List Tk :=
  printExport a.exported ++ [.ident a.name, tColonEquals] ++ printE a.value ++ [tEol]

/-- `parse_assignment` with the `export` keyword handled as in `parse_ast` -/
def parseAssignment (fuel : Nat) (ts : List Tk) : Option (Assignment × List Tk) :=
  match ts with
  | .ident "export" :: .ident n :: .other "ColonEquals" :: r =>
    match parseExpression fuel r with
    | some (e, r1) =>
      match expectEol r1 with
      | some r2 => some (⟨true, n, e⟩, r2)
      | none => none
    | none => none
  | .ident n :: .other "ColonEquals" :: r =>
    match parseExpression fuel r with
    | some (e, r1) =>
      match expectEol r1 with
      | some r2 => some (⟨false, n, e⟩, r2)
      | none => none
    | none => none
  | _ => none

structure Alias where
  name : String
  target : String
  path : List String       -- further `::`-separated components
  deriving Repr, Inhabited

def printPath : List String → List Tk
  | [] => []
  | p :: ps => tColonColon :: .ident p :: printPath ps

def printAlias (a : Alias) : List Tk :=
  [.ident "alias", .ident a.name, tColonEquals, .ident a.target] ++ printPath a.path ++ [tEol]

def parsePath : Nat → List Tk → Option (List String × List Tk)
  | 0, _ => none
  | f + 1, ts =>
    match ts with
    | .other "ColonColon" :: .ident p :: r =>
      match parsePath f r with
      | some (ps, r') => some (p :: ps, r')
      | none => none
    | _ => some ([], ts)

/-- `parse_alias` -/
def parseAlias (fuel : Nat) (ts : List Tk) : Option (Alias × List Tk) :=
  match ts with
  | .ident "alias" :: .ident n :: .other "ColonEquals" :: .ident t :: r =>
    match parsePath fuel r with
    | some (ps, r1) =>
      match expectEol r1 with
      | some r2 => some (⟨n, t, ps⟩, r2)
      | none => none
    | none => none
  | _ => none

end Just.Items
