import Just.Generated.Tables
/-
Model of environment-file handling: `load_dotenv` (src/load_dotenv.rs), the flag/setting
precedence of src/config.rs, `Justfile::run` (`config.load_dotenv`).
-/
namespace Just.Dotenv

structure Cfg where
  -- settings of the ROOT justfile
  setLoad : Bool := false
  setFilename : Option String := none
  setPath : Option String := none
  setRequired : Bool := false
  -- command line
  flagFilename : Option String := none
  flagPath : Option String := none
  noDotenv : Bool := false
  deriving Repr, Inhabited

structure FS where
  /-- `working_directory.join(path).is_file()` -/
  pathIsFile : String → Bool
  /-- regular files per ancestor directory of the working directory, nearest first -/
  ancestors : List (List String)

inductive Res where
  | inactive                           -- nothing is probed, nothing loaded
  | loadedPath (p : String)            -- the file at dotenv-path
  | loadedFile (level : Nat) (name : String)
  | empty                              -- looked, found nothing, not required
  | errorRequired
  deriving Repr, DecidableEq, Inhabited

def findFile (name : String) : List (List String) → Nat → Option Nat
  | [], _ => none
  | d :: ds, i => if d.contains name then some i else findFile name ds (i + 1)

def filenameOf (c : Cfg) : Option String := c.flagFilename <|> c.setFilename
def pathOf (c : Cfg) : Option String := c.flagPath <|> c.setPath

def active (c : Cfg) : Bool :=
  c.setLoad || (filenameOf c).isSome || (pathOf c).isSome || c.setRequired

def load (c : Cfg) (fs : FS) : Res :=
  if c.noDotenv then .inactive
  else if !active c then .inactive
  else
    let viaFilename : Res :=
      let name := (filenameOf c).getD Generated.defaultDotenvName
      match findFile name fs.ancestors 0 with
      | some l => .loadedFile l name
      | none => if c.setRequired then .errorRequired else .empty
    match pathOf c with
    | some p => if fs.pathIsFile p then .loadedPath p else viaFilename
    | none => viaFilename

/-- entries of the file that reach children / `env()`: only names not already in the environment -/
def merge (environment : String → Option String) (file : List (String × String)) : List (String × String) :=
  file.filter (fun kv => (environment kv.1).isNone)

/-- what a child / `env(name)` sees -/
def visible (environment : String → Option String) (file : List (String × String)) (name : String) :
    Option String :=
  match environment name with
  | some v => some v
  | none => (merge environment file).lookup name

end Just.Dotenv
