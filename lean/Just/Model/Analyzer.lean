/-
Model of just's static checks: the variable walker `Variables::next` (src/variables.rs),
`Thunk::resolve` arity (src/thunk.rs) over the function table regenerated from src/function.rs,
`AssignmentResolver` (src/assignment_resolver.rs), `RecipeResolver` and dependency arity
(src/recipe_resolver.rs, src/unresolved_recipe.rs), duplicate detection (src/analyzer.rs).
-/
import Just.Model.Expr
import Just.Model.Dfs
import Just.Generated.Tables
namespace Just.Analyzer
open Just

/-! ### functions and their arity classes -/

/-- does a function of class `cls` accept `n` arguments (`Function::argc`, `Thunk::resolve`) -/
def classAccepts (cls : String) (n : Nat) : Bool :=
  if cls = "Nullary" then n = 0
  else if cls = "Unary" then n = 1
  else if cls = "UnaryOpt" then n = 1 || n = 2
  else if cls = "UnaryPlus" then 1 ≤ n
  else if cls = "Binary" then n = 2
  else if cls = "BinaryPlus" then 2 ≤ n
  else if cls = "Ternary" then n = 3
  else false

def dropSuffix (s suffix : String) : Option String :=
  if s.endsWith suffix then some ((s.toList.take (s.length - suffix.length)) |> String.ofList) else none

/-- `function::get`'s abbreviation rule: `x_dir` = `x_directory`, `x_dir_native` = `x_directory_native` -/
def canonicalName (n : String) : String :=
  match dropSuffix n "_dir" with
  | some p => p ++ "_directory"
  | none =>
    match dropSuffix n "_dir_native" with
    | some p => p ++ "_directory_native"
    | none => n

def functionClass (n : String) : Option String := Generated.functionTable.lookup (canonicalName n)

def isConst (x : String) : Bool := (Generated.constantTable.lookup x).isSome

/-! ### the variable walker -/

def stackSize : List Expr → Nat
  | [] => 0
  | e :: st => e.size + stackSize st

theorem stackSize_append (a b : List Expr) : stackSize (a ++ b) = stackSize a + stackSize b := by
  induction a with
  | nil => simp [stackSize]
  | cons e es ih => simp [stackSize, ih]; omega

theorem stackSize_toList : ∀ (es : Exprs), stackSize es.toList ≤ es.size
  | .nil => by simp [Exprs.toList, stackSize, Exprs.size]
  | .cons e es => by
    have := stackSize_toList es
    simp only [Exprs.toList, stackSize, Exprs.size]; omega

/-- order in which a call's arguments are popped: all thunk shapes push them reversed, except
`UnaryOpt` with two arguments, which pushes `a` then `b` (so `b` is visited first) -/
def callOrder (fn : String) (args : List Expr) : List Expr :=
  match functionClass fn, args with
  | some "UnaryOpt", [a, b] => [b, a]
  | _, _ => args

theorem callOrder_perm (fn : String) (args : List Expr) : ∀ e, e ∈ callOrder fn args ↔ e ∈ args := by
  intro e
  unfold callOrder
  split
  · simp [or_comm]
  · rfl

theorem stackSize_callOrder (fn : String) (args : List Expr) :
    stackSize (callOrder fn args) = stackSize args := by
  unfold callOrder
  split
  · simp [stackSize]; omega
  · rfl

/-- `Variables::next` run to exhaustion on a stack (top of the stack first) -/
def walk : List Expr → List String
  | [] => []
  | .str _ :: st => walk st
  | .backtick _ :: st => walk st
  | .var x :: st => x :: walk st
  | .and l r :: st => walk (r :: l :: st)
  | .or l r :: st => walk (r :: l :: st)
  | .assert a _ b m :: st => walk (a :: b :: m :: st)
  | .call fn args :: st => walk (callOrder fn args.toList ++ st)
  | .concat l r :: st => walk (l :: r :: st)
  | .cond a _ b t e :: st => walk (a :: b :: t :: e :: st)
  | .group e :: st => walk (e :: st)
  | .joinL l r :: st => walk (l :: r :: st)
  | .joinR r :: st => walk (r :: st)
termination_by st => stackSize st
decreasing_by
  all_goals simp_wf
  all_goals simp only [stackSize, Expr.size, stackSize_append, stackSize_callOrder]
  all_goals first
    | omega
    | (apply Nat.lt_of_le_of_lt (Nat.add_le_add_right (stackSize_toList _) _); omega)

/-! ### function arity at every call -/

end Just.Analyzer
namespace Just
mutual
/-- every call in `e` names a known function with an accepted number of arguments -/
def Expr.callsOk : Expr → Bool
  | .str _ => true
  | .var _ => true
  | .backtick _ => true
  | .call fn args =>
    (match Analyzer.functionClass fn with
      | some cls => Analyzer.classAccepts cls args.length
      | none => false) && args.callsOk
  | .concat l r => l.callsOk && r.callsOk
  | .joinL l r => l.callsOk && r.callsOk
  | .joinR r => r.callsOk
  | .and l r => l.callsOk && r.callsOk
  | .or l r => l.callsOk && r.callsOk
  | .cond a _ b t e => a.callsOk && b.callsOk && t.callsOk && e.callsOk
  | .assert a _ b m => a.callsOk && b.callsOk && m.callsOk
  | .group e => e.callsOk
def Exprs.callsOk : Exprs → Bool
  | .nil => true
  | .cons e es => e.callsOk && es.callsOk
end

end Just
namespace Just.Analyzer
open Just

/-! ### the module being analysed -/

inductive PKind where
  | singular | plus | star
  deriving DecidableEq, Repr, Inhabited

structure Param where
  name : String
  kind : PKind
  default : Option Expr
  deriving Inhabited

structure Dep where
  target : String
  args : List Expr
  deriving Inhabited

structure Line where
  interps : List Expr          -- the `{{…}}` of the line, in order
  isComment : Bool             -- first fragment is text starting with `#`
  isContinuation : Bool        -- last fragment is text ending with `\`
  deriving Inhabited

structure Recipe where
  name : String
  params : List Param
  deps : List Dep
  body : List Line
  script : Bool
  deriving Inhabited

structure Module where
  assigns : List (String × Expr)    -- in name order, names distinct
  recipes : List Recipe
  ignoreComments : Bool
  deriving Inhabited

inductive Err where
  | undefinedVariable (x : String)
  | circularVariable (x : String)
  | unknownDependency (recipe dep : String)
  | circularRecipe (r : String)
  | depArity (dep : String) (found : Nat)
  | badCall
  | fuel
  | internal
  deriving Repr, DecidableEq, Inhabited

def findRecipe (m : Module) (n : String) : Option Recipe := m.recipes.find? (fun r => r.name = n)

def assignGraph (m : Module) : Dfs.Graph :=
  { succ := fun n => (m.assigns.lookup n).map (fun e => walk [e]),
    -- a reference is to the built-in constant only when no assignment has that name
    skip := fun x => isConst x && (m.assigns.lookup x).isNone }

def recipeGraph (m : Module) : Dfs.Graph :=
  { succ := fun n => (findRecipe m n).map (fun r => r.deps.map Dep.target), skip := fun _ => false }

def minArgs (r : Recipe) : Nat :=
  (r.params.filter (fun p => p.default.isNone && p.kind != .star)).length

def maxArgsOk (r : Recipe) (n : Nat) : Bool :=
  r.params.any (fun p => p.kind != .singular) || n ≤ r.params.length

/-- `AssignmentResolver::resolve_assignments` -/
def resolveAssignments (m : Module) : Except Err (List String) :=
  match Dfs.all (assignGraph m) (m.assigns.length + 1) (m.assigns.map Prod.fst) [] with
  | .ok order => .ok order
  | .error (.unknown _ x) => .error (.undefinedVariable x)
  | .error (.cycle x) => .error (.circularVariable x)
  | .error .fuel => .error .fuel
  | .error .internal => .error .internal

/-- the dependency part of `RecipeResolver::resolve_recipes` -/
def resolveRecipes (m : Module) : Except Err (List String) :=
  match Dfs.all (recipeGraph m) (m.recipes.length + 1) (m.recipes.map Recipe.name) [] with
  | .ok order => .ok order
  | .error (.unknown r d) => .error (.unknownDependency r d)
  | .error (.cycle r) => .error (.circularRecipe r)
  | .error .fuel => .error .fuel
  | .error .internal => .error .internal

/-- `UnresolvedRecipe::resolve`: each dependency call is within the target's argument range -/
def depArityOk (m : Module) (d : Dep) : Bool :=
  match findRecipe m d.target with
  | none => false
  | some t => minArgs t ≤ d.args.length && maxArgsOk t d.args.length

/-- `RecipeResolver::resolve_variable` -/
def defined (m : Module) (params : List String) (x : String) : Bool :=
  (m.assigns.lookup x).isSome || params.contains x || isConst x

def allDefined (m : Module) (params : List String) (e : Expr) : Bool :=
  (walk [e]).all (defined m params)

/-- the per-recipe variable checks: a default sees only EARLIER parameters; dependency arguments
and interpolations see all of them; under `ignore-comments` comment lines are skipped -/
def defaultsOk (m : Module) : List Param → List String → Bool
  | [], _ => true
  | p :: ps, earlier =>
    (match p.default with
      | some d => allDefined m earlier d
      | none => true) && defaultsOk m ps (earlier ++ [p.name])

/-- the lines the resolver checked in the pinned source: every non-comment line -/
def oldCheckedLines (m : Module) (r : Recipe) : List Line :=
  r.body.filter (fun l => !(l.isComment && m.ignoreComments))

/-- the lines the (repaired) resolver checks: under `ignore-comments`, a comment line that STARTS a
logical line of a linewise recipe is skipped; continued lines and all lines of scripts are checked -/
def checkLoop (ignore : Bool) : Bool → List Line → List Line
  | _, [] => []
  | continued, l :: ls =>
    if ignore && !continued && l.isComment then checkLoop ignore continued ls
    else l :: checkLoop ignore l.isContinuation ls

def checkedLines (m : Module) (r : Recipe) : List Line :=
  checkLoop (m.ignoreComments && !r.script) false r.body

/-- the lines whose interpolations the evaluator evaluates: `run_script` takes every line;
`run_linewise` decides per logical line — a comment line at the start of a logical line is skipped
alone (its continuation is ignored), any other line is evaluated together with its continuations -/
def evalLoop (ignore : Bool) : Bool → List Line → List Line
  | _, [] => []
  | inLogicalLine, l :: ls =>
    if inLogicalLine then l :: evalLoop ignore l.isContinuation ls
    else if ignore && l.isComment then evalLoop ignore false ls
    else l :: evalLoop ignore l.isContinuation ls

def evaluatedLines (m : Module) (r : Recipe) : List Line :=
  if r.script then r.body else evalLoop m.ignoreComments false r.body

def recipeVarsOk (m : Module) (r : Recipe) : Bool :=
  let names := r.params.map Param.name
  defaultsOk m r.params [] &&
    r.deps.all (fun d => d.args.all (allDefined m names)) &&
    (checkedLines m r).all (fun l => l.interps.all (allDefined m names))

def firstUndefined (m : Module) (params : List String) (es : List Expr) : Option String :=
  (es.flatMap (fun e => walk [e])).find? (fun x => !defined m params x)

def firstUndefinedDefault (m : Module) : List Param → List String → Option String
  | [], _ => none
  | p :: ps, earlier =>
    match (match p.default with
      | some d => firstUndefined m earlier [d]
      | none => none) with
    | some x => some x
    | none => firstUndefinedDefault m ps (earlier ++ [p.name])

def moduleExprs (m : Module) : List Expr :=
  m.assigns.map Prod.snd ++
    m.recipes.flatMap (fun r =>
      r.params.filterMap Param.default ++ r.deps.flatMap Dep.args ++ r.body.flatMap Line.interps)

/-- everything `Compiler::compile` checks of a single module before anything can run -/
def analyze (m : Module) : Except Err Unit :=
  if !(moduleExprs m).all Expr.callsOk then .error .badCall else
  match resolveAssignments m with
  | .error e => .error e
  | .ok _ =>
    match resolveRecipes m with
    | .error e => .error e
    | .ok _ =>
      match (m.recipes.flatMap Recipe.deps).find? (fun d => !depArityOk m d) with
      | some d => .error (.depArity d.target d.args.length)
      | none =>
        match m.recipes.find? (fun r => !recipeVarsOk m r) with
        | some r =>
          let names := r.params.map Param.name
          -- report some undefined variable of that recipe (which one is not part of the property)
          match (firstUndefinedDefault m r.params []).orElse (fun _ =>
              firstUndefined m names (r.deps.flatMap Dep.args ++ (checkedLines m r).flatMap Line.interps)) with
          | some x => .error (.undefinedVariable x)
          | none => .error .internal
        | none => .ok ()

end Just.Analyzer
