/-
Model of how a recipe body becomes what the shell / interpreter receives:
  src/line.rs        Line::{is_comment, is_continuation, is_infallible, is_quiet, is_shebang}
  src/evaluator.rs   Evaluator::evaluate_line
  src/recipe.rs      Recipe::run_linewise (line assembly), run_script (executor choice)
  src/executor.rs    Executor::script (line-number padding)
  src/settings.rs    Settings::shell
  src/shebang.rs     Shebang::new
Interpolations are given by their evaluated value (expression evaluation is C04's model).
-/
namespace Just.Body

inductive Frag where
  | text (s : List Char)       -- a Text token's lexeme
  | interp (value : List Char) -- an interpolation, already evaluated
  deriving DecidableEq, Repr, Inhabited

structure Line where
  frags : List Frag
  number : Nat                 -- zero-based line of the justfile the body line starts on
  deriving DecidableEq, Repr, Inhabited

/-- `Line::first`: the text of the first fragment, if it is text -/
def Line.first (l : Line) : Option (List Char) :=
  match l.frags with
  | .text s :: _ => some s
  | _ => none

def startsWith (p s : List Char) : Bool := p.isPrefixOf s

def Line.isComment (l : Line) : Bool := match l.first with | some t => startsWith ['#'] t | none => false
def Line.isShebang (l : Line) : Bool := match l.first with | some t => startsWith ['#', '!'] t | none => false
def Line.isInfallible (l : Line) : Bool :=
  match l.first with | some t => startsWith ['-'] t || startsWith ['@', '-'] t | none => false
def Line.isQuiet (l : Line) : Bool :=
  match l.first with | some t => startsWith ['@'] t || startsWith ['-', '@'] t | none => false
def Line.isContinuation (l : Line) : Bool :=
  match l.frags.getLast? with
  | some (.text s) => s.getLast? = some '\\'
  | _ => false

/-- `str::replace("{{{{", "{{")`: left to right, non-overlapping -/
def unescape : List Char → List Char
  | '{' :: '{' :: '{' :: '{' :: rest => '{' :: '{' :: unescape rest
  | c :: rest => c :: unescape rest
  | [] => []

/-- Unicode White_Space, what `str::trim_start` removes -/
def isWhite (c : Char) : Bool :=
  let n := c.toNat
  (0x09 ≤ n && n ≤ 0x0D) || n = 0x20 || n = 0x85 || n = 0xA0 || n = 0x1680 || (0x2000 ≤ n && n ≤ 0x200A)
    || n = 0x2028 || n = 0x2029 || n = 0x202F || n = 0x205F || n = 0x3000

def trimStart (s : List Char) : List Char := s.dropWhile isWhite

/-- fragments after the first one -/
def evalRest : List Frag → List Char
  | [] => []
  | .text s :: fs => unescape s ++ evalRest fs
  | .interp v :: fs => v ++ evalRest fs

/-- `Evaluator::evaluate_line`: only a leading TEXT fragment of a continued line is trimmed -/
def evalLine (l : Line) (continued : Bool) : List Char :=
  match l.frags with
  | .text s :: fs => (if continued then trimStart (unescape s) else unescape s) ++ evalRest fs
  | fs => evalRest fs

structure Cmd where
  text : List Char
  quiet : Bool
  infallible : Bool
  deriving DecidableEq, Repr, Inhabited

/-- a group of lines joined by continuations, under assembly -/
structure Pending where
  text : List Char
  quiet : Bool
  infallible : Bool

/-- end of a group: strip the sigils, skip an empty command -/
def emit (p : Pending) : List Cmd :=
  let sigils := (if p.infallible then 1 else 0) + (if p.quiet then 1 else 0)
  let command := p.text.drop sigils
  if command.isEmpty then [] else [⟨command, p.quiet, p.infallible⟩]

/-- the two nested loops of `Recipe::run_linewise` as one pass over the lines -/
def goLines (ignoreComments : Bool) : Option Pending → List Line → List Cmd
  | none, [] => []
  | some p, [] => emit p
  | none, l :: ls =>
    if ignoreComments && l.isComment then goLines ignoreComments none ls
    else
      let p : Pending := ⟨evalLine l false, l.isQuiet, l.isInfallible⟩
      if l.isContinuation then goLines ignoreComments (some { p with text := p.text.dropLast }) ls
      else emit p ++ goLines ignoreComments none ls
  | some p, l :: ls =>
    let p' : Pending := { p with text := p.text ++ evalLine l true }
    if l.isContinuation then goLines ignoreComments (some { p' with text := p'.text.dropLast }) ls
    else emit p' ++ goLines ignoreComments none ls

/-- the commands a linewise recipe hands to the shell, in order -/
def runLinewise (ignoreComments : Bool) (body : List Line) : List Cmd := goLines ignoreComments none body

/-! ### scripts -/

def newlines (n : Nat) : List Char := List.replicate n '\n'

/-- the loop of `Executor::script` after the shebang lines: `n` lines have been written -/
def scriptRest : Nat → List Line → List Char
  | _, [] => []
  | n, l :: ls =>
    let pad := l.number - n
    newlines pad ++ evalLine l false ++ ['\n'] ++ scriptRest (n + pad + 1) ls

/-- `Executor::script`: `shebang` = run through its `#!` line (else `[script]`);
`includeShebang` = `Shebang::include_shebang_line` -/
def scriptText (shebang includeShebang : Bool) (body : List Line) : List Char :=
  if shebang then
    let heads := body.takeWhile Line.isShebang
    let rest := body.dropWhile Line.isShebang
    (heads.map (fun l => (if includeShebang then evalLine l false else []) ++ ['\n'])).flatten
      ++ scriptRest heads.length rest
  else scriptRest 0 body

/-! ### which program runs it -/

structure Interp where
  command : String
  args : List String
  deriving DecidableEq, Repr, Inhabited

def defaultShell : Interp := ⟨"sh", ["-cu"]⟩
def defaultScriptInterpreter : Interp := ⟨"sh", ["-eu"]⟩

/-- `Settings::shell` (non-Windows) -/
def shell (cliShell : Option String) (cliArgs : Option (List String)) (setShell : Option Interp) : Interp :=
  match cliShell, cliArgs with
  | some s, some a => ⟨s, a⟩
  | some s, none => ⟨s, defaultShell.args⟩
  | none, some a => ⟨defaultShell.command, a⟩
  | none, none => match setShell with
    | some i => i
    | none => defaultShell

/-- interpreter of a `[script]` recipe (`Recipe::run_script`) -/
def scriptInterpreter (attr : Option Interp) (setting : Option Interp) : Interp :=
  match attr with
  | some i => i
  | none => match setting with
    | some i => i
    | none => defaultScriptInterpreter

inductive Exec where
  | shellLines (sh : Interp) (cmds : List Cmd)                       -- one `sh.command sh.args.. CMD` per command
  | script (interp : Option Interp) (text : List Char)               -- `none`: run the file through its `#!` line
  deriving Repr

structure Recipe where
  body : List Line
  scriptAttr : Option (Option Interp)   -- `[script]` / `[script(cmd, args…)]`
  deriving Repr

def Recipe.isShebang (r : Recipe) : Bool := match r.body with | l :: _ => l.isShebang | [] => false

/-- what a recipe executes -/
def execute (r : Recipe) (ignoreComments : Bool) (cliShell : Option String) (cliArgs : Option (List String))
    (setShell setScriptInterpreter : Option Interp) : Exec :=
  match r.scriptAttr with
  | some attr => .script (some (scriptInterpreter attr setScriptInterpreter)) (scriptText false true r.body)
  | none =>
    if r.isShebang then .script none (scriptText true true r.body)
    else .shellLines (shell cliShell cliArgs setShell) (runLinewise ignoreComments r.body)

end Just.Body
