/-
The depth-first resolution with a cycle stack that both `AssignmentResolver::resolve_assignment`
(src/assignment_resolver.rs) and `RecipeResolver::resolve_recipe` (src/recipe_resolver.rs)
perform, over an abstract graph.
-/
namespace Just.Dfs

structure Graph where
  /-- successors of a node in the order the code visits them; `none` = not a node -/
  succ : String → Option (List String)
  /-- successors that are ignored (built-in constants for variables; nothing for recipes) -/
  skip : String → Bool

inductive Err where
  | unknown (node : String) (succ : String)   -- `succ` is referenced by `node` but is not a node
  | cycle (node : String)                     -- `node` is referenced again while it is being resolved
  | fuel
  | internal
  deriving Repr, DecidableEq, Inhabited

mutual
/-- resolve one node; `done` = nodes completed so far (newest first), `stack` = nodes in progress -/
def node (g : Graph) : Nat → String → List String → List String → Except Err (List String)
  | 0, _, _, _ => .error .fuel
  | fuel + 1, n, done, stack =>
    if n ∈ done then .ok done else
    match g.succ n with
    | none => .error .internal
    | some ss =>
      match succs g fuel n ss done (n :: stack) with
      | .error e => .error e
      | .ok done' => .ok (n :: done')
termination_by fuel => (fuel, 0)

def succs (g : Graph) : Nat → String → List String → List String → List String →
    Except Err (List String)
  | _, _, [], done, _ => .ok done
  | fuel, n, s :: ss, done, stack =>
    if s ∈ done || g.skip s then succs g fuel n ss done stack
    else if s ∈ stack then .error (.cycle s)
    else if (g.succ s).isSome then
      match node g fuel s done stack with
      | .error e => .error e
      | .ok done' => succs g fuel n ss done' stack
    else .error (.unknown n s)
termination_by fuel _ ss => (fuel, ss.length + 1)
end

/-- resolve every root in order -/
def all (g : Graph) (fuel : Nat) : List String → List String → Except Err (List String)
  | [], done => .ok done
  | r :: rs, done =>
    match node g fuel r done [] with
    | .error e => .error e
    | .ok done' => all g fuel rs done'

end Just.Dfs
