import Just.Model.Syntax
/-
Token-level model of recipe header lines, assignments, aliases and simple settings: the printer
(`ColorDisplay for Recipe` up to the body, `Parameter`, `UnresolvedDependency`, `Assignment`, `Alias`,
`Set`) and the parser (`parse_recipe` up to `expect_eol`, `parse_parameter`, `accept_dependency`,
`parse_assignment`, `parse_alias`, the boolean / string forms of `parse_set`).
Tokens without a constructor of their own in `Tk` are `.other KIND`.
-/
namespace Just.Header
open Just Just.Syntax

def tColon : Tk := .other "Colon"
def tColonEquals : Tk := .other "ColonEquals"
def tColonColon : Tk := .other "ColonColon"
def tAt : Tk := .other "At"
def tDollar : Tk := .other "Dollar"
def tAsterisk : Tk := .other "Asterisk"
def tEquals : Tk := .other "Equals"
def tEol : Tk := .other "Eol"
def tEof : Tk := .other "Eof"

/-- `expect_eol`: an optional comment, then the end of the line (consumed) or of the file (left) -/
def expectEol : List Tk → Option (List Tk)
  | .comment _ :: .other "Eol" :: r => some r
  | .comment _ :: .other "Eof" :: r => some (.other "Eof" :: r)
  | .other "Eol" :: r => some r
  | .other "Eof" :: r => some (.other "Eof" :: r)
  | _ => none

theorem expectEol_eol (r : List Tk) : expectEol (.other "Eol" :: r) = some r := rfl

inductive PKind where
  | singular | plus | star
  deriving DecidableEq, Repr, Inhabited

structure Param where
  kind : PKind
  exported : Bool
  name : String
  default : Option Expr
  deriving Repr, Inhabited

structure Dep where
  recipe : String
  args : List Expr
  deriving Repr, Inhabited

structure Header where
  quiet : Bool
  name : String
  params : List Param          -- positional (singular) parameters
  variadic : Option Param      -- `+p` / `*p`
  priors : List Dep
  subsequents : List Dep       -- after `&&`
  deriving Repr, Inhabited

/-! ### printer -/

def printKind : PKind → List Tk
  | .singular => []
  | .plus => [.plus]
  | .star => [tAsterisk]

def printDollar (exported : Bool) : List Tk := if exported then [tDollar] else []

def printDefault : Option Expr → List Tk
  | some d => tEquals :: printE d
  | none => []

def printParam (p : Param) : List Tk :=
  printKind p.kind ++ printDollar p.exported ++ [.ident p.name] ++ printDefault p.default

def printParams : List Param → List Tk
  | [] => []
  | p :: ps => printParam p ++ printParams ps

def printArgList : List Expr → List Tk
  | [] => []
  | e :: es => printE e ++ printArgList es

def printDep (d : Dep) : List Tk :=
  match d.args with
  | [] => [.ident d.recipe]
  | a :: as => [.lparen, .ident d.recipe] ++ printArgList (a :: as) ++ [.rparen]

def printDeps : List Dep → List Tk
  | [] => []
  | d :: ds => printDep d ++ printDeps ds

def printQuiet (quiet : Bool) : List Tk := if quiet then [tAt] else []

def printVariadic : Option Param → List Tk
  | some v => printParam v
  | none => []

def printSubsequents : List Dep → List Tk
  | [] => []
  | s :: ss => .andand :: printDeps (s :: ss)

def printHeader (h : Header) : List Tk :=
  printQuiet h.quiet ++ [.ident h.name] ++ printParams h.params ++ printVariadic h.variadic ++
    [tColon] ++ printDeps h.priors ++ printSubsequents h.subsequents ++ [tEol]

/-! ### parser -/

/-- `parse_parameter` -/
def parseParam (fuel : Nat) (kind : PKind) (ts : List Tk) : Option (Param × List Tk) :=
  let (exported, ts1) := match ts with
    | .other "Dollar" :: r => (true, r)
    | _ => (false, ts)
  match ts1 with
  | .ident n :: r =>
    match r with
    | .other "Equals" :: r1 =>
      match parseValue fuel r1 with
      | some (d, r2) => some (⟨kind, exported, n, some d⟩, r2)
      | none => none
    | _ => some (⟨kind, exported, n, none⟩, r)
  | _ => none

/-- the `while self.next_is(Identifier) || self.next_is(Dollar)` loop -/
def parseParams (vfuel : Nat) : Nat → List Tk → Option (List Param × List Tk)
  | 0, _ => none
  | f + 1, ts =>
    match ts with
    | .ident _ :: _ =>
      match parseParam vfuel .singular ts with
      | some (p, r) =>
        match parseParams vfuel f r with
        | some (ps, r') => some (p :: ps, r')
        | none => none
      | none => none
    | .other "Dollar" :: _ =>
      match parseParam vfuel .singular ts with
      | some (p, r) =>
        match parseParams vfuel f r with
        | some (ps, r') => some (p :: ps, r')
        | none => none
      | none => none
    | _ => some ([], ts)

/-- the argument loop of `accept_dependency`: expressions until the closing parenthesis -/
def parseDepArgs (efuel : Nat) : Nat → List Tk → Option (List Expr × List Tk)
  | 0, _ => none
  | f + 1, ts =>
    match ts with
    | .rparen :: r => some ([], r)
    | _ =>
      match parseExpression efuel ts with
      | some (e, r) =>
        match parseDepArgs efuel f r with
        | some (es, r') => some (e :: es, r')
        | none => none
      | none => none

/-- `accept_dependency` (`none` inside = no dependency here) -/
def acceptDep (efuel afuel : Nat) (ts : List Tk) : Option (Option Dep × List Tk) :=
  match ts with
  | .ident n :: r => some (some ⟨n, []⟩, r)
  | .lparen :: .ident n :: r =>
    match parseDepArgs efuel afuel r with
    | some (args, r') => some (some ⟨n, args⟩, r')
    | none => none
  | .lparen :: _ => none
  | _ => some (none, ts)

/-- `while let Some(dependency) = self.accept_dependency()?` -/
def parseDeps (efuel afuel : Nat) : Nat → List Tk → Option (List Dep × List Tk)
  | 0, _ => none
  | f + 1, ts =>
    match acceptDep efuel afuel ts with
    | some (some d, r) =>
      match parseDeps efuel afuel f r with
      | some (ds, r') => some (d :: ds, r')
      | none => none
    | some (none, r) => some ([], r)
    | none => none

/-- the variadic parameter, if any, and `forbid(Identifier)` after it -/
def parseVariadic (fuel : Nat) (ts : List Tk) : Option (Option Param × List Tk) :=
  match ts with
  | .plus :: r =>
    match parseParam fuel .plus r with
    | none => none
    | some (v, r') =>
      match r' with
      | .ident _ :: _ => none
      | _ => some (some v, r')
  | .other "Asterisk" :: r =>
    match parseParam fuel .star r with
    | none => none
    | some (v, r') =>
      match r' with
      | .ident _ :: _ => none
      | _ => some (some v, r')
  | _ => some (none, ts)

/-- `: dependencies [&& subsequents] EOL` -/
def parseTail (fuel : Nat) (ts : List Tk) : Option ((List Dep × List Dep) × List Tk) :=
  match ts with
  | .other "Colon" :: ts4 =>
    match parseDeps fuel fuel fuel ts4 with
    | none => none
    | some (priors, ts5) =>
      match ts5 with
      | .andand :: ts6 =>
        match parseDeps fuel fuel fuel ts6 with
        | none => none
        | some ([], _) => none
        | some (s :: ss, ts7) =>
          match expectEol ts7 with
          | some rest => some ((priors, s :: ss), rest)
          | none => none
      | _ =>
        match expectEol ts5 with
        | some rest => some ((priors, []), rest)
        | none => none
  | _ => none

/-- `parse_recipe` after the name, up to and including `expect_eol` -/
def parseNamed (fuel : Nat) (quiet : Bool) (name : String) (ts1 : List Tk) : Option (Header × List Tk) :=
  match parseParams fuel fuel ts1 with
  | none => none
  | some (params, ts2) =>
    match parseVariadic fuel ts2 with
    | none => none
    | some (v, ts3) =>
      match parseTail fuel ts3 with
      | none => none
      | some ((priors, subs), rest) => some (⟨quiet, name, params, v, priors, subs⟩, rest)

/-- a recipe header line (with the `@` accepted by `parse_ast`) -/
def parseHeader (fuel : Nat) (ts : List Tk) : Option (Header × List Tk) :=
  match ts with
  | .other "At" :: .ident name :: ts1 => parseNamed fuel true name ts1
  | .ident name :: ts1 => parseNamed fuel false name ts1
  | _ => none

end Just.Header
