/-
The expression syntax of just (src/expression.rs, src/thunk.rs, src/condition.rs), shared by the
models for C03, C04 and C19.  `Exprs` is an explicit list type so that all recursion is structural.
-/
namespace Just

inductive CondOp where
  | eq | ne | match | nomatch
  deriving DecidableEq, Repr, Inhabited

mutual
inductive Expr where
  | str (cooked : String)
  | var (name : String)
  | backtick (cmd : String)
  | call (fn : String) (args : Exprs)
  | concat (l r : Expr)
  | joinL (l r : Expr)              -- `l / r`
  | joinR (r : Expr)                -- `/ r`
  | and (l r : Expr)
  | or (l r : Expr)
  | cond (lhs : Expr) (op : CondOp) (rhs thn els : Expr)
  | assert (lhs : Expr) (op : CondOp) (rhs msg : Expr)
  | group (e : Expr)
  deriving Repr, Inhabited
inductive Exprs where
  | nil
  | cons (e : Expr) (es : Exprs)
  deriving Repr, Inhabited
end

def Exprs.toList : Exprs → List Expr
  | .nil => []
  | .cons e es => e :: es.toList

def Exprs.ofList : List Expr → Exprs
  | [] => .nil
  | e :: es => .cons e (Exprs.ofList es)

def Exprs.length : Exprs → Nat
  | .nil => 0
  | .cons _ es => es.length + 1

mutual
def Expr.size : Expr → Nat
  | .str _ => 1
  | .var _ => 1
  | .backtick _ => 1
  | .call _ args => args.size + 1
  | .concat l r => l.size + r.size + 1
  | .joinL l r => l.size + r.size + 1
  | .joinR r => r.size + 1
  | .and l r => l.size + r.size + 1
  | .or l r => l.size + r.size + 1
  | .cond a _ b t e => a.size + b.size + t.size + e.size + 1
  | .assert a _ b m => a.size + b.size + m.size + 1
  | .group e => e.size + 1
def Exprs.size : Exprs → Nat
  | .nil => 0
  | .cons e es => e.size + es.size + 1
end

mutual
/-- the variable names occurring anywhere in `e` -/
def Expr.vars : Expr → List String
  | .str _ => []
  | .var x => [x]
  | .backtick _ => []
  | .call _ args => args.vars
  | .concat l r => l.vars ++ r.vars
  | .joinL l r => l.vars ++ r.vars
  | .joinR r => r.vars
  | .and l r => l.vars ++ r.vars
  | .or l r => l.vars ++ r.vars
  | .cond a _ b t e => a.vars ++ b.vars ++ t.vars ++ e.vars
  | .assert a _ b m => a.vars ++ b.vars ++ m.vars
  | .group e => e.vars
def Exprs.vars : Exprs → List String
  | .nil => []
  | .cons e es => e.vars ++ es.vars
end

inductive Feature where
  | logical | which | script | scriptInterpreter | fmt
  deriving DecidableEq, Repr, Inhabited

/-- the variant's name in `enum UnstableFeature` (src/unstable_feature.rs) -/
def Feature.variant : Feature → String
  | .fmt => "FormatSubcommand"
  | .logical => "LogicalOperators"
  | .script => "ScriptAttribute"
  | .scriptInterpreter => "ScriptInterpreterSetting"
  | .which => "WhichFunction"

mutual
/-- the unstable features the parser records while parsing `e`
(`parse_expression`: `||`, `parse_disjunct`: `&&`, `parse_value`: a call named `which`) -/
def Expr.features : Expr → List Feature
  | .str _ => []
  | .var _ => []
  | .backtick _ => []
  | .call fn args => (if fn = "which" then [Feature.which] else []) ++ args.features
  | .concat l r => l.features ++ r.features
  | .joinL l r => l.features ++ r.features
  | .joinR r => r.features
  | .and l r => Feature.logical :: (l.features ++ r.features)
  | .or l r => Feature.logical :: (l.features ++ r.features)
  | .cond a _ b t e => a.features ++ b.features ++ t.features ++ e.features
  | .assert a _ b m => a.features ++ b.features ++ m.features
  | .group e => e.features
def Exprs.features : Exprs → List Feature
  | .nil => []
  | .cons e es => e.features ++ es.features
end

end Just
