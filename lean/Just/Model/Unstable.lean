/-
Model of the unstable-feature gate: what the parser and analyzer record per module
(src/parser.rs, src/analyzer.rs), `Justfile::check_unstable` (src/justfile.rs),
`Config::require_unstable` and the `--unstable` / `JUST_UNSTABLE` / `--summary` rules
(src/config.rs), `--fmt` (src/subcommand.rs).
-/
import Just.Model.Expr
namespace Just.Unstable

/-- a module after import flattening: every expression of every file that contributes to it
(assignments, parameter defaults, dependency arguments, interpolations, attribute-free), whether a
surviving recipe carries `[script]`, the settings, and its submodules -/
inductive Module where
  | mk (exprs : List Expr) (scriptRecipe : Bool) (scriptInterpreter : Bool) (setUnstable : Bool)
      (subs : List Module)
  deriving Inhabited

def Module.exprs : Module → List Expr | .mk e _ _ _ _ => e
def Module.scriptRecipe : Module → Bool | .mk _ s _ _ _ => s
def Module.scriptInterpreter : Module → Bool | .mk _ _ s _ _ => s
def Module.setUnstable : Module → Bool | .mk _ _ _ u _ => u
def Module.subs : Module → List Module | .mk _ _ _ _ s => s

def exprFeatures : List Expr → List Feature
  | [] => []
  | e :: es => e.features ++ exprFeatures es

/-- `Justfile.unstable_features` of one module -/
def Module.features (m : Module) : List Feature :=
  exprFeatures m.exprs ++ (if m.scriptRecipe then [.script] else []) ++
    (if m.scriptInterpreter then [.scriptInterpreter] else [])

mutual
/-- `Justfile::check_unstable`: a module passes if it uses nothing unstable, or the opt-in is
given globally or by `set unstable` in THAT module; submodules are checked on their own -/
def allowed (optIn : Bool) : Module → Bool
  | .mk exprs sr si su subs =>
    ((Module.mk exprs sr si su subs).features.isEmpty || optIn || su) && allowedAll optIn subs
def allowedAll (optIn : Bool) : List Module → Bool
  | [] => true
  | m :: ms => allowed optIn m && allowedAll optIn ms
end

/-- clap's `FalseyValueParser` on `JUST_UNSTABLE` (what the code does) -/
def lowerAscii (c : Char) : Char := if 'A' ≤ c ∧ c ≤ 'Z' then Char.ofNat (c.toNat + 32) else c

def envTruthyImpl (v : Option String) : Bool :=
  match v with
  | none => false
  | some s =>
    let l := s.toList.map lowerAscii
    !(l = [] || l = "n".toList || l = "no".toList || l = "f".toList || l = "false".toList ||
      l = "off".toList || l = "0".toList)

/-- the README: any value other than `false`, `0` or the empty string -/
def envTruthyDoc (v : Option String) : Bool :=
  match v with
  | none => false
  | some s => !(s.toList = [] || s.toList = "false".toList || s.toList = "0".toList)

inductive Cmd where
  | run | summary | fmt | other     -- other = list, dump, show, evaluate, variables, groups, choose, command
  deriving DecidableEq, Repr, Inhabited

/-- `config.unstable` -/
def optIn (flag : Bool) (envValue : Option String) (cmd : Cmd) : Bool :=
  flag || envTruthyImpl envValue || cmd = .summary

/-- whether `just` loads the justfile and proceeds (true) or refuses with the unstable error -/
def proceeds (flag : Bool) (envValue : Option String) (cmd : Cmd) (root : Module) : Bool :=
  allowed (optIn flag envValue cmd) root &&
    (cmd != .fmt || optIn flag envValue cmd || root.setUnstable)

/-! ### justfiles reached through `set fallback`

`Subcommand::execute` compiles the justfile found first and `Subcommand::run` retries in the parent
directory's justfile while the recipe is unknown and `set fallback` is on; each justfile goes
through `Subcommand::compile`, which is where `check_unstable` is called. -/

/-- one justfile on the way up: its compiled root module, whether it knows the requested recipe,
and its `set fallback` -/
structure Level where
  root : Module
  hasRecipe : Bool
  fallback : Bool
  deriving Inhabited

inductive Outcome where
  | refused (level : Nat)     -- the unstable error, nothing ran
  | ran (level : Nat)         -- the recipe of that level's justfile ran
  | unknownRecipe
  deriving DecidableEq, Repr, Inhabited

def runFallback (flag : Bool) (envValue : Option String) : List Level → Nat → Outcome
  | [], _ => .unknownRecipe
  | l :: rest, k =>
    if !proceeds flag envValue .run l.root then .refused k
    else if l.hasRecipe then .ran k
    else if l.fallback then runFallback flag envValue rest (k + 1)
    else .unknownRecipe

end Just.Unstable
