/-
Model of the unstable-feature gate: what the parser and analyzer record per module
(src/parser.rs, src/analyzer.rs), `Justfile::check_unstable` (src/justfile.rs),
`Config::require_unstable` and the `--unstable` / `JUST_UNSTABLE` / `--summary` rules
(src/config.rs), `--fmt` (src/subcommand.rs).
-/
import Just.Model.Expr
namespace Just.Unstable

/-- a module after import flattening: every expression of every file that contributes to it
(assignments, parameter defaults, dependency arguments, interpolations, attribute-free), whether a
surviving recipe carries `[script]`, the settings, and its submodules -/
inductive Module where
  | mk (exprs : List Expr) (scriptRecipe : Bool) (scriptInterpreter : Bool) (setUnstable : Bool)
      (subs : List Module)
  deriving Inhabited

def Module.exprs : Module → List Expr | .mk e _ _ _ _ => e
def Module.scriptRecipe : Module → Bool | .mk _ s _ _ _ => s
def Module.scriptInterpreter : Module → Bool | .mk _ _ s _ _ => s
def Module.setUnstable : Module → Bool | .mk _ _ _ u _ => u
def Module.subs : Module → List Module | .mk _ _ _ _ s => s

def exprFeatures : List Expr → List Feature
  | [] => []
  | e :: es => e.features ++ exprFeatures es

/-- `Justfile.unstable_features` of one module -/
def Module.features (m : Module) : List Feature :=
  exprFeatures m.exprs ++ (if m.scriptRecipe then [.script] else []) ++
    (if m.scriptInterpreter then [.scriptInterpreter] else [])

mutual
/-- `Justfile::check_unstable`: a module passes if it uses nothing unstable, or the opt-in is
given globally or by `set unstable` in THAT module; submodules are checked on their own -/
def allowed (optIn : Bool) : Module → Bool
  | .mk exprs sr si su subs =>
    ((Module.mk exprs sr si su subs).features.isEmpty || optIn || su) && allowedAll optIn subs
def allowedAll (optIn : Bool) : List Module → Bool
  | [] => true
  | m :: ms => allowed optIn m && allowedAll optIn ms
end

/-- clap's `FalseyValueParser` on `JUST_UNSTABLE` (what the code does) -/
def lowerAscii (c : Char) : Char := if 'A' ≤ c ∧ c ≤ 'Z' then Char.ofNat (c.toNat + 32) else c

def envTruthyImpl (v : Option String) : Bool :=
  match v with
  | none => false
  | some s =>
    let l := s.toList.map lowerAscii
    !(l = [] || l = "n".toList || l = "no".toList || l = "f".toList || l = "false".toList ||
      l = "off".toList || l = "0".toList)

/-- the README: any value other than `false`, `0` or the empty string -/
def envTruthyDoc (v : Option String) : Bool :=
  match v with
  | none => false
  | some s => !(s.toList = [] || s.toList = "false".toList || s.toList = "0".toList)

inductive Cmd where
  | run | summary | fmt | other     -- other = list, dump, show, evaluate, variables, groups, choose, command
  deriving DecidableEq, Repr, Inhabited

/-- `config.unstable` -/
def optIn (flag : Bool) (envValue : Option String) (cmd : Cmd) : Bool :=
  flag || envTruthyImpl envValue || cmd = .summary

/-- whether `just` loads the justfile and proceeds (true) or refuses with the unstable error -/
def proceeds (flag : Bool) (envValue : Option String) (cmd : Cmd) (root : Module) : Bool :=
  allowed (optIn flag envValue cmd) root &&
    (cmd != .fmt || optIn flag envValue cmd || root.setUnstable)

end Just.Unstable
