import Just.Generated.Tables
/-
Model of justfile discovery and fallback: `Search::justfile` / `find_in_directory` /
`search_parent_directory` (src/search.rs) and the fallback loop of `Subcommand::run`
(src/subcommand.rs).  The file system is the list of ancestor directories of the starting
directory, nearest first, each with its entry names and — where it holds a justfile — whether
that justfile knows the requested recipe and has `set fallback`.
-/
namespace Just.Search

def lower (c : Char) : Char := if 'A' ≤ c ∧ c ≤ 'Z' then Char.ofNat (c.toNat + 32) else c

/-- `JUSTFILE_NAMES.iter().any(|n| name.eq_ignore_ascii_case(n))`; the names are read from
src/search.rs on every run (`Generated.justfileNames`) -/
def isCandidate (name : String) : Bool :=
  let l := name.toList.map lower
  Generated.justfileNames.any (fun n => l = n.toList.map lower)

structure Level where
  entries : List String      -- names in this directory (distinct)
  knows : Bool               -- its justfile defines the requested recipe
  fallback : Bool            -- its justfile has `set fallback`
  deriving Repr, Inhabited

inductive Found where
  | at (level : Nat) (name : String)
  | multiple (level : Nat)
  | notFound
  deriving Repr, DecidableEq, Inhabited

/-- `Search::justfile`: the nearest ancestor with candidates decides -/
def search : List Level → Nat → Found
  | [], _ => .notFound
  | d :: ds, i =>
    match d.entries.filter isCandidate with
    | [] => search ds (i + 1)
    | [n] => .at i n
    | _ => .multiple i

inductive Outcome where
  | ran (level : Nat) (name : String)   -- recipe ran with the justfile `name` of `level`; cwd = that directory
  | unknownRecipe (level : Nat)         -- error reported by the justfile of `level`
  | multiple (level : Nat)
  | notFound
  | fuel
  deriving Repr, DecidableEq, Inhabited

/-- the fallback loop of `Subcommand::run`, starting with the justfile found at `level`
(`ds` = the directories from that level upwards, nearest first) -/
def climb (searching : Bool) : Nat → List Level → Nat → String → Outcome
  | 0, _, _, _ => .fuel
  | _, [], _, _ => .notFound
  | fuel + 1, d :: above, level, name =>
    if d.knows then .ran level name
    else if d.fallback && searching then
      match search above (level + 1) with
      | .at l n => climb searching fuel (above.drop (l - (level + 1))) l n
      | _ => .unknownRecipe level      -- `search_parent_directory().map_err(|_| err)`
    else .unknownRecipe level

/-- `just recipe` from a directory whose ancestors are `ds` -/
def run (ds : List Level) : Outcome :=
  match search ds 0 with
  | .notFound => .notFound
  | .multiple l => .multiple l
  | .at l n => climb true (ds.length + 1) (ds.drop l) l n

/-- `just --justfile F recipe`: no search, no fallback -/
def runExplicit (d : Level) : Outcome :=
  climb false 1 [d] 0 "explicit"

end Just.Search
