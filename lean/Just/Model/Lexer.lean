/-
Port of just's lexer (src/lexer.rs) to a total Lean function.

State and control flow follow the Rust code function by function; every loop is a structural
recursion on the remaining input (or on the indentation stack) except the main loop, which takes
fuel.  Positions are updated ONLY by `advance` (per character: offset and column grow by the UTF-8
length, a line feed resets the column and bumps the line) and tokens are cut ONLY by `token`
(copies `tokStart`, then `tokStart := tokEnd`), exactly as in the source.
Ghost fields (`consumed`, `startConsumed`) record the consumed text for the position invariant.
-/
namespace Just.Lexer

inductive Kind where
  | ampersandAmpersand | asterisk | at | backtick | bangEquals | bangTilde | barBar | braceL | braceR
  | bracketL | bracketR | byteOrderMark | colon | colonColon | colonEquals | comma | comment | dedent
  | dollar | eof | eol | equals | equalsEquals | equalsTilde | identifier | indent | interpolationEnd
  | interpolationStart | parenL | parenR | plus | questionMark | slash | stringToken | text
  | unspecified | whitespace
  deriving DecidableEq, Repr, Inhabited

structure Pos where
  offset : Nat
  line : Nat
  column : Nat
  deriving DecidableEq, Repr, Inhabited

structure Tok where
  kind : Kind
  offset : Nat
  length : Nat
  line : Nat
  column : Nat
  deriving DecidableEq, Repr, Inhabited

inductive Delim where
  | brace | bracket | paren
  deriving DecidableEq, Repr, Inhabited

inductive ErrKind where
  | internal (msg : String)
  | unknownStartOfToken
  | unterminatedString
  | unterminatedBacktick
  | unterminatedInterpolation
  | mismatchedClosingDelimiter
  | unexpectedClosingDelimiter
  | unexpectedCharacter
  | unexpectedEndOfToken
  | unpairedCarriageReturn
  | invalidEscapeSequence
  | mixedLeadingWhitespace
  | inconsistentLeadingWhitespace
  | include
  | fuel
  deriving DecidableEq, Repr, Inhabited

structure Err where
  kind : ErrKind
  tok : Tok
  deriving Repr, Inhabited

structure St where
  rest : List Char                 -- un-lexed text; `next` is its head
  tokStart : Pos
  tokEnd : Pos
  cur : List Char                  -- lexeme of the in-progress token, reversed
  indentation : List (List Char)   -- indentation stack, top first; never empty
  interp : List Tok                -- interpolation start tokens, top first
  delims : List (Delim × Nat)      -- open delimiters with their line, top first
  recipeBody : Bool
  recipeBodyPending : Bool
  tokens : List Tok                -- emitted tokens, newest first
  consumed : List Char             -- (ghost) everything consumed so far, reversed
  startConsumed : List Char        -- (ghost) `consumed` at the moment `tokStart` was set
  deriving Repr, Inhabited

abbrev M := StateT St (Except Err)

def initial (src : List Char) : St :=
  { rest := src, tokStart := ⟨0, 0, 0⟩, tokEnd := ⟨0, 0, 0⟩, cur := [], indentation := [[]], interp := [],
    delims := [], recipeBody := false, recipeBodyPending := false, tokens := [], consumed := [],
    startConsumed := [] }

def internalError (msg : String) (s : St) : Err :=
  { kind := .internal msg, tok := ⟨.unspecified, s.tokEnd.offset, 0, s.tokEnd.line, s.tokEnd.column⟩ }

def utf8Len (cs : List Char) : Nat := (cs.map Char.utf8Size).sum

def stepPos (p : Pos) (c : Char) : Pos :=
  if c = '\n' then ⟨p.offset + c.utf8Size, p.line + 1, 0⟩
  else ⟨p.offset + c.utf8Size, p.line, p.column + c.utf8Size⟩

/-- fail with an error computed from the current state -/
def failWith {α : Type} (e : St → Err) : M α := fun s => .error (e s)

/-- `Lexer::advance` -/
def advance : M Unit := fun s =>
  match s.rest with
  | c :: cs =>
    .ok ((), { s with rest := cs, tokEnd := stepPos s.tokEnd c, cur := c :: s.cur, consumed := c :: s.consumed })
  | [] => .error (internalError "Lexer advanced past end of text" s)

/-- `Lexer::token` -/
def token (kind : Kind) : M Unit := fun s =>
  .ok ((), { s with
    tokens := ⟨kind, s.tokStart.offset, s.tokEnd.offset - s.tokStart.offset, s.tokStart.line, s.tokStart.column⟩ :: s.tokens
    tokStart := s.tokEnd, cur := [], startConsumed := s.consumed })

/-- the only other state updates: fields that carry no position -/
structure Frame where
  indentation : List (List Char)
  interp : List Tok
  delims : List (Delim × Nat)
  recipeBody : Bool
  recipeBodyPending : Bool

def St.frame (s : St) : Frame := ⟨s.indentation, s.interp, s.delims, s.recipeBody, s.recipeBodyPending⟩
def St.setFrame (s : St) (f : Frame) : St :=
  { s with indentation := f.indentation, interp := f.interp, delims := f.delims, recipeBody := f.recipeBody,
           recipeBodyPending := f.recipeBodyPending }

/-- update the position-free fields; a token pushed on the interpolation stack must be the newest token
or already be on it (`okInterp`), which is what the Rust code does (`tokens[tokens.len() - 1]`) -/
def okInterp (s : St) (f : Frame) : Bool :=
  f.interp.all (fun t => s.interp.contains t || s.tokens.head? = some t)

def setFrame (f : St → Frame) : M Unit := fun s =>
  if okInterp s (f s) then .ok ((), s.setFrame (f s))
  else .error (internalError "interpolation stack" s)

def isDelimiterStart (cs : List Char) : Option (List Char × Kind × Bool) :=
  -- delimiter, token kind, processes escapes (indented forms first, as in `StringKind::ALL`)
  if ['`', '`', '`'].isPrefixOf cs then some (['`', '`', '`'], .backtick, false)
  else if ['`'].isPrefixOf cs then some (['`'], .backtick, false)
  else if ['"', '"', '"'].isPrefixOf cs then some (['"', '"', '"'], .stringToken, true)
  else if ['"'].isPrefixOf cs then some (['"'], .stringToken, true)
  else if ['\'', '\'', '\''].isPrefixOf cs then some (['\'', '\'', '\''], .stringToken, false)
  else if ['\''].isPrefixOf cs then some (['\''], .stringToken, false)
  else none

/-- length highlighted by `Lexer::error`: unterminated strings highlight the delimiter only -/
def errorLexeme (kind : ErrKind) (lexeme : List Char) : Option (List Char) :=
  match kind with
  | .unterminatedString | .unterminatedBacktick =>
    match isDelimiterStart lexeme with
    | some (d, _, _) => some d
    | none => none
  | _ => some lexeme

/-- `Lexer::error` -/
def mkError (kind : ErrKind) (s : St) : Err :=
  match errorLexeme kind s.cur.reverse with
  | some l => { kind := kind, tok := ⟨.unspecified, s.tokStart.offset, utf8Len l, s.tokStart.line, s.tokStart.column⟩ }
  | none => internalError "Lexer::error: expected string or backtick token start" s

def nextIs (s : St) (c : Char) : Bool := s.rest.head? = some c
def nextIsWhitespace (s : St) : Bool := nextIs s ' ' || nextIs s '\t'
def restStartsWith (s : St) (p : List Char) : Bool := p.isPrefixOf s.rest
def atEol (s : St) : Bool := nextIs s '\n' || restStartsWith s ['\r', '\n']
def atEof (s : St) : Bool := s.rest.isEmpty
def atEolOrEof (s : St) : Bool := atEol s || atEof s

def topIndentation (s : St) : List Char := s.indentation.head?.getD []

/-- `Lexer::presume` -/
def presume (c : Char) : M Unit := do
  let s ← get
  if nextIs s c then advance else failWith (internalError "Lexer presumed character")

/-- `Lexer::accepted` -/
def accepted (c : Char) : M Bool := do
  let s ← get
  if nextIs s c then do advance; pure true else pure false

def presumeStr : List Char → M Unit
  | [] => pure ()
  | c :: cs => do presume c; presumeStr cs

def isBlankChar (c : Char) : Bool := c = ' ' || c = '\t'

/-- advance while the next character satisfies `p` (structural on the remaining input) -/
def advanceWhileAux (p : Char → Bool) : List Char → M Unit
  | [] => pure ()
  | c :: cs => if p c then do advance; advanceWhileAux p cs else pure ()

def advanceWhile (p : Char → Bool) : M Unit := do
  let s ← get
  advanceWhileAux p s.rest

/-- `Lexer::skip` -/
def advanceN : Nat → M Unit
  | 0 => pure ()
  | n + 1 => do advance; advanceN n

def isIdentifierStart (c : Char) : Bool := ('a' ≤ c && c ≤ 'z') || ('A' ≤ c && c ≤ 'Z') || c = '_'
def isIdentifierContinue (c : Char) : Bool := isIdentifierStart c || ('0' ≤ c && c ≤ '9') || c = '-'

def lexSingle (k : Kind) : M Unit := do advance; token k
def lexDouble (k : Kind) : M Unit := do advance; advance; token k

def lexWhitespace : M Unit := do advanceWhile isBlankChar; token .whitespace

/-- `Lexer::lex_dedent` (the `assert_eq!(current_token_length, 0)` is an explicit check) -/
def lexDedent : M Unit := do
  let s ← get
  if s.tokEnd.offset - s.tokStart.offset ≠ 0 then failWith (internalError "lex_dedent: token in progress")
  else do
    token .dedent
    setFrame (fun s => { s.frame with indentation := s.indentation.tail, recipeBodyPending := false, recipeBody := false })

/-- dedent until the top of the stack equals `ws` (`ws` is known to be on the stack) -/
def dedentUntil (ws : List Char) : List (List Char) → M Unit
  | [] => pure ()
  | top :: below => if top = ws then pure () else do lexDedent; dedentUntil ws below

/-- advance until end of line (`\n` or `\r\n`) or end of file -/
def advanceToEolAux : List Char → M Unit
  | [] => pure ()
  | c :: cs =>
    if c = '\n' || (c = '\r' && cs.head? = some '\n') then pure ()
    else do advance; advanceToEolAux cs

/-- `Lexer::lex_comment` -/
def lexComment : M Unit := do
  presume '#'
  let s ← get
  advanceToEolAux s.rest
  token .comment

/-- `Lexer::lex_identifier` -/
def lexIdentifier : M Unit := do
  advance
  advanceWhile isIdentifierContinue
  token .identifier

def openDelimiter (d : Delim) : M Unit :=
  setFrame (fun s => { s.frame with delims := (d, s.tokStart.line) :: s.delims })

def closeDelimiter (d : Delim) : M Unit := do
  let s ← get
  match s.delims with
  | (open_, _) :: rest => do
    setFrame (fun s => { s.frame with delims := rest })
    if open_ = d then pure () else failWith (mkError .mismatchedClosingDelimiter)
  | [] => failWith (mkError .unexpectedClosingDelimiter)

def delimiterAction (k : Kind) : M Unit :=
  match k with
  | .braceL => openDelimiter .brace
  | .braceR => closeDelimiter .brace
  | .bracketL => openDelimiter .bracket
  | .bracketR => closeDelimiter .bracket
  | .parenL => openDelimiter .paren
  | .parenR => closeDelimiter .paren
  | _ => failWith (internalError "lex_delimiter called with non-delimiter token")

/-- `Lexer::lex_delimiter` -/
def lexDelimiter (k : Kind) : M Unit := do
  delimiterAction k
  lexSingle k

/-- the tail of `lex_choices` / `lex_digraph` when no second character matched -/
def unexpectedSecond : M Unit := do
  token .unspecified
  let s ← get
  if atEof s then failWith (mkError .unexpectedEndOfToken)
  else do
    advance
    failWith (mkError .unexpectedCharacter)

def tryChoices : List (Char × Kind) → M Bool
  | [] => pure false
  | (second, thenK) :: more => do
    if (← accepted second) then do
      token thenK
      pure true
    else tryChoices more

/-- `Lexer::lex_choices` -/
def lexChoices (first : Char) (choices : List (Char × Kind)) (otherwise : Option Kind) : M Unit := do
  presume first
  if (← tryChoices choices) then pure ()
  else match otherwise with
    | some k => token k
    | none => unexpectedSecond

/-- `Lexer::lex_digraph` -/
def lexDigraph (left right : Char) (k : Kind) : M Unit := do
  presume left
  if (← accepted right) then token k else unexpectedSecond

/-- `Lexer::lex_colon` -/
def lexColon : M Unit := do
  presume ':'
  if (← accepted '=') then token .colonEquals
  else if (← accepted ':') then token .colonColon
  else do
    token .colon
    setFrame (fun s => { s.frame with recipeBodyPending := true })

/-- `Lexer::lex_escape` -/
def lexEscape : M Unit := do
  presume '\\'
  if (← accepted '\n') then do
    advanceWhile isBlankChar
    token .whitespace
  else if (← accepted '\r') then do
    if !(← accepted '\n') then failWith (mkError .unpairedCarriageReturn)
    else do
      advanceWhile isBlankChar
      token .whitespace
  else do
    let s ← get
    match s.rest with
    | _ :: _ => failWith (mkError .invalidEscapeSequence)
    | [] => token .whitespace

def lexEolHead : M Unit := do
  if (← accepted '\r') then
    (if !(← accepted '\n') then failWith (mkError .unpairedCarriageReturn) else pure ())
  else presume '\n'

/-- `Lexer::lex_eol` -/
def lexEol : M Unit := do
  lexEolHead
  let s ← get
  if s.delims.isEmpty then token .eol else token .whitespace

/-- the scanning loop of `Lexer::lex_string` (structural on the remaining input) -/
def stringLoop (delim : List Char) (escapes : Bool) (errKind : ErrKind) : List Char → Bool → M Unit
  | [], _ => failWith (mkError errKind)
  | c :: cs, escape =>
    if escapes && c = '\\' && !escape then do advance; stringLoop delim escapes errKind cs true
    else if delim.isPrefixOf (c :: cs) && !escape then pure ()
    else do advance; stringLoop delim escapes errKind cs false

/-- `Lexer::lex_string` -/
def lexString : M Unit := do
  let s ← get
  match isDelimiterStart s.rest with
  | none => do
    advance
    failWith (internalError "Lexer::lex_string: invalid string start")
  | some (delim, kind, escapes) => do
    let errKind := if kind = .backtick then ErrKind.unterminatedBacktick else ErrKind.unterminatedString
    presumeStr delim
    let s1 ← get
    stringLoop delim escapes errKind s1.rest false
    presumeStr delim
    token kind

/-- `Lexer::lex_normal`, every arm but whitespace (`s` is the current state) -/
def lexOther (s : St) (start : Char) : M Unit :=
  if start = '!' then
    (if restStartsWith s "!include".toList then failWith (mkError .include)
     else lexChoices '!' [('=', .bangEquals), ('~', .bangTilde)] none)
  else if start = '#' then lexComment
  else if start = '$' then lexSingle .dollar
  else if start = '&' then lexDigraph '&' '&' .ampersandAmpersand
  else if start = '(' then lexDelimiter .parenL
  else if start = ')' then lexDelimiter .parenR
  else if start = '*' then lexSingle .asterisk
  else if start = '+' then lexSingle .plus
  else if start = ',' then lexSingle .comma
  else if start = '/' then lexSingle .slash
  else if start = ':' then lexColon
  else if start = '=' then lexChoices '=' [('=', .equalsEquals), ('~', .equalsTilde)] (some .equals)
  else if start = '?' then lexSingle .questionMark
  else if start = '@' then lexSingle .at
  else if start = '[' then lexDelimiter .bracketL
  else if start = '\\' then lexEscape
  else if start = '\n' || start = '\r' then lexEol
  else if start = Char.ofNat 0xFEFF then lexSingle .byteOrderMark
  else if start = ']' then lexDelimiter .bracketR
  else if start = '`' || start = '"' || start = '\'' then lexString
  else if start = '{' then lexDelimiter .braceL
  else if start = '|' then lexDigraph '|' '|' .barBar
  else if start = '}' then lexDelimiter .braceR
  else if isIdentifierStart start then lexIdentifier
  else do
    advance
    failWith (mkError .unknownStartOfToken)

/-- `Lexer::lex_normal` -/
def lexNormal (start : Char) : M Unit := do
  let s ← get
  if start = ' ' || start = '\t' then lexWhitespace else lexOther s start

/-- `Lexer::lex_interpolation` -/
def lexInterpolation (interpolationStart : Tok) (start : Char) : M Unit := do
  let s ← get
  if restStartsWith s ['}', '}'] then
    match s.interp with
    | [] => do
      advance
      advance
      failWith (internalError "lex_interpolation: empty interpolation stack")
    | _ :: below => do
      setFrame (fun s => { s.frame with interp := below })
      lexDouble .interpolationEnd
  else if atEolOrEof s then throw { kind := .unterminatedInterpolation, tok := interpolationStart }
  else lexNormal start

inductive Terminator where
  | endOfFile | interpolation | newline | newlineCarriageReturn

/-- the scanning loop of `Lexer::lex_body`; `skip` counts characters of a `{{{{` still to be skipped -/
def bodyLoop : List Char → Nat → M Terminator
  | [], _ => pure .endOfFile
  | c :: cs, skip =>
    if skip > 0 then do advance; bodyLoop cs (skip - 1)
    else if ['{', '{', '{', '{'].isPrefixOf (c :: cs) then do advance; bodyLoop cs 3
    else if c = '\n' then pure .newline
    else if c = '\r' && cs.head? = some '\n' then pure .newlineCarriageReturn
    else if ['{', '{'].isPrefixOf (c :: cs) then pure .interpolation
    else do advance; bodyLoop cs 0

/-- emit the text scanned so far, if any -/
def flushText : M Unit := do
  let s ← get
  if s.tokEnd.offset - s.tokStart.offset > 0 then token .text else pure ()

def pushInterpolation : M Unit := do
  let s1 ← get
  match s1.tokens with
  | t :: _ => setFrame (fun s => { s.frame with interp := t :: s.interp })
  | [] => failWith (internalError "no token")

def bodyTerminator (t : Terminator) : M Unit :=
  match t with
  | .newline => lexSingle .eol
  | .newlineCarriageReturn => lexDouble .eol
  | .interpolation => do
    lexDouble .interpolationStart
    pushInterpolation
  | .endOfFile => pure ()

/-- `Lexer::lex_body` -/
def lexBody : M Unit := do
  let s0 ← get
  let t ← bodyLoop s0.rest 0
  flushText
  bodyTerminator t

inductive Indentation where
  | blank | continue_ | decrease | inconsistent | increase | mixed
  deriving DecidableEq, Repr

/-- the classification at the head of `Lexer::lex_line_start`.
`body_whitespace` is always empty in the Rust code (`.next()` on the index iterator yields 0), which
makes its two body-specific Mixed / Inconsistent branches dead; they are omitted here and the
correspondence check compares the result on every input -/
def classify (s : St) : Indentation × List Char :=
  let whitespace := s.rest.takeWhile isBlankChar
  let rest := s.rest.dropWhile isBlankChar
  let ind := topIndentation s
  let spaces := whitespace.any (· = ' ')
  let tabs := whitespace.any (· = '\t')
  let i : Indentation :=
    if rest.head? = some '\n' || ['\r', '\n'].isPrefixOf rest || rest.isEmpty then .blank
    else if whitespace = ind then .continue_
    else if s.indentation.contains whitespace then .decrease
    else if s.recipeBody && ind.isPrefixOf whitespace then .continue_
    else if !s.recipeBody && spaces && tabs then .mixed
    else if utf8Len whitespace < utf8Len ind then .inconsistent
    else if utf8Len whitespace ≥ utf8Len ind && !ind.isPrefixOf whitespace then .inconsistent
    else .increase
  (i, whitespace)

/-- `Lexer::lex_line_start` -/
def lexLineStart : M Unit := do
  let s ← get
  let whitespace := (classify s).2
  let ind := topIndentation s
  match (classify s).1 with
  | .blank =>
    if !whitespace.isEmpty then do advanceWhile isBlankChar; token .whitespace else pure ()
  | .continue_ =>
    if !ind.isEmpty then do advanceN ind.length; token .whitespace else pure ()
  | .decrease => do
    dedentUntil whitespace s.indentation
    if !whitespace.isEmpty then do
      advanceWhile isBlankChar
      token .whitespace
    else pure ()
  | .mixed => do
    advanceN whitespace.length
    failWith (mkError .mixedLeadingWhitespace)
  | .inconsistent => do
    advanceN whitespace.length
    failWith (mkError .inconsistentLeadingWhitespace)
  | .increase => do
    advanceWhile isBlankChar
    let s1 ← get
    if !s1.delims.isEmpty then token .whitespace
    else do
      setFrame (fun s2 => { s2.frame with indentation := s2.cur.reverse :: s2.indentation })
      token .indent
      setFrame (fun s2 => if s2.recipeBodyPending then { s2.frame with recipeBody := true } else s2.frame)

def lineStartIfNeeded : M Unit := do
  let s ← get
  if s.tokStart.column = 0 then lexLineStart else pure ()

def dispatch (first : Char) : M Unit := do
  let s1 ← get
  match s1.interp with
  | istart :: _ => lexInterpolation istart first
  | [] => if s1.recipeBody then lexBody else lexNormal first

/-- one iteration of the main loop of `Lexer::tokenize`; `false` = end of input -/
def stepMain : M Bool := do
  lineStartIfNeeded
  let s1 ← get
  match s1.rest with
  | [] => pure false
  | first :: _ => do
    dispatch first
    pure true

def fuelError (s : St) : Err :=
  { kind := .fuel, tok := ⟨.unspecified, s.tokEnd.offset, 0, s.tokEnd.line, s.tokEnd.column⟩ }

def mainLoop : Nat → M Unit
  | 0 => failWith fuelError
  | fuel + 1 => do
    if (← stepMain) then mainLoop fuel else pure ()

def dedentAll : List (List Char) → M Unit
  | [] => pure ()
  | top :: below => if top.isEmpty then pure () else do lexDedent; dedentAll below

/-- the part of `Lexer::tokenize` after the main loop -/
def finish : M Unit := do
  let s ← get
  match s.interp with
  | istart :: _ => throw { kind := .unterminatedInterpolation, tok := istart }
  | [] => do
    dedentAll s.indentation
    token .eof

def tokenizeM (src : List Char) : M Unit := do
  mainLoop (src.length + 1)
  finish

/-- `Lexer::tokenize`; its three final `assert_eq!`s are explicit checks -/
def tokenize (src : List Char) : Except Err (List Tok) :=
  match tokenizeM src (initial src) with
  | .error e => .error e
  | .ok ((), s) =>
    if s.tokStart.offset ≠ s.tokEnd.offset then .error (internalError "assert token_start = token_end" s)
    else if s.tokStart.offset ≠ utf8Len src then .error (internalError "assert token_start = src.len()" s)
    else if s.indentation.length ≠ 1 then .error (internalError "assert indentation.len() = 1" s)
    else .ok s.tokens.reverse

def Kind.name : Kind → String
  | .ampersandAmpersand => "AmpersandAmpersand" | .asterisk => "Asterisk" | .at => "At" | .backtick => "Backtick"
  | .bangEquals => "BangEquals" | .bangTilde => "BangTilde" | .barBar => "BarBar" | .braceL => "BraceL"
  | .braceR => "BraceR" | .bracketL => "BracketL" | .bracketR => "BracketR" | .byteOrderMark => "ByteOrderMark"
  | .colon => "Colon" | .colonColon => "ColonColon" | .colonEquals => "ColonEquals" | .comma => "Comma"
  | .comment => "Comment" | .dedent => "Dedent" | .dollar => "Dollar" | .eof => "Eof" | .eol => "Eol"
  | .equals => "Equals" | .equalsEquals => "EqualsEquals" | .equalsTilde => "EqualsTilde"
  | .identifier => "Identifier" | .indent => "Indent" | .interpolationEnd => "InterpolationEnd"
  | .interpolationStart => "InterpolationStart" | .parenL => "ParenL" | .parenR => "ParenR" | .plus => "Plus"
  | .questionMark => "QuestionMark" | .slash => "Slash" | .stringToken => "StringToken" | .text => "Text"
  | .unspecified => "Unspecified" | .whitespace => "Whitespace"

def ErrKind.name : ErrKind → String
  | .internal _ => "Internal" | .unknownStartOfToken => "UnknownStartOfToken"
  | .unterminatedString => "UnterminatedString" | .unterminatedBacktick => "UnterminatedBacktick"
  | .unterminatedInterpolation => "UnterminatedInterpolation"
  | .mismatchedClosingDelimiter => "MismatchedClosingDelimiter"
  | .unexpectedClosingDelimiter => "UnexpectedClosingDelimiter" | .unexpectedCharacter => "UnexpectedCharacter"
  | .unexpectedEndOfToken => "UnexpectedEndOfToken" | .unpairedCarriageReturn => "UnpairedCarriageReturn"
  | .invalidEscapeSequence => "InvalidEscapeSequence" | .mixedLeadingWhitespace => "MixedLeadingWhitespace"
  | .inconsistentLeadingWhitespace => "InconsistentLeadingWhitespace" | .include => "Include"
  | .fuel => "Fuel"

end Just.Lexer
