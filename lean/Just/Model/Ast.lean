import Just.Model.Items
import Just.Model.Body
import Just.Generated.Tables
/-
Token-level model of a whole justfile: `Parser::parse_ast` with `parse_attributes`, `parse_set`,
`parse_interpreter`, `parse_string_literal`, `pop_doc_comment`, the keyword dispatch with its
look-ahead guards (src/parser.rs) and `Display for Ast` / `Item` / `Set` / `Setting` / `Attribute` /
`Interpreter` / `Alias` / `Assignment` with the doc-comment and attribute lines of `ColorDisplay for
Recipe` (src/ast.rs, item.rs, set.rs, setting.rs, attribute.rs, interpreter.rs, alias.rs,
assignment.rs, recipe.rs).

The printer produces the tokens the lexer yields for the printed text: every line ends in `Eol`, a
blank line is one more `Eol` - which, after a recipe with a body, comes *before* the `Dedent`.

What is abstracted: an attribute is its name and its literal arguments as displayed (the `enum
Attribute` value is a function of these); the order between two `[group(…)]` attributes is a parameter
`litLe` (the real one compares cooked text); `Recipe.doc` is kept only when it is printed (no
`[doc]` attribute: otherwise it is a function of that attribute); for a module the popped doc comment
and the attributes are kept as such (the code keeps the resolved doc string and the group names).
-/
namespace Just.Ast
open Just Just.Syntax Just.Header Just.Items

def tBracketL : Tk := .other "BracketL"
def tBracketR : Tk := .other "BracketR"
def tQuestion : Tk := .other "QuestionMark"

/-! ### string literals outside expressions -/

/-- `parse_string_literal`: an identifier in front must be `x`, white space or not -/
def parseLit : List Tk → Option (String × List Tk)
  | .ident "x" :: .strAdj s :: r => some (xLit s, r)
  | .ident "x" :: .str s :: r => some (xLit s, r)
  | .str s :: r => some (s, r)
  | .strAdj s :: r => some (s, r)
  | _ => none

/-- literals separated by commas -/
def printLits : List String → List Tk
  | [] => []
  | [l] => litTokens l
  | l :: l' :: ls => litTokens l ++ .comma :: printLits (l' :: ls)

/-- `loop { push(parse_string_literal); if !accepted(Comma) { break } }` -/
def parseLitList : Nat → List Tk → Option (List String × List Tk)
  | 0, _ => none
  | f + 1, ts =>
    match parseLit ts with
    | none => none
    | some (l, r) =>
      match r with
      | .comma :: r' =>
        match parseLitList f r' with
        | some (ls, r'') => some (l :: ls, r'')
        | none => none
      | _ => some ([l], r)

/-! ### attributes -/

structure Attr where
  name : String
  args : List String      -- the literals as displayed
  deriving Repr, DecidableEq, Inhabited

/-- `Attribute::new`: the name is known and the number of arguments is in its range -/
def attrValid (a : Attr) : Bool :=
  match Generated.attributeTable.find? (fun e => e.1 == a.name) with
  | some (_, lo, hi) => lo ≤ a.args.length && (match hi with | some h => a.args.length ≤ h | none => true)
  | none => false

def attrIndex (name : String) : Nat := (Generated.attributeTable.map (·.1)).idxOf name

def argsLe (litLe : String → String → Bool) : List String → List String → Bool
  | [], _ => true
  | _ :: _, [] => false
  | a :: as, b :: bs => if a == b then argsLe litLe as bs else litLe a b

/-- `Ord for Attribute`: declaration order, then the payload -/
def attrLe (litLe : String → String → Bool) (a b : Attr) : Bool :=
  if attrIndex a.name == attrIndex b.name then argsLe litLe a.args b.args else attrIndex a.name < attrIndex b.name

/-- insertion into the `BTreeMap` of `parse_attributes` -/
def insertAttr (litLe : String → String → Bool) (a : Attr) : List Attr → List Attr
  | [] => [a]
  | b :: l => if attrLe litLe b a then b :: insertAttr litLe a l else a :: b :: l

/-- `DuplicateAttribute`: the same attribute, or - unless it is `group` (`repeatable`) - the same kind -/
def isDup (a : Attr) (seen : List Attr) : Bool :=
  seen.any (fun b => b.name == a.name && (a.name != "group" || b.args == a.args))

def printAttrArgs : List String → List Tk
  | [] => []
  | l :: ls => .lparen :: (printLits (l :: ls) ++ [.rparen])

/-- `[name]`, `[name(lit, …)]` and the end of the line -/
def printAttr (a : Attr) : List Tk :=
  tBracketL :: .ident a.name :: (printAttrArgs a.args ++ [tBracketR, tEol])

def printAttrs : List Attr → List Tk
  | [] => []
  | a :: as => printAttr a ++ printAttrs as

/-- the arguments of one attribute: `: lit`, `(lit, …)` or nothing -/
def parseAttrArgs (fuel : Nat) (ts : List Tk) : Option (List String × List Tk) :=
  match ts with
  | .other "Colon" :: r =>
    match parseLit r with
    | some (l, r') => some ([l], r')
    | none => none
  | .lparen :: r =>
    match parseLitList fuel r with
    | some (ls, r1) =>
      match r1 with
      | .rparen :: r' => some (ls, r')
      | _ => none
    | none => none
  | _ => some ([], ts)

/-- the attributes inside one pair of brackets (after `[`), then `]` and `expect_eol` -/
def parseAttrGroup (litLe : String → String → Bool) (fuel : Nat) : Nat → List Attr → List Tk → Option (List Attr × List Tk)
  | 0, _, _ => none
  | f + 1, acc, ts =>
    match ts with
    | .ident n :: r =>
      match parseAttrArgs fuel r with
      | none => none
      | some (args, r1) =>
        if attrValid ⟨n, args⟩ = false then none
        else if isDup ⟨n, args⟩ acc = true then none
        else
          match r1 with
          | .comma :: r2 => parseAttrGroup litLe fuel f (insertAttr litLe ⟨n, args⟩ acc) r2
          | .other "BracketR" :: r2 =>
            match expectEol r2 with
            | some r3 => some (insertAttr litLe ⟨n, args⟩ acc, r3)
            | none => none
          | _ => none
    | _ => none

/-- `parse_attributes`: `while let Some(bracket) = self.accept(BracketL)?`; the empty list is `None` -/
def parseAttributes (litLe : String → String → Bool) (fuel : Nat) : Nat → List Attr → List Tk → Option (List Attr × List Tk)
  | 0, _, _ => none
  | f + 1, acc, ts =>
    match ts with
    | .other "BracketL" :: r =>
      match parseAttrGroup litLe fuel fuel acc r with
      | some (acc', r') => parseAttributes litLe fuel f acc' r'
      | none => none
    | _ => some (acc, ts)

def hasAttr (n : String) (as : List Attr) : Bool := as.any (fun a => a.name == n)

/-! ### settings -/

inductive SetVal where
  | flag (b : Bool)
  | lit (l : String)
  | interp (cmd : String) (args : List String)
  deriving Repr, DecidableEq, Inhabited

structure Setting where
  name : String
  value : SetVal
  deriving Repr, DecidableEq, Inhabited

/-- which `parse_set_*` function reads the value of this setting -/
def settingForm (name : String) : Option String :=
  match Generated.settingTable.find? (fun e => e.1 == name) with
  | some (_, form) => some form
  | none => none

/-- `, lit` for every argument (`Display for Interpreter`) -/
def printInterpArgs : List String → List Tk
  | [] => []
  | a :: as => .comma :: (litTokens a ++ printInterpArgs as)

def printSetVal : SetVal → List Tk
  | .flag true => [.ident "true"]
  | .flag false => [.ident "false"]
  | .lit l => litTokens l
  | .interp cmd args => tBracketL :: (litTokens cmd ++ printInterpArgs args ++ [tBracketR])

/-- `set NAME := VALUE` -/
def printSetting (s : Setting) : List Tk := .ident "set" :: .ident s.name :: tColonEquals :: printSetVal s.value

/-- `parse_set_bool` -/
def parseSetBool : List Tk → Option (Bool × List Tk)
  | .other "ColonEquals" :: .ident "true" :: r => some (true, r)
  | .other "ColonEquals" :: .ident "false" :: r => some (false, r)
  | .other "ColonEquals" :: _ => none
  | ts => some (true, ts)

/-- `while !self.next_is(BracketR) { push(parse_string_literal); if !accepted(Comma) { break } }` -/
def parseInterpArgs : Nat → List Tk → Option (List String × List Tk)
  | 0, _ => none
  | f + 1, ts =>
    match ts with
    | .other "BracketR" :: _ => some ([], ts)
    | _ =>
      match parseLit ts with
      | none => none
      | some (l, r) =>
        match r with
        | .comma :: r' =>
          match parseInterpArgs f r' with
          | some (ls, r'') => some (l :: ls, r'')
          | none => none
        | _ => some ([l], r)

/-- `parse_interpreter` -/
def parseInterpreter (fuel : Nat) (ts : List Tk) : Option (SetVal × List Tk) :=
  match ts with
  | .other "BracketL" :: r =>
    match parseLit r with
    | none => none
    | some (cmd, r1) =>
      match r1 with
      | .comma :: r2 =>
        match parseInterpArgs fuel r2 with
        | some (args, r3) =>
          match r3 with
          | .other "BracketR" :: r4 => some (.interp cmd args, r4)
          | _ => none
        | none => none
      | .other "BracketR" :: r4 => some (.interp cmd [], r4)
      | _ => none
  | _ => none

/-- `parse_set` (from the keyword `set` on) -/
def parseSet (fuel : Nat) (ts : List Tk) : Option (Setting × List Tk) :=
  match ts with
  | .ident "set" :: .ident name :: r =>
    match settingForm name with
    | some "bool" =>
      match parseSetBool r with
      | some (b, r') => some (⟨name, .flag b⟩, r')
      | none => none
    | some "string" =>
      match r with
      | .other "ColonEquals" :: r1 =>
        match parseLit r1 with
        | some (l, r') => some (⟨name, .lit l⟩, r')
        | none => none
      | _ => none
    | some "interpreter" =>
      match r with
      | .other "ColonEquals" :: r1 =>
        match parseInterpreter fuel r1 with
        | some (v, r') => some (⟨name, v⟩, r')
        | none => none
      | _ => none
    | _ => none
  | _ => none

/-! ### items -/

inductive Item where
  | alias (priv : Bool) (a : Alias)
  | assignment (priv : Bool) (a : Assignment)
  | comment (text : List Char)
  | import (optional : Bool) (path : String)
  | module (optional : Bool) (name : String) (path : Option String) (doc : Option (List Char)) (attrs : List Attr)
  | recipe (doc : Option (List Char)) (attrs : List Attr) (r : Recipe)
  | set (s : Setting)
  | unexport (name : String)
  deriving Repr, Inhabited

/-- `mem::discriminant` -/
def Item.kind : Item → Nat
  | .alias .. => 0 | .assignment .. => 1 | .comment .. => 2 | .import .. => 3
  | .module .. => 4 | .recipe .. => 5 | .set .. => 6 | .unexport .. => 7

def Item.isRecipe : Item → Bool
  | .recipe .. => true
  | _ => false

def privLine (p : Bool) : List Tk := if p then [tBracketL, .ident "private", tBracketR, tEol] else []

def docLine : Option (List Char) → List Tk
  | some d => [.comment ('#' :: ' ' :: d), tEol]
  | none => []

def printOptional (o : Bool) : List Tk := if o then [tQuestion] else []

def printOptLit : Option String → List Tk
  | some l => litTokens l
  | none => []

/-- the body of a recipe as the lexer presents it when a blank line follows (`blank`) or not -/
def printBodyBlock (body : List BLine) (blank : Bool) : List Tk :=
  match body with
  | [] => if blank then [tEol] else []
  | l :: ls => tIndent :: (printLines (l :: ls) ++ ((if blank then [tEol] else []) ++ [tDedent]))

/-- one item with its line end(s); `blank`: `Display for Ast` puts an empty line after it -/
def printOne (it : Item) (blank : Bool) : List Tk :=
  match it with
  | .recipe doc attrs r =>
    (if hasAttr "doc" attrs then [] else docLine doc) ++ (printAttrs attrs ++ (printHeader r.header ++ printBodyBlock r.body blank))
  | .alias p a => privLine p ++ (printAlias a ++ (if blank then [tEol] else []))
  | .assignment p a => privLine p ++ (printAssignment a ++ (if blank then [tEol] else []))
  | .comment c => .comment c :: tEol :: (if blank then [tEol] else [])
  | .import o p => .ident "import" :: (printOptional o ++ (litTokens p ++ tEol :: (if blank then [tEol] else [])))
  | .module o n p _ _ => .ident "mod" :: (printOptional o ++ (.ident n :: (printOptLit p ++ tEol :: (if blank then [tEol] else []))))
  | .set s => printSetting s ++ tEol :: (if blank then [tEol] else [])
  | .unexport n => .ident "unexport" :: .ident n :: tEol :: (if blank then [tEol] else [])

/-- `Display for Ast`: an empty line after a recipe and between items of different kinds -/
def sepBlank (it nxt : Item) : Bool := it.isRecipe || it.kind != nxt.kind

def printItems : List Item → List Tk
  | [] => []
  | [it] => printOne it false
  | it :: nxt :: rest => printOne it (sepBlank it nxt) ++ printItems (nxt :: rest)

def printAst (items : List Item) : List Tk := printItems items ++ [tEof]

/-- what `Display for Item` keeps of an item: everything, except the doc comment and the attributes of a module -/
def Item.forget : Item → Item
  | .module o n p _ _ => .module o n p none []
  | it => it

/-! ### the parser -/

/-- `str::trim_end` -/
def trimEnd (cs : List Char) : List Char := (cs.reverse.dropWhile Body.isWhite).reverse

/-- `contents[1..].trim_start()` -/
def docOf (c : List Char) : List Char := (c.drop 1).dropWhile Body.isWhite

/-- `pop_doc_comment`; the item list is kept in reverse -/
def popDoc (acc : List Item) (eol : Bool) : Option (List Char) × List Item :=
  if eol then (none, acc)
  else
    match acc with
    | .comment c :: rest => (some (docOf c), rest)
    | _ => (none, acc)

def isStr : Tk → Bool
  | .str _ => true
  | .strAdj _ => true
  | _ => false

/-- `next_are(&[Identifier, Identifier, ColonEquals])` -/
def guardIIC : List Tk → Bool
  | .ident _ :: .ident _ :: .other "ColonEquals" :: _ => true
  | _ => false

def guardUnexport : List Tk → Bool
  | .ident _ :: .ident _ :: .other "Eof" :: _ => true
  | .ident _ :: .ident _ :: .other "Eol" :: _ => true
  | _ => false

def guardImport : List Tk → Bool
  | .ident _ :: .str _ :: _ => true
  | .ident _ :: .strAdj _ :: _ => true
  | .ident _ :: .ident _ :: .str _ :: _ => true
  | .ident _ :: .ident _ :: .strAdj _ :: _ => true
  | .ident _ :: .other "QuestionMark" :: _ => true
  | _ => false

def guardMod : List Tk → Bool
  | .ident _ :: .ident _ :: .comment _ :: _ => true
  | .ident _ :: .ident _ :: .other "Eof" :: _ => true
  | .ident _ :: .ident _ :: .other "Eol" :: _ => true
  | .ident _ :: .ident _ :: .ident _ :: .str _ :: _ => true
  | .ident _ :: .ident _ :: .ident _ :: .strAdj _ :: _ => true
  | .ident _ :: .ident _ :: .str _ :: _ => true
  | .ident _ :: .ident _ :: .strAdj _ :: _ => true
  | .ident _ :: .other "QuestionMark" :: _ => true
  | _ => false

def guardSet : List Tk → Bool
  | .ident _ :: .ident _ :: .other "ColonEquals" :: _ => true
  | .ident _ :: .ident _ :: .comment _ :: .other "Eof" :: _ => true
  | .ident _ :: .ident _ :: .comment _ :: .other "Eol" :: _ => true
  | .ident _ :: .ident _ :: .other "Eof" :: _ => true
  | .ident _ :: .ident _ :: .other "Eol" :: _ => true
  | _ => false

/-- `next_are(&[Identifier, ColonEquals])` -/
def guardAssign : List Tk → Bool
  | .ident _ :: .other "ColonEquals" :: _ => true
  | _ => false

def startsUnderscore (n : String) : Bool := n.toList.head? == some '_'

/-- `Line::is_shebang` of the first line -/
def bodyShebang : List BLine → Bool
  | (.text s :: _) :: _ => (s.toList.take 2) == ['#', '!']
  | _ => false

/-- the three attribute conflicts `parse_recipe` rejects -/
def recipeConflict (attrs : List Attr) (body : List BLine) : Bool :=
  (bodyShebang body && hasAttr "script" attrs)
  || (hasAttr "working-directory" attrs && hasAttr "no-cd" attrs)
  || (hasAttr "exit-message" attrs && hasAttr "no-exit-message" attrs)

inductive Outcome where
  | more (acc : List Item) (eol : Bool) (rest : List Tk)
  | done (acc : List Item)
  deriving Repr, Inhabited

/-- `parse_recipe` with the popped doc comment -/
def recipeStep (fuel : Nat) (attrs : List Attr) (acc : List Item) (eol : Bool) (ts : List Tk) : Option Outcome :=
  match parseRecipe fuel ts with
  | none => none
  | some (r, rest) =>
    if recipeConflict attrs r.body = true then none
    else
      let doc := if hasAttr "doc" attrs then none else ((popDoc acc eol).1).filter (fun d => !d.isEmpty)
      some (.more (.recipe doc attrs r :: (popDoc acc eol).2) eol rest)

/-- the optional path of a `mod` item -/
def parseModPath (ts : List Tk) : Option (Option String × List Tk) :=
  match ts with
  | .str _ :: _ => (parseLit ts).map (fun p => (some p.1, p.2))
  | .strAdj _ :: _ => (parseLit ts).map (fun p => (some p.1, p.2))
  | .ident _ :: .str _ :: _ => (parseLit ts).map (fun p => (some p.1, p.2))
  | .ident _ :: .strAdj _ :: _ => (parseLit ts).map (fun p => (some p.1, p.2))
  | _ => some (none, ts)

def acceptQuestion : List Tk → Bool × List Tk
  | .other "QuestionMark" :: r => (true, r)
  | ts => (false, ts)

def modStep (attrs : List Attr) (acc : List Item) (eol : Bool) (ts : List Tk) : Option Outcome :=
  match ts with
  | .ident _ :: r =>
    match (acceptQuestion r).2 with
    | .ident name :: r2 =>
      match parseModPath r2 with
      | none => none
      | some (path, rest) =>
        if attrs.all (fun a => a.name == "doc" || a.name == "group") = false then none
        else
          let doc := if hasAttr "doc" attrs then none else (popDoc acc eol).1
          some (.more (.module (acceptQuestion r).1 name path doc attrs :: (popDoc acc eol).2) eol rest)
    | _ => none
  | _ => none

def importStep (attrs : List Attr) (acc : List Item) (eol : Bool) (ts : List Tk) : Option Outcome :=
  match ts with
  | .ident _ :: r =>
    match parseLit (acceptQuestion r).2 with
    | some (p, rest) => if attrs.isEmpty then some (.more (.import (acceptQuestion r).1 p :: acc) eol rest) else none
    | none => none
  | _ => none

def onlyPrivate (attrs : List Attr) : Bool := attrs.all (fun a => a.name == "private")

/-- the item that starts with an identifier: the keyword dispatch of `parse_ast` -/
def identStep (fuel : Nat) (kw : String) (attrs : List Attr) (acc : List Item) (eol : Bool) (ts : List Tk) : Option Outcome :=
  if kw == "alias" && guardIIC ts then
    match parseAlias fuel ts with
    | some (a, rest) => if onlyPrivate attrs then some (.more (.alias (!attrs.isEmpty) a :: acc) eol rest) else none
    | none => none
  else if kw == "export" && guardIIC ts then
    match parseAssignment fuel ts with
    | some (a, rest) =>
      if onlyPrivate attrs then some (.more (.assignment (!attrs.isEmpty || startsUnderscore a.name) a :: acc) eol rest) else none
    | none => none
  else if kw == "unexport" && guardUnexport ts then
    match ts with
    | _ :: .ident n :: r =>
      match expectEol r with
      | some rest => if attrs.isEmpty then some (.more (.unexport n :: acc) eol rest) else none
      | none => none
    | _ => none
  else if kw == "import" && guardImport ts then importStep attrs acc eol ts
  else if kw == "mod" && guardMod ts then modStep attrs acc eol ts
  else if kw == "set" && guardSet ts then
    match parseSet fuel ts with
    | some (s, rest) => if attrs.isEmpty then some (.more (.set s :: acc) eol rest) else none
    | none => none
  else if guardAssign ts then
    match parseAssignment fuel ts with
    | some (a, rest) =>
      if onlyPrivate attrs then some (.more (.assignment (!attrs.isEmpty || startsUnderscore a.name) a :: acc) eol rest) else none
    | none => none
  else recipeStep fuel attrs acc eol ts

/-- one turn of the `loop` of `parse_ast` -/
def step (litLe : String → String → Bool) (fuel : Nat) (acc : List Item) (eol : Bool) (ts : List Tk) : Option Outcome :=
  match parseAttributes litLe fuel fuel [] ts with
  | none => none
  | some (attrs, ts1) =>
    match ts1 with
    | .comment c :: r =>
      match expectEol r with
      | some r' => if attrs.isEmpty then some (.more (.comment (trimEnd c) :: acc) false r') else none
      | none => none
    | .other "Eol" :: r => if attrs.isEmpty then some (.more acc true r) else none
    | .other "Eof" :: r => if r.isEmpty then some (.done acc) else none   -- `break`: attributes before the end of the file are not reported
    | .ident kw :: _ => identStep fuel kw attrs acc eol ts1
    | .other "At" :: _ => recipeStep fuel attrs acc eol ts1
    | _ => none

def parseItems (litLe : String → String → Bool) (fuel : Nat) : Nat → List Item → Bool → List Tk → Option (List Item)
  | 0, _, _, _ => none
  | f + 1, acc, eol, ts =>
    match step litLe fuel acc eol ts with
    | none => none
    | some (.done acc') => some acc'.reverse
    | some (.more acc' eol' rest) => parseItems litLe fuel f acc' eol' rest

/-- `parse_ast` -/
def parseAst (litLe : String → String → Bool) (fuel : Nat) (ts : List Tk) : Option (List Item) :=
  match ts with
  | .other "ByteOrderMark" :: r => parseItems litLe fuel fuel [] false r
  | _ => parseItems litLe fuel fuel [] false ts

end Just.Ast
