/-
Model of lexical path cleaning as just uses it: `std::path::Path::components` on Unix, the
`lexiclean` crate (v0.0.1) and `PathBuf::from_iter`, and the `clean()` function of
src/function.rs.  The same `lexiclean` is applied to the paths of `import` / `mod` statements
(src/compiler.rs), which is what makes two spellings of one file the same file.
-/
namespace Just.Path

inductive Comp where
  | root | cur | parent
  | normal (s : List Char)
  deriving DecidableEq, Repr, Inhabited

/-- the parts between slashes (`acc` = current part, reversed) -/
def splitSlash : List Char → List Char → List (List Char)
  | [], acc => [acc.reverse]
  | c :: cs, acc => if c = '/' then acc.reverse :: splitSlash cs [] else splitSlash cs (c :: acc)

/-- one part as a component: empty parts vanish, `.` survives only as the very first part of a
relative path, `..` is `ParentDir` -/
def partComp (first : Bool) (s : List Char) : Option Comp :=
  if s = [] then none
  else if s = ['.'] then (if first then some .cur else none)
  else if s = ['.', '.'] then some .parent
  else some (.normal s)

def partsComps : Bool → List (List Char) → List Comp
  | _, [] => []
  | first, s :: rest =>
    match partComp first s with
    | some c => c :: partsComps false rest
    | none => partsComps false rest

/-- `Path::components` -/
def components (p : List Char) : List Comp :=
  match p with
  | '/' :: _ => .root :: partsComps false (splitSlash p [])
  | _ => partsComps true (splitSlash p [])

/-- one turn of lexiclean's loop; `acc` is the vector, last element first -/
def cleanStep (acc : List Comp) (c : Comp) : List Comp :=
  match c with
  | .cur => acc
  | .parent =>
    match acc with
    | .normal _ :: rest => rest
    | .parent :: _ => c :: acc
    | [] => [c]
    | _ => acc
  | _ => c :: acc

def cleanComps (cs : List Comp) : List Comp := (cs.foldl cleanStep []).reverse

def compStr : Comp → List Char
  | .root => ['/']
  | .cur => ['.']
  | .parent => ['.', '.']
  | .normal s => s

/-- `PathBuf::push` of a single component -/
def push (buf : List Char) (c : Comp) : List Char :=
  match c with
  | .root => ['/']
  | _ =>
    if buf = [] then compStr c
    else if buf.getLast? = some '/' then buf ++ compStr c
    else buf ++ ['/'] ++ compStr c

def render (cs : List Comp) : List Char := cs.foldl push []

/-- `Path::new(p).lexiclean()` as text: a path of at most one component is returned as written -/
def lexiclean (p : List Char) : List Char :=
  let cs := components p
  if cs.length ≤ 1 then p else render (cleanComps cs)

/-- `clean(p)` (src/function.rs): a non-empty path that cleans to nothing is `.` -/
def cleanFn (p : List Char) : List Char :=
  let out := lexiclean p
  if out = [] ∧ p ≠ [] then ['.'] else out

/-! ### the path functions `file_name`, `extension`, `file_stem`, `parent_directory`,
`without_extension`, `join` (src/function.rs over camino's `Utf8Path`, i.e. `std::path::Path`) -/

def emit (first : Bool) (cur : List Char) (i : Nat) : List (Comp × Nat) :=
  match partComp first cur.reverse with
  | some c => [(c, i)]
  | none => []

/-- the components of the body with the offset just after each one's text (`cur` = current part,
reversed; `i` = offset reached) -/
def scan : Bool → Nat → List Char → List Char → List (Comp × Nat)
  | first, i, cur, [] => emit first cur i
  | first, i, cur, c :: cs =>
    if c = '/' then emit first cur i ++ scan false (i + 1) [] cs
    else scan first (i + 1) (c :: cur) cs

def componentsPos (p : List Char) : List (Comp × Nat) :=
  match p with
  | '/' :: _ => (.root, 1) :: scan false 0 [] p
  | _ => scan true 0 [] p

/-- `Path::file_name`: the last component, if it is a name -/
def fileName (p : List Char) : Option (List Char) :=
  match (componentsPos p).getLast? with
  | some (.normal s, _) => some s
  | _ => none

/-- `Path::parent`: the text up to the end of the last but one component; nothing for the root and
for the empty path -/
def parentStr (p : List Char) : Option (List Char) :=
  match (componentsPos p).reverse with
  | [] => none
  | (.root, _) :: _ => none
  | [_] => some []
  | _ :: (_, e) :: _ => some (p.take e)

/-- text before / after the last `.` -/
def splitLastDot (f : List Char) : Option (List Char × List Char) :=
  match f.reverse.dropWhile (· ≠ '.') with
  | [] => none
  | _ :: beforeRev => some (beforeRev.reverse, (f.reverse.takeWhile (· ≠ '.')).reverse)

/-- `rsplit_file_at_dot` -/
def rsplitFileAtDot (f : List Char) : Option (List Char) × Option (List Char) :=
  if f = ['.', '.'] then (some f, none)
  else match splitLastDot f with
    | none => (none, some f)
    | some (before, after) => if before = [] then (some f, none) else (some before, some after)

def fileStem (p : List Char) : Option (List Char) :=
  (fileName p).bind (fun f => let (b, a) := rsplitFileAtDot f; b.orElse (fun _ => a))

def extensionOf (p : List Char) : Option (List Char) :=
  (fileName p).bind (fun f => let (b, a) := rsplitFileAtDot f; b.bind (fun _ => a))

/-- `PathBuf::push` of a path text -/
def pushStr (buf w : List Char) : List Char :=
  match w with
  | '/' :: _ => w
  | _ => if buf = [] then w else if buf.getLast? = some '/' then buf ++ w else buf ++ '/' :: w

def withoutExtension (p : List Char) : Option (List Char) :=
  match parentStr p, fileStem p with
  | some par, some stem => some (pushStr par stem)
  | _, _ => none

def joinPaths (base : List Char) (ws : List (List Char)) : List Char := ws.foldl pushStr base

/-- `absolute_path(p)` (src/function.rs): `working_directory.join(p).lexiclean()` -/
def absolutePath (wd p : List Char) : List Char := lexiclean (pushStr wd p)

/-! ### `Search::clean` (src/search.rs): the paths given with `--justfile` / `--working-directory`
are joined to the invocation directory and cleaned by a loop of their own — a `..` removes the
name before it and is otherwise dropped -/

def searchCleanStep (acc : List Comp) (c : Comp) : List Comp :=
  match c with
  | .parent =>
    match acc with
    | .normal _ :: rest => rest
    | _ => acc
  | _ => c :: acc

def searchCleanComps (cs : List Comp) : List Comp := (cs.foldl searchCleanStep []).reverse

def searchClean (invocationDirectory p : List Char) : List Char :=
  render (searchCleanComps (components (pushStr invocationDirectory p)))

end Just.Path
