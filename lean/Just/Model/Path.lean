/-
Model of lexical path cleaning as just uses it: `std::path::Path::components` on Unix, the
`lexiclean` crate (v0.0.1) and `PathBuf::from_iter`, and the `clean()` function of
src/function.rs.  The same `lexiclean` is applied to the paths of `import` / `mod` statements
(src/compiler.rs), which is what makes two spellings of one file the same file.
-/
namespace Just.Path

inductive Comp where
  | root | cur | parent
  | normal (s : List Char)
  deriving DecidableEq, Repr, Inhabited

/-- the parts between slashes (`acc` = current part, reversed) -/
def splitSlash : List Char → List Char → List (List Char)
  | [], acc => [acc.reverse]
  | c :: cs, acc => if c = '/' then acc.reverse :: splitSlash cs [] else splitSlash cs (c :: acc)

/-- one part as a component: empty parts vanish, `.` survives only as the very first part of a
relative path, `..` is `ParentDir` -/
def partComp (first : Bool) (s : List Char) : Option Comp :=
  if s = [] then none
  else if s = ['.'] then (if first then some .cur else none)
  else if s = ['.', '.'] then some .parent
  else some (.normal s)

def partsComps : Bool → List (List Char) → List Comp
  | _, [] => []
  | first, s :: rest =>
    match partComp first s with
    | some c => c :: partsComps false rest
    | none => partsComps false rest

/-- `Path::components` -/
def components (p : List Char) : List Comp :=
  match p with
  | '/' :: _ => .root :: partsComps false (splitSlash p [])
  | _ => partsComps true (splitSlash p [])

/-- one turn of lexiclean's loop; `acc` is the vector, last element first -/
def cleanStep (acc : List Comp) (c : Comp) : List Comp :=
  match c with
  | .cur => acc
  | .parent =>
    match acc with
    | .normal _ :: rest => rest
    | .parent :: _ => c :: acc
    | [] => [c]
    | _ => acc
  | _ => c :: acc

def cleanComps (cs : List Comp) : List Comp := (cs.foldl cleanStep []).reverse

def compStr : Comp → List Char
  | .root => ['/']
  | .cur => ['.']
  | .parent => ['.', '.']
  | .normal s => s

/-- `PathBuf::push` of a single component -/
def push (buf : List Char) (c : Comp) : List Char :=
  match c with
  | .root => ['/']
  | _ =>
    if buf = [] then compStr c
    else if buf.getLast? = some '/' then buf ++ compStr c
    else buf ++ ['/'] ++ compStr c

def render (cs : List Comp) : List Char := cs.foldl push []

/-- `Path::new(p).lexiclean()` as text: a path of at most one component is returned as written -/
def lexiclean (p : List Char) : List Char :=
  let cs := components p
  if cs.length ≤ 1 then p else render (cleanComps cs)

/-- `clean(p)` (src/function.rs): a non-empty path that cleans to nothing is `.` -/
def cleanFn (p : List Char) : List Char :=
  let out := lexiclean p
  if out = [] ∧ p ≠ [] then ['.'] else out

end Just.Path
