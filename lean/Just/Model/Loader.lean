/-
Model of the name under which a source file appears in diagnostics: `Loader::load` (src/loader.rs)
names a file by its path relative to the directory of the root justfile, or by its whole (absolute)
path when it lies outside that directory: `path.strip_prefix(root.parent()).unwrap_or(path)`.
Paths are lists of components of absolute, cleaned paths (the compiler hands `load` such paths).
-/
namespace Just.Loader

/-- `Path::strip_prefix` on component lists -/
def stripPrefix : List String → List String → Option (List String)
  | [], p => some p
  | _ :: _, [] => none
  | d :: ds, c :: cs => if d = c then stripPrefix ds cs else none

inductive Shown where
  | relative (components : List String)    -- printed without a leading `/`
  | absolute (components : List String)    -- printed with a leading `/`
  deriving DecidableEq, Repr

/-- the name of the file `path` in a diagnostic, `rootDir` being the directory of the root justfile -/
def display (rootDir path : List String) : Shown :=
  match stripPrefix rootDir path with
  | some rest => .relative rest
  | none => .absolute path

def joinSlash : List String → String
  | [] => ""
  | [c] => c
  | c :: cs => c ++ "/" ++ joinSlash cs

def Shown.text : Shown → String
  | .relative cs => joinSlash cs
  | .absolute cs => "/" ++ joinSlash cs

theorem stripPrefix_some (d p rest : List String) (h : stripPrefix d p = some rest) : p = d ++ rest := by
  induction d generalizing p with
  | nil => simp [stripPrefix] at h; simp [h]
  | cons x xs ih =>
    cases p with
    | nil => simp [stripPrefix] at h
    | cons c cs =>
      simp only [stripPrefix] at h
      split at h
      · rename_i hxc; subst hxc; simp [ih cs h]
      · cases h

end Just.Loader
