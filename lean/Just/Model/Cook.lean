import Just.Model.Unindent
/-
Model of `Parser::cook_string` (src/parser.rs): the escape sequences of `"…"` / `"""…"""` strings,
and of the unindent-then-cook order of `parse_string_literal_token`.
`u32::from_str_radix(hex, 16).unwrap()` is modelled as `hexVal`, whose `none` becomes the explicit
result `unwrapFailed`; that it is unreachable is a theorem (Props/C11.lean).
-/
namespace Just.Cook

inductive Err where
  | invalidEscape (c : Char)
  | unicodeDelimiter (c : Char)
  | unicodeEmpty
  | unicodeRange
  | unicodeLength
  | unicodeCharacter (c : Char)
  | unicodeUnterminated
  | unwrapFailed            -- `from_str_radix(...).unwrap()` on a non-number (a panic in the code)
  deriving DecidableEq, Repr, Inhabited

inductive State where
  | initial
  | backslash
  | backslashCr           -- `\` and a carriage return seen: the line feed of a CRLF line end must follow
  | unicode
  | unicodeValue (hex : List Char)
  deriving DecidableEq, Repr, Inhabited

def isHex (c : Char) : Bool := ('0' ≤ c && c ≤ '9') || ('A' ≤ c && c ≤ 'F') || ('a' ≤ c && c ≤ 'f')

def hexDigit (c : Char) : Option Nat :=
  if '0' ≤ c && c ≤ '9' then some (c.toNat - '0'.toNat)
  else if 'A' ≤ c && c ≤ 'F' then some (c.toNat - 'A'.toNat + 10)
  else if 'a' ≤ c && c ≤ 'f' then some (c.toNat - 'a'.toNat + 10)
  else none

/-- `u32::from_str_radix(hex, 16)` (an empty string is an error there) -/
def hexValAux : List Char → Nat → Option Nat
  | [], acc => some acc
  | c :: cs, acc =>
    match hexDigit c with
    | some d => hexValAux cs (acc * 16 + d)
    | none => none

def hexVal (hex : List Char) : Option Nat := if hex.isEmpty then none else hexValAux hex 0

/-- `char::from_u32` -/
def scalar (n : Nat) : Option Char :=
  if h : n.isValidChar then some (Char.ofNatAux n h) else none

/-- one character of the scan: the new state and what is appended to the cooked text -/
def step (st : State) (c : Char) : Except Err (State × List Char) :=
  match st with
  | .initial => if c = '\\' then .ok (.backslash, []) else .ok (.initial, [c])
  | .backslash =>
    if c = 'u' then .ok (.unicode, [])
    else if c = 'n' then .ok (.initial, ['\n'])
    else if c = 'r' then .ok (.initial, ['\r'])
    else if c = 't' then .ok (.initial, ['\t'])
    else if c = '\\' then .ok (.initial, ['\\'])
    else if c = '\n' then .ok (.initial, [])
    else if c = '\r' then .ok (.backslashCr, [])
    else if c = '"' then .ok (.initial, ['"'])
    else .error (.invalidEscape c)
  | .backslashCr => if c = '\n' then .ok (.initial, []) else .error (.invalidEscape '\r')
  | .unicode => if c = '{' then .ok (.unicodeValue [], []) else .error (.unicodeDelimiter c)
  | .unicodeValue hex =>
    if c = '}' then
      if hex.isEmpty then .error .unicodeEmpty
      else match hexVal hex with
        | none => .error .unwrapFailed
        | some n =>
          match scalar n with
          | some ch => .ok (.initial, [ch])
          | none => .error .unicodeRange
    else if isHex c then
      if (hex ++ [c]).length > 6 then .error .unicodeLength else .ok (.unicodeValue (hex ++ [c]), [])
    else .error (.unicodeCharacter c)

def cookLoop : State → List Char → List Char → Except Err (List Char)
  | st, [], acc =>
    if st = .backslashCr then .error (.invalidEscape '\r')
    else if st = .initial then .ok acc else .error .unicodeUnterminated
  | st, c :: cs, acc =>
    match step st c with
    | .error e => .error e
    | .ok (st', out) => cookLoop st' cs (acc ++ out)

/-- `cook_string` -/
def cook (text : List Char) : Except Err (List Char) := cookLoop .initial text []

/-- the cooked value of a string literal with content `raw` (between its delimiters) -/
def cookLiteral (indented escapes : Bool) (raw : List Char) : Except Err (List Char) :=
  let unindented := if indented then Unindent.unindent raw else raw
  if escapes then cook unindented else .ok unindented

end Just.Cook
