/-
Model of the listing views and of name resolution: `Justfile::public_recipes`, `get_recipe`,
`get_alias` (src/justfile.rs), `Subcommand::{summary, list, choose, show}` (src/subcommand.rs),
`Recipe::is_public` (src/recipe.rs), `Alias::is_private` (src/alias.rs).  Only recipes enabled on
this platform reach the tables (src/analyzer.rs), so every recipe here is enabled.
-/
namespace Just.Listing

structure Recipe where
  name : String
  id : String            -- identifies the recipe (what would run)
  isPrivate : Bool       -- leading `_` or `[private]`
  minArgs : Nat
  offset : Nat           -- source position (for `--unsorted`)
  deriving Repr, DecidableEq, Inhabited

structure Alias where
  name : String
  isPrivate : Bool
  target : Recipe        -- resolved target; may live in a submodule
  deriving Repr, DecidableEq, Inhabited

/-- a module: recipes in name order (a `Table`), aliases, submodules in name order -/
inductive Mod where
  | mk (name : String) (recipes : List Recipe) (aliases : List Alias) (subs : List Mod)
  deriving Inhabited

def Mod.name : Mod → String | .mk n _ _ _ => n
def Mod.recipes : Mod → List Recipe | .mk _ r _ _ => r
def Mod.aliases : Mod → List Alias | .mk _ _ a _ => a
def Mod.subs : Mod → List Mod | .mk _ _ _ s => s

def insertBy (r : Recipe) : List Recipe → List Recipe
  | [] => [r]
  | x :: xs => if r.offset ≤ x.offset then r :: x :: xs else x :: insertBy r xs

def sortByOffset : List Recipe → List Recipe
  | [] => []
  | r :: rs => insertBy r (sortByOffset rs)

/-- `Justfile::public_recipes` -/
def publicRecipes (unsorted : Bool) (m : Mod) : List Recipe :=
  let pub := m.recipes.filter (fun r => !r.isPrivate)
  if unsorted then sortByOffset pub else pub

/-- names shown by `--list` for this module (recipes part) -/
def listNames (unsorted : Bool) (m : Mod) : List String := (publicRecipes unsorted m).map Recipe.name

/-- names of this module's recipes the JSON dump marks as public -/
def jsonPublicNames (m : Mod) : List String := (m.recipes.filter (fun r => !r.isPrivate)).map Recipe.name

mutual
/-- `--summary`: public recipes of the module, then of each submodule, prefixed with the path -/
def summary (unsorted : Bool) (pre : String) : Mod → List String
  | .mk n rs as subs =>
    ((publicRecipes unsorted (.mk n rs as subs)).map (fun r => pre ++ r.name)) ++ summarySubs unsorted pre subs
def summarySubs (unsorted : Bool) (pre : String) : List Mod → List String
  | [] => []
  | m :: ms => summary unsorted (pre ++ m.name ++ "::") m ++ summarySubs unsorted pre ms
end

/-- `--choose` candidates of one module: public and runnable without arguments -/
def chooseHere (unsorted : Bool) (m : Mod) : List Recipe :=
  (publicRecipes unsorted m).filter (fun r => r.minArgs = 0)

def findRecipe (m : Mod) (n : String) : Option Recipe := m.recipes.find? (fun r => r.name = n)
def findAlias (m : Mod) (n : String) : Option Alias := m.aliases.find? (fun a => a.name = n)

/-- `Justfile::get_recipe`: what `just NAME` runs in this module -/
def runTarget (m : Mod) (n : String) : Option Recipe :=
  match findRecipe m n with
  | some r => some r
  | none => (findAlias m n).map Alias.target

/-- `--show NAME`: `byName = true` is the pinned code (looks the alias target's NAME up again in
the current module), `false` the repaired one (uses the resolved target) -/
def showTarget (byName : Bool) (m : Mod) (n : String) : Option Recipe :=
  match findAlias m n with
  | some a => if byName then runTarget m a.target.name else some a.target
  | none => findRecipe m n

/-! ### what `--list` displays of a recipe (`Subcommand::list_module`, `Recipe::doc`, `Recipe::groups`) -/

/-- what is declared in front of and in a recipe's header -/
structure Decl where
  name : String
  params : List String                 -- each parameter as written: `a`, `$a`, `b='x'`, `*c`
  comment : Option String              -- the `# …` line directly above
  docAttr : Option (Option String)     -- `[doc]` = `some none`, `[doc("x")]` = `some (some x)` (the string's value)
  groups : List String                 -- `[group(…)]` attributes, in name order, distinct
  isPrivate : Bool
  deriving Repr, DecidableEq, Inhabited

/-- `Recipe::doc`: the `[doc]` attribute, if there is one, decides — also when it is empty -/
def Decl.doc (d : Decl) : Option String :=
  match d.docAttr with
  | some a => a
  | none => d.comment

/-- an alias as `list_module` sees it: its name, privacy, and whether its target is that recipe of
this very module -/
structure AliasOf where
  name : String
  isPrivate : Bool
  targetName : String
  targetHere : Bool
  deriving Repr, DecidableEq, Inhabited

structure Entry where
  heading : Option String     -- the `[group]` heading the entry stands under
  signature : String          -- name and parameters
  doc : Option String
  aliases : List String
  deriving Repr, DecidableEq, Inhabited

def joinSp : List String → String
  | [] => ""
  | [x] => x
  | x :: xs => x ++ " " ++ joinSp xs

def aliasesFor (as : List AliasOf) (d : Decl) : List String :=
  (as.filter (fun a => !a.isPrivate && a.targetHere && a.targetName = d.name)).map AliasOf.name

/-- the entries of one recipe: none if private, else one under each of its groups, or one without
heading -/
def entriesOf (as : List AliasOf) (d : Decl) : List Entry :=
  if d.isPrivate then []
  else
    let e (h : Option String) : Entry := ⟨h, joinSp (d.name :: d.params), d.doc, aliasesFor as d⟩
    match d.groups with
    | [] => [e none]
    | gs => gs.map (fun g => e (some g))

/-! ### `--groups` -/

/-- insertion into a list sorted by `<` on strings (byte order, as `String::cmp`) -/
def insertStr (s : String) : List String → List String
  | [] => [s]
  | t :: ts => if s < t then s :: t :: ts else t :: insertStr s ts

def sortStr (l : List String) : List String := l.foldr insertStr []

/-- `groups.retain(|g| seen.insert(g.clone()))`: the first occurrence of every name -/
def dedupAux : List String → List String → List String
  | _, [] => []
  | seen, x :: xs => if x ∈ seen then dedupAux seen xs else x :: dedupAux (x :: seen) xs

/-- `Justfile::public_groups` (sorted listing): the groups of the public recipes and of the
submodules, sorted by name, each name once — names are compared exactly -/
def publicGroups (ds : List Decl) (moduleGroups : List String) : List String :=
  dedupAux [] (sortStr (((ds.filter (fun d => !d.isPrivate)).flatMap Decl.groups) ++ moduleGroups))

/-! ### the order of `--unsorted` -/

/-- where a recipe stands: the byte offsets of the `import` statements that lead from the module's own file to the
recipe's file (outermost first), and the offset of the recipe's name in its file -/
structure Placed where
  name : String
  imports : List Nat
  offset : Nat
  deriving Repr, DecidableEq, Inhabited

/-- `Ord` of slices: element by element, a proper prefix first -/
def sliceCmp : List Nat → List Nat → Ordering
  | [], [] => .eq
  | [], _ :: _ => .lt
  | _ :: _, [] => .gt
  | a :: as, b :: bs => if a < b then .lt else if b < a then .gt else sliceCmp as bs

/-- the key of `--unsorted`: `(import_offsets, name.offset)` (src/justfile.rs `public_recipes`) -/
def placedLt (a b : Placed) : Bool :=
  match sliceCmp a.imports b.imports with
  | .lt => true
  | .gt => false
  | .eq => a.offset < b.offset

def insertPlaced (r : Placed) : List Placed → List Placed
  | [] => [r]
  | x :: xs => if placedLt r x then r :: x :: xs else x :: insertPlaced r xs

/-- the recipes of one module in the order `--unsorted` lists them (insertion sort is stable, like `sort_by_key`) -/
def unsortedOrder (rs : List Placed) : List Placed := rs.foldr insertPlaced []

end Just.Listing
