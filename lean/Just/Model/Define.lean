/-
Model of how `Analyzer::analyze` (src/analyzer.rs) accepts or rejects a second definition of a
name in a module: `Analyzer::define` over the table `definitions`, called for aliases and modules
as the items are met and for recipes afterwards; variables live in a namespace of their own
(`DuplicateVariable` unless `allow-duplicate-variables`).
-/
namespace Just.Define

inductive DKind where
  | alias | module | recipe
  deriving DecidableEq, Repr, Inhabited

structure Def where
  name : String
  kind : DKind
  deriving DecidableEq, Repr, Inhabited

/-- `Analyzer::define`: `none` is the `Redefinition` error -/
def define (defs : List (String × DKind)) (d : Def) (allowed : Bool) : Option (List (String × DKind)) :=
  match defs.lookup d.name with
  | some k0 => if k0 = d.kind ∧ allowed = true then some ((d.name, d.kind) :: defs) else none
  | none => some ((d.name, d.kind) :: defs)

/-- the `duplicates_allowed` argument at each call site: `false` for aliases and modules, the
setting `allow-duplicate-recipes` for recipes -/
def allowedFor (allowRecipes : Bool) (d : Def) : Bool :=
  match d.kind with
  | .recipe => allowRecipes
  | _ => false

def defineAll (allowRecipes : Bool) : List Def → List (String × DKind) → Option (List (String × DKind))
  | [], defs => some defs
  | d :: ds, defs =>
    match define defs d (allowedFor allowRecipes d) with
    | none => none
    | some defs' => defineAll allowRecipes ds defs'

def isRecipe (d : Def) : Bool := d.kind = .recipe

/-- the order in which `analyze` meets the definitions: aliases and modules first, then recipes -/
def order (items : List Def) : List Def := items.filter (fun d => !isRecipe d) ++ items.filter isRecipe

def hasDup : List String → Bool
  | [] => false
  | x :: xs => xs.contains x || hasDup xs

/-- does the module pass the duplicate checks? -/
def accepts (allowRecipes allowVars : Bool) (items : List Def) (vars : List String) : Bool :=
  (defineAll allowRecipes (order items) []).isSome && (allowVars || !hasDup vars)

end Just.Define
