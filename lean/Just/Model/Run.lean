/-
Model of just's recipe runner: `Justfile::run`, `Justfile::run_recipe`,
`Recipe::run_linewise`, `Recipe::run_script` (src/justfile.rs, src/recipe.rs),
the memo `Ran` (src/ran.rs) and `Error::code` (src/error.rs).

Every function returns the list of events it emitted (in order).  Child processes are
a parameter: `Env.status` gives the exit status of a command text, `Env.btOut`
the output of a backtick, `Env.ans` the k-th confirmation answer.
-/
namespace Just.Run

inductive Status where
  | ok
  | code (n : Nat)
  | signal (n : Nat)
  deriving DecidableEq, Repr, Inhabited

/-- Argument / default / interpolation expressions over the caller's parameters. -/
inductive AExpr where
  | lit (s : String)
  | param (i : Nat)
  | cat (a b : AExpr)
  | bt (cmd : String)
  deriving Repr, Inhabited

structure Line where
  quiet : Bool        -- `@` sigil
  infallible : Bool   -- `-` sigil
  frags : List AExpr  -- text and interpolations, after the sigils
  deriving Repr, Inhabited

structure Dep where
  target : Nat
  args : List AExpr
  deriving Repr, Inhabited

structure Recipe where
  params : List (Option AExpr)   -- one entry per (singular) parameter, with its default
  priors : List Dep
  subs : List Dep
  body : List Line
  script : Bool := false
  confirm : Bool := false
  quiet : Bool := false          -- `@name:`
  noQuiet : Bool := false        -- `[no-quiet]`
  deriving Repr, Inhabited

structure Cfg where
  dryRun : Bool := false
  verbose : Bool := false
  quiet : Bool := false          -- `--quiet`
  setQuiet : Bool := false       -- `set quiet`
  yes : Bool := false
  noDeps : Bool := false
  deriving Repr, Inhabited, DecidableEq

structure Prog where
  assigns : List String          -- backticks of the module's assignments, in evaluation order
  recipes : List Recipe
  deriving Repr, Inhabited

structure Env where
  status : String → Status       -- exit status of a command (recipe line, script, backtick) by text
  btOut : String → String        -- stdout of a backtick
  ans : Nat → Bool               -- k-th confirmation answer

abbrev Args := List String
abbrev Key := Nat × Args
abbrev Ran := List Key

inductive Ev where
  | bt (cmd : String)
  | echo (text : String)
  | spawn (recipe : Nat) (args : Args) (cmd : String)
  | script (recipe : Nat) (args : Args) (text : String)
  | prompt (recipe : Nat)
  /-- ghost label: the body of `recipe` starts, called with `args`; `sub` = inside a subsequent
  (`===> Running recipe` under `--verbose`) -/
  | body (recipe : Nat) (args : Args) (sub : Bool)
  deriving DecidableEq, Repr, Inhabited

inductive Err where
  | code (n : Nat)
  | signal (n : Nat)
  | notConfirmed
  | fuel
  | internal
  deriving DecidableEq, Repr, Inhabited

/-- `Error::code().unwrap_or(EXIT_FAILURE)` -/
def Err.exit : Err → Nat
  | .code n => n
  | .signal n => 128 + n
  | .notConfirmed => 1
  | .fuel => 1
  | .internal => 1

def Status.toErr : Status → Option Err
  | .ok => none
  | .code n => some (.code n)
  | .signal n => some (.signal n)

abbrev Res (α : Type) := List Ev × Except Err α

def countPrompts : List Ev → Nat
  | [] => 0
  | .prompt _ :: es => countPrompts es + 1
  | _ :: es => countPrompts es

/-- Evaluate an expression; backticks spawn (unless dry-run) and may fail.
Every function below returns the events it emitted, in order. -/
def evalA (cfg : Cfg) (env : Env) (ps : Args) : AExpr → Res String
  | .lit s => ([], .ok s)
  | .param i =>
    match ps[i]? with
    | some v => ([], .ok v)
    | none => ([], .error .internal)
  | .cat a b =>
    match evalA cfg env ps a with
    | (e1, .error e) => (e1, .error e)
    | (e1, .ok x) =>
      match evalA cfg env ps b with
      | (e2, .error e) => (e1 ++ e2, .error e)
      | (e2, .ok y) => (e1 ++ e2, .ok (x ++ y))
  | .bt c =>
    if cfg.dryRun then ([], .ok ("`" ++ c ++ "`"))
    else match (env.status c).toErr with
      | none => ([.bt c], .ok (env.btOut c))
      | some e => ([.bt c], .error e)

def evalList (cfg : Cfg) (env : Env) (ps : Args) : List AExpr → Res (List String)
  | [] => ([], .ok [])
  | a :: as =>
    match evalA cfg env ps a with
    | (e1, .error e) => (e1, .error e)
    | (e1, .ok x) =>
      match evalList cfg env ps as with
      | (e2, .error e) => (e1 ++ e2, .error e)
      | (e2, .ok xs) => (e1 ++ e2, .ok (x :: xs))

def concat : List String → String
  | [] => ""
  | x :: xs => x ++ concat xs

/-- `Evaluator::evaluate_parameters` for singular parameters: given words first,
then defaults evaluated with the earlier parameters in scope. -/
def bindParams (cfg : Cfg) (env : Env) : List (Option AExpr) → Args → Args → Res Args
  | [], _, bound => ([], .ok bound)
  | _ :: ps, w :: ws, bound => bindParams cfg env ps ws (bound ++ [w])
  | some d :: ps, [], bound =>
    match evalA cfg env bound d with
    | (e1, .error e) => (e1, .error e)
    | (e1, .ok v) =>
      match bindParams cfg env ps [] (bound ++ [v]) with
      | (e2, r) => (e1 ++ e2, r)
  | none :: _, [], _ => ([], .error .internal)

/-- `Verbosity::loquacious`: `--quiet` wins over `--verbose` (src/config.rs). -/
def Cfg.loquacious (cfg : Cfg) : Bool := cfg.verbose && !cfg.quiet

/-- The echo condition of `run_linewise`. -/
def echoes (cfg : Cfg) (r : Recipe) (l : Line) : Bool :=
  cfg.dryRun || cfg.loquacious ||
    !((l.quiet != r.quiet) || (cfg.setQuiet && !r.noQuiet) || cfg.quiet)

/-- Events of one logical line whose evaluated command is `cmd` (non-empty), and whether the
recipe goes on. -/
def runCmd (cfg : Cfg) (env : Env) (ri : Nat) (r : Recipe) (given : Args) (l : Line) (cmd : String) :
    Res Unit :=
  let e1 := if echoes cfg r l then [Ev.echo cmd] else []
  if cfg.dryRun then (e1, .ok ()) else
  match (env.status cmd).toErr with
  | none => (e1 ++ [.spawn ri given cmd], .ok ())
  | some e => (e1 ++ [.spawn ri given cmd], if l.infallible then .ok () else .error e)

/-- `Recipe::run_linewise` over logical lines. -/
def runLines (cfg : Cfg) (env : Env) (ri : Nat) (r : Recipe) (given ps : Args) :
    List Line → Res Unit
  | [] => ([], .ok ())
  | l :: ls =>
    match evalList cfg env ps l.frags with
    | (e1, .error e) => (e1, .error e)
    | (e1, .ok parts) =>
      if concat parts = "" then
        match runLines cfg env ri r given ps ls with
        | (e3, res) => (e1 ++ e3, res)
      else
        match runCmd cfg env ri r given l (concat parts) with
        | (e2, .error e) => (e1 ++ e2, .error e)
        | (e2, .ok ()) =>
          match runLines cfg env ri r given ps ls with
          | (e3, res) => (e1 ++ e2 ++ e3, res)

def evalLines (cfg : Cfg) (env : Env) (ps : Args) : List Line → Res (List String)
  | [] => ([], .ok [])
  | l :: ls =>
    match evalList cfg env ps l.frags with
    | (e1, .error e) => (e1, .error e)
    | (e1, .ok parts) =>
      match evalLines cfg env ps ls with
      | (e2, .error e) => (e1 ++ e2, .error e)
      | (e2, .ok rest) => (e1 ++ e2, .ok (concat parts :: rest))

def joinLines : List String → String
  | [] => ""
  | x :: xs => x ++ "\n" ++ joinLines xs

/-- `Recipe::run_script`. -/
def runScript (cfg : Cfg) (env : Env) (ri : Nat) (r : Recipe) (given ps : Args) : Res Unit :=
  match evalLines cfg env ps r.body with
  | (e1, .error e) => (e1, .error e)
  | (e1, .ok lines) =>
    let e2 := if !cfg.quiet && (cfg.dryRun || r.quiet) then lines.map Ev.echo else []
    if cfg.dryRun then (e1 ++ e2, .ok ()) else
    match (env.status (joinLines lines)).toErr with
    | none => (e1 ++ e2 ++ [.script ri given (joinLines lines)], .ok ())
    | some e => (e1 ++ e2 ++ [.script ri given (joinLines lines)], .error e)

def runBody (cfg : Cfg) (env : Env) (ri : Nat) (r : Recipe) (given ps : Args) : Res Unit :=
  if r.script then runScript cfg env ri r given ps else runLines cfg env ri r given ps r.body

mutual
/-- `Justfile::run_recipe`; `k` is the number of confirmation prompts answered so far, `sub`
(ghost) tells whether we are below a subsequent dependency. -/
def runRecipe (P : Prog) (cfg : Cfg) (env : Env) :
    Nat → Bool → Nat → Args → Ran → Nat → Res Ran
  | 0, _, _, _, _, _ => ([], .error .fuel)
  | fuel + 1, sub, ri, given, ran, k =>
    if (ri, given) ∈ ran then ([], .ok ran) else
    match P.recipes[ri]? with
    | none => ([], .error .internal)
    | some r =>
      let asked := r.confirm && !cfg.yes
      let e0 := if asked then [Ev.prompt ri] else []
      if asked && !env.ans k then (e0, .error .notConfirmed) else
      match bindParams cfg env r.params given [] with
      | (e1, .error e) => (e0 ++ e1, .error e)
      | (e1, .ok ps) =>
        match runDeps P cfg env fuel sub r.priors ps ran (k + countPrompts e0) with
        | (e2, .error e) => (e0 ++ e1 ++ e2, .error e)
        | (e2, .ok ran1) =>
          match runBody cfg env ri r given ps with
          | (e3, .error e) => (e0 ++ e1 ++ e2 ++ [.body ri given sub] ++ e3, .error e)
          | (e3, .ok ()) =>
            match runDeps P cfg env fuel true r.subs ps [] (k + countPrompts e0 + countPrompts e2) with
            | (e4, .error e) => (e0 ++ e1 ++ e2 ++ [.body ri given sub] ++ e3 ++ e4, .error e)
            | (e4, .ok _) => (e0 ++ e1 ++ e2 ++ [.body ri given sub] ++ e3 ++ e4, .ok ((ri, given) :: ran1))
termination_by fuel => (fuel, 0)

def runDeps (P : Prog) (cfg : Cfg) (env : Env) :
    Nat → Bool → List Dep → Args → Ran → Nat → Res Ran
  | _, _, [], _, ran, _ => ([], .ok ran)
  | fuel, sub, d :: ds, ps, ran, k =>
    -- `--no-deps`: dependencies are skipped altogether
    if cfg.noDeps then ([], .ok ran) else
    match evalList cfg env ps d.args with
    | (e1, .error e) => (e1, .error e)
    | (e1, .ok given) =>
      match runRecipe P cfg env fuel sub d.target given ran k with
      | (e2, .error e) => (e1 ++ e2, .error e)
      | (e2, .ok ran1) =>
        match runDeps P cfg env fuel sub ds ps ran1 (k + countPrompts e2) with
        | (e3, res) => (e1 ++ e2 ++ e3, res)
termination_by fuel _ ds => (fuel, ds.length + 1)
end

/-- Module-level assignment backticks, evaluated before anything runs. -/
def runAssigns (cfg : Cfg) (env : Env) : List String → Res Unit
  | [] => ([], .ok ())
  | c :: cs =>
    match evalA cfg env [] (.bt c) with
    | (e1, .error e) => (e1, .error e)
    | (e1, .ok _) =>
      match runAssigns cfg env cs with
      | (e2, res) => (e1 ++ e2, res)

def runInvs (P : Prog) (cfg : Cfg) (env : Env) (fuel : Nat) :
    List Key → Ran → Nat → Res Ran
  | [], ran, _ => ([], .ok ran)
  | (ri, given) :: rest, ran, k =>
    match runRecipe P cfg env fuel false ri given ran k with
    | (e1, .error e) => (e1, .error e)
    | (e1, .ok ran1) =>
      match runInvs P cfg env fuel rest ran1 (k + countPrompts e1) with
      | (e2, res) => (e1 ++ e2, res)

/-- `Justfile::run` for a list of already grouped invocations; returns the events and exit code. -/
def runMain (P : Prog) (cfg : Cfg) (env : Env) (invs : List Key) : List Ev × Nat :=
  match runAssigns cfg env P.assigns with
  | (e1, .error e) => (e1, e.exit)
  | (e1, .ok ()) =>
    match runInvs P cfg env (P.recipes.length + 1) invs [] 0 with
    | (e2, .error e) => (e1 ++ e2, e.exit)
    | (e2, .ok _) => (e1 ++ e2, 0)

/-! ### `Recipe::confirm`: which typed answers count as yes -/

def isBlankChar (c : Char) : Bool := c = ' ' || c = '\t' || c = '\n' || c = '\r' || c = '\x0b' || c = '\x0c'

def trimBlanks (l : List Char) : List Char := ((l.dropWhile isBlankChar).reverse.dropWhile isBlankChar).reverse

/-- `line.trim().to_lowercase() == "y" || … == "yes"` (ASCII answers) -/
def confirmAccepts (line : String) : Bool :=
  let l := (trimBlanks line.toList).map Char.toLower
  l = ['y'] || l = ['y', 'e', 's']

end Just.Run
