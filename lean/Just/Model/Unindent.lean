/-
Model of src/unindent.rs (`unindent`, used for indented strings and backticks).
Slices become `take`/`drop` on character lists; that every slice is in bounds and on a character
boundary is the theorem `common_is_prefix` (Props/C11.lean).
-/
namespace Just.Unindent

/-- lines with their terminators; a text that does not end in a line feed has a last unterminated line -/
def splitLines : List Char → List Char → List (List Char)
  | [], [] => []
  | [], acc => [acc.reverse]
  | c :: cs, acc => if c = '\n' then (c :: acc).reverse :: splitLines cs [] else splitLines cs (c :: acc)

def isIndentChar (c : Char) : Bool := c = ' ' || c = '\t'

/-- `indentation` -/
def indentation (line : List Char) : List Char := line.takeWhile isIndentChar

/-- `blank` -/
def blank (line : List Char) : Bool := line.all (fun c => c = ' ' || c = '\t' || c = '\r' || c = '\n')

/-- `common`: the longest common prefix -/
def common : List Char → List Char → List Char
  | a :: as, b :: bs => if a = b then a :: common as bs else []
  | _, _ => []

/-- the fold of `unindent`: the common indentation of the non-blank lines so far -/
def foldCommon : Option (List Char) → List (List Char) → Option (List Char)
  | acc, [] => acc
  | acc, l :: ls =>
    if blank l then foldCommon acc ls
    else match acc with
      | some c => foldCommon (some (common c (indentation l))) ls
      | none => foldCommon (some (indentation l)) ls

def commonIndentation (lines : List (List Char)) : List Char := (foldCommon none lines).getD []

/-- the replacement of line `i` of `n` -/
def replacement (ci : List Char) (n i : Nat) (line : List Char) : List Char :=
  if blank line then (if i ≠ 0 ∧ i ≠ n - 1 then ['\n'] else [])
  else line.drop ci.length

def replaceAll (ci : List Char) (n : Nat) : Nat → List (List Char) → List Char
  | _, [] => []
  | i, l :: ls => replacement ci n i l ++ replaceAll ci n (i + 1) ls

/-- `unindent` -/
def unindent (text : List Char) : List Char :=
  let lines := splitLines text []
  replaceAll (commonIndentation lines) lines.length 0 lines

end Just.Unindent
