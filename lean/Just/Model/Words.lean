/-
Model, on character lists, of how `Positional::from_values` (src/positional.rs) reads ONE leading
command-line word: an override `NAME=VALUE` (`override_from_value`: split at the first `=`, NAME a
`Lexer::is_identifier`), a search directory (`.`, `..`, or everything up to the last `/`, the rest
being the first argument), or an argument.  The order of the tests is the point: the override test
comes first.
-/
namespace Just.Words

def isIdentStart (c : Char) : Bool := c.isAlpha || c = '_'
def isIdentContinue (c : Char) : Bool := isIdentStart c || c.isDigit || c = '-'

/-- `Lexer::is_identifier` -/
def isIdentifier : List Char → Bool
  | [] => false
  | c :: cs => isIdentStart c && cs.all isIdentContinue

/-- text before and after the first `=` -/
def splitFirstEq : List Char → Option (List Char × List Char)
  | [] => none
  | c :: cs =>
    if c = '=' then some ([], cs)
    else match splitFirstEq cs with
      | some (a, b) => some (c :: a, b)
      | none => none

/-- text up to and including the last `/`, and the text after it -/
def splitLastSlash (w : List Char) : List Char × List Char :=
  let tailRev := w.reverse.takeWhile (· ≠ '/')
  (w.take (w.length - tailRev.length), tailRev.reverse)

inductive WordClass where
  | override (name value : List Char)
  | searchDir (dir : List Char) (first : Option (List Char))
  | argument (w : List Char)
  deriving DecidableEq, Repr

def dirOrArgument (w : List Char) : WordClass :=
  if w = ['.'] ∨ w = ['.', '.'] then .searchDir w none
  else if '/' ∈ w then
    let (d, t) := splitLastSlash w
    .searchDir d (if t = [] then none else some t)
  else .argument w

/-- the first word of the command line (and every following word while only overrides came before) -/
def classify (w : List Char) : WordClass :=
  match splitFirstEq w with
  | some (n, v) => if isIdentifier n then .override n v else dirOrArgument w
  | none => dirOrArgument w

end Just.Words
