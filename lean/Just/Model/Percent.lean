/-
Model of `encode_uri_component` (src/function.rs): `percent_encoding::utf8_percent_encode` with
the set NON_ALPHANUMERIC minus `- _ . ! ~ * ' ( )`, over the UTF-8 bytes of the string (bytes are
natural numbers below 256), and of the percent-decoding every URI consumer applies.
-/
namespace Just.Percent

def isAlnum (b : Nat) : Bool := (48 ≤ b && b ≤ 57) || (65 ≤ b && b ≤ 90) || (97 ≤ b && b ≤ 122)

/-- bytes written as they are: ASCII letters and digits and `- _ . ! ~ * ' ( )` -/
def isSafe (b : Nat) : Bool :=
  isAlnum b || b = 45 || b = 95 || b = 46 || b = 33 || b = 126 || b = 42 || b = 39 || b = 40 || b = 41

/-- upper-case hexadecimal digit -/
def hexDigit (n : Nat) : Nat := if n < 10 then 48 + n else 55 + n

def encodeByte (b : Nat) : List Nat :=
  if isSafe b then [b] else [37, hexDigit (b / 16), hexDigit (b % 16)]

def encode : List Nat → List Nat
  | [] => []
  | b :: bs => encodeByte b ++ encode bs

def unhex (c : Nat) : Option Nat :=
  if 48 ≤ c ∧ c ≤ 57 then some (c - 48)
  else if 65 ≤ c ∧ c ≤ 70 then some (c - 55)
  else if 97 ≤ c ∧ c ≤ 102 then some (c - 87)
  else none

def combine (a b : Option Nat) (r : Option (List Nat)) : Option (List Nat) :=
  match a, b, r with
  | some a, some b, some r => some ((a * 16 + b) :: r)
  | _, _, _ => none

/-- percent-decoding; `none` for a `%` not followed by two hexadecimal digits -/
def decode : List Nat → Option (List Nat)
  | [] => some []
  | c :: rest =>
    if c = 37 then
      match rest with
      | h :: l :: rest' => combine (unhex h) (unhex l) (decode rest')
      | _ => none
    else (decode rest).map (c :: ·)

end Just.Percent
