import Just.Model.Expr
import Just.Model.Analyzer
/-
Token-level model of the expression printer (src/expression.rs `Display`, src/thunk.rs,
src/condition.rs) and of the recursive-descent expression parser (src/parser.rs parse_expression,
parse_disjunct, parse_conjunct, parse_conditional, parse_condition, parse_value, parse_sequence).

Tokens are the lexer's tokens without white space; string and backtick tokens carry their lexeme
(so a literal is printed back as it was written).  The recursion-depth guard of parse_expression is
not modelled: a tree and its printed form nest identically.  `Thunk::resolve` is: a call of an unknown function or with
a wrong number of arguments is a parse error.
-/
namespace Just.Syntax
open Just

inductive Tk where
  | str (lexeme : String)
  | strAdj (lexeme : String)   -- a string token written directly after the identifier `x`, no white space between
  | bt (lexeme : String)
  | ident (name : String)
  | plus | slash | andand | barbar | lparen | rparen | comma | lbrace | rbrace
  | op (o : CondOp)
  | text (lexeme : String)   -- a `Text` token of a recipe body
  | comment (lexeme : List Char)   -- `# …` up to the end of the line
  | other (kind : String)
  deriving DecidableEq, Repr, Inhabited

def opTk (o : CondOp) : Tk := .op o

/-- `Thunk::resolve` (called by `parse_value` on every call): the function exists (`function::get`, table regenerated
from src/function.rs) and takes this many arguments -/
def fnOk (n : String) (k : Nat) : Bool :=
  match Analyzer.functionClass n with
  | some cls => Analyzer.classAccepts cls k
  | none => false

/-- The tokens of a string literal as it is displayed (`Display for StringLiteral`).  The payload of
`Expr.str` is, in this model, the literal as displayed: the lexeme of its string token, preceded by `x`
when the literal is shell-expanded (`x'~/dir'`); such a literal is two tokens, the identifier `x` and,
directly after it, the string token (src/parser.rs `next_is_shell_expanded_string` looks at the very next
token, white space included: `x 'a'` is the variable `x` and then a string). -/
def litTokens (l : String) : List Tk :=
  match l.toList with
  | 'x' :: cs => [.ident "x", .strAdj (String.ofList cs)]
  | _ => [.str l]

/-- the displayed form of a shell-expanded literal whose string token is `s` -/
def xLit (s : String) : String := String.ofList ('x' :: s.toList)

mutual
/-- `Display for Expression` -/
def printE : Expr → List Tk
  | .str s => litTokens s
  | .var n => [.ident n]
  | .backtick s => [.bt s]
  | .call f args => [.ident f, .lparen] ++ printArgs args ++ [.rparen]
  | .concat l r => printE l ++ [.plus] ++ printE r
  | .joinL l r => printE l ++ [.slash] ++ printE r
  | .joinR r => [.slash] ++ printE r
  | .and l r => printE l ++ [.andand] ++ printE r
  | .or l r => printE l ++ [.barbar] ++ printE r
  | .cond a o b t e =>
    [.ident "if"] ++ printE a ++ [.op o] ++ printE b ++ [.lbrace] ++ printE t ++ [.rbrace, .ident "else"] ++ printElse e
  | .assert a o b m =>
    [.ident "assert", .lparen] ++ printE a ++ [.op o] ++ printE b ++ [.comma] ++ printE m ++ [.rparen]
  | .group e => [.lparen] ++ printE e ++ [.rparen]
/-- the `else` branch: a conditional is printed as `else if …`, anything else in braces -/
def printElse : Expr → List Tk
  | .cond a o b t e =>
    [.ident "if"] ++ printE a ++ [.op o] ++ printE b ++ [.lbrace] ++ printE t ++ [.rbrace, .ident "else"] ++ printElse e
  | .str s => [.lbrace] ++ litTokens s ++ [.rbrace]
  | .var n => [.lbrace, .ident n, .rbrace]
  | .backtick s => [.lbrace, .bt s, .rbrace]
  | .call f args => [.lbrace] ++ ([.ident f, .lparen] ++ printArgs args ++ [.rparen]) ++ [.rbrace]
  | .concat l r => [.lbrace] ++ (printE l ++ [.plus] ++ printE r) ++ [.rbrace]
  | .joinL l r => [.lbrace] ++ (printE l ++ [.slash] ++ printE r) ++ [.rbrace]
  | .joinR r => [.lbrace] ++ ([.slash] ++ printE r) ++ [.rbrace]
  | .and l r => [.lbrace] ++ (printE l ++ [.andand] ++ printE r) ++ [.rbrace]
  | .or l r => [.lbrace] ++ (printE l ++ [.barbar] ++ printE r) ++ [.rbrace]
  | .assert a o b m =>
    [.lbrace] ++ ([.ident "assert", .lparen] ++ printE a ++ [.op o] ++ printE b ++ [.comma] ++ printE m ++ [.rparen]) ++ [.rbrace]
  | .group e => [.lbrace] ++ ([.lparen] ++ printE e ++ [.rparen]) ++ [.rbrace]
/-- arguments separated by commas -/
def printArgs : Exprs → List Tk
  | .nil => []
  | .cons e .nil => printE e
  | .cons e (.cons e' es) => printE e ++ [.comma] ++ printArgs (.cons e' es)
end

mutual
/-- `parse_expression` -/
def parseExpression : Nat → List Tk → Option (Expr × List Tk)
  | 0, _ => none
  | f + 1, ts =>
    match parseDisjunct f ts with
    | none => none
    | some (d, ts1) =>
      match ts1 with
      | .barbar :: ts2 =>
        match parseExpression f ts2 with
        | none => none
        | some (r, ts3) => some (.or d r, ts3)
      | _ => some (d, ts1)
/-- `parse_disjunct` -/
def parseDisjunct : Nat → List Tk → Option (Expr × List Tk)
  | 0, _ => none
  | f + 1, ts =>
    match parseConjunct f ts with
    | none => none
    | some (c, ts1) =>
      match ts1 with
      | .andand :: ts2 =>
        match parseDisjunct f ts2 with
        | none => none
        | some (r, ts3) => some (.and c r, ts3)
      | _ => some (c, ts1)
/-- `parse_conjunct` -/
def parseConjunct : Nat → List Tk → Option (Expr × List Tk)
  | 0, _ => none
  | f + 1, ts =>
    match ts with
    | .ident "if" :: ts1 => parseConditional f ts1
    | .slash :: ts1 =>
      match parseConjunct f ts1 with
      | none => none
      | some (r, ts2) => some (.joinR r, ts2)
    | _ =>
      match parseValue f ts with
      | none => none
      | some (v, ts1) =>
        match ts1 with
        | .slash :: ts2 =>
          match parseConjunct f ts2 with
          | none => none
          | some (r, ts3) => some (.joinL v r, ts3)
        | .plus :: ts2 =>
          match parseConjunct f ts2 with
          | none => none
          | some (r, ts3) => some (.concat v r, ts3)
        | _ => some (v, ts1)
/-- `parse_conditional` (after the `if` keyword) -/
def parseConditional : Nat → List Tk → Option (Expr × List Tk)
  | 0, _ => none
  | f + 1, ts =>
    match parseCondition f ts with
    | none => none
    | some ((a, o, b), ts1) =>
      match ts1 with
      | .lbrace :: ts2 =>
        match parseExpression f ts2 with
        | none => none
        | some (t, ts3) =>
          match ts3 with
          | .rbrace :: .ident "else" :: .ident "if" :: ts4 =>
            match parseConditional f ts4 with
            | none => none
            | some (e, ts5) => some (.cond a o b t e, ts5)
          | .rbrace :: .ident "else" :: .lbrace :: ts4 =>
            match parseExpression f ts4 with
            | none => none
            | some (e, ts5) =>
              match ts5 with
              | .rbrace :: ts6 => some (.cond a o b t e, ts6)
              | _ => none
          | _ => none
      | _ => none
/-- `parse_condition` -/
def parseCondition : Nat → List Tk → Option ((Expr × CondOp × Expr) × List Tk)
  | 0, _ => none
  | f + 1, ts =>
    match parseExpression f ts with
    | none => none
    | some (a, ts1) =>
      match ts1 with
      | .op o :: ts2 =>
        match parseExpression f ts2 with
        | none => none
        | some (b, ts3) => some ((a, o, b), ts3)
      | _ => none
/-- `parse_value` -/
def parseValue : Nat → List Tk → Option (Expr × List Tk)
  | 0, _ => none
  | f + 1, ts =>
    match ts with
    | .str s :: r => some (.str s, r)
    | .bt s :: r => some (.backtick s, r)
    | .strAdj s :: r => some (.str s, r)     -- the `x` before it was consumed as a name, not by `parse_value`
    | .ident "x" :: .strAdj s :: r => some (.str (xLit s), r)
    | .ident "assert" :: r =>
      match r with
      | .lparen :: r1 =>
        match parseCondition f r1 with
        | none => none
        | some ((a, o, b), r2) =>
          match r2 with
          | .comma :: r3 =>
            match parseExpression f r3 with
            | none => none
            | some (m, r4) =>
              match r4 with
              | .rparen :: r5 => some (.assert a o b m, r5)
              | _ => none
          | _ => none
      | _ => none
    | .ident n :: .lparen :: r =>
      match parseSequence f r with
      | none => none
      | some (args, r') => if fnOk n args.length then some (.call n args, r') else none
    | .ident n :: r => some (.var n, r)
    | .lparen :: r =>
      match parseExpression f r with
      | none => none
      | some (e, r1) =>
        match r1 with
        | .rparen :: r2 => some (.group e, r2)
        | _ => none
    | _ => none
/-- `parse_sequence` (after the opening parenthesis) -/
def parseSequence : Nat → List Tk → Option (Exprs × List Tk)
  | 0, _ => none
  | f + 1, ts =>
    match ts with
    | .rparen :: r => some (.nil, r)
    | _ =>
      match parseExpression f ts with
      | none => none
      | some (e, r1) =>
        match r1 with
        | .comma :: r2 =>
          match parseSequence f r2 with
          | none => none
          | some (es, r3) => some (.cons e es, r3)
        | .rparen :: r2 => some (.cons e .nil, r2)
        | _ => none
end

end Just.Syntax
