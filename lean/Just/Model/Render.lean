import Just.Model.Lexer
/-
Model of the source context printed under a compile error (src/token.rs, `ColorDisplay for Token`):

     ——▶ justfile:LINE:COLUMN
      │
    L │ the source line, tabs expanded to four spaces
      │     ^^^^

The display width of a character (the unicode-width crate) is a parameter `w`.
-/
namespace Just.Render
open Just.Lexer

/-- Rust's `str::lines`: split at line feeds, drop the carriage return of a `\r\n` terminator, no
final empty line.  `acc` is the current line, reversed. -/
def stripCr (rev : List Char) : List Char :=
  match rev with
  | '\r' :: r => r.reverse
  | _ => rev.reverse

def linesGo : List Char → List Char → List (List Char)
  | [], [] => []
  | [], acc => [acc.reverse]
  | c :: cs, acc => if c = '\n' then stripCr acc :: linesGo cs [] else linesGo cs (c :: acc)

def lines (src : List Char) : List (List Char) := linesGo src []

def charWidth (w : Char → Nat) (c : Char) : Nat := if c = '\t' then 4 else w c

def expandTabs : List Char → List Char
  | [] => []
  | c :: cs => if c = '\t' then ' ' :: ' ' :: ' ' :: ' ' :: expandTabs cs else c :: expandTabs cs

/-- the per-character scan of the echoed line: `i` is the byte index of the next character;
returns (space_column, space_width) -/
def scan (w : Char → Nat) (column width : Nat) : List Char → Nat → Nat × Nat
  | [], _ => (0, 0)
  | c :: cs, i =>
    let r := scan w column width cs (i + c.utf8Size)
    ((if i < column then charWidth w c else 0) + r.1,
     (if i ≥ column ∧ i < column + width then charWidth w c else 0) + r.2)

structure Context where
  lineNumber : Nat
  columnNumber : Nat
  echoed : List Char
  caretOffset : Nat
  caretCount : Nat
  deriving DecidableEq, Repr

/-- what is printed for token `t` of `src`.  A token at the very end of a text that ends with a line feed sits on a
line of its own, which `str::lines` does not yield: it is shown as an empty line (before the repair of the end-of-file
diagnostic nothing at all was printed there: no location, no echo, no caret).  `none` stands for the "invalid line
number" internal error. -/
def context (w : Char → Nat) (src : List Char) (t : Tok) : Option Context :=
  let width := if t.length = 0 then 1 else t.length
  match (lines src)[t.line]? with
  | some line =>
    let r := scan w t.column width line 0
    some { lineNumber := t.line + 1, columnNumber := t.column + 1, echoed := expandTabs line,
           caretOffset := r.1, caretCount := max r.2 1 }
  | none =>
    if t.offset = utf8Len src then
      let r := scan w t.column width [] 0
      some { lineNumber := t.line + 1, columnNumber := t.column + 1, echoed := expandTabs [],
             caretOffset := r.1, caretCount := max r.2 1 }
    else none

end Just.Render
