import Just.Props.C09
open Just.Props.C09
#print axioms recipe_cwd_table
#print axioms absolute_attribute_wins
#print axioms relative_attribute
#print axioms no_cd_is_invocation_dir
#print axioms backtick_ignores_attribute_and_no_cd
#print axioms module_dir_of_chain
#print axioms imports_inherit_importer
#print axioms working_directory_flag_root_only
#print axioms directory_functions_constant
#print axioms source_directory_last
#print axioms search_clean_normalises
