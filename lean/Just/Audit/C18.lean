import Just.Props.C18
open Just.Props.C18
#print axioms inactive_reads_nothing
#print axioms no_dotenv_flag_disables
#print axioms flags_override_settings_filename
#print axioms flags_override_settings_path
#print axioms path_wins
#print axioms then_filename
#print axioms findFile_nearest
#print axioms missing_error_iff_required
#print axioms environment_wins
#print axioms new_entries_visible
#print axioms default_name_is_documented
