import Just.Props.C15
open Just.Props.C15
#print axioms load_chains_nodup
#print axioms chain_bounded
#print axioms cycle_reported_import
#print axioms cycle_reported_module
#print axioms optional_missing_ignored
#print axioms missing_is_error
#print axioms shallower_wins
#print axioms modules_isolated
#print axioms import_contributes
#print axioms loader_terminates
#print axioms path_spelling_irrelevant
#print axioms loaded_chains_nodup
#print axioms insertDef_mem
#print axioms insertDef_inv
#print axioms dedup_inv
#print axioms recipesOf_file
