import Just.Props.C19
open Just.Props.C19
#print axioms every_use_recorded
#print axioms refused_iff
#print axioms stable_never_gated
#print axioms opt_in_admits
#print axioms set_unstable_is_per_module
#print axioms summary_exempt
#print axioms fmt_gated
#print axioms documented_falsy_are_falsy
#print axioms falsy_set_differs_from_readme
#print axioms fallback_every_level_gated
#print axioms fallback_parent_refused
#print axioms fallback_stable_never_refused
#print axioms gated_features_are_documented
#print axioms append_ne_nil_iff
#print axioms features_of_uses
#print axioms features_of_usesAny
#print axioms uses_of_features
#print axioms usesAny_of_features
#print axioms allowed_iff
#print axioms allowedAll_iff
