import Just.Props.C08
open Just.Props.C08
#print axioms export_scopes_equation
#print axioms env_set_equation
#print axioms current_scope_invisible
#print axioms constants_never_exported
#print axioms exported_iff
#print axioms unexport_vs_parameter
#print axioms exportBindings_eq
#print axioms removeAll_eq
#print axioms setAll_eq
