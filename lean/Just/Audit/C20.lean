import Just.Props.C20
open Just.Props.C20
#print axioms ordered_dump_independent_of_iteration_order
#print axioms hash_dump_depends_on_iteration_order
