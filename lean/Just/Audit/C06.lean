import Just.Props.C06
open Just.C06
#print axioms line_verbatim
#print axioms continued_text
#print axioms continued_value_untouched
#print axioms unescape_escape
#print axioms unescape_plain
#print axioms linewise_commands
#print axioms at_most_one_process_per_line
#print axioms script_line_numbers
#print axioms shebang_line_numbers
#print axioms shell_flag_and_args
#print axioms shell_flag_only
#print axioms shell_args_only
#print axioms shell_setting
#print axioms shell_default
#print axioms command_line_overrides_setting
#print axioms script_own_command_first
#print axioms script_setting_second
#print axioms script_default
#print axioms scripts_ignore_shell
#print axioms linewise_uses_shell
