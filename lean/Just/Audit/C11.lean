import Just.Props.C11
open Just.C11
#print axioms lexer_terminates
#print axioms main_loop_progress
#print axioms step_never_grows
#print axioms lexer_error_never_invalid_line
#print axioms lexer_asserts_hold
#print axioms main_loop_idle
#print axioms lexer_no_internal_error
#print axioms lexeme_slice_valid
#print axioms unindent_slice_valid
#print axioms unindent_cuts_blanks_only
#print axioms sigil_slice_valid
#print axioms cook_unwrap_safe
#print axioms cook_literal_unwrap_safe
#print axioms parser_loop_progress
#print axioms parser_loop_bounded
#print axioms parser_needs_no_fuel
#print axioms expression_parser_needs_no_fuel
