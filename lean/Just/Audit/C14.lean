import Just.Props.C14
open Just.Props.C14
#print axioms echo_table_eq_spec
#print axioms echo_ignores_infallible
#print axioms echo_is_command
#print axioms dry_run_line
#print axioms dry_run_executes_nothing
#print axioms dry_run_main_executes_nothing
#print axioms echo_switches_change_only_echo
#print axioms quiet_changes_no_execution
#print axioms noEcho_keeps_everything_else
#print axioms dry_run_matches_real
