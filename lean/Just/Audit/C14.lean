import Just.Props.C14
open Just.Props.C14
#print axioms echo_table_eq_spec
#print axioms echo_ignores_infallible
#print axioms echo_is_command
#print axioms dry_run_line
#print axioms dry_run_executes_nothing
#print axioms dry_run_main_executes_nothing
#print axioms echo_switches_change_only_echo
#print axioms quiet_changes_no_execution
#print axioms noEcho_keeps_everything_else
#print axioms dry_run_matches_real
#print axioms evalA_dry
#print axioms evalList_dry
#print axioms bindParams_dry
#print axioms runLines_dry
#print axioms evalLines_dry
#print axioms execs_map_echo
#print axioms runBody_dry
#print axioms execs_promptOf
#print axioms dry_run_all
#print axioms runAssigns_dry
#print axioms runInvs_dry
#print axioms dry_run_starts_no_backtick
#print axioms dry_run_assignment_starts_no_backtick
