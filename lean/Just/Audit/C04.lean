import Just.Props.C04
open Just.Props.C04
#print axioms lazy_conditional_true
#print axioms lazy_conditional_false
#print axioms lazy_and
#print axioms and_nonempty
#print axioms lazy_or
#print axioms or_empty
#print axioms assert_message_lazy
#print axioms dry_run_backtick
#print axioms concat_value
#print axioms override_irrelevant
#print axioms override_skips_expression
#print axioms own_assignment_first
#print axioms each_assignment_once
#print axioms clean_idempotent
#print axioms clean_result
#print axioms stem_dot_extension
#print axioms stem_is_name_without_extension
#print axioms without_extension_and_join
#print axioms scanners_agree
#print axioms encode_uri_component_roundtrip
