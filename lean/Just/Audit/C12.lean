import Just.Props.C12
open Just.C12
#print axioms token_positions
#print axioms error_position
#print axioms tokens_tile
#print axioms context_points
#print axioms context_multiline
#print axioms context_always
#print axioms context_end_of_file
