import Just.Props.C12
open Just.C12
#print axioms token_positions
#print axioms error_position
#print axioms tokens_tile
#print axioms context_points
#print axioms context_multiline
#print axioms context_always
#print axioms context_end_of_file
#print axioms located_of_spans
#print axioms tokenize_good
#print axioms tokenize_ok
#print axioms tokenize_err
#print axioms no_line_is_end_of_file
#print axioms shown_name_identifies_file
#print axioms shown_relative
