import Just.Props.C02
open Just.Props.C02
#print axioms exit_code_table
#print axioms exit_not_confirmed
#print axioms failstop
#print axioms main_failstop
#print axioms infallible_never_stops
#print axioms fallible_stops
#print axioms unconfirmed_runs_nothing
#print axioms yes_never_prompts
#print axioms EndsFailed.prepend
#print axioms StopsAt.prepend
#print axioms stopsAt_last
#print axioms evalA_stops
#print axioms evalList_stops
#print axioms bindParams_stops
#print axioms runCmd_stops
#print axioms runLines_stops
#print axioms evalLines_stops
#print axioms runBody_stops
#print axioms failstop_all
#print axioms runAssigns_stops
#print axioms runInvs_stops
#print axioms confirm_accepts_iff
