import Just.Props.C02
open Just.Props.C02
#print axioms exit_code_table
#print axioms exit_not_confirmed
#print axioms failstop
#print axioms main_failstop
#print axioms infallible_never_stops
#print axioms fallible_stops
#print axioms unconfirmed_runs_nothing
#print axioms yes_never_prompts
