import Just.Props.C03
open Just.Props.C03
#print axioms walk_complete
#print axioms assignments_accept_sound
#print axioms undefined_in_assignment_rejected
#print axioms self_reference_rejected
#print axioms recipes_accept_sound
#print axioms defaults_scope
#print axioms recipe_vars_sound
#print axioms callsOk_false_of_bad
#print axioms documented_functions_present
#print axioms checked_eq_evaluated
#print axioms old_resolver_gap
#print axioms all_lines_checked
#print axioms Just.Dfs.node_sound
#print axioms Just.Dfs.sorted_rank
#print axioms resolveAssignments_no_fuel
#print axioms resolveRecipes_no_fuel
#print axioms bad_call_never_parses
#print axioms duplicates_rejected_iff
#print axioms mixed_kinds_always_rejected
