import Just.Props.C16
open Just.Props.C16
#print axioms nearest_wins
#print axioms ambiguous_is_error
#print axioms none_is_error
#print axioms climb_outcomes
#print axioms no_fallback_stops
#print axioms known_runs_here
#print axioms fallback_step
#print axioms explicit_justfile_disables_both
#print axioms candidate_names_are_documented
#print axioms run_same
#print axioms sameCand_withExtras
#print axioms markers_change_nothing
