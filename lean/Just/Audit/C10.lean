import Just.Props.C10
open Just.C10
#print axioms placeholder
