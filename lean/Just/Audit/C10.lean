import Just.Props.C10
open Just.C10
#print axioms roundtrip
#print axioms roundtripArgs
#print axioms parse_print
#print axioms parse_print_fuel
#print axioms format_idempotent
#print axioms group_keeps_parentheses
#print axioms parse_print_in_context
#print axioms parsed_is_wellformed
#print axioms format_of_any_source
#print axioms header_roundtrip
#print axioms recipe_roundtrip
#print axioms assignment_roundtrip
#print axioms alias_roundtrip
#print axioms file_roundtrip
#print axioms file_roundtrip_exact
#print axioms file_format_idempotent
#print axioms parsed_file_is_wellformed
#print axioms format_of_any_file
#print axioms format_of_any_file_eventually
