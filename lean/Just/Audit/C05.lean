import Just.Props.C05
open Just.Props.C05
#print axioms groups_partition
#print axioms group_arity
#print axioms parseGroup_arity
#print axioms parse_fuel_enough
#print axioms bind_total
#print axioms bind_singular
#print axioms bind_variadic
#print axioms bind_star_empty
#print axioms bind_plus_needs_word
#print axioms bind_default
#print axioms bind_given_ignores_default
#print axioms overrides_are_leading
