import Just.Props.C05
open Just.Props.C05
#print axioms groups_partition
#print axioms group_arity
#print axioms parseGroup_arity
#print axioms parse_fuel_enough
#print axioms bind_total
#print axioms bind_singular
#print axioms bind_variadic
#print axioms bind_star_empty
#print axioms bind_plus_needs_word
#print axioms bind_default
#print axioms bind_given_ignores_default
#print axioms overrides_are_leading
#print axioms resolve_consumed
#print axioms resolveHead_words
#print axioms parseGroup_partition
#print axioms parseLoop_partition
#print axioms parseLoop_arity
#print axioms parseGroup_progress
#print axioms resolve_no_fuel
#print axioms parseGroup_no_fuel
#print axioms parseLoop_fuel
#print axioms bind_nil_words
#print axioms positional_args_sticky
#print axioms override_whatever_the_value
#print axioms dir_recipe_form
