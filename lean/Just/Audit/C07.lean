import Just.Props.C07
open Just.Props.C07
#print axioms quote_segment
#print axioms quote_one_word
#print axioms quote_injection_free
#print axioms positional_channel_linewise
#print axioms positional_channel_index
#print axioms positional_channel_script
#print axioms positional_off
#print axioms export_channel_singular
#print axioms export_channel_variadic
#print axioms channels_bind_what_C05_binds
