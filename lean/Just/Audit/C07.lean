import Just.Props.C07
open Just.Props.C07
#print axioms quote_segment
#print axioms quote_one_word
#print axioms quote_injection_free
