import Just.Props.C07
open Just.Props.C07
#print axioms quote_segment
#print axioms quote_one_word
#print axioms quote_injection_free
#print axioms positional_channel_linewise
#print axioms positional_channel_index
#print axioms positional_channel_script
#print axioms positional_off
#print axioms export_channel_singular
#print axioms export_channel_variadic
#print axioms channels_bind_what_C05_binds
#print axioms shRun_append
#print axioms step_sq_quote
#print axioms step_sq_other
#print axioms step_word_bs
#print axioms step_esc_quote
#print axioms step_word_quote
#print axioms step_out_quote
#print axioms sq_body
#print axioms stepC_shape
#print axioms shRun_shape
#print axioms finish_shape
#print axioms quote_channel_singular
