import Just.Props.C17
open Just.Props.C17
#print axioms listed_iff_public
#print axioms views_agree
#print axioms unsorted_same_set
#print axioms choose_candidates
#print axioms private_still_runnable
#print axioms show_is_run_target
#print axioms old_show_disagrees
#print axioms doc_displayed_is_declared
#print axioms entries_are_declared
#print axioms alias_annotation_iff
#print axioms mem_insertBy
#print axioms mem_sortByOffset
#print axioms groups_listed_iff
#print axioms groups_listed_once
#print axioms own_before_imported
#print axioms importer_before_imported
#print axioms same_file_in_text_order
#print axioms earlier_import_first
#print axioms mem_unsortedOrder
#print axioms length_insertPlaced
#print axioms length_unsortedOrder
#print axioms groups_listed_in_name_order
#print axioms unsorted_lists_in_key_order
