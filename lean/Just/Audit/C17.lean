import Just.Props.C17
open Just.Props.C17
#print axioms listed_iff_public
#print axioms views_agree
#print axioms unsorted_same_set
#print axioms choose_candidates
#print axioms private_still_runnable
#print axioms show_is_run_target
#print axioms old_show_disagrees
#print axioms doc_displayed_is_declared
#print axioms entries_are_declared
#print axioms alias_annotation_iff
#print axioms mem_insertBy
#print axioms mem_sortByOffset
#print axioms groups_listed_iff
#print axioms groups_listed_once
