import Just.Props.C01
open Just.Props.C01 Just.Run
#print axioms runRecipe_sound
#print axioms runDeps_sound
#print axioms rank_bound
#print axioms run_once
#print axioms run_once_cmdline
#print axioms requested_runs
#print axioms only_reachable
#print axioms priors_first_subsequents_after
#print axioms cmdline_left_to_right
#print axioms deps_left_to_right
#print axioms fuel_enough
