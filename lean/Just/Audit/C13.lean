import Just.Props.C13
open Just.Props.C13
#print axioms never_exit_with_child
#print axioms no_spawn_after_caught
#print axioms exits_when_child_ends
#print axioms exit_code
#print axioms idle_exits_at_once
#print axioms first_signal_kept
#print axioms sigterm_forwarded
#print axioms unrecorded_signal_is_forgotten
#print axioms recorded_signal_stops
#print axioms signals_match_source
#print axioms afterChild_running
#print axioms step_exit_inv
#print axioms afterChild_doomed
#print axioms afterChild_spawned
#print axioms step_doomed
#print axioms run_doomed
