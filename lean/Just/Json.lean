import Lean.Data.Json
import Just.Model.Run
import Just.Model.Signals
import Just.Model.Args
import Just.Model.EnvExport
import Just.Model.Workdir
import Just.Model.Search
import Just.Model.Dotenv
open Lean

namespace Just.Run
deriving instance FromJson, ToJson for Status
deriving instance FromJson, ToJson for AExpr
deriving instance FromJson, ToJson for Line
deriving instance FromJson, ToJson for Dep
deriving instance FromJson, ToJson for Recipe
deriving instance FromJson, ToJson for Cfg
deriving instance FromJson, ToJson for Prog
deriving instance FromJson, ToJson for Ev
end Just.Run

namespace Just.Signals
deriving instance FromJson, ToJson for Sig
deriving instance FromJson, ToJson for Cmd
deriving instance FromJson, ToJson for Step
end Just.Signals

namespace Just.Args
deriving instance FromJson, ToJson for PKind
deriving instance FromJson, ToJson for Piece
deriving instance FromJson, ToJson for Param
deriving instance FromJson, ToJson for Sig
deriving instance ToJson for Err

partial def modFromJson (j : Json) : Except String Mod := do
  let recipes : List (String × Sig) ← fromJson? (← j.getObjVal? "recipes")
  let modsJ : List (String × Json) ← fromJson? (← j.getObjVal? "modules")
  let mods ← modsJ.mapM (fun (n, mj) => do return (n, ← modFromJson mj))
  let dflt : Option Sig ← fromJson? (← j.getObjVal? "default")
  return Mod.mk recipes mods dflt
end Just.Args

namespace Just.EnvExport
deriving instance FromJson, ToJson for Binding
end Just.EnvExport

namespace Just.Workdir
deriving instance FromJson, ToJson for Rel
deriving instance FromJson, ToJson for Edge
deriving instance FromJson, ToJson for Search
deriving instance FromJson, ToJson for Ctx
deriving instance FromJson, ToJson for Attrs
end Just.Workdir

namespace Just.Search
deriving instance FromJson, ToJson for Level
deriving instance ToJson for Outcome
end Just.Search

namespace Just.Dotenv
deriving instance FromJson, ToJson for Cfg
deriving instance ToJson for Res
end Just.Dotenv
