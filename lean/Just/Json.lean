import Lean.Data.Json
import Just.Model.Run
open Lean

namespace Just.Run
deriving instance FromJson, ToJson for Status
deriving instance FromJson, ToJson for AExpr
deriving instance FromJson, ToJson for Line
deriving instance FromJson, ToJson for Dep
deriving instance FromJson, ToJson for Recipe
deriving instance FromJson, ToJson for Cfg
deriving instance FromJson, ToJson for Prog
deriving instance FromJson, ToJson for Ev
end Just.Run
