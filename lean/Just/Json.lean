import Lean.Data.Json
import Just.Model.Run
import Just.Model.Signals
open Lean

namespace Just.Run
deriving instance FromJson, ToJson for Status
deriving instance FromJson, ToJson for AExpr
deriving instance FromJson, ToJson for Line
deriving instance FromJson, ToJson for Dep
deriving instance FromJson, ToJson for Recipe
deriving instance FromJson, ToJson for Cfg
deriving instance FromJson, ToJson for Prog
deriving instance FromJson, ToJson for Ev
end Just.Run

namespace Just.Signals
deriving instance FromJson, ToJson for Sig
deriving instance FromJson, ToJson for Cmd
deriving instance FromJson, ToJson for Step
end Just.Signals
