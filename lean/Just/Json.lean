import Lean.Data.Json
import Just.Model.Run
import Just.Model.Signals
import Just.Model.Args
import Just.Model.EnvExport
import Just.Model.Channels
import Just.Model.Define
import Just.Model.Workdir
import Just.Model.Search
import Just.Model.Dotenv
import Just.Model.Unstable
import Just.Model.Analyzer
import Just.Model.Listing
import Just.Model.Imports
import Just.Model.Eval
open Lean

namespace Just.Run
deriving instance FromJson, ToJson for Status
deriving instance FromJson, ToJson for AExpr
deriving instance FromJson, ToJson for Line
deriving instance FromJson, ToJson for Dep
deriving instance FromJson, ToJson for Recipe
deriving instance FromJson, ToJson for Cfg
deriving instance FromJson, ToJson for Prog
deriving instance FromJson, ToJson for Ev
end Just.Run

namespace Just.Signals
deriving instance FromJson, ToJson for Sig
deriving instance FromJson, ToJson for Cmd
deriving instance FromJson, ToJson for Step
end Just.Signals

namespace Just.Args
deriving instance FromJson, ToJson for PKind
deriving instance FromJson, ToJson for Piece
deriving instance FromJson, ToJson for Param
deriving instance FromJson, ToJson for Sig
deriving instance ToJson for Err

partial def modFromJson (j : Json) : Except String Mod := do
  let recipes : List (String × Sig) ← fromJson? (← j.getObjVal? "recipes")
  let modsJ : List (String × Json) ← fromJson? (← j.getObjVal? "modules")
  let mods ← modsJ.mapM (fun (n, mj) => do return (n, ← modFromJson mj))
  let dflt : Option Sig ← fromJson? (← j.getObjVal? "default")
  -- "hasRecipes": whether the module has recipes of its own (default: the name table is non-empty)
  let has : Bool := match j.getObjValAs? Bool "hasRecipes" with
    | .ok b => b
    | .error _ => !recipes.isEmpty
  return Mod.mk recipes mods dflt has
end Just.Args

namespace Just.EnvExport
deriving instance FromJson, ToJson for Binding
end Just.EnvExport

namespace Just.Define
deriving instance FromJson, ToJson for DKind
deriving instance FromJson, ToJson for Def
end Just.Define

namespace Just.Channels
deriving instance FromJson, ToJson for NParam
end Just.Channels

namespace Just.Workdir
deriving instance FromJson, ToJson for Rel
deriving instance FromJson, ToJson for Edge
deriving instance FromJson, ToJson for Search
deriving instance FromJson, ToJson for Ctx
deriving instance FromJson, ToJson for Attrs
end Just.Workdir

namespace Just.Search
deriving instance FromJson, ToJson for Level
deriving instance ToJson for Outcome
end Just.Search

namespace Just.Dotenv
deriving instance FromJson, ToJson for Cfg
deriving instance ToJson for Res
end Just.Dotenv

namespace Just
deriving instance FromJson, ToJson for CondOp

mutual
partial def exprFromJson (j : Json) : Except String Expr := do
  let tag ← j.getObjValAs? String "t"
  let sub (k : String) : Except String Expr := do exprFromJson (← j.getObjVal? k)
  match tag with
  | "str" => return .str (← j.getObjValAs? String "v")
  | "var" => return .var (← j.getObjValAs? String "v")
  | "backtick" => return .backtick (← j.getObjValAs? String "v")
  | "call" =>
    let fn ← j.getObjValAs? String "fn"
    let args ← exprsFromJson (← j.getObjVal? "args")
    return .call fn args
  | "concat" => return .concat (← sub "l") (← sub "r")
  | "joinL" => return .joinL (← sub "l") (← sub "r")
  | "joinR" => return .joinR (← sub "r")
  | "and" => return .and (← sub "l") (← sub "r")
  | "or" => return .or (← sub "l") (← sub "r")
  | "cond" =>
    let op : CondOp ← fromJson? (← j.getObjVal? "op")
    let a ← sub "lhs"
    let b ← sub "rhs"
    let t ← sub "thn"
    let e ← sub "els"
    return .cond a op b t e
  | "assert" =>
    let op : CondOp ← fromJson? (← j.getObjVal? "op")
    let a ← sub "lhs"
    let b ← sub "rhs"
    let m ← sub "msg"
    return .assert a op b m
  | "group" => return .group (← sub "e")
  | t => throw s!"unknown expr tag {t}"
partial def exprsFromJson (j : Json) : Except String Exprs := do
  let arr ← j.getArr?
  let es ← arr.toList.mapM exprFromJson
  return Exprs.ofList es
end

partial def unstableModuleFromJson (j : Json) : Except String Unstable.Module := do
  let exprsJ ← (← j.getObjVal? "exprs").getArr?
  let exprs ← exprsJ.toList.mapM exprFromJson
  let subsJ ← (← j.getObjVal? "subs").getArr?
  let subs ← subsJ.toList.mapM unstableModuleFromJson
  let sr ← j.getObjValAs? Bool "scriptRecipe"
  let si ← j.getObjValAs? Bool "scriptInterpreter"
  let su ← j.getObjValAs? Bool "setUnstable"
  return .mk exprs sr si su subs
end Just

namespace Just.Analyzer
deriving instance ToJson for Err

def moduleFromJson (j : Json) : Except String Module := do
  let assignsJ ← (← j.getObjVal? "assigns").getArr?
  let assigns ← assignsJ.toList.mapM (fun a => do
    let n ← (← a.getArrVal? 0).getStr?
    let e ← exprFromJson (← a.getArrVal? 1)
    return (n, e))
  let recipesJ ← (← j.getObjVal? "recipes").getArr?
  let recipes ← recipesJ.toList.mapM (fun r => do
    let name ← r.getObjValAs? String "name"
    let paramsJ ← (← r.getObjVal? "params").getArr?
    let params ← paramsJ.toList.mapM (fun p => do
      let pn ← p.getObjValAs? String "name"
      let kindS ← p.getObjValAs? String "kind"
      let kind := if kindS == "plus" then PKind.plus else if kindS == "star" then PKind.star else PKind.singular
      let dJ ← p.getObjVal? "default"
      let d ← if dJ.isNull then pure none else (do return some (← exprFromJson dJ))
      return ({ name := pn, kind := kind, default := d } : Param))
    let depsJ ← (← r.getObjVal? "deps").getArr?
    let deps ← depsJ.toList.mapM (fun d => do
      let t ← d.getObjValAs? String "target"
      let argsJ ← (← d.getObjVal? "args").getArr?
      let args ← argsJ.toList.mapM exprFromJson
      return ({ target := t, args := args } : Dep))
    let bodyJ ← (← r.getObjVal? "body").getArr?
    let body ← bodyJ.toList.mapM (fun l => do
      let isJ ← (← l.getObjVal? "interps").getArr?
      let interps ← isJ.toList.mapM exprFromJson
      let c ← l.getObjValAs? Bool "isComment"
      let k ← l.getObjValAs? Bool "isContinuation"
      return ({ interps := interps, isComment := c, isContinuation := k } : Line))
    let script ← r.getObjValAs? Bool "script"
    return ({ name := name, params := params, deps := deps, body := body, script := script } : Recipe))
  let ic ← j.getObjValAs? Bool "ignoreComments"
  return { assigns := assigns, recipes := recipes, ignoreComments := ic }
end Just.Analyzer

namespace Just.Listing
deriving instance FromJson, ToJson for Recipe
deriving instance FromJson, ToJson for Alias

partial def modFromJson (j : Json) : Except String Mod := do
  let name ← j.getObjValAs? String "name"
  let recipes : List Recipe ← fromJson? (← j.getObjVal? "recipes")
  let aliases : List Alias ← fromJson? (← j.getObjVal? "aliases")
  let subsJ ← (← j.getObjVal? "subs").getArr?
  let subs ← subsJ.toList.mapM modFromJson
  return .mk name recipes aliases subs
deriving instance FromJson, ToJson for Decl
deriving instance FromJson, ToJson for AliasOf
deriving instance FromJson, ToJson for Entry
end Just.Listing

namespace Just.Imports
deriving instance FromJson, ToJson for Item
deriving instance FromJson, ToJson for File
deriving instance ToJson for Err
deriving instance ToJson for Def
end Just.Imports

namespace Just.Eval
deriving instance ToJson for Ev
deriving instance ToJson for Err
end Just.Eval
