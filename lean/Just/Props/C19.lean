/-
C19 — unstable features are gated; stable ones never are.
-/
import Just.Model.Unstable
import Just.Generated.Tables
namespace Just.Props.C19
open Just Just.Unstable

mutual
/-- `e` contains an unstable construct (`&&`, `||`, a call of `which`) at SOME syntactic position -/
inductive Uses : Expr → Prop where
  | and (l r : Expr) : Uses (.and l r)
  | or (l r : Expr) : Uses (.or l r)
  | which (args : Exprs) : Uses (.call "which" args)
  | callArg {fn : String} {args : Exprs} : UsesAny args → Uses (.call fn args)
  | concatL {l r : Expr} : Uses l → Uses (.concat l r)
  | concatR {l r : Expr} : Uses r → Uses (.concat l r)
  | joinLL {l r : Expr} : Uses l → Uses (.joinL l r)
  | joinLR {l r : Expr} : Uses r → Uses (.joinL l r)
  | joinR {r : Expr} : Uses r → Uses (.joinR r)
  | condLhs {a b t e : Expr} {op : CondOp} : Uses a → Uses (.cond a op b t e)
  | condRhs {a b t e : Expr} {op : CondOp} : Uses b → Uses (.cond a op b t e)
  | condThen {a b t e : Expr} {op : CondOp} : Uses t → Uses (.cond a op b t e)
  | condElse {a b t e : Expr} {op : CondOp} : Uses e → Uses (.cond a op b t e)
  | assertLhs {a b m : Expr} {op : CondOp} : Uses a → Uses (.assert a op b m)
  | assertRhs {a b m : Expr} {op : CondOp} : Uses b → Uses (.assert a op b m)
  | assertMsg {a b m : Expr} {op : CondOp} : Uses m → Uses (.assert a op b m)
  | group {e : Expr} : Uses e → Uses (.group e)
inductive UsesAny : Exprs → Prop where
  | head {e : Expr} {es : Exprs} : Uses e → UsesAny (.cons e es)
  | tail {e : Expr} {es : Exprs} : UsesAny es → UsesAny (.cons e es)
end

theorem append_ne_nil_iff {α : Type} (a b : List α) : a ++ b ≠ [] ↔ a ≠ [] ∨ b ≠ [] := by
  cases a <;> simp

mutual
theorem features_of_uses : ∀ (e : Expr), Uses e → e.features ≠ []
  | _, .and l r => by simp [Expr.features]
  | _, .or l r => by simp [Expr.features]
  | _, .which args => by simp [Expr.features]
  | _, .callArg h => by
    simp only [Expr.features]
    exact (append_ne_nil_iff _ _).mpr (Or.inr (features_of_usesAny _ h))
  | _, .concatL h => by
    simp only [Expr.features]; exact (append_ne_nil_iff _ _).mpr (Or.inl (features_of_uses _ h))
  | _, .concatR h => by
    simp only [Expr.features]; exact (append_ne_nil_iff _ _).mpr (Or.inr (features_of_uses _ h))
  | _, .joinLL h => by
    simp only [Expr.features]; exact (append_ne_nil_iff _ _).mpr (Or.inl (features_of_uses _ h))
  | _, .joinLR h => by
    simp only [Expr.features]; exact (append_ne_nil_iff _ _).mpr (Or.inr (features_of_uses _ h))
  | _, .joinR h => by simp only [Expr.features]; exact features_of_uses _ h
  | _, .condLhs h => by
    simp only [Expr.features]
    have := features_of_uses _ h
    simp_all
  | _, .condRhs h => by
    simp only [Expr.features]
    have := features_of_uses _ h
    simp_all
  | _, .condThen h => by
    simp only [Expr.features]
    have := features_of_uses _ h
    simp_all
  | _, .condElse h => by
    simp only [Expr.features]
    have := features_of_uses _ h
    simp_all
  | _, .assertLhs h => by
    simp only [Expr.features]
    have := features_of_uses _ h
    simp_all
  | _, .assertRhs h => by
    simp only [Expr.features]
    have := features_of_uses _ h
    simp_all
  | _, .assertMsg h => by
    simp only [Expr.features]
    have := features_of_uses _ h
    simp_all
  | _, .group h => by simp only [Expr.features]; exact features_of_uses _ h
theorem features_of_usesAny : ∀ (es : Exprs), UsesAny es → es.features ≠ []
  | _, .head h => by
    simp only [Exprs.features]; exact (append_ne_nil_iff _ _).mpr (Or.inl (features_of_uses _ h))
  | _, .tail h => by
    simp only [Exprs.features]; exact (append_ne_nil_iff _ _).mpr (Or.inr (features_of_usesAny _ h))
end

mutual
theorem uses_of_features : ∀ (e : Expr), e.features ≠ [] → Uses e
  | .str _, h => by simp [Expr.features] at h
  | .var _, h => by simp [Expr.features] at h
  | .backtick _, h => by simp [Expr.features] at h
  | .call fn args, h => by
    simp only [Expr.features] at h
    by_cases hw : fn = "which"
    · subst hw; exact .which args
    · simp only [hw, if_false, List.nil_append] at h
      exact .callArg (usesAny_of_features args h)
  | .concat l r, h => by
    simp only [Expr.features] at h
    rcases (append_ne_nil_iff _ _).mp h with h | h
    · exact .concatL (uses_of_features l h)
    · exact .concatR (uses_of_features r h)
  | .joinL l r, h => by
    simp only [Expr.features] at h
    rcases (append_ne_nil_iff _ _).mp h with h | h
    · exact .joinLL (uses_of_features l h)
    · exact .joinLR (uses_of_features r h)
  | .joinR r, h => by
    simp only [Expr.features] at h
    exact .joinR (uses_of_features r h)
  | .and l r, _ => .and l r
  | .or l r, _ => .or l r
  | .cond a op b t e, h => by
    simp only [Expr.features] at h
    rcases (append_ne_nil_iff _ _).mp h with h | h
    · rcases (append_ne_nil_iff _ _).mp h with h | h
      · rcases (append_ne_nil_iff _ _).mp h with h | h
        · exact .condLhs (uses_of_features a h)
        · exact .condRhs (uses_of_features b h)
      · exact .condThen (uses_of_features t h)
    · exact .condElse (uses_of_features e h)
  | .assert a op b m, h => by
    simp only [Expr.features] at h
    rcases (append_ne_nil_iff _ _).mp h with h | h
    · rcases (append_ne_nil_iff _ _).mp h with h | h
      · exact .assertLhs (uses_of_features a h)
      · exact .assertRhs (uses_of_features b h)
    · exact .assertMsg (uses_of_features m h)
  | .group e, h => by
    simp only [Expr.features] at h
    exact .group (uses_of_features e h)
theorem usesAny_of_features : ∀ (es : Exprs), es.features ≠ [] → UsesAny es
  | .nil, h => by simp [Exprs.features] at h
  | .cons e es, h => by
    simp only [Exprs.features] at h
    rcases (append_ne_nil_iff _ _).mp h with h | h
    · exact .head (uses_of_features e h)
    · exact .tail (usesAny_of_features es h)
end

/-- **every use is recorded, wherever it stands**: an expression records an unstable feature iff
an unstable construct occurs at some position of it — operand of any operator, argument of any
function at any index, either side of a condition, either branch, assert message, inside
parentheses, at any nesting depth. -/
theorem every_use_recorded (e : Expr) : e.features ≠ [] ↔ Uses e :=
  ⟨uses_of_features e, features_of_uses e⟩

/-! ### the gate over the module tree -/

mutual
/-- `m'` is `m` or one of its descendants -/
inductive InTree : Module → Module → Prop where
  | self (m : Module) : InTree m m
  | sub {m m' : Module} : InSubs m.subs m' → InTree m m'
inductive InSubs : List Module → Module → Prop where
  | head {m : Module} {ms : List Module} {m' : Module} : InTree m m' → InSubs (m :: ms) m'
  | tail {m : Module} {ms : List Module} {m' : Module} : InSubs ms m' → InSubs (m :: ms) m'
end

mutual
theorem allowed_iff (optIn : Bool) : ∀ (m : Module), allowed optIn m = true ↔
    ∀ m', InTree m m' → (m'.features.isEmpty || optIn || m'.setUnstable) = true
  | .mk exprs sr si su subs => by
    simp only [allowed, Bool.and_eq_true]
    constructor
    · rintro ⟨h1, h2⟩ m' hin
      cases hin with
      | self => exact h1
      | sub hs => exact (allowedAll_iff optIn subs).mp h2 m' hs
    · intro h
      exact ⟨h _ (.self _), (allowedAll_iff optIn subs).mpr (fun m' hs => h m' (.sub hs))⟩
theorem allowedAll_iff (optIn : Bool) : ∀ (ms : List Module), allowedAll optIn ms = true ↔
    ∀ m', InSubs ms m' → (m'.features.isEmpty || optIn || m'.setUnstable) = true
  | [] => by
    simp only [allowedAll, true_iff]
    intro m' h; cases h
  | m :: ms => by
    simp only [allowedAll, Bool.and_eq_true]
    constructor
    · rintro ⟨h1, h2⟩ m' hin
      cases hin with
      | head ht => exact (allowed_iff optIn m).mp h1 m' ht
      | tail hs => exact (allowedAll_iff optIn ms).mp h2 m' hs
    · intro h
      exact ⟨(allowed_iff optIn m).mpr (fun m' ht => h m' (.head ht)),
        (allowedAll_iff optIn ms).mpr (fun m' hs => h m' (.tail hs))⟩
end

/-- **every use is gated**: without a global opt-in, the justfile is refused iff SOME module of
the tree — at any depth — records an unstable feature and does not itself `set unstable` -/
theorem refused_iff (m : Module) :
    allowed false m = false ↔
      ∃ m', InTree m m' ∧ m'.features ≠ [] ∧ m'.setUnstable = false := by
  have := allowed_iff false m
  constructor
  · intro h
    refine Classical.byContradiction fun hc => ?_
    have : allowed false m = true := by
      apply this.mpr
      intro m' hin
      by_cases hf : m'.features = []
      · simp [hf]
      · by_cases hu : m'.setUnstable = true
        · simp [hu]
        · exfalso; exact hc ⟨m', hin, hf, by simpa using hu⟩
    rw [this] at h; cases h
  · rintro ⟨m', hin, hf, hu⟩
    cases hall : allowed false m with
    | false => rfl
    | true =>
      have := this.mp hall m' hin
      simp [hu] at this
      exact absurd this hf

/-- **stable justfiles never need the opt-in**, wherever the features do not appear -/
theorem stable_never_gated (optIn : Bool) (m : Module) (h : ∀ m', InTree m m' → m'.features = []) :
    allowed optIn m = true := by
  apply (allowed_iff optIn m).mpr
  intro m' hin
  simp [h m' hin]

/-- **the global opt-in admits everything** -/
theorem opt_in_admits (m : Module) : allowed true m = true := by
  apply (allowed_iff true m).mpr
  intro m' _; simp

/-- `set unstable` counts only for the module that says it: a submodule using an unstable feature
is refused even if the root has `set unstable` -/
theorem set_unstable_is_per_module :
    allowed false (.mk [] false false true [.mk [.and (.str "a") (.str "b")] false false false []]) = false := by
  decide

/-- **`--summary` is exempt** -/
theorem summary_exempt (flag : Bool) (env : Option String) (m : Module) :
    proceeds flag env .summary m = true := by
  simp [proceeds, optIn, opt_in_admits]

/-- **`--fmt` itself is gated** -/
theorem fmt_gated (m : Module) (h : proceeds false none .fmt m = true) : m.setUnstable = true := by
  simp [proceeds, optIn, envTruthyImpl] at h
  exact h.2

/-! ### `JUST_UNSTABLE`: code vs README -/

/-- the documented falsy values are falsy in the code -/
theorem documented_falsy_are_falsy :
    envTruthyImpl (some "false") = false ∧ envTruthyImpl (some "0") = false ∧
      envTruthyImpl (some "") = false ∧ envTruthyImpl none = false := by
  decide

/-- but the code's falsy set is LARGER than the documented one: `JUST_UNSTABLE=no` does not
enable unstable features although the README says any value other than `false`, `0` or the empty
string does (recorded as a known finding) -/
theorem falsy_set_differs_from_readme :
    envTruthyDoc (some "no") = true ∧ envTruthyImpl (some "no") = false := by
  decide

/-! ### every way of loading: justfiles reached through `set fallback` -/

/-- **every justfile loaded on the way up is gated**: when a recipe found through `set fallback`
runs, the justfile that holds it and every justfile tried before it passed the gate -/
theorem fallback_every_level_gated (flag : Bool) (env : Option String) :
    ∀ (levels : List Level) (k0 k : Nat), runFallback flag env levels k0 = .ran k →
      k0 ≤ k ∧ ∀ j (hj : j < levels.length), j ≤ k - k0 → proceeds flag env .run (levels[j]).root = true := by
  intro levels
  induction levels with
  | nil => intro k0 k h; simp [runFallback] at h
  | cons l rest ih =>
    intro k0 k h
    simp only [runFallback] at h
    split at h
    · cases h
    · rename_i hp
      have hp' : proceeds flag env .run l.root = true := by simpa using hp
      split at h
      · have : k0 = k := by simpa using h
        subst this
        refine ⟨Nat.le_refl _, ?_⟩
        intro j hj hle
        have : j = 0 := by omega
        subst this
        simpa using hp'
      · split at h
        · obtain ⟨hle, hall⟩ := ih (k0 + 1) k h
          refine ⟨by omega, ?_⟩
          intro j hj hjk
          cases j with
          | zero => simpa using hp'
          | succ j =>
            have := hall j (by simpa using hj) (by omega)
            simpa using this
        · cases h

/-- **a parent justfile that uses an unstable feature without the opt-in is refused, and nothing
runs** — also when it is only reached because the justfiles below it lack the recipe and have
`set fallback` (their own `set unstable` does not count for it) -/
theorem fallback_parent_refused (flag : Bool) (env : Option String) :
    ∀ (below : List Level) (parent : Level) (above : List Level) (k0 : Nat),
      (∀ l ∈ below, proceeds flag env .run l.root = true ∧ l.hasRecipe = false ∧ l.fallback = true) →
      proceeds flag env .run parent.root = false →
      runFallback flag env (below ++ parent :: above) k0 = .refused (k0 + below.length) := by
  intro below
  induction below with
  | nil => intro parent above k0 _ hp; simp [runFallback, hp]
  | cons l rest ih =>
    intro parent above k0 hb hp
    have hl := hb l (by simp)
    simp only [List.cons_append, runFallback, hl.1, hl.2.1, hl.2.2]
    have := ih parent above (k0 + 1) (fun l' hl' => hb l' (List.mem_cons_of_mem _ hl')) hp
    simp only [Bool.not_true, Bool.false_eq_true, if_false, if_true, this, List.length_cons]
    congr 1
    omega

/-- and stable justfiles are never refused on the way up -/
theorem fallback_stable_never_refused (flag : Bool) (env : Option String) :
    ∀ (levels : List Level) (k0 : Nat),
      (∀ l ∈ levels, ∀ m', InTree l.root m' → m'.features = []) →
      ∀ k, runFallback flag env levels k0 ≠ .refused k := by
  intro levels
  induction levels with
  | nil => intro k0 _ k h; simp [runFallback] at h
  | cons l rest ih =>
    intro k0 hst k h
    have hp : proceeds flag env .run l.root = true := by
      have := stable_never_gated (optIn flag env .run) l.root (hst l (by simp))
      simp [proceeds, this]
    simp only [runFallback, hp, Bool.not_true, Bool.false_eq_true, if_false] at h
    split at h
    · cases h
    · split at h
      · exact ih (k0 + 1) (fun l' hl' => hst l' (List.mem_cons_of_mem _ hl')) k h
      · cases h

/-- non-vacuity: child with `set fallback` and `set unstable`, parent using `[script]` -/
example : runFallback false none
    [⟨.mk [] false false true [], false, true⟩, ⟨.mk [] true false false [], true, false⟩] 0 = .refused 1 := by
  decide

/-- **the gated features are the documented ones**: `enum UnstableFeature`, read from
src/unstable_feature.rs on every run, has exactly the five features the statement names (`--fmt`,
`&&` / `||`, `[script]`, `script-interpreter`, `which()`) — a sixth gated feature, or one dropped
from the gate, breaks this theorem -/
theorem gated_features_are_documented :
    [Feature.fmt, .logical, .script, .scriptInterpreter, .which].map Feature.variant = Generated.unstableFeatures := by
  decide

end Just.Props.C19
