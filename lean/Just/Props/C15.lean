/-
C15 — imports merge into the importer; modules are isolated namespaces.
-/
import Just.Model.Imports
import Just.Lemmas.LoaderChain
import Just.Lemmas.LoaderFuel
import Just.Lemmas.Path
namespace Just.Props.C15
open Just.Imports

/-- **a cyclic import or module chain is never followed**: every source that is ever loaded has a
repetition-free chain of files leading to it (so no file is loaded below itself), whatever the
graph — cyclic or not — and however long the loader runs. -/
theorem loaded_chains_nodup (fs : FS) : ∀ (fuel : Nat) (stack : List Source) (depths : List (Nat × Nat))
    (log : List Source) (res : List (Nat × Nat) × List Source),
    (∀ s ∈ stack, GoodSource s) → (∀ s ∈ log, GoodSource s) →
    loadLoop fs fuel stack depths log = .ok res → ∀ s ∈ res.2, GoodSource s := by
  intro fuel
  induction fuel with
  | zero => intro stack depths log res _ _ h; simp [loadLoop] at h
  | succ n ih =>
    intro stack depths log res hst hlog h
    cases stack with
    | nil => simp only [loadLoop] at h; cases h; exact hlog
    | cons cur stack =>
      simp only [loadLoop] at h
      split at h
      · cases h
      · rename_i file hfile
        split at h
        · cases h
        · rename_i ss hss
          have hcur := hst cur (List.mem_cons_self ..)
          apply ih _ _ _ res ?_ ?_ h
          · intro s hs
            rcases List.mem_append.mp hs with hs | hs
            · exact (pushes_good cur hcur file.items ss hss s (List.mem_reverse.mp hs)).1
            · exact hst s (List.mem_cons_of_mem _ hs)
          · intro s hs
            rcases List.mem_append.mp hs with hs | hs
            · exact hlog s hs
            · simp at hs; subst hs; exact hcur

theorem load_chains_nodup (fs : FS) (fuel : Nat) (res : List (Nat × Nat) × List Source)
    (h : load fs fuel = .ok res) : ∀ s ∈ res.2, GoodSource s := by
  apply loaded_chains_nodup fs fuel _ _ _ res ?_ ?_ h
  · intro s hs
    simp at hs; subst hs
    exact ⟨by simp, by simp, by simp⟩
  · intro s hs; cases hs

/-- chains are bounded by the number of files, hence so is the nesting depth -/
theorem chain_bounded (nfiles : Nat) (s : Source) (hg : GoodSource s) (hf : ∀ f ∈ s.chain, f < nfiles) :
    s.depth < nfiles := by
  have hsub : s.chain ⊆ List.range nfiles := fun f hfm => List.mem_range.mpr (hf f hfm)
  have := List.Nodup.length_le_of_subset hg.nodup hsub
  simp at this
  have := hg.len
  omega

/-- **a reference back into the chain is reported as circular** (import and mod alike) -/
theorem cycle_reported_import (cur : Source) (t : Nat) (opt : Bool) (rest : List Item) (h : t ∈ cur.chain) :
    pushes cur (.import (some t) opt :: rest) = .error (.circular cur.file t) := by
  simp [pushes, h]

theorem cycle_reported_module (cur : Source) (name : String) (t : Nat) (opt : Bool) (rest : List Item)
    (h : t ∈ cur.chain) :
    pushes cur (.module name (some t) opt :: rest) = .error (.circular cur.file t) := by
  simp [pushes, h]

/-- **`import?` / `mod?` of a missing file is ignored, a plain one is an error** -/
theorem optional_missing_ignored (cur : Source) (rest : List Item) (name : String) :
    pushes cur (.import none true :: rest) = pushes cur rest ∧
      pushes cur (.module name none true :: rest) = pushes cur rest := by
  simp [pushes]

theorem missing_is_error (cur : Source) (rest : List Item) (name : String) :
    pushes cur (.import none false :: rest) = .error (.missingImport cur.file) ∧
      pushes cur (.module name none false :: rest) = .error (.missingModule cur.file name) := by
  simp [pushes]

/-- importing one file along several paths is accepted: a diamond loads without error -/
example : (match load [⟨[.import (some 1) false, .import (some 2) false], false, false⟩,
    ⟨[.import (some 3) false], false, false⟩, ⟨[.import (some 3) false], false, false⟩,
    ⟨[.recipe "r"], false, false⟩] 20 with
    | .ok _ => true
    | .error _ => false) = true := by
  decide

/-! ### duplicate resolution: the shallower definition wins -/

theorem insertDef_mem (table : List Def) (d x : Def) (h : x ∈ insertDef table d) : x ∈ table ∨ x = d := by
  unfold insertDef at h
  split at h
  · rcases List.mem_append.mp h with h | h
    · exact Or.inl h
    · simp at h; exact Or.inr h
  · split at h
    · obtain ⟨y, hy, hxy⟩ := List.mem_map.mp h
      split at hxy
      · exact Or.inr hxy.symm
      · exact Or.inl (hxy ▸ hy)
    · exact Or.inl h

/-- invariant of the table: names are unique and every entry has minimal depth among everything
processed so far under its name -/
structure TableInv (seen table : List Def) : Prop where
  sub : ∀ x ∈ table, x ∈ seen
  cover : ∀ y ∈ seen, ∃ x ∈ table, x.name = y.name ∧ x.depth ≤ y.depth
  uniq : ∀ x ∈ table, ∀ x' ∈ table, x.name = x'.name → x = x'

theorem insertDef_inv (seen table : List Def) (d : Def) (h : TableInv seen table) :
    TableInv (seen ++ [d]) (insertDef table d) := by
  unfold insertDef
  cases hf : table.find? (fun x => decide (x.name = d.name)) with
  | none =>
    simp only
    have hnone : ∀ x ∈ table, x.name ≠ d.name := by
      intro x hx
      have := List.find?_eq_none.mp hf x hx
      simpa using this
    refine ⟨?_, ?_, ?_⟩
    · intro x hx
      rcases List.mem_append.mp hx with hx | hx
      · exact List.mem_append_left _ (h.sub x hx)
      · exact List.mem_append_right _ hx
    · intro y hy
      rcases List.mem_append.mp hy with hy | hy
      · obtain ⟨x, hx, hn, hd⟩ := h.cover y hy
        exact ⟨x, List.mem_append_left _ hx, hn, hd⟩
      · simp at hy; subst hy
        exact ⟨y, by simp, rfl, Nat.le_refl _⟩
    · intro x hx x' hx' hn
      rcases List.mem_append.mp hx with h1 | h1
      · rcases List.mem_append.mp hx' with h2 | h2
        · exact h.uniq x h1 x' h2 hn
        · have : x' = d := by simpa using h2
          rw [this] at hn
          exact absurd hn (hnone x h1)
      · have hxd : x = d := by simpa using h1
        rcases List.mem_append.mp hx' with h2 | h2
        · rw [hxd] at hn
          exact absurd hn.symm (hnone x' h2)
        · have : x' = d := by simpa using h2
          rw [hxd, this]
  | some old =>
    have hold : old ∈ table := List.mem_of_find?_eq_some hf
    have holdn : old.name = d.name := by simpa using List.find?_some hf
    simp only
    split
    · rename_i hle
      refine ⟨?_, ?_, ?_⟩
      · intro x hx
        obtain ⟨y, hy, hxy⟩ := List.mem_map.mp hx
        split at hxy
        · subst hxy; simp
        · subst hxy; exact List.mem_append_left _ (h.sub y hy)
      · intro y hy
        rcases List.mem_append.mp hy with hy | hy
        · obtain ⟨x, hx, hn, hd⟩ := h.cover y hy
          by_cases hxd : x.name = d.name
          · refine ⟨d, List.mem_map.mpr ⟨x, hx, by simp [hxd]⟩, by rw [← hn, hxd], ?_⟩
            have : x = old := h.uniq x hx old hold (by rw [hxd, holdn])
            subst this
            omega
          · exact ⟨x, List.mem_map.mpr ⟨x, hx, by simp [hxd]⟩, hn, hd⟩
        · simp at hy; subst hy
          exact ⟨y, List.mem_map.mpr ⟨old, hold, by simp [holdn]⟩, rfl, Nat.le_refl _⟩
      · intro x hx x' hx' hn
        obtain ⟨y, hy, hxy⟩ := List.mem_map.mp hx
        obtain ⟨y', hy', hxy'⟩ := List.mem_map.mp hx'
        by_cases h1 : y.name = d.name <;> by_cases h2 : y'.name = d.name
        · simp [h1] at hxy; simp [h2] at hxy'; rw [← hxy, ← hxy']
        · simp [h1] at hxy; simp [h2] at hxy'
          subst hxy hxy'
          exact absurd hn.symm h2
        · simp [h1] at hxy; simp [h2] at hxy'
          subst hxy hxy'
          exact absurd hn h1
        · simp [h1] at hxy; simp [h2] at hxy'
          subst hxy hxy'
          exact h.uniq _ hy _ hy' hn
    · rename_i hgt
      refine ⟨?_, ?_, h.uniq⟩
      · intro x hx; exact List.mem_append_left _ (h.sub x hx)
      · intro y hy
        rcases List.mem_append.mp hy with hy | hy
        · exact h.cover y hy
        · simp at hy; subst hy
          exact ⟨old, hold, holdn, by omega⟩

theorem dedup_inv (defs : List Def) : TableInv defs (dedup defs) := by
  unfold dedup
  have : ∀ (ds seen table : List Def), TableInv seen table →
      TableInv (seen ++ ds) (ds.foldl insertDef table) := by
    intro ds
    induction ds with
    | nil => intro seen table h; simpa using h
    | cons d ds ih =>
      intro seen table h
      have := ih (seen ++ [d]) (insertDef table d) (insertDef_inv seen table d h)
      simpa [List.foldl, List.append_assoc] using this
  have h0 : TableInv [] [] :=
    { sub := fun x hx => (by cases hx), cover := fun y hy => (by cases hy), uniq := fun x hx => (by cases hx) }
  simpa using this defs [] [] h0

/-- **a shallower definition overrides a deeper one**: in the merged table every name that is
defined anywhere in the module's files appears exactly once, and the surviving definition is one of
MINIMAL depth among all definitions of that name. -/
theorem shallower_wins (defs : List Def) :
    (∀ y ∈ defs, ∃ x ∈ dedup defs, x.name = y.name ∧ x.depth ≤ y.depth) ∧
    (∀ x ∈ dedup defs, x ∈ defs) ∧
    (∀ x ∈ dedup defs, ∀ x' ∈ dedup defs, x.name = x'.name → x = x') :=
  ⟨(dedup_inv defs).cover, (dedup_inv defs).sub, (dedup_inv defs).uniq⟩

/-! ### imports contribute, modules are isolated -/

theorem recipesOf_file (fs : FS) (depths : List (Nat × Nat)) (f : Nat) (d : Def)
    (h : d ∈ recipesOf fs depths f) : d.file = f := by
  unfold recipesOf at h
  split at h
  · cases h
  · obtain ⟨it, _, hit⟩ := List.mem_filterMap.mp h
    split at hit
    · cases hit; rfl
    · cases hit

/-- **a module's recipes come only from its own import closure** (names of other modules are
neither visible nor can they clash): every recipe of the merged table was defined in one of the
files the module processed. -/
theorem modules_isolated (fs : FS) (depths : List (Nat × Nat)) (root : Nat) (t : ModuleTable)
    (h : analyzeModule fs depths root = .ok t) : ∀ d ∈ t.recipes, d.file ∈ processed fs root := by
  unfold analyzeModule at h
  simp only at h
  split at h
  · cases h
  · split at h
    · cases h
    · split at h
      · cases h
      · cases h
        intro d hd
        simp only at hd
        have := (dedup_inv _).sub d hd
        obtain ⟨f, hf, hdf⟩ := List.mem_flatMap.mp this
        rw [recipesOf_file fs depths f d hdf]
        exact hf

/-- **every file of the closure contributes its recipes**: each recipe written in a processed file
is represented in the module's table (by itself or by an overriding definition of the same name) -/
theorem import_contributes (fs : FS) (depths : List (Nat × Nat)) (root : Nat) (t : ModuleTable)
    (h : analyzeModule fs depths root = .ok t) :
    ∀ f ∈ processed fs root, ∀ d ∈ recipesOf fs depths f, ∃ x ∈ t.recipes, x.name = d.name ∧ x.depth ≤ d.depth := by
  unfold analyzeModule at h
  simp only at h
  split at h
  · cases h
  · split at h
    · cases h
    · split at h
      · cases h
      · cases h
        intro f hf d hd
        simp only
        exact (dedup_inv _).cover d (List.mem_flatMap.mpr ⟨f, hf, hd⟩)

/-- **The loader terminates on every file graph**, cyclic or not, existing files or dangling edges: with
fuel above `W (maxItems fs) fs.length` - a bound that depends only on the number of files and the
largest number of items in one file - the loop of `Compiler::compile` finishes (the model's fuel is
never exhausted).  Measure: a source whose chain has length L weighs W (N + 1 - L); whatever it pushes
has a longer repetition-free chain, and there are at most `maxItems` of them. -/
theorem loader_terminates (fs : FS) (fuel : Nat) (hf : W (maxItems fs) fs.length < fuel) :
    load fs fuel ≠ .error .fuel :=
  load_no_fuel fs fuel hf

/-! ### one file, several spellings

The loader identifies a source by `parent.join(path).lexiclean()` (src/compiler.rs; model
`Just.Path`): a cycle is a cycle, and a file imported along two paths is one file, however the
statement spells the path. -/
open Just.Path in
/-- a `.` component anywhere, and a detour `name/..` anywhere, do not change which file a path names -/
theorem path_spelling_irrelevant (d t : List Comp) (x : List Char) :
    cleanComps (d ++ Comp.cur :: t) = cleanComps (d ++ t) ∧
    cleanComps (d ++ Comp.normal x :: Comp.parent :: t) = cleanComps (d ++ t) := by
  unfold cleanComps
  simp [List.foldl_append, cleanStep]

open Just.Path in
/-- non-vacuity, on texts: three spellings of `/p/f3.just` -/
example : lexiclean "/p/./f3.just".toList = "/p/f3.just".toList ∧
    lexiclean "/p/pad/../f3.just".toList = "/p/f3.just".toList ∧
    lexiclean "/p/sub/../f3.just".toList = lexiclean "/p/f3.just".toList := by decide

end Just.Props.C15
