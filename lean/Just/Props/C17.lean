/-
C17 — listings agree with each other and with what can be run.
-/
import Just.Model.Listing
import Just.Lemmas.Groups
import Just.Lemmas.Unsorted
namespace Just.Props.C17
open Just.Listing

theorem mem_insertBy (r x : Recipe) (l : List Recipe) : x ∈ insertBy r l ↔ x = r ∨ x ∈ l := by
  induction l with
  | nil => simp [insertBy]
  | cons y ys ih =>
    simp only [insertBy]
    split
    · simp
    · simp only [List.mem_cons, ih]
      constructor
      · rintro (h | h | h)
        · exact Or.inr (Or.inl h)
        · exact Or.inl h
        · exact Or.inr (Or.inr h)
      · rintro (h | h | h)
        · exact Or.inr (Or.inl h)
        · exact Or.inl h
        · exact Or.inr (Or.inr h)

theorem mem_sortByOffset (x : Recipe) (l : List Recipe) : x ∈ sortByOffset l ↔ x ∈ l := by
  induction l with
  | nil => simp [sortByOffset]
  | cons y ys ih => simp [sortByOffset, mem_insertBy, ih]

/-- **listed iff public** (every recipe in the tables is enabled): in either order -/
theorem listed_iff_public (unsorted : Bool) (m : Mod) (r : Recipe) :
    r ∈ publicRecipes unsorted m ↔ r ∈ m.recipes ∧ r.isPrivate = false := by
  unfold publicRecipes
  cases unsorted <;> simp [mem_sortByOffset]

/-- **the views agree**: `--list`, the JSON dump's public recipes and the module's part of
`--summary` name the same recipes, in the same (name) order -/
theorem views_agree (m : Mod) :
    listNames false m = jsonPublicNames m ∧
      ∃ rest, summary false "" m = listNames false m ++ rest := by
  refine ⟨rfl, ?_⟩
  obtain ⟨n, rs, as, subs⟩ := m
  refine ⟨summarySubs false "" subs, ?_⟩
  simp only [summary, listNames]
  congr 1

/-- `--unsorted` lists the same recipes (in source order) -/
theorem unsorted_same_set (m : Mod) (r : Recipe) :
    r ∈ publicRecipes true m ↔ r ∈ publicRecipes false m := by
  rw [listed_iff_public, listed_iff_public]

/-- the chooser offers only public recipes that need no arguments -/
theorem choose_candidates (unsorted : Bool) (m : Mod) (r : Recipe) :
    r ∈ chooseHere unsorted m ↔ r ∈ m.recipes ∧ r.isPrivate = false ∧ r.minArgs = 0 := by
  unfold chooseHere
  simp [listed_iff_public, and_assoc]

/-- **every unlisted private name can still be run**: resolution never looks at privacy -/
theorem private_still_runnable (m : Mod) (r : Recipe) (hr : r ∈ m.recipes)
    (huniq : ∀ r' ∈ m.recipes, r'.name = r.name → r' = r) : runTarget m r.name = some r := by
  unfold runTarget findRecipe
  have key : ∀ (l : List Recipe), r ∈ l → (∀ r' ∈ l, r'.name = r.name → r' = r) →
      l.find? (fun x => decide (x.name = r.name)) = some r := by
    intro l
    induction l with
    | nil => intro hr; cases hr
    | cons x xs ih =>
      intro hr hu
      simp only [List.find?]
      by_cases hx : x.name = r.name
      · have := hu x (List.mem_cons_self ..) hx
        simp [hx, this]
      · simp only [hx, decide_false]
        rcases List.mem_cons.mp hr with h | h
        · exact absurd (h ▸ rfl) hx
        · exact ih h (fun r' hr' => hu r' (List.mem_cons_of_mem _ hr'))
  simp [key m.recipes hr huniq]

/-- **`--show NAME` shows what `just NAME` runs** (repaired code), for recipes and for aliases —
including aliases whose target lives in a submodule — provided no recipe shadows the alias name
(the analyzer rejects an alias and a recipe with the same name) -/
theorem show_is_run_target (m : Mod) (n : String)
    (hdisj : ∀ a, findAlias m n = some a → findRecipe m n = none) :
    showTarget false m n = runTarget m n := by
  unfold showTarget runTarget
  cases ha : findAlias m n with
  | none => cases findRecipe m n <;> rfl
  | some a => simp [hdisj a ha]

/-- **the pinned `--show` could show a different recipe**: an alias to `foo::bar` next to a root
recipe `bar` showed the ROOT `bar` although `just b` runs `foo::bar` (witness; the repaired lookup
uses the resolved target) -/
theorem old_show_disagrees :
    let sub : Recipe := ⟨"bar", "foo::bar", false, 0, 0⟩
    let root : Recipe := ⟨"bar", "bar", false, 0, 1⟩
    let m : Mod := .mk "" [root] [⟨"b", false, sub⟩] [.mk "foo" [sub] [] []]
    showTarget true m "b" = some root ∧ runTarget m "b" = some sub := by
  decide

/-! ### what is displayed is what was declared -/

/-- **documentation**: the `[doc(…)]` attribute's value if there is one, nothing under a bare `[doc]`
(which hides the comment), else the comment above the recipe -/
theorem doc_displayed_is_declared (d : Decl) :
    (∀ x, d.docAttr = some (some x) → d.doc = some x) ∧
    (d.docAttr = some none → d.doc = none) ∧
    (d.docAttr = none → d.doc = d.comment) := by
  refine ⟨?_, ?_, ?_⟩ <;> intro h <;> simp_all [Decl.doc]

/-- **every entry of a recipe shows the declared name, parameters, documentation and aliases**, a
public recipe is listed once under each of its groups (once without heading if it has none), a
private one not at all -/
theorem entries_are_declared (as : List AliasOf) (d : Decl) :
    (∀ e ∈ entriesOf as d, e.signature = joinSp (d.name :: d.params) ∧ e.doc = d.doc ∧
      e.aliases = aliasesFor as d) ∧
    (d.isPrivate = true → entriesOf as d = []) ∧
    (d.isPrivate = false → (entriesOf as d).map Entry.heading =
      (if d.groups = [] then [none] else d.groups.map some)) := by
  refine ⟨?_, ?_, ?_⟩
  · intro e he
    unfold entriesOf at he
    split at he
    · cases he
    · split at he
      · simp at he; subst he; exact ⟨rfl, rfl, rfl⟩
      · simp only [List.mem_map] at he
        obtain ⟨g, _, rfl⟩ := he
        exact ⟨rfl, rfl, rfl⟩
  · intro h; simp [entriesOf, h]
  · intro h
    unfold entriesOf
    simp only [h, Bool.false_eq_true, if_false]
    split
    · rename_i hg; simp [hg]
    · rename_i hg
      have : d.groups ≠ [] := fun h => hg h
      simp [this, List.map_map, Function.comp_def]

/-- **alias annotations**: exactly the public aliases whose target is this recipe of this module -/
theorem alias_annotation_iff (as : List AliasOf) (d : Decl) (n : String) :
    n ∈ aliasesFor as d ↔ ∃ a ∈ as, a.name = n ∧ a.isPrivate = false ∧ a.targetHere = true ∧ a.targetName = d.name := by
  unfold aliasesFor
  simp only [List.mem_map, List.mem_filter, Bool.and_eq_true, Bool.not_eq_true', decide_eq_true_eq]
  constructor
  · rintro ⟨a, ⟨ha, ⟨h1, h2⟩, h3⟩, rfl⟩; exact ⟨a, ha, rfl, h1, h2, h3⟩
  · rintro ⟨a, ha, rfl, h1, h2, h3⟩; exact ⟨a, ⟨ha, ⟨h1, h2⟩, h3⟩, rfl⟩

/-- non-vacuity: a documented recipe in two groups with a public and a private alias -/
example : entriesOf [⟨"b", false, "build", true⟩, ⟨"_b", true, "build", true⟩]
    ⟨"build", ["target", "*rest"], some "comment", some (some "attr"), ["g1", "g2"], false⟩ =
    [⟨some "g1", "build target *rest", some "attr", ["b"]⟩, ⟨some "g2", "build target *rest", some "attr", ["b"]⟩] := by
  decide

/-! ### `--groups`: the groups displayed are the ones declared -/

/-- **a group is listed iff a public recipe (or a submodule) declares it** — under exactly the name declared: `Build` and
`build` are two groups — -/
theorem groups_listed_iff (ds : List Decl) (moduleGroups : List String) (g : String) :
    g ∈ publicGroups ds moduleGroups ↔ (∃ d ∈ ds, d.isPrivate = false ∧ g ∈ d.groups) ∨ g ∈ moduleGroups := by
  unfold publicGroups
  rw [mem_dedupAux, mem_sortStr]
  simp only [List.mem_append, List.mem_flatMap, List.mem_filter, List.not_mem_nil, not_false_eq_true, and_true,
    Bool.not_eq_eq_eq_not, Bool.not_true]
  constructor
  · rintro (⟨d, ⟨hd, hp⟩, hg⟩ | h)
    · exact Or.inl ⟨d, hd, hp, hg⟩
    · exact Or.inr h
  · rintro (⟨d, hd, hp, hg⟩ | h)
    · exact Or.inl ⟨d, ⟨hd, hp⟩, hg⟩
    · exact Or.inr h

/-- **and it is listed once** -/
theorem groups_listed_once (ds : List Decl) (moduleGroups : List String) : (publicGroups ds moduleGroups).Nodup :=
  nodup_dedupAux _ _

/-- **and in name order** (`--groups` without `--unsorted`): no group is printed after a greater one -/
theorem groups_listed_in_name_order (ds : List Decl) (moduleGroups : List String) :
    Ascending (publicGroups ds moduleGroups) := by
  unfold publicGroups
  exact List.Pairwise.sublist (dedupAux_sublist _ _) (sortStr_ascending _)

example : publicGroups [⟨"a", [], none, none, ["build", "Build"], false⟩, ⟨"b", [], none, none, ["build"], false⟩,
    ⟨"_c", [], none, none, ["hidden"], true⟩] ["mg"] = ["Build", "build", "mg"] := by decide

/-! ### `--unsorted`: source order across imports -/

/-- a file's own recipes come before those of the files it imports -/
theorem own_before_imported (a b : Placed) (ha : a.imports = []) (hb : b.imports ≠ []) : placedLt a b = true := by
  unfold placedLt
  cases hbi : b.imports with
  | nil => exact absurd hbi hb
  | cons x xs => simp [ha, sliceCmp]

/-- more generally: the recipes of a file come before those of every file reached through it -/
theorem importer_before_imported (a b : Placed) (more : List Nat) (hm : more ≠ []) (hb : b.imports = a.imports ++ more) :
    placedLt a b = true := by
  unfold placedLt
  rw [hb]
  have : ∀ l : List Nat, sliceCmp l (l ++ more) = .lt := by
    intro l
    induction l with
    | nil => cases more with
      | nil => exact absurd rfl hm
      | cons x xs => rfl
    | cons c l ih => simp [sliceCmp, ih]
  simp [this]

/-- recipes of one file are listed as written -/
theorem same_file_in_text_order (a b : Placed) (h : a.imports = b.imports) : placedLt a b = decide (a.offset < b.offset) := by
  unfold placedLt
  rw [h, sliceCmp_refl]

/-- of two files imported by the same file, the one whose `import` statement stands first comes first, with everything
reached through it -/
theorem earlier_import_first (a b : Placed) (pre ra rb : List Nat) (i j : Nat) (hij : i < j)
    (ha : a.imports = pre ++ i :: ra) (hb : b.imports = pre ++ j :: rb) : placedLt a b = true := by
  unfold placedLt
  rw [ha, hb]
  have : ∀ l : List Nat, sliceCmp (l ++ i :: ra) (l ++ j :: rb) = .lt := by
    intro l
    induction l with
    | nil => simp [sliceCmp, hij]
    | cons c l ih => simp [sliceCmp, ih]
  simp [this]

/-- nothing is lost or invented by the ordering -/
theorem mem_unsortedOrder (x : Placed) : ∀ l : List Placed, x ∈ unsortedOrder l ↔ x ∈ l
  | [] => by simp [unsortedOrder]
  | a :: l => by
    have ih := mem_unsortedOrder x l
    simp only [unsortedOrder, List.foldr_cons] at ih ⊢
    rw [mem_insertPlaced, ih]; simp

theorem length_insertPlaced (r : Placed) : ∀ l : List Placed, (insertPlaced r l).length = l.length + 1
  | [] => rfl
  | y :: ys => by
    unfold insertPlaced
    split
    · simp
    · simp [length_insertPlaced r ys]

theorem length_unsortedOrder : ∀ l : List Placed, (unsortedOrder l).length = l.length
  | [] => rfl
  | a :: l => by
    have ih := length_unsortedOrder l
    simp only [unsortedOrder, List.foldr_cons] at ih ⊢
    rw [length_insertPlaced, ih]; simp

example : (unsortedOrder [⟨"zeta", [20, 0], 0⟩, ⟨"inner", [20], 16⟩, ⟨"last", [], 40⟩, ⟨"alpha", [20, 0], 12⟩, ⟨"top", [], 0⟩]).map Placed.name
    = ["top", "last", "inner", "zeta", "alpha"] := by decide


/-- **`--unsorted` lists by the key, whatever order the table hands the recipes in**: in the result no recipe's key
`(import offsets, name offset)` is smaller than that of a recipe listed before it (the key order is transitive and
asymmetric: `placedLt_trans`, `placedLt_asymm`) -/
theorem unsorted_lists_in_key_order (rs : List Placed) : InKeyOrder (unsortedOrder rs) :=
  unsortedOrder_inKeyOrder rs

end Just.Props.C17
