namespace Just.C10
theorem placeholder : True := trivial
end Just.C10
