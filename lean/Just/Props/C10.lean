import Just.Lemmas.Syntax
import Just.Lemmas.SyntaxWF
import Just.Lemmas.SyntaxRoundtrip
import Just.Lemmas.Header
import Just.Lemmas.Items
import Just.Lemmas.Ast
import Just.Lemmas.ParserWF
import Just.Lemmas.FuelExists
set_option linter.unusedSimpArgs false
/-
C10  Formatting preserves meaning and is idempotent.

Theorems: the token-level expression printer and the recursive-descent expression parser are
inverse on every expression the parser can produce (`WF`): parse (print e) = e, at every syntactic
level, with any continuation that does not extend the phrase, and for every amount of fuel above
a linear bound.  Hence printing is a fixed point through parsing (idempotence).  Items (recipes,
settings, aliases, modules) are decided by the statement oracle of vlib/c10.py, not by a theorem.
-/
namespace Just.C10
open Just Just.Syntax

/-- **Round trip.**  For every well-formed expression `e`, every level `k` at which it may stand,
every continuation `rest` that does not extend the level-`k` phrase `e` (`StopE`: no `||`, `&&` of that level, and no `/`, `+`
unless `e` ends in a conditional, which the parser returns as it is; `After`:
when `e` ends with an identifier, no `(` - that would be a call - and directly after `x` no string - that
would be a shell-expanded literal) and every sufficient fuel, the level-`k` parser reads the printed tokens of `e` back
as exactly `e` and stops at `rest`.
(Proof: Lemmas/SyntaxRoundtrip.lean, mutual structural induction over `Expr` / `Exprs`.) -/
theorem roundtrip (e : Expr) (hw : WF e) (k : Nat) (hk : level e ≤ k) (hk3 : k ≤ 3) (f : Nat) (rest : List Tk)
    (hf : 4 * e.size + k ≤ f) (hstop : StopE k e rest) (hafter : After e rest) :
    parseAt k f (printE e ++ rest) = some (e, rest) :=
  roundtrip_core e hw k hk hk3 f rest hf hstop hafter

/-- arguments of a call -/
theorem roundtripArgs (es : Exprs) (hw : WFs es) (f : Nat) (rest : List Tk) (hf : 4 * es.size + 1 ≤ f) :
    parseSequence f (printArgs es ++ [.rparen] ++ rest) = some (es, rest) :=
  roundtripArgs_core es hw f rest hf

/-- **Formatting preserves the expression.**  Parsing the printed form of any expression the parser
can produce yields that expression again and consumes every token. -/
theorem parse_print (e : Expr) (hw : WF e) : parseExpression (4 * e.size + 3) (printE e) = some (e, []) := by
  have := roundtrip e hw 3 (level_le3 e) (Nat.le_refl _) (4 * e.size + 3) [] (Nat.le_refl _) (stopE_nil 3 e) (after_nil e)
  simpa [parseAt] using this

/-- … for every larger amount of fuel as well: the bound is not a hidden restriction -/
theorem parse_print_fuel (e : Expr) (hw : WF e) (f : Nat) (hf : 4 * e.size + 3 ≤ f) :
    parseExpression f (printE e) = some (e, []) := by
  have := roundtrip e hw 3 (level_le3 e) (Nat.le_refl _) f [] hf (stopE_nil 3 e) (after_nil e)
  simpa [parseAt] using this

/-- **Formatting is idempotent.**  Print, parse, print again: the same tokens. -/
theorem format_idempotent (e : Expr) (hw : WF e) :
    (parseExpression (4 * e.size + 3) (printE e)).map (fun r => printE r.1) = some (printE e) := by
  rw [parse_print e hw]; rfl

/-- parentheses written by the user are kept, and only they are: a group prints as `( … )` -/
theorem group_keeps_parentheses (e : Expr) : printE (.group e) = [.lparen] ++ printE e ++ [.rparen] := by
  simp [printE]

/-- in interpolations, defaults and dependency arguments the same printer and parser are used: the
round trip holds with any continuation that cannot extend the expression (`}}`, `)`, `,`, end of line …) -/
theorem parse_print_in_context (e : Expr) (hw : WF e) (rest : List Tk) (hrest : StopE 3 e rest) (hafter : After e rest) :
    parseExpression (4 * e.size + 3) (printE e ++ rest) = some (e, rest) := by
  have := roundtrip e hw 3 (level_le3 e) (Nat.le_refl _) (4 * e.size + 3) rest (Nat.le_refl _) hrest hafter
  simpa [parseAt] using this

/-- a shell-expanded literal `x'…'` is two tokens and is read back as the same literal -/
example : printE (.str "x'~/a'") = [.ident "x", .strAdj "'~/a'"]
    ∧ parseExpression 5 (printE (.str "x'~/a'")) = some (.str "x'~/a'", []) := by
  constructor
  · decide
  · simp [parseExpression, parseDisjunct, parseConjunct, parseValue, printE, xLit, litTokens]

/-- the `After` hypothesis is necessary: a trailing identifier does swallow a following `(` or, after `x`, a
string written directly after it - the variable `trim` followed by `('a')` is the call `trim('a')`, `x` followed at
once by `'a'` is `x'a'`; with white space between them (`x 'a'`: a plain `str` token) nothing is swallowed -/
example (hfn : fnOk "trim" 1 = true) : parseExpression 9 (printE (.var "trim") ++ [.lparen, .str "'a'", .rparen])
      = some (.call "trim" (.cons (.str "'a'") .nil), [])
    ∧ parseExpression 5 (printE (.var "x") ++ [.strAdj "'a'"]) = some (.str "x'a'", [])
    ∧ parseExpression 5 (printE (.var "x") ++ [.str "'a'"]) = some (.var "x", [.str "'a'"]) := by
  refine ⟨?_, ?_, ?_⟩
  · simp [parseExpression, parseDisjunct, parseConjunct, parseValue, parseSequence, printE, Exprs.length, hfn]
  · simp [parseExpression, parseDisjunct, parseConjunct, parseValue, printE, xLit]
  · simp [parseExpression, parseDisjunct, parseConjunct, parseValue, printE]

/-- **Everything the parser returns is well-formed**, for any tokens and any fuel: so the round trip
applies to every expression that can come out of a justfile. -/
theorem parsed_is_wellformed (f : Nat) (ts : List Tk) (e : Expr) (rest : List Tk)
    (h : parseExpression f ts = some (e, rest)) : WF e :=
  (parserWF f).expression ts e rest h

/-- **Formatting is a projection.**  Whatever token sequence the user wrote: if it parses to `e`, then the
formatted text parses to the same `e` — and formatting that again prints the same tokens. -/
theorem format_of_any_source (f : Nat) (ts : List Tk) (e : Expr) (rest : List Tk)
    (h : parseExpression f ts = some (e, rest)) :
    parseExpression (4 * e.size + 3) (printE e) = some (e, [])
    ∧ (parseExpression (4 * e.size + 3) (printE e)).map (fun r => printE r.1) = some (printE e) :=
  ⟨parse_print e (parsed_is_wellformed f ts e rest h), format_idempotent e (parsed_is_wellformed f ts e rest h)⟩

/-! ### recipe header lines (name, parameters with defaults, variadic, dependencies with arguments, `&&`) -/

/-- **Round trip of recipe headers.**  For every header whose defaults are values (`WFValue`: what `parse_value` returns,
a variable or function called `if` included) and whose dependency
arguments do not begin with a token that would continue the previous argument (`WFHeader`), printing
the header (`ColorDisplay for Recipe` up to the body) and parsing it (`parse_recipe` up to `expect_eol`)
returns exactly the header - quiet flag, name, every parameter with its kind, `$` export and default,
the variadic parameter, the prior and the subsequent dependencies with all their arguments. -/
theorem header_roundtrip (h : Header.Header) (hw : Header.WFHeader h) (fuel : Nat) (hf : Header.HeaderFuel fuel h)
    (rest : List Tk) : Header.parseHeader fuel (Header.printHeader h ++ rest) = some (h, rest) :=
  Header.parseHeader_rt h hw fuel hf rest

/-- **Round trip of a whole recipe**: the header line and the body - every line's text fragments and
`{{ … }}` interpolations, blank lines inside the body - print (`ColorDisplay for Recipe`) and parse
(`parse_recipe` with `parse_body`) back to exactly the recipe, for every recipe with a well-formed header,
well-formed interpolated expressions and no trailing empty line (what `parse_body` returns). -/
theorem recipe_roundtrip (fuel : Nat) (r : Items.Recipe) (hw : Items.WFRecipe r) (hf : Items.RecipeFuel fuel r)
    (rest : List Tk) (hrest : ∀ t, rest ≠ Tk.other "Indent" :: t) :
    Items.parseRecipe fuel (Items.printRecipe r ++ rest) = some (r, rest) :=
  Items.parseRecipe_rt fuel r hw hf rest hrest

/-- **Round trip of assignments** (`[export] name := expression`). -/
theorem assignment_roundtrip (fuel : Nat) (a : Items.Assignment) (hw : WF a.value) (hf : 4 * a.value.size + 3 ≤ fuel)
    (rest : List Tk) : Items.parseAssignment fuel (Items.printAssignment a ++ rest) = some (a, rest) :=
  Items.parseAssignment_rt fuel a hw hf rest

/-- **Round trip of aliases**, including targets in submodules (`alias a := m::n::r`): every path component is kept. -/
theorem alias_roundtrip (fuel : Nat) (a : Items.Alias) (hf : a.path.length < fuel) (rest : List Tk) :
    Items.parseAlias fuel (Items.printAlias a ++ rest) = some (a, rest) :=
  Items.parseAlias_rt fuel a hf rest

/-! ### whole justfiles -/

/-- **Round trip of a whole justfile.**  For every list of items - recipes with doc comment, attribute lines, header and
body; assignments and aliases with `[private]`; settings of the three forms; imports; modules; `unexport`; comments - that
are well-formed (`WFItem`: what `parse_ast` can return) - recipes may be called `set`, `mod`, `import`, … : no look-ahead guard of
the keyword dispatch fires on a printed header (`header_guards`) -, printing the file
(`Display for Ast`: every item, an empty line after each recipe and between items of different kinds, as the lexer presents
that text - the empty line after a recipe body comes before its `Dedent`) and parsing it (`parse_ast`: attribute lines,
keyword dispatch with look-ahead, `pop_doc_comment` with `eol_since_last_comment`) returns exactly the items, minus what the
printer forgets (`Item.forget`: the doc comment and the attributes of a `mod` item).  In particular a comment item in front
of a recipe is never taken for its doc comment, a doc comment is read back as the doc, and attributes come back in order.
`litLe`, the order between two `[group(…)]` literals, is arbitrary.  (Proof: Lemmas/Ast.lean.) -/
theorem file_roundtrip (litLe : String → String → Bool) (F : Nat) (items : List Ast.Item) (hw : ∀ it ∈ items, Ast.WFItem litLe it)
    (hf : ∀ it ∈ items, Ast.ItemFuel (F + 2) it) (hlen : 3 * items.length ≤ F) :
    Ast.parseAst litLe (F + 2) (Ast.printAst items) = some (items.map Ast.Item.forget) :=
  Ast.parseAst_rt litLe F items hw hf hlen

/-- … and nothing at all is lost when no module carries a doc comment or attributes -/
theorem file_roundtrip_exact (litLe : String → String → Bool) (F : Nat) (items : List Ast.Item) (hw : ∀ it ∈ items, Ast.WFItem litLe it)
    (hf : ∀ it ∈ items, Ast.ItemFuel (F + 2) it) (hlen : 3 * items.length ≤ F) (hm : ∀ it ∈ items, it.forget = it) :
    Ast.parseAst litLe (F + 2) (Ast.printAst items) = some items := by
  rw [file_roundtrip litLe F items hw hf hlen]
  congr 1
  induction items with
  | nil => rfl
  | cons it items ih =>
    simp only [List.map_cons]
    rw [hm it (by simp), ih (fun x hx => hw x (by simp [hx])) (fun x hx => hf x (by simp [hx])) (by simp at hlen; omega)
      (fun x hx => hm x (by simp [hx]))]

/-- **Formatting a whole file is idempotent**: what parsing the formatted file returns prints as the same tokens. -/
theorem file_format_idempotent (litLe : String → String → Bool) (F : Nat) (items : List Ast.Item) (hw : ∀ it ∈ items, Ast.WFItem litLe it)
    (hf : ∀ it ∈ items, Ast.ItemFuel (F + 2) it) (hlen : 3 * items.length ≤ F) :
    (Ast.parseAst litLe (F + 2) (Ast.printAst items)).map Ast.printAst = some (Ast.printAst items) := by
  rw [file_roundtrip litLe F items hw hf hlen]
  simp [Ast.printAst, Ast.printItems_forget]

/-- **Whatever `parse_ast` returns is well-formed** (`WFItem`), for every token list and every fuel, when the order between
two `[group(…)]` literals is a linear order (the real one is: cooked text, then the flags, then the raw text).  So the
hypotheses of `file_roundtrip` are not a restriction on the files people write.  (Proof: Lemmas/ParserWF.lean - where a
sub-parse stops the printed form of what it read stops too (`ParserStops`: `After`, `StopE`), the printed form of the next
phrase begins like its source (`ParserHead`), values are `WFValue`, headers `WFHeader`, recipes `WFRecipe`; the attribute
set stays sorted and free of duplicates under insertion; doc comments come out trimmed.) -/
theorem parsed_file_is_wellformed (litLe : String → String → Bool) (hl : Ast.LinearLe litLe) (fuel : Nat) (ts : List Tk)
    (items : List Ast.Item) (h : Ast.parseAst litLe fuel ts = some items) : ∀ it ∈ items, Ast.WFItem litLe it :=
  Ast.parseAst_wf hl fuel ts items h

/-- **Formatting any file that parses preserves it and is idempotent.**  Whatever tokens the user wrote: if `parse_ast`
accepts them and returns `items`, then the formatted file (`Display for Ast`) parses to the same items - minus the doc comment
and attributes of `mod` items, the recorded finding - and formatting that again prints the same tokens.  `F` is any fuel above
the explicit linear bounds `ItemFuel`; by `C11.parser_needs_no_fuel` the amount is immaterial. -/
theorem format_of_any_file (litLe : String → String → Bool) (hl : Ast.LinearLe litLe) (fuel : Nat) (ts : List Tk)
    (items : List Ast.Item) (h : Ast.parseAst litLe fuel ts = some items)
    (F : Nat) (hf : ∀ it ∈ items, Ast.ItemFuel (F + 2) it) (hlen : 3 * items.length ≤ F) :
    Ast.parseAst litLe (F + 2) (Ast.printAst items) = some (items.map Ast.Item.forget)
    ∧ (Ast.parseAst litLe (F + 2) (Ast.printAst items)).map Ast.printAst = some (Ast.printAst items) :=
  have hw := parsed_file_is_wellformed litLe hl fuel ts items h
  ⟨file_roundtrip litLe F items hw hf hlen, file_format_idempotent litLe F items hw hf hlen⟩

/-- … and the fuel bounds can always be met: from some amount on, every fuel works (`Lemmas/FuelExists.lean`). -/
theorem format_of_any_file_eventually (litLe : String → String → Bool) (hl : Ast.LinearLe litLe) (fuel : Nat) (ts : List Tk)
    (items : List Ast.Item) (h : Ast.parseAst litLe fuel ts = some items) :
    ∃ G0, ∀ G, G0 ≤ G →
      Ast.parseAst litLe G (Ast.printAst items) = some (items.map Ast.Item.forget)
      ∧ (Ast.parseAst litLe G (Ast.printAst items)).map Ast.printAst = some (Ast.printAst items) := by
  obtain ⟨a, ha⟩ := Ast.ev_fileFuel items
  refine ⟨a + 2, fun G hG => ?_⟩
  obtain ⟨F, rfl⟩ : ∃ F, G = F + 2 := ⟨G - 2, by omega⟩
  have hb := ha F (by omega)
  exact format_of_any_file litLe hl fuel ts items h F hb.1 hb.2

/-- the string order is a linear order: the hypothesis of `format_of_any_file` is satisfiable -/
example : Ast.LinearLe (fun a b => decide (a ≤ b)) :=
  ⟨fun a b => by simpa using String.le_total a b,
   fun a b c h1 h2 => by simp only [decide_eq_true_eq] at *; exact String.le_trans h1 h2,
   fun a b h1 h2 => by simp only [decide_eq_true_eq] at *; exact String.le_antisymm h1 h2⟩

/-- the recorded finding, in the model: the doc comment and the attributes of a module do not survive formatting
(`# about m` / `[group('g')]` / `mod m` prints as `mod m`) -/
example : Ast.printAst [.module false "m" none (some "about m".toList) [⟨"group", ["'g'"]⟩]] = Ast.printAst [.module false "m" none none []] := rfl

/-- non-vacuity of `file_roundtrip`: a comment, a documented recipe with an attribute, a setting and an assignment -/
example : ∀ it ∈ ([.comment "# c".toList,
      .recipe (some "doc".toList) [⟨"private", []⟩] ⟨⟨false, "r", [], none, [], []⟩, [[.text "echo"]]⟩,
      .set ⟨"quiet", .flag true⟩,
      .assignment false ⟨true, "v", .str "'a'"⟩] : List Ast.Item), Ast.WFItem (fun a b => decide (a ≤ b)) it := by
  intro it hit
  simp only [List.mem_cons, List.mem_singleton, List.not_mem_nil, or_false] at hit
  rcases hit with rfl | rfl | rfl | rfl
  · show Ast.trimEnd _ = _; decide
  · refine ⟨⟨⟨?_, ?_⟩, ⟨⟨?_, ?_, ?_, ?_⟩, ?_, ?_⟩, ?_⟩, ?_, ?_⟩
    · intro a ha; simp at ha; subst ha; exact Ast.private_valid
    · simp
    · intro p hp; simp at hp
    · intro v hv; simp at hv
    · intro d hd; simp at hd
    · intro d hd; simp at hd
    · intro l hl f hf; simp at hl; subst hl; simp at hf; subst hf; trivial
    · simp [Items.NoTrailingEmpty]
    · decide
    · intro h; simp [Ast.hasAttr] at h
    · intro d hd
      simp at hd; subst hd
      exact ⟨by decide, by intro c hc; simp at hc; subst hc; decide, by intro c hc; simp at hc; subst hc; decide⟩
  · show Ast.settingForm "quiet" = some "bool"; decide
  · exact ⟨trivial, by intro h; simp [Ast.startsUnderscore] at h⟩

/-- non-vacuity: `@build target $mode='debug' +flags=(a + 'x'): clean (fetch 'src' mode) && (notify target)` -/
example : Header.WFHeader
    ⟨true, "build",
     [⟨.singular, false, "target", none⟩, ⟨.singular, true, "mode", some (.str "'debug'")⟩],
     some ⟨.plus, false, "flags", some (.group (.concat (.var "a") (.str "'x'")))⟩,
     [⟨"clean", []⟩, ⟨"fetch", [.str "'src'", .var "mode"]⟩],
     [⟨"notify", [.var "target"]⟩]⟩ := by
  constructor
  · intro p hp
    simp at hp
    rcases hp with rfl | rfl <;> simp [Header.WFParam, Header.WFValue, WF, level]
  · intro v hv
    simp at hv
    subst hv
    simp [Header.WFParam, Header.WFValue, WF, level, okName]
  · intro d hd
    simp at hd
    rcases hd with rfl | rfl
    · simp [Header.WFDep, Header.WFArgs]
    · refine ⟨trivial, ?_, ?_, ?_⟩
      · exact stopE_cons 3 _ _ _ (by simp [blocksE])
      · exact after_of_none rfl _
      · simp [Header.WFArgs, WF, okName]
  · intro d hd
    simp at hd
    subst hd
    simp [Header.WFDep, Header.WFArgs, WF, okName]

/-- dependency arguments may begin with a parenthesis when the previous argument does not end with a name:
`(dep 'a' ('b') x'c' (d))` -/
example : Header.WFArgs [.str "'a'", .group (.str "'b'"), .str "x'c'", .group (.var "d")] := by
  refine ⟨trivial, stopE_cons 3 _ _ _ (by simp [blocksE]), after_of_none rfl _, trivial, ?_, after_of_none rfl _,
    trivial, stopE_cons 3 _ _ _ (by simp [blocksE]), after_of_none rfl _, ?_⟩
  · have : printE (.str "x'c'") = [.ident "x", .strAdj "'c'"] := by decide
    rw [this]; exact stopE_cons 3 _ _ _ (by simp [blocksE])
  · exact (by simp [WF, okName] : WF (.group (.var "d")))

/-- non-vacuity (`hfn`: the regenerated function table knows `join` with two arguments, which the correspondence run
exercises; table look-ups do not reduce in the kernel): `if a == (b + 'c') { join(x, y) / z } else if … { … } else { / w && v || u }` is well-formed -/
example (hfn : fnOk "join" 2 = true) : WF (.cond (.var "a") .eq (.group (.concat (.var "b") (.str "'c'")))
    (.joinL (.call "join" (.cons (.var "x") (.cons (.var "y") .nil))) (.var "z"))
    (.cond (.var "p") .match (.str "'r'") (.backtick "`q`")
      (.or (.and (.joinR (.var "w")) (.var "v")) (.var "u")))) := by
  simp [WF, WFs, level, okName, Exprs.length, hfn]

end Just.C10
