/-
C05 — command-line words bindArgs to recipes and parameters as documented.
Theorems about `Just.Args` (model of the argument parser and `evaluate_parameters`).
-/
import Just.Model.Args
import Just.Lemmas.Words
namespace Just.Props.C05
open Just.Args

/-! ### grouping: every word is used exactly once, in order, within each recipe's arity -/

theorem resolve_consumed (mp : Bool) : ∀ (args : List String) (cur : Mod) (path : List String) (i : Nat)
    (r : Sig) (p : List String) (n : Nat),
    resolve mp cur args path i = .ok (r, p, n) → i ≤ n ∧ n ≤ i + args.length := by
  intro args
  induction args with
  | nil =>
    intro cur path i r p n h
    simp only [resolve] at h
    split at h
    · split at h
      · cases h
      · cases h; simp
    · split at h <;> cases h
  | cons a rest ih =>
    intro cur path i r p n h
    simp only [resolve] at h
    split at h
    · have := ih _ _ _ _ _ _ h
      simp only [List.length_cons]
      omega
    · split at h
      · split at h
        · cases h
        · cases h; simp only [List.length_cons]; omega
      · split at h <;> cases h

theorem resolveHead_words (root : Mod) (words : List String) (r : Sig)
    (path pathWords rest : List String) (h : resolveHead root words = .ok (r, path, pathWords, rest)) :
    words = pathWords ++ rest ∧ (words ≠ [] → pathWords ≠ []) := by
  unfold resolveHead at h
  cases words with
  | nil =>
    simp only at h
    split at h
    · cases h
    · cases h; exact ⟨rfl, fun hne => absurd rfl hne⟩
  | cons next after =>
    simp only at h
    split at h
    · split at h
      · cases h
      · split at h
        · cases h
        · cases h; exact ⟨rfl, fun _ => by simp⟩
    · split at h
      · cases h
      · rename_i r' path' consumed hr
        cases h
        refine ⟨(List.take_append_drop _ _).symm, fun _ => ?_⟩
        have hpos : 0 < consumed := by
          simp only [resolve] at hr
          split at hr
          · have := resolve_consumed false after _ _ 1 _ _ _ hr
            omega
          · split at hr
            · split at hr
              · cases hr
              · cases hr; omega
            · split at hr <;> cases hr
        intro hnil
        have : (List.take consumed (next :: after)).length = 0 := by rw [hnil]; rfl
        simp only [List.length_take, List.length_cons] at this
        omega

/-- one group: its path words, then its arguments, then the rest are exactly the words given -/
theorem parseGroup_partition (root : Mod) (words : List String) (g : Group) (rest : List String)
    (h : parseGroup root words = .ok (g, rest)) : words = g.pathWords ++ g.args ++ rest := by
  unfold parseGroup at h
  split at h
  · cases h
  · rename_i r path pathWords rest0 hres
    split at h
    · cases h
    · cases h
      simp only
      rw [(resolveHead_words root words r path pathWords rest0 hres).1, List.append_assoc,
        List.take_append_drop]

/-- arity of one group: between min and max of its recipe, and greedy (`min(|rest|, max)`) -/
theorem parseGroup_arity (root : Mod) (words : List String) (g : Group) (rest : List String)
    (h : parseGroup root words = .ok (g, rest)) :
    minArgs g.sig ≤ g.args.length ∧
      (match maxArgs g.sig with
        | none => rest = []
        | some m => g.args.length ≤ m ∧ (rest ≠ [] → g.args.length = m)) := by
  unfold parseGroup at h
  split at h
  · cases h
  · rename_i r path pathWords rest0 hres
    split at h
    · cases h
    · rename_i hmin
      cases h
      simp only
      unfold argCount at hmin ⊢
      cases hm : maxArgs r with
      | none =>
        simp only [hm] at hmin ⊢
        simp only [List.length_take, List.drop_length]
        exact ⟨by omega, trivial⟩
      | some m =>
        simp only [hm] at hmin ⊢
        simp only [List.length_take]
        refine ⟨by omega, by omega, ?_⟩
        intro hne
        have : m < rest0.length := by
          by_cases hlt : m < rest0.length
          · exact hlt
          · exfalso
            apply hne
            apply List.drop_eq_nil_of_le
            omega
        omega

theorem parseLoop_partition (root : Mod) : ∀ (fuel : Nat) (words : List String) (gs : List Group),
    parseLoop root fuel words = .ok gs →
      words = (gs.map (fun g => g.pathWords ++ g.args)).flatten := by
  intro fuel
  induction fuel with
  | zero => intro words gs h; simp [parseLoop] at h
  | succ n ih =>
    intro words gs h
    simp only [parseLoop] at h
    split at h
    · cases h
    · rename_i g rest hg
      have hp := parseGroup_partition root words g rest hg
      split at h
      · rename_i hempty
        cases h
        have : rest = [] := by simpa using hempty
        simp [hp, this]
      · split at h
        · cases h
        · rename_i gs' hgs
          cases h
          have := ih rest gs' hgs
          simp only [List.map_cons, List.flatten_cons]
          rw [← this]
          exact hp

/-- **every word is used exactly once, in order**: on success the path words and arguments of the
groups, concatenated, are the command line. -/
theorem groups_partition (root : Mod) (words : List String) (gs : List Group)
    (h : parseArguments root words = .ok gs) :
    words = (gs.map (fun g => g.pathWords ++ g.args)).flatten :=
  parseLoop_partition root _ words gs h

theorem parseLoop_arity (root : Mod) : ∀ (fuel : Nat) (words : List String) (gs : List Group),
    parseLoop root fuel words = .ok gs →
      ∀ g ∈ gs, minArgs g.sig ≤ g.args.length ∧
        (match maxArgs g.sig with
          | none => True
          | some m => g.args.length ≤ m) := by
  intro fuel
  induction fuel with
  | zero => intro words gs h; simp [parseLoop] at h
  | succ n ih =>
    intro words gs h
    simp only [parseLoop] at h
    split at h
    · cases h
    · rename_i g rest hg
      have ha := parseGroup_arity root words g rest hg
      have hg' : minArgs g.sig ≤ g.args.length ∧
          (match maxArgs g.sig with | none => True | some m => g.args.length ≤ m) := by
        refine ⟨ha.1, ?_⟩
        cases hm : maxArgs g.sig with
        | none => trivial
        | some m => rw [hm] at ha; exact ha.2.1
      split at h
      · cases h
        intro g' hin
        simp only [List.mem_singleton] at hin
        subst hin; exact hg'
      · split at h
        · cases h
        · rename_i gs' hgs
          cases h
          intro g' hin
          rcases List.mem_cons.mp hin with hin | hin
          · subst hin; exact hg'
          · exact ih rest gs' hgs g' hin

/-- **each recipe receives a number of words within its arity** -/
theorem group_arity (root : Mod) (words : List String) (gs : List Group)
    (h : parseArguments root words = .ok gs) :
    ∀ g ∈ gs, minArgs g.sig ≤ g.args.length ∧
      (match maxArgs g.sig with
        | none => True
        | some m => g.args.length ≤ m) :=
  parseLoop_arity root _ words gs h

/-! ### the loop never runs out of fuel -/

theorem parseGroup_progress (root : Mod) (words : List String) (g : Group) (rest : List String)
    (h : parseGroup root words = .ok (g, rest)) (hne : words ≠ []) : rest.length < words.length := by
  have hp := parseGroup_partition root words g rest h
  have hpw : g.pathWords ≠ [] := by
    unfold parseGroup at h
    split at h
    · cases h
    · rename_i r path pathWords rest0 hres
      split at h
      · cases h
      · cases h
        exact (resolveHead_words root words r path pathWords rest0 hres).2 hne
  have : words.length = g.pathWords.length + g.args.length + rest.length := by
    rw [hp]; simp [List.length_append]; omega
  have : 0 < g.pathWords.length := List.length_pos_iff.mpr hpw
  omega

theorem resolve_no_fuel (mp : Bool) : ∀ (args : List String) (cur : Mod) (path : List String) (i : Nat),
    resolve mp cur args path i ≠ .error .fuel := by
  intro args
  induction args with
  | nil =>
    intro cur path i h
    simp only [resolve] at h
    split at h
    · split at h <;> cases h
    · split at h <;> cases h
  | cons a rest ih =>
    intro cur path i h
    simp only [resolve] at h
    split at h
    · exact ih _ _ _ h
    · split at h
      · split at h <;> cases h
      · split at h <;> cases h

theorem parseGroup_no_fuel (root : Mod) (words : List String) :
    parseGroup root words ≠ .error .fuel := by
  intro h
  unfold parseGroup at h
  split at h
  · rename_i e hres
    cases h
    unfold resolveHead at hres
    cases words with
    | nil =>
      simp only at hres
      split at hres
      · rename_i e' hr; cases hres; exact resolve_no_fuel _ _ _ _ _ hr
      · cases hres
    | cons next after =>
      simp only at hres
      split at hres
      · split at hres
        · cases hres
        · split at hres
          · rename_i e' hr; cases hres; exact resolve_no_fuel _ _ _ _ _ hr
          · cases hres
      · split at hres
        · rename_i e' hr; cases hres; exact resolve_no_fuel _ _ _ _ _ hr
        · cases hres
  · split at h <;> cases h

theorem parseLoop_fuel (root : Mod) : ∀ (fuel : Nat) (words : List String),
    words.length < fuel → parseLoop root fuel words ≠ .error .fuel := by
  intro fuel
  induction fuel with
  | zero => intro words h; omega
  | succ n ih =>
    intro words hlt
    simp only [parseLoop]
    split
    · rename_i e he
      intro hc
      cases hc
      exact parseGroup_no_fuel root words he
    · rename_i g rest hg
      split
      · simp
      · rename_i hne
        have hne' : rest ≠ [] := by simpa using hne
        have hw : words ≠ [] := by
          intro hnil
          subst hnil
          have hp := parseGroup_partition root [] g rest hg
          have : rest = [] := by
            have := congrArg List.length hp
            simp [List.length_append] at this
            exact List.eq_nil_of_length_eq_zero (by omega)
          exact hne' this
        have := parseGroup_progress root words g rest hg hw
        have := ih rest (by omega)
        split
        · rename_i e he; intro hc; cases hc; exact this he
        · simp

/-- **termination**: the grouping loop always finishes within its fuel -/
theorem parse_fuel_enough (root : Mod) (words : List String) :
    parseArguments root words ≠ .error .fuel :=
  parseLoop_fuel root _ words (Nat.lt_succ_self _)

/-! ### binding words to parameters -/

def requiredCount (ps : List Param) : Nat :=
  (ps.filter (fun p => p.default.isNone && p.kind != .star)).length

theorem bind_nil_words (ps : List Param) (bound : List String) (h : requiredCount ps = 0) :
    ∃ vs, bindArgs ps [] bound = .ok vs ∧ vs.length = bound.length + ps.length := by
  induction ps generalizing bound with
  | nil => exact ⟨bound, rfl, by simp⟩
  | cons p ps ih =>
    simp only [bindArgs]
    cases hd : p.default with
    | some d =>
      have hr : requiredCount ps = 0 := by
        simp only [requiredCount, List.filter_cons, hd] at h
        simpa [requiredCount] using h
      obtain ⟨vs, hvs, hl⟩ := ih (bound ++ [evalDefault bound d]) hr
      exact ⟨vs, hvs, by simp at hl ⊢; omega⟩
    | none =>
      simp only
      cases hk : p.kind with
      | star =>
        have hr : requiredCount ps = 0 := by
          simp only [requiredCount, List.filter_cons, hd, hk] at h
          simpa [requiredCount] using h
        obtain ⟨vs, hvs, hl⟩ := ih (bound ++ [""]) hr
        simp only [if_true]
        exact ⟨vs, hvs, by simp at hl ⊢; omega⟩
      | singular =>
        simp [requiredCount, List.filter_cons, hd, hk] at h
      | plus =>
        simp [requiredCount, List.filter_cons, hd, hk] at h

/-- **no required parameter is ever left without a value**: for a parameter list the analyzer
accepts and a number of words within `[min, max]`, binding succeeds and yields one value per
parameter. -/
theorem bind_total (ps : List Param) (ws bound : List String) (hv : validParams ps = true)
    (hmin : requiredCount ps ≤ ws.length)
    (hmax : ps.any Param.isVariadic = false → ws.length ≤ ps.length) :
    ∃ vs, bindArgs ps ws bound = .ok vs ∧ vs.length = bound.length + ps.length := by
  induction ps generalizing ws bound with
  | nil => exact ⟨bound, by cases ws <;> rfl, by simp⟩
  | cons p ps ih =>
    cases ws with
    | nil =>
      exact bind_nil_words (p :: ps) bound (by simp only [List.length_nil] at hmin; omega)
    | cons w ws =>
      simp only [bindArgs]
      simp only [validParams, Bool.and_eq_true] at hv
      obtain ⟨⟨hv1, hv2⟩, hv3⟩ := hv
      cases hvar : p.isVariadic with
      | true =>
        simp only [hvar, if_true] at hv1 ⊢
        have : ps = [] := by simpa using hv1
        subst this
        exact ⟨bound ++ [joinWith " " (w :: ws)], rfl, by simp⟩
      | false =>
        simp only [Bool.false_eq_true, if_false]
        have hreq : requiredCount ps ≤ ws.length := by
          by_cases hdef : p.default.isSome
          · -- everything after a defaulted parameter is optional
            simp only [hdef, if_true] at hv2
            have : requiredCount ps = 0 := by
              simp only [requiredCount]
              apply List.length_eq_zero_iff.mpr
              apply List.filter_eq_nil_iff.mpr
              intro q hq
              have := List.all_eq_true.mp hv2 q hq
              cases hqd : q.default <;> cases hqk : q.kind <;> simp_all
            omega
          · simp only [requiredCount, List.filter_cons] at hmin
            have hk : p.kind = .singular := by
              cases hk : p.kind <;> simp_all [Param.isVariadic]
            have : (p.default.isNone && p.kind != .star) = true := by
              cases hd : p.default <;> simp_all
            simp only [this, if_true, List.length_cons] at hmin
            simp only [requiredCount]
            omega
        have hmax' : ps.any Param.isVariadic = false → ws.length ≤ ps.length := by
          intro hany
          have := hmax (by simp [List.any_cons, hvar, hany])
          simp only [List.length_cons] at this
          omega
        obtain ⟨vs, hvs, hl⟩ := ih ws (bound ++ [w]) hv3 hreq hmax'
        exact ⟨vs, hvs, by simp at hl ⊢; omega⟩

/-- words bindArgs left to right: a singular parameter takes the next word -/
theorem bind_singular (p : Param) (ps : List Param) (w : String) (ws bound : List String)
    (h : p.kind = .singular) : bindArgs (p :: ps) (w :: ws) bound = bindArgs ps ws (bound ++ [w]) := by
  simp [bindArgs, Param.isVariadic, h]

/-- a variadic parameter receives ALL remaining words joined by single spaces -/
theorem bind_variadic (p : Param) (w : String) (ws bound : List String) (h : p.kind ≠ .singular) :
    bindArgs [p] (w :: ws) bound = .ok (bound ++ [joinWith " " (w :: ws)]) := by
  have : p.isVariadic = true := by cases hk : p.kind <;> simp_all [Param.isVariadic]
  simp [bindArgs, this]

/-- `*` may be empty; `+` may not -/
theorem bind_star_empty (bound : List String) :
    bindArgs [⟨.star, none⟩] [] bound = .ok (bound ++ [""]) := by
  simp [bindArgs]

theorem bind_plus_needs_word (bound : List String) :
    bindArgs [⟨.plus, none⟩] [] bound = .error .missingParameter := by
  simp [bindArgs]

/-- an omitted parameter takes its default, evaluated with exactly the earlier parameters -/
theorem bind_default (p : Param) (ps : List Param) (d : List Piece) (bound : List String)
    (h : p.default = some d) :
    bindArgs (p :: ps) [] bound = bindArgs ps [] (bound ++ [evalDefault bound d]) := by
  simp [bindArgs, h]

/-- a default is used only when the word is omitted -/
theorem bind_given_ignores_default (k : PKind) (d d' : Option (List Piece)) (ps : List Param)
    (w : String) (ws bound : List String) :
    bindArgs (⟨k, d⟩ :: ps) (w :: ws) bound = bindArgs (⟨k, d'⟩ :: ps) (w :: ws) bound := by
  simp [bindArgs, Param.isVariadic]

/-! ### overrides are leading `NAME=VALUE` words only -/

theorem positional_args_sticky (ws : List String) (acc : Positional) (h : acc.args ≠ []) :
    (positional ws acc).overrides = acc.overrides ∧
      (positional ws acc).args = acc.args ++ ws ∧ (positional ws acc).searchDir = acc.searchDir := by
  induction ws generalizing acc with
  | nil => simp [positional]
  | cons w ws ih =>
    have hne : acc.args.isEmpty = false := by
      cases ha : acc.args <;> simp_all
    simp only [positional, hne, Bool.and_false, Bool.false_eq_true, if_false]
    have := ih { acc with args := acc.args ++ [w] } (by simp)
    simp only at this
    refine ⟨this.1, ?_, this.2.2⟩
    rw [this.2.1]; simp

/-- **leading `NAME=VALUE` words are overrides; nothing after the first other word is**: if the
word `w` is not of the form NAME=VALUE and names no directory, everything from `w` on is an
argument, whatever it looks like. -/
theorem overrides_are_leading (ovs : List (String × String)) (pre : List String) (w : String)
    (rest : List String)
    (hpre : pre.map overrideOf = ovs.map some)
    (hw : overrideOf w = none) (hdot : w ≠ "." ∧ w ≠ "..") (hslash : splitLastSlash w = none) :
    (positional (pre ++ w :: rest) {}).overrides = ovs ∧
      (positional (pre ++ w :: rest) {}).args = w :: rest := by
  have key : ∀ (pre : List String) (ovs acc0 : List (String × String)),
      pre.map overrideOf = ovs.map some →
      (positional (pre ++ w :: rest) { overrides := acc0 }).overrides = acc0 ++ ovs ∧
      (positional (pre ++ w :: rest) { overrides := acc0 }).args = w :: rest := by
    intro pre
    induction pre with
    | nil =>
      intro ovs acc0 h
      have : ovs = [] := by cases ovs <;> simp_all
      subst this
      simp only [List.nil_append, positional, Option.isNone_none, List.isEmpty_nil, Bool.and_self,
        if_true, hw]
      have h1 : (w = "." || w = "..") = false := by simp [hdot.1, hdot.2]
      simp only [h1, Bool.false_eq_true, if_false, hslash]
      have := positional_args_sticky rest { overrides := acc0, args := [] ++ [w] } (by simp)
      simp only [List.nil_append] at this
      exact ⟨by rw [this.1]; simp, by rw [this.2.1]; simp⟩
    | cons p pre ih =>
      intro ovs acc0 h
      cases ovs with
      | nil => simp at h
      | cons o ovs =>
        simp only [List.map_cons, List.cons.injEq] at h
        simp only [List.cons_append, positional, Option.isNone_none, List.isEmpty_nil, Bool.and_self,
          if_true, h.1]
        have := ih ovs (acc0 ++ [o]) h.2
        simp only [List.append_assoc, List.singleton_append] at this
        exact this
  have := key pre ovs [] hpre
  simpa using this

/-! ### non-vacuity -/

example : validParams [⟨.singular, none⟩, ⟨.singular, some [.lit "d", .ref 0]⟩, ⟨.star, none⟩] = true := by
  decide

example : bindArgs [⟨.singular, none⟩, ⟨.singular, some [.lit "d", .ref 0]⟩, ⟨.star, none⟩] ["x"] [] =
    .ok ["x", "dx", ""] := by
  simp [bindArgs, evalDefault, Param.isVariadic]

/-! ### one leading word: override before directory (model `Just.Words`, on characters) -/
open Just.Words in
/-- **a leading `NAME=VALUE` word is an override whatever VALUE contains** — slashes, dots, `::`,
further `=` signs, nothing at all: the override test comes before the search-directory test, so
`prefix=/usr/local`, `out=build/x86` and `dir=../` set variables and name no directory -/
theorem override_whatever_the_value (n v : List Char) (hn : isIdentifier n = true) :
    classify (n ++ '=' :: v) = .override n v := by
  unfold classify
  rw [splitFirstEq_append n v (ident_no_eq n hn)]
  simp [hn]

open Just.Words in
/-- **`DIR/recipe`**: a leading word without `=` that contains a slash names the directory up to its
last slash, and what follows the slash — if anything — is the first argument -/
theorem dir_recipe_form (w : List Char) (hne : '=' ∉ w) (hs : '/' ∈ w) (hd : w ≠ ['.'] ∧ w ≠ ['.', '.']) :
    classify w = .searchDir (splitLastSlash w).1
      (if (splitLastSlash w).2 = [] then none else some (splitLastSlash w).2) := by
  have hsplit : splitFirstEq w = none := by
    clear hs hd
    induction w with
    | nil => rfl
    | cons c cs ih =>
      have hc : c ≠ '=' := fun e => hne (by simp [e])
      have := ih (fun m => hne (List.mem_cons_of_mem _ m))
      simp [splitFirstEq, hc, this]
  unfold classify
  rw [hsplit]
  simp [dirOrArgument, hd.1, hd.2, hs]

open Just.Words in
/-- non-vacuity -/
example : classify "prefix=/usr/local".toList = .override "prefix".toList "/usr/local".toList ∧
    classify "sub/dir/build".toList = .searchDir "sub/dir/".toList (some "build".toList) ∧
    classify "../".toList = .searchDir "../".toList none ∧
    classify "1a=x/y".toList = .searchDir "1a=x/".toList (some "y".toList) ∧
    classify "build".toList = .argument "build".toList := by decide

end Just.Props.C05
