/-
C09 — every command runs in the documented working directory.
-/
import Just.Model.Workdir
import Just.Lemmas.Path
namespace Just.Props.C09
open Just.Workdir

/-- the documented rule, stated directly -/
def specCwd (inv justfileOrWorkDir : Path) (moduleFileDir : Option Path) (setting attr : Option Rel)
    (noCd : Bool) : Path :=
  if noCd then inv else
    let base := moduleFileDir.getD justfileOrWorkDir
    let adjusted := match setting with | some s => join base s | none => base
    match attr with | some a => join adjusted a | none => adjusted

theorem recipe_cwd_table (c : Ctx) (a : Attrs) :
    recipeCwd c a = specCwd c.invocationDir c.search.workDir (moduleDirOf c.chain none) c.setting a.attr a.noCd := by
  unfold recipeCwd specCwd moduleWD
  cases a.noCd <;> cases c.setting <;> cases a.attr <;> cases moduleDirOf c.chain none <;> rfl

/-- an absolute `[working-directory]` is taken as is, whatever module, setting or flags -/
theorem absolute_attribute_wins (c : Ctx) (p : Path) :
    recipeCwd c ⟨false, some (.abs p)⟩ = p := by
  simp [recipeCwd, join]

/-- a relative one is resolved against the module directory as adjusted by the setting -/
theorem relative_attribute (c : Ctx) (p : List String) :
    recipeCwd c ⟨false, some (.rel p)⟩ = moduleWD c ++ p := by
  simp [recipeCwd, join]

/-- `[no-cd]` recipes run where just was invoked, whatever else is set -/
theorem no_cd_is_invocation_dir (c : Ctx) (attr : Option Rel) :
    recipeCwd c ⟨true, attr⟩ = c.invocationDir := by
  simp [recipeCwd]

/-- backticks and `shell()` ignore the attribute and `[no-cd]` -/
theorem backtick_ignores_attribute_and_no_cd (c : Ctx) (a : Attrs) :
    backtickCwd c = recipeCwd c ⟨false, none⟩ := by
  simp [backtickCwd, recipeCwd]

/-- **imports inherit the importer's directory, modules use their source file's directory** —
for any nesting of modules and imports: the module directory is that of the LAST `mod` edge on
the way to the file, and the root's (justfile or `--working-directory`) if there is none. -/
theorem module_dir_of_chain (pre : List Edge) (d : Path) (imports : List Edge) (acc : Option Path)
    (himp : ∀ e ∈ imports, ∃ x, e = .import x) :
    moduleDirOf (pre ++ .module d :: imports) acc = some d := by
  induction pre generalizing acc with
  | nil =>
    simp only [List.nil_append, moduleDirOf]
    induction imports with
    | nil => rfl
    | cons e es ih =>
      obtain ⟨x, hx⟩ := himp e (List.mem_cons_self ..)
      subst hx
      simp only [moduleDirOf]
      exact ih (fun e' he' => himp e' (List.mem_cons_of_mem _ he'))
  | cons e es ih =>
    cases e <;> simp only [List.cons_append, moduleDirOf] <;> exact ih _

theorem imports_inherit_importer (imports : List Edge) (acc : Option Path)
    (himp : ∀ e ∈ imports, ∃ x, e = .import x) : moduleDirOf imports acc = acc := by
  induction imports with
  | nil => rfl
  | cons e es ih =>
    obtain ⟨x, hx⟩ := himp e (List.mem_cons_self ..)
    subst hx
    simp only [moduleDirOf]
    exact ih (fun e' he' => himp e' (List.mem_cons_of_mem _ he'))

/-- `--justfile` with `--working-directory` replaces the justfile directory for the root module
only: submodules keep their source file's directory -/
theorem working_directory_flag_root_only (c : Ctx) (w : Path) (d : Path)
    (h : moduleDirOf c.chain none = some d) :
    moduleWD { c with search := { c.search with workDir := w } } = moduleWD c := by
  simp [moduleWD, h]

/-- the directory functions do not depend on module settings, attributes or the working directory -/
theorem directory_functions_constant (c : Ctx) (setting : Option Rel) (w : Path) :
    let c' := { c with setting := setting, search := { c.search with workDir := w } }
    invocationDirectory c' = c.invocationDir ∧ justfileDirectory c' = c.search.justfileDir ∧
      sourceDirectory c' = sourceDirectory c := by
  simp [invocationDirectory, justfileDirectory, sourceDirectory]

/-- `source_directory()` is the directory of the file containing the call: the last edge's -/
theorem source_directory_last (root : Path) (pre : List Edge) (d : Path) :
    sourceDirOf root (pre ++ [.import d]) = d ∧ sourceDirOf root (pre ++ [.module d]) = d := by
  induction pre with
  | nil => exact ⟨rfl, rfl⟩
  | cons e es ih =>
    cases es with
    | nil => cases e <;> exact ⟨rfl, rfl⟩
    | cons e2 es2 =>
      simp only [List.cons_append] at ih ⊢
      cases e <;> simp only [sourceDirOf] <;> exact ih

/-- non-vacuity: a recipe in a file imported by submodule `mods/sub.just` with
`set working-directory := 'wd'` and `[working-directory('ad')]` -/
example :
    recipeCwd ⟨["inv"], ⟨["proj"], ["proj"]⟩, [.module ["proj", "mods"], .import ["proj", "mods", "inner"]],
      some (.rel ["wd"])⟩ ⟨false, some (.rel ["ad"])⟩ = ["proj", "mods", "wd", "ad"] := by
  decide

/-! ### `--justfile` / `--working-directory` given as relative paths (`Search::clean`, model `Just.Path`) -/
open Just.Path in
/-- **the directory just works with holds no `..`**: however the path is spelled, what
`Search::clean` makes of it has no parent-directory component left, and a `.` or a `name/..`
detour in the spelling changes nothing -/
theorem search_clean_normalises (cs d t : List Comp) (x : List Char) :
    Comp.parent ∉ searchCleanComps cs ∧
    searchCleanComps (d ++ Comp.normal x :: Comp.parent :: t) = searchCleanComps (d ++ t) := by
  constructor
  · unfold searchCleanComps
    intro h
    exact searchClean_foldl_no_parent cs [] (by simp) (List.mem_reverse.mp h)
  · unfold searchCleanComps
    simp [List.foldl_append, searchCleanStep]

open Just.Path in
/-- non-vacuity, on texts: three spellings from `/w/proj/x/y` name `/w/proj/justfile`; above the root
a `..` is dropped -/
example : searchClean "/w/proj/x/y".toList "./../../justfile".toList = "/w/proj/justfile".toList ∧
    searchClean "/w/proj/x/y".toList "../.././justfile".toList = "/w/proj/justfile".toList ∧
    searchClean "/w/proj/x/y".toList "detour/../../../justfile".toList = "/w/proj/justfile".toList ∧
    searchClean "/w".toList "../../../j".toList = "/j".toList := by decide

end Just.Props.C09
