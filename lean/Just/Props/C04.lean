/-
C04 — expressions evaluate per the documented semantics, lazily and once.
Theorems about `Just.Eval` (model of src/evaluator.rs).
-/
import Just.Model.Eval
import Just.Lemmas.EvalOnce
import Just.Lemmas.Path
import Just.Lemmas.Percent
import Just.Lemmas.PathText
import Just.Lemmas.PathAbs
import Just.Lemmas.Case
import Just.Lemmas.Trim
namespace Just.Props.C04
open Just Just.Eval

/-! ### only the taken branch is evaluated -/

/-- **conditional, condition true**: the result (value, error, every backtick in the log, every
binding) is that of the `then` branch evaluated after the two sides of the condition — the
`else` branch does not occur in it at all -/
theorem lazy_conditional_true (ctx : Ctx) (as : Option (List (String × Expr))) (fuel : Nat)
    (a b t e : Expr) (op : CondOp) (st st1 st2 : St) (va vb : String)
    (ha : evalExpr ctx as fuel a st = (st1, .ok va)) (hb : evalExpr ctx as fuel b st1 = (st2, .ok vb))
    (hc : evalCondOp op va vb = true) :
    evalExpr ctx as (fuel + 1) (.cond a op b t e) st = evalExpr ctx as fuel t st2 := by
  simp [evalExpr, ha, hb, hc]

theorem lazy_conditional_false (ctx : Ctx) (as : Option (List (String × Expr))) (fuel : Nat)
    (a b t e : Expr) (op : CondOp) (st st1 st2 : St) (va vb : String)
    (ha : evalExpr ctx as fuel a st = (st1, .ok va)) (hb : evalExpr ctx as fuel b st1 = (st2, .ok vb))
    (hc : evalCondOp op va vb = false) :
    evalExpr ctx as (fuel + 1) (.cond a op b t e) st = evalExpr ctx as fuel e st2 := by
  simp [evalExpr, ha, hb, hc]

/-- **`&&`**: an empty left side yields the empty string and the right side is not evaluated -/
theorem lazy_and (ctx : Ctx) (as : Option (List (String × Expr))) (fuel : Nat) (l r : Expr)
    (st st1 : St) (hl : evalExpr ctx as fuel l st = (st1, .ok "")) :
    evalExpr ctx as (fuel + 1) (.and l r) st = (st1, .ok "") := by
  simp [evalExpr, hl]

theorem and_nonempty (ctx : Ctx) (as : Option (List (String × Expr))) (fuel : Nat) (l r : Expr)
    (st st1 : St) (v : String) (hl : evalExpr ctx as fuel l st = (st1, .ok v)) (hv : v ≠ "") :
    evalExpr ctx as (fuel + 1) (.and l r) st = evalExpr ctx as fuel r st1 := by
  simp [evalExpr, hl, hv]

/-- **`||`**: a non-empty left side is the value and the right side is not evaluated -/
theorem lazy_or (ctx : Ctx) (as : Option (List (String × Expr))) (fuel : Nat) (l r : Expr)
    (st st1 : St) (v : String) (hl : evalExpr ctx as fuel l st = (st1, .ok v)) (hv : v ≠ "") :
    evalExpr ctx as (fuel + 1) (.or l r) st = (st1, .ok v) := by
  simp [evalExpr, hl, hv]

theorem or_empty (ctx : Ctx) (as : Option (List (String × Expr))) (fuel : Nat) (l r : Expr)
    (st st1 : St) (hl : evalExpr ctx as fuel l st = (st1, .ok "")) :
    evalExpr ctx as (fuel + 1) (.or l r) st = evalExpr ctx as fuel r st1 := by
  simp [evalExpr, hl]

/-- **`assert`**: the message is evaluated only when the condition fails -/
theorem assert_message_lazy (ctx : Ctx) (as : Option (List (String × Expr))) (fuel : Nat)
    (a b m : Expr) (op : CondOp) (st st1 st2 : St) (va vb : String)
    (ha : evalExpr ctx as fuel a st = (st1, .ok va)) (hb : evalExpr ctx as fuel b st1 = (st2, .ok vb))
    (hc : evalCondOp op va vb = true) :
    evalExpr ctx as (fuel + 1) (.assert a op b m) st = (st2, .ok "") := by
  simp [evalExpr, ha, hb, hc]

/-- **dry run**: a backtick is shown unevaluated and nothing is spawned -/
theorem dry_run_backtick (ctx : Ctx) (as : Option (List (String × Expr))) (fuel : Nat) (c : String)
    (st : St) (h : ctx.dryRun = true) :
    evalExpr ctx as (fuel + 1) (.backtick c) st = (st, .ok ("`" ++ c ++ "`")) := by
  simp [evalExpr, h]

/-- operators: `+` is concatenation, `/` concatenation with a slash -/
theorem concat_value (ctx : Ctx) (as : Option (List (String × Expr))) (fuel : Nat) (l r : Expr)
    (st st1 st2 : St) (a b : String) (hl : evalExpr ctx as fuel l st = (st1, .ok a))
    (hr : evalExpr ctx as fuel r st1 = (st2, .ok b)) :
    evalExpr ctx as (fuel + 1) (.concat l r) st = (st2, .ok (a ++ b)) ∧
      evalExpr ctx as (fuel + 1) (.joinL l r) st = (st2, .ok (a ++ "/" ++ b)) := by
  simp [evalExpr, hl, hr]

/-! ### an overridden assignment's expression is never evaluated -/

theorem lookup_cons_ne_none (scope : List (String × String)) (m n v : String)
    (h : scope.lookup n ≠ none) : ((m, v) :: scope).lookup n ≠ none := by
  simp only [List.lookup]
  split
  · simp
  · exact h

/-- two assignment tables that differ only in the expression of `n` -/
def AgreeExcept (n : String) (as as' : List (String × Expr)) : Prop :=
  ∀ x, x ≠ n → as.lookup x = as'.lookup x

/-- with `n` already bound in the current scope, the expression stored for `n` is irrelevant:
evaluation under the two tables coincides (value, error, log, bindings) and `n` stays bound -/
theorem override_irrelevant (ctx : Ctx) (n : String) (as as' : List (String × Expr))
    (hag : AgreeExcept n as as') : ∀ fuel,
    (∀ e st, lookupScope st n ≠ none →
      evalExpr ctx (some as) fuel e st = evalExpr ctx (some as') fuel e st ∧
      lookupScope (evalExpr ctx (some as) fuel e st).1 n ≠ none) ∧
    (∀ es st, lookupScope st n ≠ none →
      evalExprs ctx (some as) fuel es st = evalExprs ctx (some as') fuel es st ∧
      lookupScope (evalExprs ctx (some as) fuel es st).1 n ≠ none) ∧
    (∀ m e st, lookupScope st n ≠ none →
      evalAssignment ctx (some as) fuel m e st = evalAssignment ctx (some as') fuel m e st ∧
      lookupScope (evalAssignment ctx (some as) fuel m e st).1 n ≠ none) := by
  intro fuel
  induction fuel with
  | zero =>
    refine ⟨fun e st h => ?_, fun es st h => ?_, fun m e st h => ?_⟩ <;>
      simp [evalExpr, evalExprs, evalAssignment, h]
  | succ k ih =>
    obtain ⟨ihE, ihEs, ihA⟩ := ih
    -- helper: sequencing two sub-evaluations
    refine ⟨?_, ?_, ?_⟩
    · intro e st hb
      cases e with
      | str s => simp [evalExpr, hb]
      | var x =>
        simp only [evalExpr]
        cases hl : lookupScope st x with
        | some v => exact ⟨by first | rfl | trivial, hb⟩
        | none =>
          have hxn : x ≠ n := by
            intro h; subst h; exact hb hl
          have hp := hag x hxn
          simp only [hp]
          cases hpe : as'.lookup x with
          | none =>
            cases ctx.ownFirst <;> simp only [] <;>
              (cases ctx.parent x <;> exact ⟨by first | rfl | trivial, hb⟩)
          | some e' =>
            have := ihA x e' st hb
            cases ctx.ownFirst
            · simp only []
              cases ctx.parent x
              · exact this
              · exact ⟨by first | rfl | trivial, hb⟩
            · exact this
      | backtick c =>
        simp only [evalExpr]
        split
        · exact ⟨by first | rfl | trivial, hb⟩
        · split <;> exact ⟨by first | rfl | trivial, hb⟩
      | call fn args =>
        simp only [evalExpr]
        obtain ⟨h1, h2⟩ := ihEs args st hb
        rw [← h1]
        cases hr : evalExprs ctx (some as) k args st with
        | mk st1 r =>
          rw [hr] at h2
          cases r with
          | error er => exact ⟨by first | rfl | trivial, h2⟩
          | ok vs =>
            simp only
            split
            · split
              · split <;> exact ⟨by first | rfl | trivial, h2⟩
              · exact ⟨by first | rfl | trivial, h2⟩
            · split <;> exact ⟨by first | rfl | trivial, h2⟩
      | concat l r =>
        simp only [evalExpr]
        obtain ⟨h1, h2⟩ := ihE l st hb
        rw [← h1]
        cases hr : evalExpr ctx (some as) k l st with
        | mk st1 r1 =>
          rw [hr] at h2
          cases r1 with
          | error er => exact ⟨by first | rfl | trivial, h2⟩
          | ok a =>
            simp only
            obtain ⟨h3, h4⟩ := ihE r st1 h2
            rw [← h3]
            cases hr2 : evalExpr ctx (some as) k r st1 with
            | mk st2 r2 => rw [hr2] at h4; cases r2 <;> exact ⟨by first | rfl | trivial, h4⟩
      | joinL l r =>
        simp only [evalExpr]
        obtain ⟨h1, h2⟩ := ihE l st hb
        rw [← h1]
        cases hr : evalExpr ctx (some as) k l st with
        | mk st1 r1 =>
          rw [hr] at h2
          cases r1 with
          | error er => exact ⟨by first | rfl | trivial, h2⟩
          | ok a =>
            simp only
            obtain ⟨h3, h4⟩ := ihE r st1 h2
            rw [← h3]
            cases hr2 : evalExpr ctx (some as) k r st1 with
            | mk st2 r2 => rw [hr2] at h4; cases r2 <;> exact ⟨by first | rfl | trivial, h4⟩
      | joinR r =>
        simp only [evalExpr]
        obtain ⟨h1, h2⟩ := ihE r st hb
        rw [← h1]
        cases hr : evalExpr ctx (some as) k r st with
        | mk st1 r1 => rw [hr] at h2; cases r1 <;> exact ⟨by first | rfl | trivial, h2⟩
      | and l r =>
        simp only [evalExpr]
        obtain ⟨h1, h2⟩ := ihE l st hb
        rw [← h1]
        cases hr : evalExpr ctx (some as) k l st with
        | mk st1 r1 =>
          rw [hr] at h2
          cases r1 with
          | error er => exact ⟨by first | rfl | trivial, h2⟩
          | ok a =>
            simp only
            split
            · exact ⟨by first | rfl | trivial, h2⟩
            · exact ihE r st1 h2
      | or l r =>
        simp only [evalExpr]
        obtain ⟨h1, h2⟩ := ihE l st hb
        rw [← h1]
        cases hr : evalExpr ctx (some as) k l st with
        | mk st1 r1 =>
          rw [hr] at h2
          cases r1 with
          | error er => exact ⟨by first | rfl | trivial, h2⟩
          | ok a =>
            simp only
            split
            · exact ⟨by first | rfl | trivial, h2⟩
            · exact ihE r st1 h2
      | cond a op b t e =>
        simp only [evalExpr]
        obtain ⟨h1, h2⟩ := ihE a st hb
        rw [← h1]
        cases hr : evalExpr ctx (some as) k a st with
        | mk st1 r1 =>
          rw [hr] at h2
          cases r1 with
          | error er => exact ⟨by first | rfl | trivial, h2⟩
          | ok va =>
            simp only
            obtain ⟨h3, h4⟩ := ihE b st1 h2
            rw [← h3]
            cases hr2 : evalExpr ctx (some as) k b st1 with
            | mk st2 r2 =>
              rw [hr2] at h4
              cases r2 with
              | error er => exact ⟨by first | rfl | trivial, h4⟩
              | ok vb =>
                simp only
                split
                · exact ihE t st2 h4
                · exact ihE e st2 h4
      | assert a op b m =>
        simp only [evalExpr]
        obtain ⟨h1, h2⟩ := ihE a st hb
        rw [← h1]
        cases hr : evalExpr ctx (some as) k a st with
        | mk st1 r1 =>
          rw [hr] at h2
          cases r1 with
          | error er => exact ⟨by first | rfl | trivial, h2⟩
          | ok va =>
            simp only
            obtain ⟨h3, h4⟩ := ihE b st1 h2
            rw [← h3]
            cases hr2 : evalExpr ctx (some as) k b st1 with
            | mk st2 r2 =>
              rw [hr2] at h4
              cases r2 with
              | error er => exact ⟨by first | rfl | trivial, h4⟩
              | ok vb =>
                simp only
                split
                · exact ⟨by first | rfl | trivial, h4⟩
                · obtain ⟨h5, h6⟩ := ihE m st2 h4
                  rw [← h5]
                  cases hr3 : evalExpr ctx (some as) k m st2 with
                  | mk st3 r3 => rw [hr3] at h6; cases r3 <;> exact ⟨by first | rfl | trivial, h6⟩
      | group e => simp only [evalExpr]; exact ihE e st hb
    · intro es st hb
      cases es with
      | nil => simp [evalExprs, hb]
      | cons e es =>
        simp only [evalExprs]
        obtain ⟨h1, h2⟩ := ihE e st hb
        rw [← h1]
        cases hr : evalExpr ctx (some as) k e st with
        | mk st1 r1 =>
          rw [hr] at h2
          cases r1 with
          | error er => exact ⟨by first | rfl | trivial, h2⟩
          | ok v =>
            simp only
            obtain ⟨h3, h4⟩ := ihEs es st1 h2
            rw [← h3]
            cases hr2 : evalExprs ctx (some as) k es st1 with
            | mk st2 r2 => rw [hr2] at h4; cases r2 <;> exact ⟨by first | rfl | trivial, h4⟩
    · intro m e st hb
      simp only [evalAssignment]
      cases hl : lookupScope st m with
      | some v => exact ⟨by first | rfl | trivial, hb⟩
      | none =>
        simp only
        have hb' : lookupScope { st with log := st.log ++ [Ev.evalAssign m] } n ≠ none := hb
        obtain ⟨h1, h2⟩ := ihE e _ hb'
        rw [← h1]
        cases hr : evalExpr ctx (some as) k e { st with log := st.log ++ [Ev.evalAssign m] } with
        | mk st1 r1 =>
          rw [hr] at h2
          cases r1 with
          | error er => exact ⟨by first | rfl | trivial, h2⟩
          | ok v => exact ⟨by first | rfl | trivial, lookup_cons_ne_none _ _ _ _ h2⟩

/-- an assignment that is already bound returns its value without looking at its expression -/
theorem evalAssignment_bound (ctx : Ctx) (a1 a2 : Option (List (String × Expr))) (fuel : Nat)
    (m v : String) (e1 e2 : Expr) (st : St) (h : lookupScope st m = some v) :
    evalAssignment ctx a1 fuel m e1 st = evalAssignment ctx a2 fuel m e2 st ∧
      (evalAssignment ctx a1 fuel m e1 st).1 = st := by
  cases fuel <;> simp [evalAssignment, h]

/-- the assignment loop under two tables that differ only at the bound name `n` -/
theorem evalAll_override (ctx : Ctx) (n : String) (as as' : List (String × Expr))
    (hag : AgreeExcept n as as') (fuel : Nat) :
    ∀ (l l' : List (String × Expr)), l.map Prod.fst = l'.map Prod.fst →
      (∀ (i : Nat) (x : String) (e e' : Expr), l[i]? = some (x, e) → l'[i]? = some (x, e') → x ≠ n → e = e') →
      ∀ st, lookupScope st n ≠ none → evalAll ctx as fuel l st = evalAll ctx as' fuel l' st := by
  intro l
  induction l with
  | nil => intro l' hk _ st _; cases l' <;> simp_all [evalAll]
  | cons p ps ih =>
    intro l' hk hsame st hb
    cases l' with
    | nil => simp at hk
    | cons p' ps' =>
      obtain ⟨x, e⟩ := p
      obtain ⟨x', e'⟩ := p'
      simp only [List.map_cons, List.cons.injEq] at hk
      obtain ⟨hx, hks⟩ := hk
      subst hx
      simp only [evalAll]
      have hA := (override_irrelevant ctx n as as' hag fuel).2.2
      by_cases hxn : x = n
      · subst hxn
        -- the overridden entry: bound already, both sides return at once
        cases hl : lookupScope st x with
        | none => exact absurd hl hb
        | some v =>
          obtain ⟨h1, h2⟩ := evalAssignment_bound ctx (some as) (some as') fuel x v e e' st hl
          rw [← h1]
          cases hr : evalAssignment ctx (some as) fuel x e st with
          | mk st1 r1 =>
            rw [hr] at h2
            simp only at h2
            subst h2
            cases r1 with
            | error er => rfl
            | ok v' =>
              simp only
              exact ih ps' hks (fun i y a a' h1 h2 hy => hsame (i + 1) y a a' h1 h2 hy) st1 hb
      · have hee : e = e' := hsame 0 x e e' rfl rfl hxn
        subst hee
        obtain ⟨h1, h2⟩ := hA x e st hb
        rw [← h1]
        cases hr : evalAssignment ctx (some as) fuel x e st with
        | mk st1 r1 =>
          rw [hr] at h2
          cases r1 with
          | error er => rfl
          | ok v =>
            simp only
            exact ih ps' hks (fun i y a a' h1 h2 hy => hsame (i + 1) y a a' h1 h2 hy) st1 h2

/-- replace the expression stored for `n` -/
def setExpr (as : List (String × Expr)) (n : String) (e' : Expr) : List (String × Expr) :=
  as.map (fun p => if p.1 = n then (p.1, e') else p)

theorem setExpr_keys (as : List (String × Expr)) (n : String) (e' : Expr) :
    (setExpr as n e').map Prod.fst = as.map Prod.fst := by
  induction as with
  | nil => rfl
  | cons p ps ih =>
    simp only [setExpr, List.map_cons] at ih ⊢
    split <;> simp [ih]

theorem setExpr_lookup_ne (as : List (String × Expr)) (n x : String) (e' : Expr) (h : x ≠ n) :
    (setExpr as n e').lookup x = as.lookup x := by
  induction as with
  | nil => rfl
  | cons p ps ih =>
    obtain ⟨k, e⟩ := p
    simp only [setExpr, List.map_cons] at ih ⊢
    by_cases hk : k = n
    · subst hk
      have : (x == k) = false := by simpa using h
      simp [List.lookup, this, ih]
    · simp only [hk, if_false, List.lookup]
      split
      · rfl
      · exact ih

theorem setExpr_lookup_isSome (as : List (String × Expr)) (n x : String) (e' : Expr) :
    ((setExpr as n e').lookup x).isSome = (as.lookup x).isSome := by
  by_cases h : x = n
  · subst h
    induction as with
    | nil => rfl
    | cons p ps ih =>
      obtain ⟨k, e⟩ := p
      simp only [setExpr, List.map_cons] at ih ⊢
      by_cases hk : k = x
      · subst hk; simp [List.lookup]
      · have : (x == k) = false := by simpa using (fun h => hk h.symm)
        simp [hk, List.lookup, this, ih]
  · rw [setExpr_lookup_ne as n x e' h]

theorem setExpr_entries (as : List (String × Expr)) (n : String) (e' : Expr) :
    ∀ (i : Nat) (x : String) (a a' : Expr), as[i]? = some (x, a) → (setExpr as n e')[i]? = some (x, a') →
      x ≠ n → a = a' := by
  intro i x a a' h1 h2 hx
  simp only [setExpr, List.getElem?_map, h1, Option.map_some] at h2
  simp only [hx, if_false, Option.some.injEq, Prod.mk.injEq, true_and] at h2
  exact h2

theorem lookup_reverse_ne_none (l : List (String × String)) (n v : String) (h : (n, v) ∈ l) :
    l.reverse.lookup n ≠ none := by
  intro hc
  have := List.lookup_eq_none_iff.mp hc (n, v) (List.mem_reverse.mpr h)
  simp at this

/-- **a command-line override replaces an assignment's value without evaluating its expression**:
whatever expression the justfile gives the overridden variable — with any backticks, failing
functions or references — the whole evaluation of the module (every value, the backtick log, the
outcome) is the same as with any other expression in its place. -/
theorem override_skips_expression (ctx : Ctx) (as : List (String × Expr)) (n v : String) (e' : Expr)
    (overrides : List (String × String)) (fuel : Nat)
    (hn : (as.lookup n).isSome = true) (hov : (n, v) ∈ overrides) :
    evaluateAssignments ctx (setExpr as n e') overrides fuel = evaluateAssignments ctx as overrides fuel := by
  unfold evaluateAssignments
  have hfilter : overrides.filter (fun o => ((setExpr as n e').lookup o.1).isSome) =
      overrides.filter (fun o => (as.lookup o.1).isSome) := by
    congr 1
    funext o
    exact setExpr_lookup_isSome as n o.1 e'
  rw [hfilter]
  have hbound : lookupScope { scope := (overrides.filter (fun o => (as.lookup o.1).isSome)).reverse, log := [] } n ≠ none := by
    apply lookup_reverse_ne_none _ n v
    exact List.mem_filter.mpr ⟨hov, hn⟩
  exact (evalAll_override ctx n as (setExpr as n e')
    (fun x hx => (setExpr_lookup_ne as n x e' hx).symm) fuel as (setExpr as n e')
    (setExpr_keys as n e').symm (setExpr_entries as n e') _ hbound).symm

/-! ### lookup order: the module's own assignment comes first -/

/-- **the pinned lookup order made values depend on assignment names**: with `HEX := 'mine'`
defined by the user, `A := HEX` saw the built-in constant (the enclosing scope was consulted before
the module's own, not yet evaluated, assignment) while `Z := HEX` saw `'mine'`; the repaired order
gives `'mine'` to both (witness for the `fix:` commit). -/
theorem own_assignment_first :
    let as : List (String × Expr) := [("A", .var "HEX"), ("HEX", .str "mine"), ("Z", .var "HEX")]
    let parent : String → Option String := fun x => if x = "HEX" then some "0123456789abcdef" else none
    let old : Ctx := { bt := fun _ => none, envVar := fun _ => none, parent := parent, ownFirst := false }
    let new : Ctx := { old with ownFirst := true }
    ((evaluateAssignments old as [] 10).1.scope.lookup "A" = some "0123456789abcdef" ∧
     (evaluateAssignments old as [] 10).1.scope.lookup "Z" = some "mine") ∧
    ((evaluateAssignments new as [] 10).1.scope.lookup "A" = some "mine" ∧
     (evaluateAssignments new as [] 10).1.scope.lookup "Z" = some "mine") := by
  decide

/-- **Once.**  Every assignment's expression is evaluated at most once per evaluation of the module
(`evaluate_assignment` binds the value; a bound name is looked up, never evaluated again) - for every
table whose references are acyclic (`Ranked`: what the assignment resolver guarantees, C03), any
overrides, any behaviour of backticks and functions, any fuel, whether the evaluation succeeds or
fails half-way.  `logged` is the ghost list of names whose expression started evaluating. -/
theorem each_assignment_once (rank : String → Nat) (ctx : Ctx) (as : List (String × Expr))
    (overrides : List (String × String)) (fuel R : Nat)
    (hacyclic : Ranked rank as) (hR : ∀ x e, as.lookup x = some e → rank x < R)
    (hkeys : ∀ p ∈ as, as.lookup p.1 = some p.2) :
    (logged (evaluateAssignments ctx as overrides fuel).1.log).Nodup := by
  unfold evaluateAssignments
  simp only
  have hp : Pre rank R { scope := (overrides.filter (fun o => (as.lookup o.1).isSome)).reverse, log := [] } :=
    ⟨by simp [logged], by intro n hn; simp [logged] at hn⟩
  have := evalAll_once rank ctx as hacyclic fuel R hR as hkeys _ hp
  unfold Post at this
  split at this
  · exact this.nodup
  · exact this

/-- non-vacuity: `a := b + c`, `b := c`, `c := 'x'` is ranked by position -/
example : Ranked (fun n => if n = "a" then 2 else if n = "b" then 1 else 0)
    [("a", .concat (.var "b") (.var "c")), ("b", .var "c"), ("c", .str "x")] := by
  intro x e hx y hy hk
  by_cases ha : x = "a"
  · subst ha
    simp [List.lookup] at hx
    subst hx
    simp [Expr.vars] at hy
    rcases hy with rfl | rfl <;> decide
  · by_cases hb : x = "b"
    · subst hb
      simp [List.lookup] at hx
      subst hx
      simp [Expr.vars] at hy
      subst hy
      decide
    · by_cases hc : x = "c"
      · subst hc
        simp [List.lookup] at hx
        subst hx
        simp [Expr.vars] at hy
      · have h1 : (x == "a") = false := by simpa using ha
        have h2 : (x == "b") = false := by simpa using hb
        have h3 : (x == "c") = false := by simpa using hc
        simp [List.lookup, h1, h2, h3] at hx

/-! ### `clean()`: lexical path cleaning (model `Just.Path` of `Path::components`, the lexiclean crate and `PathBuf`) -/
section Clean
open Just.Path

/-- **a cleaned path has nothing left to clean**: for every path text `p`, cleaning the cleaned
component list again changes nothing -/
theorem clean_idempotent (p : List Char) :
    cleanComps (cleanComps (components p)) = cleanComps (components p) := by
  have hs := clean_shape (components p) (components_noInnerRoot p)
  unfold cleanComps
  rw [List.foldl_reverse]
  rw [foldr_fixed _ hs]

/-- **cleaning is idempotent on path TEXTS**: `lexiclean (lexiclean p) = lexiclean p` for every text —
the cleaned component list, written out with `PathBuf::push` and read again with
`Path::components`, is the same list (`components_render`), so `clean(clean(p)) = clean(p)` -/
theorem clean_text_idempotent (p : List Char) : cleanFn (cleanFn p) = cleanFn p := by
  unfold cleanFn
  simp only
  by_cases h : lexiclean p = [] ∧ p ≠ []
  · -- `clean` gives `.`; cleaning `.` gives `.`
    have hc : (if lexiclean p = [] ∧ p ≠ [] then ['.'] else lexiclean p) = ['.'] := by simp [h]
    rw [hc]
    decide
  · simp only [h, if_false]
    rw [lexiclean_idempotent]
    by_cases h2 : lexiclean p = []
    · have hp : p = [] := by
        apply Decidable.byContradiction
        intro hne; exact h ⟨h2, hne⟩
      simp [h2, hp]
    · simp [h2]

/-- **what `clean` removes** (README: "removing extra path separators, intermediate `.` components,
and `..` where possible"): the result holds no `.` component, the root only in first place, and no
`..` that follows a name or the root — every `..` left stands at the very front of a relative path,
where there is nothing it could cancel -/
theorem clean_result (p : List Char) :
    .cur ∉ cleanComps (components p) ∧
    (∀ c ∈ (cleanComps (components p)).tail, c ≠ .root) ∧
    (∀ pre a post, cleanComps (components p) = pre ++ a :: .parent :: post → a = .parent) := by
  have hs := clean_shape (components p) (components_noInnerRoot p)
  refine ⟨?_, ?_, ?_⟩
  · unfold cleanComps
    intro h
    exact shape_no_cur _ hs (List.mem_reverse.mp h)
  · unfold cleanComps
    intro c hc
    have := shape_root_only_last _ hs c
    apply this
    rw [List.tail_reverse] at hc
    exact List.mem_reverse.mp hc
  · intro pre a post heq
    unfold cleanComps at heq
    have hacc : (components p).foldl cleanStep [] = post.reverse ++ .parent :: a :: pre.reverse := by
      have := congrArg List.reverse heq
      simpa using this
    rw [hacc] at hs
    clear hacc heq
    -- walk down to the `..`
    have key : ∀ (x : List Comp), shapeN (x ++ Comp.parent :: a :: pre.reverse) = true → a = .parent := by
      intro x
      induction x with
      | nil =>
        intro h
        cases a with
        | parent => rfl
        | normal s => simp [shapeN, shapeP] at h
        | root => simp [shapeN, shapeP] at h
        | cur => simp [shapeN, shapeP] at h
      | cons c rest ih => intro h; exact ih (shapeN_tail c _ h)
    exact key _ hs

/-- non-vacuity: `a/./b/../../..//c` has all of it: it cleans to `../c` -/
example : cleanFn "a/./b/../../..//c".toList = "../c".toList ∧ cleanFn "foo/..".toList = ".".toList ∧
    cleanFn "/a/../..".toList = "/".toList := by decide

/-! #### `file_name`, `file_stem`, `extension`, `without_extension`, `join` -/

/-- **stem and extension recompose the file name**: whenever a path has an extension,
`file_stem(p) + "." + extension(p) = file_name(p)`, and the extension contains no dot -/
theorem stem_dot_extension (p e : List Char) (h : extensionOf p = some e) :
    ∃ f s, fileName p = some f ∧ fileStem p = some s ∧ f = s ++ '.' :: e ∧ '.' ∉ e := by
  unfold extensionOf at h
  cases hf : fileName p with
  | none => simp [hf] at h
  | some f =>
    simp only [hf, Option.bind_some] at h
    unfold fileStem
    simp only [hf, Option.bind_some]
    unfold rsplitFileAtDot at h ⊢
    split at h
    · simp at h
    · rename_i hne
      simp only [hne, if_false]
      cases hs : splitLastDot f with
      | none => simp [hs] at h
      | some ba =>
        obtain ⟨b, a⟩ := ba
        simp only [hs] at h ⊢
        split at h
        · simp at h
        · rename_i hb
          simp only [Option.bind_some, Option.some.injEq] at h
          subst h
          have hspec := splitLastDot_spec f b a hs
          refine ⟨f, b, rfl, ?_, hspec.1, hspec.2⟩
          simp [hb]

/-- **without an extension the stem is the whole name**: `file_stem(p) = file_name(p)` exactly when
`extension(p)` fails on a path that has a file name — no dot, only a leading dot (`.bashrc`), or `..` -/
theorem stem_is_name_without_extension (p f : List Char) (hf : fileName p = some f)
    (he : extensionOf p = none) : fileStem p = some f := by
  unfold extensionOf at he
  unfold fileStem
  simp only [hf, Option.bind_some] at he ⊢
  unfold rsplitFileAtDot at he ⊢
  split
  · rfl
  · rename_i hne
    simp only [hne, if_false] at he
    cases hs : splitLastDot f with
    | none => simp
    | some ba =>
      obtain ⟨b, a⟩ := ba
      simp only [hs] at he ⊢
      split
      · rfl
      · rename_i hb; simp [hb] at he

/-- **`without_extension` is the parent joined with the stem**, and **`join` is `PathBuf::push`
left to right**: an absolute operand replaces what came before, otherwise exactly one `/` separates
the operands unless the left one already ends in one (or is empty) -/
theorem without_extension_and_join (p w : List Char) (h : withoutExtension p = some w) :
    ∃ par stem, parentStr p = some par ∧ fileStem p = some stem ∧ w = joinPaths par [stem] := by
  unfold withoutExtension at h
  split at h
  · rename_i par stem hp hs
    exact ⟨par, stem, hp, hs, by simpa [joinPaths] using (Option.some.inj h).symm⟩
  · cases h

theorem join_absolute_replaces (base w : List Char) (rest : List Char) (hw : w = '/' :: rest) :
    joinPaths base [w] = w := by
  subst hw; simp [joinPaths, pushStr]

/-- the two component scanners (with and without offsets) see the same components -/
theorem scanners_agree (p : List Char) : (componentsPos p).map Prod.fst = components p :=
  componentsPos_fst p

/-- non-vacuity: the README's examples -/
example : fileName "/foo/bar.txt".toList = some "bar.txt".toList ∧ extensionOf "/foo/bar.txt".toList = some "txt".toList ∧
    fileStem "/foo/bar.txt".toList = some "bar".toList ∧ parentStr "/foo/bar.txt".toList = some "/foo".toList ∧
    withoutExtension "/foo/bar.txt".toList = some "/foo/bar".toList ∧
    joinPaths "foo/bar".toList ["baz".toList] = "foo/bar/baz".toList ∧
    extensionOf ".bashrc".toList = none ∧ fileStem ".bashrc".toList = some ".bashrc".toList ∧
    extensionOf "foo.".toList = some [] ∧ parentStr "/".toList = none := by decide

end Clean

/-! ### `encode_uri_component` (model `Just.Percent` over the UTF-8 bytes) -/
open Just.Percent in
/-- **percent-encoding loses nothing and writes only harmless bytes**: decoding the encoded text
gives back exactly the bytes of the argument, and every byte written is an ASCII letter or digit,
one of `- _ . ! ~ * ' ( )`, a `%`, or a hexadecimal digit — for every byte string -/
theorem encode_uri_component_roundtrip (bs : List Nat) (h : ∀ b ∈ bs, b < 256) :
    decode (encode bs) = some bs ∧
    ∀ c ∈ encode bs, isSafe c = true ∨ c = 37 ∨ (unhex c).isSome = true :=
  ⟨decode_encode bs h, encode_output bs h⟩

open Just.Percent in
/-- non-vacuity: `a b/é` (bytes 97 32 98 47 195 169) becomes `a%20b%2F%C3%A9` -/
example : encode [97, 32, 98, 47, 195, 169] = "a%20b%2F%C3%A9".toList.map Char.toNat := by decide

/-! ### `trim_start_matches` / `trim_end_matches`: "repeatedly remove prefixes / suffixes" -/

/-- **`trim_start_matches(s, pat)`** (non-empty `pat`): the text is some number of copies of `pat`
followed by the result, and the result does not start with `pat` — every leading copy is removed,
nothing else is -/
theorem trim_start_matches_spec (s pat : List Char) (hp : pat ≠ []) :
    ∃ k, s = (List.replicate k pat).flatten ++ trimStartMatchesL pat (s.length + 1) s ∧
      pat.isPrefixOf (trimStartMatchesL pat (s.length + 1) s) = false :=
  trimStartMatchesL_spec pat hp (s.length + 1) s (by omega)

/-- **`trim_end_matches(s, pat)`**: the result followed by some number of copies of `pat` is the text,
and the result does not end with `pat` -/
theorem trim_end_matches_spec (s pat : List Char) (hp : pat ≠ []) :
    ∃ k, s = trimEndMatchesL pat (s.length + 1) s ++ (List.replicate k pat).flatten ∧
      ¬ pat <:+ trimEndMatchesL pat (s.length + 1) s :=
  trimEndMatchesL_spec pat hp (s.length + 1) s (by omega)

/-- `trim_start` is idempotent and its result does not start with white space -/
theorem trim_start_spec (l : List Char) :
    trimStartL (trimStartL l) = trimStartL l ∧ ∀ c, (trimStartL l).head? = some c → isWs c = false :=
  ⟨trimStartL_idem l, trimStartL_head l⟩

example : trimStartMatchesL "ab".toList 8 "ababxab".toList = "xab".toList := by decide

/-! ### `absolute_path()`: the working directory joined with the argument, cleaned -/
section AbsolutePath
open Just.Path

/-- **`absolute_path` gives an absolute path**: whatever the argument, in an absolute working
directory the result starts with `/` -/
theorem absolute_path_is_absolute (wd p t : List Char) (hwd : wd = '/' :: t) :
    ∃ t', absolutePath wd p = '/' :: t' := by
  obtain ⟨u, hu⟩ := pushStr_absolute wd p t hwd
  unfold absolutePath
  rw [hu]
  exact lexiclean_absolute u

/-- **an absolute argument ignores the working directory**: it is only cleaned -/
theorem absolute_path_of_absolute (wd t : List Char) : absolutePath wd ('/' :: t) = lexiclean ('/' :: t) := by
  simp [absolutePath, pushStr]

/-- **`absolute_path` is idempotent**: applying it to its own result changes nothing (the result is
absolute, so the working directory is not joined again, and it is clean, so nothing is removed) -/
theorem absolute_path_idempotent (wd p t : List Char) (hwd : wd = '/' :: t) :
    absolutePath wd (absolutePath wd p) = absolutePath wd p := by
  obtain ⟨u, hu⟩ := absolute_path_is_absolute wd p t hwd
  rw [hu, absolute_path_of_absolute, ← hu]
  unfold absolutePath
  exact lexiclean_idempotent _

/-- non-vacuity: in `/w/d`, `absolute_path("a/../b/./c")` is `/w/d/b/c` and `absolute_path("../x")` is `/w/x` -/
example : absolutePath "/w/d".toList "a/../b/./c".toList = "/w/d/b/c".toList ∧
    absolutePath "/w/d".toList "../x".toList = "/w/x".toList := by decide

end AbsolutePath

/-! ### the case conversions (model `Just.Case` of `heck::transform`, ASCII text as code points) -/
section CaseConversion
open Just.Case

/-- **the words** every conversion writes are non-empty runs of letters and digits, and written one
after the other they are exactly the letters and digits of the text, in order: no character is
lost, invented or moved, and no separator of the input survives -/
theorem case_words (s : List Nat) :
    (∀ w ∈ words s, w ≠ [] ∧ ∀ c ∈ w, isAlnum c = true) ∧ (words s).flatten = s.filter isAlnum :=
  ⟨words_alnum s, words_flatten s⟩

/-- **`kebabcase` writes kebab-case**: only lower-case letters, digits and `-` -/
theorem kebabcase_alphabet (s : List Nat) : ∀ c ∈ kebab s, isLower c = true ∨ isDigit c = true ∨ c = 45 := by
  intro c hc
  rcases mem_joinWith [45] _ c hc with h | ⟨w, hw, hcw⟩
  · right; right; simpa using h
  · have := (lowered_words s w hw).2 c hcw
    rcases (alnum_iff c).mp this.1 with h | h | h
    · exact Or.inl h
    · rw [this.2] at h; cases h
    · exact Or.inr (Or.inl h)

/-- **`kebabcase` keeps the letters and digits**: without its separators the result is the
lower-cased letters and digits of the text, in order -/
theorem kebabcase_keeps_letters_and_digits (s : List Nat) :
    (kebab s).filter isAlnum = (s.filter isAlnum).map toLower := by
  unfold kebab
  rw [filter_joinWith [45] (by decide) _ (fun w hw c hc => ((lowered_words s w hw).2 c hc).1)]
  rw [← words_flatten s]
  have hl : lowerWord = List.map toLower := by funext w; rfl
  simp [hl, List.map_flatten]

/-- **`kebabcase` and `snakecase` are idempotent**: the result is a fixed point — a text in the style
is cut back into its own words -/
theorem kebabcase_idempotent (s : List Nat) : kebab (kebab s) = kebab s :=
  lower_style_idempotent 45 (by decide) s

theorem snakecase_idempotent (s : List Nat) : snake (snake s) = snake s :=
  lower_style_idempotent 95 (by decide) s

/-- **the shouty styles are the upper-cased lower styles**: `shoutysnakecase(s)` is `snakecase(s)` with
every letter in upper case, and likewise for kebab -/
theorem shouty_is_uppercase_of_lower_style (sep : Nat) (hsep : toUpper sep = sep) (ws : List (List Nat)) :
    (joinWith [sep] (ws.map lowerWord)).map toUpper = joinWith [sep] (ws.map upperWord) := by
  have hc : ∀ c, toUpper (toLower c) = toUpper c := by
    intro c
    unfold toUpper toLower
    by_cases hu : isUpper c = true
    · have := (upper_iff c).mp hu
      have hl : isLower (c + 32) = true := by rw [lower_iff]; omega
      have hl2 : isLower c = false := by
        cases h : isLower c with
        | false => rfl
        | true => have := (lower_iff c).mp h; omega
      simp [hu, hl, hl2]
    · simp [hu]
  have hw : ∀ w : List Nat, (lowerWord w).map toUpper = upperWord w := by
    intro w; simp [lowerWord, upperWord, hc]
  induction ws with
  | nil => simp [joinWith]
  | cons w ws ih =>
    cases ws with
    | nil => simp [joinWith, hw]
    | cons w2 ws => 
      simp only [List.map_cons, joinWith, List.map_append, hw, hsep, List.map_nil] at ih ⊢
      rw [ih]

theorem shoutysnakecase_is_uppercase_of_snakecase (s : List Nat) : shoutySnake s = (snake s).map toUpper :=
  (shouty_is_uppercase_of_lower_style 95 (by decide) (words s)).symm

theorem shoutykebabcase_is_uppercase_of_kebabcase (s : List Nat) : shoutyKebab s = (kebab s).map toUpper :=
  (shouty_is_uppercase_of_lower_style 45 (by decide) (words s)).symm

/-- **`uppercamelcase` keeps the letters and digits**: read without regard to case, the result is the text's letters and
digits in order — nothing but the case changes and the separators go -/
theorem upperCamel_keeps_letters_and_digits (s : List Nat) :
    (upperCamel s).map toLower = (s.filter isAlnum).map toLower := by
  unfold upperCamel
  rw [joinWith_nil, ← words_flatten s]
  induction words s with
  | nil => rfl
  | cons w ws ih => simp [capWord_lower, ih]


/-- non-vacuity and the boundaries the styles are known for: `fooBarBAZQux x2Y, HTTPServer` -/
example : kebab ("fooBarBAZQux x2Y, HTTPServer".toList.map Char.toNat)
    = "foo-bar-baz-qux-x2-y-http-server".toList.map Char.toNat := by decide

end CaseConversion

end Just.Props.C04
