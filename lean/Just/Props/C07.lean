/-
C07 — argument and override values reach commands byte-for-byte.
`quote(x)` always expands to exactly one shell word equal to x, for EVERY string x, and no value
can open a further word (hence a further command) in the surrounding command line.
-/
import Just.Model.Quote
namespace Just.Props.C07
open Just.Quote

theorem shRun_append (st : St) (a b : List Char) :
    shRun st (a ++ b) = (shRun st a).bind (fun st' => shRun st' b) := by
  induction a generalizing st with
  | nil => rfl
  | cons c cs ih =>
    simp only [List.cons_append, shRun]
    cases stepC st c with
    | none => rfl
    | some st' => exact ih st'

theorem step_sq_quote (cur : List Char) (acc : List (List Char)) :
    stepC { mode := .sq, cur := cur, acc := acc } '\'' = some { mode := .word, cur := cur, acc := acc } := by
  simp [stepC]

theorem step_sq_other (c : Char) (h : c ≠ '\'') (cur : List Char) (acc : List (List Char)) :
    stepC { mode := .sq, cur := cur, acc := acc } c = some { mode := .sq, cur := c :: cur, acc := acc } := by
  simp [stepC, h]

theorem step_word_bs (cur : List Char) (acc : List (List Char)) :
    stepC { mode := .word, cur := cur, acc := acc } '\\' = some { mode := .esc, cur := cur, acc := acc } := by
  have : ('\\' = '\'') = False := by decide
  simp [stepC, this]

theorem step_esc_quote (cur : List Char) (acc : List (List Char)) :
    stepC { mode := .esc, cur := cur, acc := acc } '\'' =
      some { mode := .word, cur := '\'' :: cur, acc := acc } := by
  have : ('\'' = '\n') = False := by decide
  simp [stepC, this]

theorem step_word_quote (cur : List Char) (acc : List (List Char)) :
    stepC { mode := .word, cur := cur, acc := acc } '\'' = some { mode := .sq, cur := cur, acc := acc } := by
  simp [stepC]

theorem step_out_quote (cur : List Char) (acc : List (List Char)) :
    stepC { mode := .out, cur := cur, acc := acc } '\'' = some { mode := .sq, cur := [], acc := acc } := by
  simp [stepC]

/-- inside single quotes the quoted body of `s`, followed by the closing quote, appends exactly
`s` to the current word -/
theorem sq_body (s : List Char) (cur : List Char) (acc : List (List Char)) :
    shRun { mode := .sq, cur := cur, acc := acc } (quoteChars s ++ ['\'']) =
      some { mode := .word, cur := s.reverse ++ cur, acc := acc } := by
  induction s generalizing cur with
  | nil => simp [quoteChars, shRun, step_sq_quote]
  | cons c cs ih =>
    by_cases hc : c = '\''
    · subst hc
      simp only [quoteChars, if_true, List.cons_append]
      rw [shRun, step_sq_quote]; simp only
      rw [shRun, step_word_bs]; simp only
      rw [shRun, step_esc_quote]; simp only
      rw [shRun, step_word_quote]; simp only
      rw [ih]
      simp
    · simp only [quoteChars, hc, if_false, List.cons_append]
      rw [shRun, step_sq_other c hc]; simp only
      rw [ih]
      simp

/-- `quote(s)` met between words or inside a word appends exactly `s` to the current word and
leaves the recogniser inside that word — it neither ends the word nor starts another one. -/
theorem quote_segment (s : List Char) (cur : List Char) (acc : List (List Char)) :
    shRun { mode := .word, cur := cur, acc := acc } (quote s) =
      some { mode := .word, cur := s.reverse ++ cur, acc := acc } ∧
    shRun { mode := .out, cur := cur, acc := acc } (quote s) =
      some { mode := .word, cur := s.reverse, acc := acc } := by
  constructor
  · unfold quote
    rw [shRun, step_word_quote]; simp only
    exact sq_body s cur acc
  · unfold quote
    rw [shRun, step_out_quote]; simp only
    have := sq_body s [] acc
    simpa using this

/-- **`{{quote(x)}}` is exactly one shell word equal to x** — for every string x of every length
over the full character set (NUL cannot occur in an argument). -/
theorem quote_one_word (s : List Char) : shSplit (quote s) = some [s] := by
  unfold shSplit
  have := (quote_segment s [] []).2
  simp only [init]
  rw [this]
  simp [finish]

/-! ### no value can start another word (or command) -/

/-- what of the recogniser's state the rest of the command line can depend on -/
def shape (st : St) : Mode × Nat := (st.mode, st.acc.length)

theorem stepC_shape (st st' : St) (c : Char) (h : shape st = shape st') :
    (stepC st c).map shape = (stepC st' c).map shape := by
  obtain ⟨m, cur, acc⟩ := st
  obtain ⟨m', cur', acc'⟩ := st'
  simp only [shape, Prod.mk.injEq] at h
  obtain ⟨hm, hl⟩ := h
  subst hm
  cases m <;> simp only [stepC] <;> (repeat' split) <;> simp_all [shape]

theorem shRun_shape (input : List Char) : ∀ st st', shape st = shape st' →
    (shRun st input).map shape = (shRun st' input).map shape := by
  induction input with
  | nil => intro st st' h; simp [shRun, h]
  | cons c cs ih =>
    intro st st' h
    have hs := stepC_shape st st' c h
    simp only [shRun]
    cases h1 : stepC st c with
    | none =>
      rw [h1] at hs
      cases h2 : stepC st' c with
      | none => rfl
      | some x => rw [h2] at hs; cases hs
    | some x =>
      rw [h1] at hs
      cases h2 : stepC st' c with
      | none => rw [h2] at hs; cases hs
      | some y =>
        rw [h2] at hs
        simp only [Option.map_some, Option.some.injEq] at hs
        exact ih x y hs

theorem finish_shape (st st' : St) (h : shape st = shape st') :
    (finish st).map List.length = (finish st').map List.length := by
  obtain ⟨m, cur, acc⟩ := st
  obtain ⟨m', cur', acc'⟩ := st'
  simp only [shape, Prod.mk.injEq] at h
  obtain ⟨hm, hl⟩ := h
  subst hm
  cases m <;> simp [finish, hl]

/-- **injection freedom**: in any command line `pre ++ quote(x) ++ post` in which the interpolation
stands between words or inside an unquoted word (i.e. `pre` does not leave a quote or a backslash
open), replacing the value x by any other value y changes neither whether the shell can parse the
line nor the NUMBER of words it sees: no value can close the word it is in, open a new word, or
start a new command. -/
theorem quote_injection_free (pre post x y : List Char)
    (hpre : ∀ st, shRun init pre = some st → st.mode = .out ∨ st.mode = .word) :
    (shSplit (pre ++ quote x ++ post)).map List.length =
      (shSplit (pre ++ quote y ++ post)).map List.length := by
  unfold shSplit
  rw [List.append_assoc, List.append_assoc, shRun_append, shRun_append]
  cases hp : shRun init pre with
  | none => rfl
  | some st =>
    simp only [Option.bind_some]
    rw [shRun_append, shRun_append]
    obtain ⟨m, cur, acc⟩ := st
    have hm := hpre _ hp
    simp only at hm
    have key : ∃ sx sy, shRun { mode := m, cur := cur, acc := acc } (quote x) = some sx ∧
        shRun { mode := m, cur := cur, acc := acc } (quote y) = some sy ∧ shape sx = shape sy := by
      rcases hm with hm | hm <;> subst hm
      · exact ⟨_, _, (quote_segment x cur acc).2, (quote_segment y cur acc).2, rfl⟩
      · exact ⟨_, _, (quote_segment x cur acc).1, (quote_segment y cur acc).1, rfl⟩
    obtain ⟨sx, sy, hx, hy, hsh⟩ := key
    rw [hx, hy]
    simp only [Option.bind_some]
    have hrun := shRun_shape post sx sy hsh
    cases h1 : shRun sx post with
    | none =>
      rw [h1] at hrun
      cases h2 : shRun sy post with
      | none => rfl
      | some b => rw [h2] at hrun; cases hrun
    | some a =>
      rw [h1] at hrun
      cases h2 : shRun sy post with
      | none => rw [h2] at hrun; cases hrun
      | some b =>
        rw [h2] at hrun
        simp only [Option.map_some, Option.some.injEq] at hrun
        exact finish_shape a b hrun

/-- non-vacuity: `printf %s␣` leaves the recogniser between words, and the whole line
`printf %s 'it'\''s' >f` is read as the four words printf, %s … -/
example : ∀ st, shRun init "printf x ".toList = some st → st.mode = .out ∨ st.mode = .word := by
  intro st h
  simp [shRun, stepC, init, isBlank, isSpecial] at h
  subst h
  left; rfl

example : shSplit (quote "it's".toList) = some ["it's".toList] := quote_one_word _

/-- the quoted text itself: `it's` becomes `'it'\''s'` -/
example : quote "it's".toList = "'it'\\''s'".toList := by decide

end Just.Props.C07
