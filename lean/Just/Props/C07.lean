/-
C07 — argument and override values reach commands byte-for-byte.
`quote(x)` always expands to exactly one shell word equal to x, for EVERY string x, and no value
can open a further word (hence a further command) in the surrounding command line.
-/
import Just.Model.Quote
import Just.Lemmas.Channels
namespace Just.Props.C07
open Just.Quote

theorem shRun_append (st : St) (a b : List Char) :
    shRun st (a ++ b) = (shRun st a).bind (fun st' => shRun st' b) := by
  induction a generalizing st with
  | nil => rfl
  | cons c cs ih =>
    simp only [List.cons_append, shRun]
    cases stepC st c with
    | none => rfl
    | some st' => exact ih st'

theorem step_sq_quote (cur : List Char) (acc : List (List Char)) :
    stepC { mode := .sq, cur := cur, acc := acc } '\'' = some { mode := .word, cur := cur, acc := acc } := by
  simp [stepC]

theorem step_sq_other (c : Char) (h : c ≠ '\'') (cur : List Char) (acc : List (List Char)) :
    stepC { mode := .sq, cur := cur, acc := acc } c = some { mode := .sq, cur := c :: cur, acc := acc } := by
  simp [stepC, h]

theorem step_word_bs (cur : List Char) (acc : List (List Char)) :
    stepC { mode := .word, cur := cur, acc := acc } '\\' = some { mode := .esc, cur := cur, acc := acc } := by
  have : ('\\' = '\'') = False := by decide
  simp [stepC, this]

theorem step_esc_quote (cur : List Char) (acc : List (List Char)) :
    stepC { mode := .esc, cur := cur, acc := acc } '\'' =
      some { mode := .word, cur := '\'' :: cur, acc := acc } := by
  have : ('\'' = '\n') = False := by decide
  simp [stepC, this]

theorem step_word_quote (cur : List Char) (acc : List (List Char)) :
    stepC { mode := .word, cur := cur, acc := acc } '\'' = some { mode := .sq, cur := cur, acc := acc } := by
  simp [stepC]

theorem step_out_quote (cur : List Char) (acc : List (List Char)) :
    stepC { mode := .out, cur := cur, acc := acc } '\'' = some { mode := .sq, cur := [], acc := acc } := by
  simp [stepC]

/-- inside single quotes the quoted body of `s`, followed by the closing quote, appends exactly
`s` to the current word -/
theorem sq_body (s : List Char) (cur : List Char) (acc : List (List Char)) :
    shRun { mode := .sq, cur := cur, acc := acc } (quoteChars s ++ ['\'']) =
      some { mode := .word, cur := s.reverse ++ cur, acc := acc } := by
  induction s generalizing cur with
  | nil => simp [quoteChars, shRun, step_sq_quote]
  | cons c cs ih =>
    by_cases hc : c = '\''
    · subst hc
      simp only [quoteChars, if_true, List.cons_append]
      rw [shRun, step_sq_quote]; simp only
      rw [shRun, step_word_bs]; simp only
      rw [shRun, step_esc_quote]; simp only
      rw [shRun, step_word_quote]; simp only
      rw [ih]
      simp
    · simp only [quoteChars, hc, if_false, List.cons_append]
      rw [shRun, step_sq_other c hc]; simp only
      rw [ih]
      simp

/-- `quote(s)` met between words or inside a word appends exactly `s` to the current word and
leaves the recogniser inside that word — it neither ends the word nor starts another one. -/
theorem quote_segment (s : List Char) (cur : List Char) (acc : List (List Char)) :
    shRun { mode := .word, cur := cur, acc := acc } (quote s) =
      some { mode := .word, cur := s.reverse ++ cur, acc := acc } ∧
    shRun { mode := .out, cur := cur, acc := acc } (quote s) =
      some { mode := .word, cur := s.reverse, acc := acc } := by
  constructor
  · unfold quote
    rw [shRun, step_word_quote]; simp only
    exact sq_body s cur acc
  · unfold quote
    rw [shRun, step_out_quote]; simp only
    have := sq_body s [] acc
    simpa using this

/-- **`{{quote(x)}}` is exactly one shell word equal to x** — for every string x of every length
over the full character set (NUL cannot occur in an argument). -/
theorem quote_one_word (s : List Char) : shSplit (quote s) = some [s] := by
  unfold shSplit
  have := (quote_segment s [] []).2
  simp only [init]
  rw [this]
  simp [finish]

/-! ### no value can start another word (or command) -/

/-- what of the recogniser's state the rest of the command line can depend on -/
def shape (st : St) : Mode × Nat := (st.mode, st.acc.length)

theorem stepC_shape (st st' : St) (c : Char) (h : shape st = shape st') :
    (stepC st c).map shape = (stepC st' c).map shape := by
  obtain ⟨m, cur, acc⟩ := st
  obtain ⟨m', cur', acc'⟩ := st'
  simp only [shape, Prod.mk.injEq] at h
  obtain ⟨hm, hl⟩ := h
  subst hm
  cases m <;> simp only [stepC] <;> (repeat' split) <;> simp_all [shape]

theorem shRun_shape (input : List Char) : ∀ st st', shape st = shape st' →
    (shRun st input).map shape = (shRun st' input).map shape := by
  induction input with
  | nil => intro st st' h; simp [shRun, h]
  | cons c cs ih =>
    intro st st' h
    have hs := stepC_shape st st' c h
    simp only [shRun]
    cases h1 : stepC st c with
    | none =>
      rw [h1] at hs
      cases h2 : stepC st' c with
      | none => rfl
      | some x => rw [h2] at hs; cases hs
    | some x =>
      rw [h1] at hs
      cases h2 : stepC st' c with
      | none => rw [h2] at hs; cases hs
      | some y =>
        rw [h2] at hs
        simp only [Option.map_some, Option.some.injEq] at hs
        exact ih x y hs

theorem finish_shape (st st' : St) (h : shape st = shape st') :
    (finish st).map List.length = (finish st').map List.length := by
  obtain ⟨m, cur, acc⟩ := st
  obtain ⟨m', cur', acc'⟩ := st'
  simp only [shape, Prod.mk.injEq] at h
  obtain ⟨hm, hl⟩ := h
  subst hm
  cases m <;> simp [finish, hl]

/-- **injection freedom**: in any command line `pre ++ quote(x) ++ post` in which the interpolation
stands between words or inside an unquoted word (i.e. `pre` does not leave a quote or a backslash
open), replacing the value x by any other value y changes neither whether the shell can parse the
line nor the NUMBER of words it sees: no value can close the word it is in, open a new word, or
start a new command. -/
theorem quote_injection_free (pre post x y : List Char)
    (hpre : ∀ st, shRun init pre = some st → st.mode = .out ∨ st.mode = .word) :
    (shSplit (pre ++ quote x ++ post)).map List.length =
      (shSplit (pre ++ quote y ++ post)).map List.length := by
  unfold shSplit
  rw [List.append_assoc, List.append_assoc, shRun_append, shRun_append]
  cases hp : shRun init pre with
  | none => rfl
  | some st =>
    simp only [Option.bind_some]
    rw [shRun_append, shRun_append]
    obtain ⟨m, cur, acc⟩ := st
    have hm := hpre _ hp
    simp only at hm
    have key : ∃ sx sy, shRun { mode := m, cur := cur, acc := acc } (quote x) = some sx ∧
        shRun { mode := m, cur := cur, acc := acc } (quote y) = some sy ∧ shape sx = shape sy := by
      rcases hm with hm | hm <;> subst hm
      · exact ⟨_, _, (quote_segment x cur acc).2, (quote_segment y cur acc).2, rfl⟩
      · exact ⟨_, _, (quote_segment x cur acc).1, (quote_segment y cur acc).1, rfl⟩
    obtain ⟨sx, sy, hx, hy, hsh⟩ := key
    rw [hx, hy]
    simp only [Option.bind_some]
    have hrun := shRun_shape post sx sy hsh
    cases h1 : shRun sx post with
    | none =>
      rw [h1] at hrun
      cases h2 : shRun sy post with
      | none => rfl
      | some b => rw [h2] at hrun; cases hrun
    | some a =>
      rw [h1] at hrun
      cases h2 : shRun sy post with
      | none => rw [h2] at hrun; cases hrun
      | some b =>
        rw [h2] at hrun
        simp only [Option.map_some, Option.some.injEq] at hrun
        exact finish_shape a b hrun

/-- non-vacuity: `printf %s␣` leaves the recogniser between words, and the whole line
`printf %s 'it'\''s' >f` is read as the four words printf, %s … -/
example : ∀ st, shRun init "printf x ".toList = some st → st.mode = .out ∨ st.mode = .word := by
  intro st h
  simp [shRun, stepC, init, isBlank, isSpecial] at h
  subst h
  left; rfl

example : shSplit (quote "it's".toList) = some ["it's".toList] := quote_one_word _

/-- the quoted text itself: `it's` becomes `'it'\''s'` -/
example : quote "it's".toList = "'it'\\''s'".toList := by decide

/-! ### the other two channels: `"$1"` … `"$@"` / `$0`, and exported parameters

`Fits qs ws` is what the argument parser guarantees (C05 `group_arity`): no word is left over. -/
open Just.Channels Just.Args Just.EnvExport

/-- **positional channel, linewise recipes**: under positional-arguments the child's argv is the
shell and its arguments, the command, then the recipe name (`$0`) and then the words of the
command line — every one of them, unchanged, one argv element per word, in order (`"$1"` …,
`"$@"`) — followed only by defaults of omitted parameters.  No word is split, joined or dropped,
whatever characters it contains. -/
theorem positional_channel_linewise (qs : List NParam) (ws bound : List String) (sc : Scope)
    (pos shell : List String) (cmd name : String)
    (hf : Fits qs ws) (h : evalParams qs ws bound = some (sc, pos)) :
    ∃ tail, linewiseArgv shell cmd true name pos = shell ++ [cmd, name] ++ ws ++ tail := by
  obtain ⟨tail, ht⟩ := evalParams_positional qs ws bound sc pos hf h
  exact ⟨tail, by simp [linewiseArgv, ht]⟩

/-- `$0` is the recipe name and `$k` is the k-th word, as indices into the child's argv -/
theorem positional_channel_index (qs : List NParam) (ws bound : List String) (sc : Scope)
    (pos shell : List String) (cmd name : String)
    (hf : Fits qs ws) (h : evalParams qs ws bound = some (sc, pos)) :
    (linewiseArgv shell cmd true name pos)[shell.length + 1]? = some name ∧
    ∀ k (hk : k < ws.length), (linewiseArgv shell cmd true name pos)[shell.length + 2 + k]? = some ws[k] := by
  obtain ⟨tail, ht⟩ := positional_channel_linewise qs ws bound sc pos shell cmd name hf h
  rw [ht]
  constructor
  · simp
  · intro k hk
    have : shell ++ [cmd, name] ++ ws ++ tail = (shell ++ [cmd, name]) ++ (ws ++ tail) := by simp
    rw [this, List.getElem?_append_right (by simp)]
    have : shell.length + 2 + k - (shell ++ [cmd, name]).length = k := by simp
    rw [this, List.getElem?_append_left hk]
    simp

/-- **positional channel, shebang and `[script]` recipes**: interpreter, script path, then the words -/
theorem positional_channel_script (qs : List NParam) (ws bound : List String) (sc : Scope)
    (pos interp : List String) (path : String)
    (hf : Fits qs ws) (h : evalParams qs ws bound = some (sc, pos)) :
    ∃ tail, scriptArgv interp path true pos = interp ++ [path] ++ ws ++ tail := by
  obtain ⟨tail, ht⟩ := evalParams_positional qs ws bound sc pos hf h
  exact ⟨tail, by simp [scriptArgv, ht]⟩

/-- without positional-arguments no value reaches argv at all -/
theorem positional_off (pos shell : List String) (cmd name path : String) :
    linewiseArgv shell cmd false name pos = shell ++ [cmd] ∧
    scriptArgv shell path false pos = shell ++ [path] := by
  simp [linewiseArgv, scriptArgv]

/-- **export channel, singular parameter**: a word given for an exported parameter (`$p`, or any
parameter under `set export`) is the value of the environment variable `p` in the child —
whatever just's own environment, a loaded `.env` file, the variables of the enclosing modules
and the `unexport` list contain. -/
theorem export_channel_singular (base : Env) (dotenv : List (String × String)) (se : Bool)
    (un : List String) (outer : List Scope)
    (qs : List NParam) (ws bound : List String) (sc : Scope) (pos : List String)
    (h : evalParams qs ws bound = some (sc, pos)) (hnd : (qs.map (·.name)).Nodup)
    (i : Nat) (hq : i < qs.length) (hw : i < ws.length)
    (hsing : ∀ j (hj : j < qs.length), j ≤ i → (qs[j]).p.isVariadic = false)
    (hexp : (qs[i]).exported = true ∨ se = true) :
    recipeEnv base dotenv se un outer sc (qs[i]).name = some ws[i] := by
  obtain ⟨hs, he⟩ := evalParams_singular qs ws bound sc pos i hq hw h hsing
  have hn := evalParams_names qs ws bound sc pos h
  have hmem : sc[i] ∈ sc := List.getElem_mem hs
  have hx : isExported se sc[i] = true := by
    rw [he]
    rcases hexp with hexp | hexp <;> simp [isExported, mkBinding, hexp]
  have := exportedIn_of_mem se sc (by rw [hn.1]; exact hnd) _ hmem hx
  rw [he] at this
  exact recipeEnv_param base dotenv se un outer sc _ _ this

/-- **export channel, variadic parameter**: the remaining words joined by single spaces -/
theorem export_channel_variadic (base : Env) (dotenv : List (String × String)) (se : Bool)
    (un : List String) (outer : List Scope)
    (qs : List NParam) (ws bound : List String) (sc : Scope) (pos : List String)
    (h : evalParams qs ws bound = some (sc, pos)) (hnd : (qs.map (·.name)).Nodup)
    (i : Nat) (hq : i < qs.length) (hw : i < ws.length)
    (hsing : ∀ j (hj : j < qs.length), j < i → (qs[j]).p.isVariadic = false)
    (hvar : (qs[i]).p.isVariadic = true)
    (hexp : (qs[i]).exported = true ∨ se = true) :
    recipeEnv base dotenv se un outer sc (qs[i]).name = some (joinWith " " (ws.drop i)) := by
  obtain ⟨hs, he⟩ := evalParams_variadic qs ws bound sc pos i hq hw h hsing hvar
  have hn := evalParams_names qs ws bound sc pos h
  have hmem : sc[i] ∈ sc := List.getElem_mem hs
  have hx : isExported se sc[i] = true := by
    rw [he]
    rcases hexp with hexp | hexp <;> simp [isExported, mkBinding, hexp]
  have := exportedIn_of_mem se sc (by rw [hn.1]; exact hnd) _ hmem hx
  rw [he] at this
  exact recipeEnv_param base dotenv se un outer sc _ _ this

/-- **quote channel**: `{{quote(p)}}` for a singular parameter given the word `w` is one shell word
equal to `w` — the third channel composed from the binding and `quote_one_word` -/
theorem quote_channel_singular (qs : List NParam) (ws bound : List String) (sc : Scope) (pos : List String)
    (h : evalParams qs ws bound = some (sc, pos))
    (i : Nat) (hq : i < qs.length) (hw : i < ws.length)
    (hsing : ∀ j (hj : j < qs.length), j ≤ i → (qs[j]).p.isVariadic = false) :
    ∃ hs : i < sc.length, shSplit (quote (sc[i]).value.toList) = some [(ws[i]).toList] := by
  obtain ⟨hs, he⟩ := evalParams_singular qs ws bound sc pos i hq hw h hsing
  refine ⟨hs, ?_⟩
  rw [he]
  exact quote_one_word _

/-- the values the three channels deliver are the ones C05 binds -/
theorem channels_bind_what_C05_binds (qs : List NParam) (ws bound : List String) (sc : Scope)
    (pos : List String) (h : evalParams qs ws bound = some (sc, pos)) :
    bindArgs (qs.map (·.p)) ws bound = .ok (bound ++ sc.map (·.value)) :=
  evalParams_values qs ws bound sc pos h

/-- non-vacuity: `r $x *rest` called with three words, one of them a shell payload; a `.env` file
and an outer `export x` try to shadow the parameter -/
example :
    let qs : List NParam := [⟨"x", true, ⟨.singular, none⟩⟩, ⟨"rest", false, ⟨.star, none⟩⟩]
    let ws := ["'; touch canary; '", "a b", "$(c)"]
    (evalParams qs ws []).map (·.2) = some ws ∧
    (evalParams qs ws []).map (fun r => recipeEnv (fun _ => none) [("x", "dotenv")] false ["x"]
      [[⟨"x", "outer", true, false⟩]] r.1 "x") = some (some "'; touch canary; '") := by
  decide

end Just.Props.C07
