/-
C20 — non-executing commands are deterministic.
-/
import Just.Model.Determinism
import Just.Lemmas.Table
import Just.Lemmas.Define
namespace Just.Props.C20
open Just.Determinism

/-- **the dump is a function of the justfile**: with the ordered set, two processes that happen to
hold the same set of unexports in ANY two iteration orders print the same thing — for any name
type with a total order (what `BTreeSet` requires) -/
theorem ordered_dump_independent_of_iteration_order {α : Type} (le : α → α → Bool)
    (trans : ∀ a b c, le a b → le b c → le a c) (total : ∀ a b, le a b || le b a)
    (antisymm : ∀ a b, le a b → le b a → a = b)
    (tables : List (List α)) (σ₁ σ₂ : List α) (h : σ₁.Perm σ₂) :
    dumpOrdered le ⟨tables, σ₁⟩ = dumpOrdered le ⟨tables, σ₂⟩ := by
  unfold dumpOrdered
  simp only [Prod.mk.injEq, true_and]
  apply List.Perm.eq_of_pairwise (le := fun a b => le a b)
  · intro a b _ _ hab hba; exact antisymm a b hab hba
  · exact List.pairwise_mergeSort trans total σ₁
  · exact List.pairwise_mergeSort trans total σ₂
  · exact ((List.mergeSort_perm σ₁ le).trans h).trans (List.mergeSort_perm σ₂ le).symm

/-- **the pinned source is not deterministic**: two iteration orders of the same two-element set
give different dumps (witness; repaired by a `fix:` commit) -/
theorem hash_dump_depends_on_iteration_order :
    ∃ σ₁ σ₂ : List Nat, σ₁.Perm σ₂ ∧ dumpHash (⟨[], σ₁⟩ : Compiled Nat) ≠ dumpHash ⟨[], σ₂⟩ := by
  refine ⟨[1, 2], [2, 1], ?_, by decide⟩
  exact List.Perm.swap 2 1 []

/-- non-vacuity: `Nat.ble` is such an order -/
example : dumpOrdered Nat.ble ⟨[], [3, 1, 2]⟩ = dumpOrdered Nat.ble ⟨[], [2, 3, 1]⟩ :=
  ordered_dump_independent_of_iteration_order Nat.ble
    (fun a b c h1 h2 => by simp only [Nat.ble_eq] at *; omega)
    (fun a b => by simp only [Nat.ble_eq, Bool.or_eq_true, decide_eq_true_eq]; omega)
    (fun a b h1 h2 => by simp only [Nat.ble_eq] at *; omega)
    [] _ _ (by decide)

/-! ### name-keyed tables (`Table` = `BTreeMap`): recipes, aliases, assignments, modules, settings -/

/-- **what a table holds and shows is a function of the SET of definitions**: in whatever order
the definitions are met (source order, the analyzer's stack order over imported files, hash order
of any container they passed through), the table — and so every listing and the dump, which
iterate it — is the same. -/
theorem table_independent_of_definition_order {α : Type} (σ₁ σ₂ : List (String × α))
    (hnd : (σ₁.map Prod.fst).Nodup) (h : σ₁.Perm σ₂) : build σ₁ = build σ₂ := by
  unfold build
  have hnd2 : (σ₂.map Prod.fst).Nodup := (h.map Prod.fst).nodup_iff.mp hnd
  apply sorted_perm_eq
  · exact foldl_sorted σ₁ [] (by simp [Sorted])
  · exact foldl_sorted σ₂ [] (by simp [Sorted])
  · have p1 := foldl_perm σ₁ [] (by simpa using hnd)
    have p2 := foldl_perm σ₂ [] (by simpa using hnd2)
    simp only [List.append_nil] at p1 p2
    exact (p1.trans h).trans p2.symm

/-- the order shown is the key order, and nothing is lost or invented -/
theorem table_sorted_and_complete {α : Type} (σ : List (String × α)) (hnd : (σ.map Prod.fst).Nodup) :
    (keysOf (build σ)).Pairwise (· < ·) ∧ (build σ).Perm σ := by
  constructor
  · have := foldl_sorted σ [] (by simp [Sorted])
    unfold keysOf build
    rw [List.pairwise_map]
    exact this
  · have := foldl_perm σ [] (by simpa using hnd)
    simpa [build] using this

open Just.Define in
/-- **the duplicate-definition verdict does not depend on the order either** (the analyzer keeps
its `definitions` in a `HashMap`, used for look-ups only): permuting the definitions and the
assignments of a module changes neither acceptance nor rejection. -/
theorem duplicate_verdict_independent_of_order (allowRecipes allowVars : Bool)
    (items₁ items₂ : List Def) (vars₁ vars₂ : List String)
    (hi : items₁.Perm items₂) (hv : vars₁.Perm vars₂) :
    accepts allowRecipes allowVars items₁ vars₁ = accepts allowRecipes allowVars items₂ vars₂ := by
  have key : ∀ (it : List Def) (vs : List String), accepts allowRecipes allowVars it vs = true ↔
      (it.Pairwise (Compatible allowRecipes) ∧ (allowVars = true ∨ vs.Nodup)) := by
    intro it vs
    unfold accepts
    rw [Bool.and_eq_true, defineAll_isSome]
    have hp : (order it).Pairwise (Compatible allowRecipes) ↔ it.Pairwise (Compatible allowRecipes) :=
      (order_perm it).pairwise_iff (fun h => Compatible.symm h)
    rw [hp]
    have ht : TableOk allowRecipes [] (order it) := by intro d _ k0 hk; simp [List.lookup] at hk
    have hvv : (allowVars || !hasDup vs) = true ↔ (allowVars = true ∨ vs.Nodup) := by
      rw [Bool.or_eq_true, ← hasDup_iff]
      cases hasDup vs <;> simp
    rw [hvv]
    constructor
    · intro ⟨⟨h1, _⟩, h2⟩; exact ⟨h1, h2⟩
    · intro ⟨h1, h2⟩; exact ⟨⟨h1, ht⟩, h2⟩
  have hiff : accepts allowRecipes allowVars items₁ vars₁ = true ↔ accepts allowRecipes allowVars items₂ vars₂ = true := by
    rw [key, key, hi.pairwise_iff (fun h => Compatible.symm h), hv.nodup_iff]
  cases h1 : accepts allowRecipes allowVars items₁ vars₁ <;> cases h2 : accepts allowRecipes allowVars items₂ vars₂ <;> simp_all

/-- non-vacuity: three recipes met in two different orders give one table -/
example : keysOf (build [("test", 1), ("build", 2), ("lint", 3)]) = ["build", "lint", "test"] ∧
    build [("test", 1), ("build", 2), ("lint", 3)] = build [("lint", 3), ("test", 1), ("build", 2)] := by
  decide

/-! ### suggestions in error messages -/

/-- **the suggestion in an "unknown recipe" error is a function of the SET of definitions**: in whatever order recipes
and aliases are defined, the same name is suggested (the candidates come out of ordered tables) — for every edit
distance function -/
theorem suggestion_independent_of_definition_order {α β : Type} (dist : String → Nat)
    (r₁ r₂ : List (String × α)) (a₁ a₂ : List (String × β))
    (hr : (r₁.map Prod.fst).Nodup) (ha : (a₁.map Prod.fst).Nodup) (pr : r₁.Perm r₂) (pa : a₁.Perm a₂) :
    suggestRecipe dist r₁ a₁ = suggestRecipe dist r₂ a₂ := by
  unfold suggestRecipe
  rw [table_independent_of_definition_order r₁ r₂ hr pr, table_independent_of_definition_order a₁ a₂ ha pa]

/-- what is suggested is a candidate, at distance below 3, and no candidate is nearer -/
theorem suggestion_is_nearest (dist : String → Nat) (cands : List String) (s : String) (h : suggest dist cands = some s) :
    s ∈ cands ∧ dist s < 3 ∧ ∀ c ∈ cands, dist s ≤ dist c := by
  have key : ∀ (l : List String) (best : Option String) (s : String), pickNearest dist best l = some s →
      (s ∈ l ∨ best = some s) ∧ (∀ c ∈ l, dist s ≤ dist c) ∧ (∀ b, best = some b → dist s ≤ dist b) := by
    intro l
    induction l with
    | nil => intro best s h; simp only [pickNearest] at h; subst h; simp
    | cons c cs ih =>
      intro best s h
      cases best with
      | none =>
        simp only [pickNearest] at h
        obtain ⟨h1, h2, h3⟩ := ih (some c) s h
        refine ⟨?_, ?_, by simp⟩
        · rcases h1 with h1 | h1
          · exact Or.inl (List.mem_cons_of_mem _ h1)
          · cases h1; exact Or.inl (by simp)
        · intro x hx
          rcases List.mem_cons.mp hx with rfl | hx
          · exact h3 _ rfl
          · exact h2 x hx
      | some b =>
        simp only [pickNearest] at h
        by_cases hlt : dist c < dist b
        · simp only [hlt, if_true] at h
          obtain ⟨h1, h2, h3⟩ := ih (some c) s h
          refine ⟨?_, ?_, ?_⟩
          · rcases h1 with h1 | h1
            · exact Or.inl (List.mem_cons_of_mem _ h1)
            · cases h1; exact Or.inl (by simp)
          · intro x hx
            rcases List.mem_cons.mp hx with rfl | hx
            · exact h3 _ rfl
            · exact h2 x hx
          · intro b' hb'; cases hb'; have := h3 c rfl; omega
        · simp only [hlt, if_false] at h
          obtain ⟨h1, h2, h3⟩ := ih (some b) s h
          refine ⟨?_, ?_, ?_⟩
          · rcases h1 with h1 | h1
            · exact Or.inl (List.mem_cons_of_mem _ h1)
            · exact Or.inr h1
          · intro x hx
            rcases List.mem_cons.mp hx with rfl | hx
            · have := h3 b rfl; omega
            · exact h2 x hx
          · intro b' hb'; cases hb'; exact h3 b rfl
  unfold suggest at h
  obtain ⟨h1, h2, _⟩ := key _ none s h
  have hm : s ∈ cands.filter (fun c => decide (dist c < 3)) := by
    rcases h1 with h1 | h1
    · exact h1
    · cases h1
  have hs := List.mem_filter.mp hm
  refine ⟨hs.1, by simpa using hs.2, ?_⟩
  intro c hc
  by_cases hc3 : dist c < 3
  · exact h2 c (List.mem_filter.mpr ⟨hc, by simpa using hc3⟩)
  · have : dist s < 3 := by simpa using hs.2
    omega

theorem pickNearest_some_ne_none (dist : String → Nat) : ∀ (l : List String) (b : String), pickNearest dist (some b) l ≠ none
  | [], b => by simp [pickNearest]
  | c :: cs, b => by
    simp only [pickNearest]
    split
    · exact pickNearest_some_ne_none dist cs c
    · exact pickNearest_some_ne_none dist cs b

/-- nothing is suggested exactly when every candidate is at distance 3 or more -/
theorem no_suggestion_iff (dist : String → Nat) (cands : List String) :
    suggest dist cands = none ↔ ∀ c ∈ cands, 3 ≤ dist c := by
  unfold suggest
  constructor
  · intro h c hc
    cases hf : cands.filter (fun c => decide (dist c < 3)) with
    | nil =>
      have := List.filter_eq_nil_iff.mp hf c hc
      simp only [decide_eq_true_eq] at this
      omega
    | cons x xs =>
      rw [hf] at h
      simp only [pickNearest] at h
      exact absurd h (pickNearest_some_ne_none dist xs x)
  · intro h
    have hf : cands.filter (fun c => decide (dist c < 3)) = [] := by
      apply List.filter_eq_nil_iff.mpr
      intro c hc
      have := h c hc
      simp only [decide_eq_true_eq]
      omega
    rw [hf]; rfl


/-- **with candidates taken from a hash table the suggestion depends on the iteration order** whenever two candidates
are equally near (the seeded change C20-m7 chained the constants' `HashMap` keys) -/
theorem suggestion_depends_on_candidate_order :
    suggest (fun _ => 2) ["RED", "GREEN"] ≠ suggest (fun _ => 2) ["GREEN", "RED"] := by decide

end Just.Props.C20
