/-
C20 — non-executing commands are deterministic.
-/
import Just.Model.Determinism
namespace Just.Props.C20
open Just.Determinism

/-- **the dump is a function of the justfile**: with the ordered set, two processes that happen to
hold the same set of unexports in ANY two iteration orders print the same thing — for any name
type with a total order (what `BTreeSet` requires) -/
theorem ordered_dump_independent_of_iteration_order {α : Type} (le : α → α → Bool)
    (trans : ∀ a b c, le a b → le b c → le a c) (total : ∀ a b, le a b || le b a)
    (antisymm : ∀ a b, le a b → le b a → a = b)
    (tables : List (List α)) (σ₁ σ₂ : List α) (h : σ₁.Perm σ₂) :
    dumpOrdered le ⟨tables, σ₁⟩ = dumpOrdered le ⟨tables, σ₂⟩ := by
  unfold dumpOrdered
  simp only [Prod.mk.injEq, true_and]
  apply List.Perm.eq_of_pairwise (le := fun a b => le a b)
  · intro a b _ _ hab hba; exact antisymm a b hab hba
  · exact List.pairwise_mergeSort trans total σ₁
  · exact List.pairwise_mergeSort trans total σ₂
  · exact ((List.mergeSort_perm σ₁ le).trans h).trans (List.mergeSort_perm σ₂ le).symm

/-- **the pinned source is not deterministic**: two iteration orders of the same two-element set
give different dumps (witness; repaired by a `fix:` commit) -/
theorem hash_dump_depends_on_iteration_order :
    ∃ σ₁ σ₂ : List Nat, σ₁.Perm σ₂ ∧ dumpHash (⟨[], σ₁⟩ : Compiled Nat) ≠ dumpHash ⟨[], σ₂⟩ := by
  refine ⟨[1, 2], [2, 1], ?_, by decide⟩
  exact List.Perm.swap 2 1 []

/-- non-vacuity: `Nat.ble` is such an order -/
example : dumpOrdered Nat.ble ⟨[], [3, 1, 2]⟩ = dumpOrdered Nat.ble ⟨[], [2, 3, 1]⟩ :=
  ordered_dump_independent_of_iteration_order Nat.ble
    (fun a b c h1 h2 => by simp only [Nat.ble_eq] at *; omega)
    (fun a b => by simp only [Nat.ble_eq, Bool.or_eq_true, decide_eq_true_eq]; omega)
    (fun a b h1 h2 => by simp only [Nat.ble_eq] at *; omega)
    [] _ _ (by decide)

end Just.Props.C20
