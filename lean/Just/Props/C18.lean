/-
C18 — environment files are located and applied as documented.
-/
import Just.Model.Dotenv
namespace Just.Props.C18
open Just.Dotenv

/-- **no dotenv setting or flag active ⇒ nothing is probed or loaded**, whatever files exist -/
theorem inactive_reads_nothing (c : Cfg) (fs : FS) (h1 : c.setLoad = false) (h2 : c.setFilename = none)
    (h3 : c.setPath = none) (h4 : c.setRequired = false) (h5 : c.flagFilename = none)
    (h6 : c.flagPath = none) : load c fs = .inactive := by
  unfold load active filenameOf pathOf
  simp [h1, h2, h3, h4, h5, h6]

/-- **`--no-dotenv` disables loading** whatever the settings say -/
theorem no_dotenv_flag_disables (c : Cfg) (fs : FS) (h : c.noDotenv = true) : load c fs = .inactive := by
  unfold load; simp [h]

/-- **flags take precedence over settings**: a flag behaves exactly like the corresponding
setting with that value, and the setting's own value is ignored -/
theorem flags_override_settings_filename (c : Cfg) (fs : FS) (f : String) (s : Option String) :
    load { c with flagFilename := some f, setFilename := s } fs =
      load { c with flagFilename := none, setFilename := some f } fs := by
  unfold load active filenameOf pathOf
  simp

theorem flags_override_settings_path (c : Cfg) (fs : FS) (p : String) (s : Option String) :
    load { c with flagPath := some p, setPath := s } fs =
      load { c with flagPath := none, setPath := some p } fs := by
  unfold load active filenameOf pathOf
  simp

/-- **dotenv-path first**: if the file at dotenv-path exists it is the one loaded -/
theorem path_wins (c : Cfg) (fs : FS) (p : String) (hn : c.noDotenv = false)
    (hp : pathOf c = some p) (he : fs.pathIsFile p = true) : load c fs = .loadedPath p := by
  unfold load active
  simp [hn, hp, he]

/-- **otherwise the first file named dotenv-filename (default `.env`) in the working directory or
its ancestors** — also when dotenv-path is set but missing -/
theorem then_filename (c : Cfg) (fs : FS) (hn : c.noDotenv = false) (ha : active c = true)
    (hp : ∀ p, pathOf c = some p → fs.pathIsFile p = false) :
    load c fs = match findFile ((filenameOf c).getD Generated.defaultDotenvName) fs.ancestors 0 with
      | some l => .loadedFile l ((filenameOf c).getD Generated.defaultDotenvName)
      | none => if c.setRequired then .errorRequired else .empty := by
  unfold load
  simp only [hn, ha, Bool.false_eq_true, if_false, Bool.not_true]
  cases hpo : pathOf c with
  | none => rfl
  | some p =>
    simp only [hp p hpo, Bool.false_eq_true, if_false]
    cases findFile ((filenameOf c).getD Generated.defaultDotenvName) fs.ancestors 0 <;> rfl

/-- the nearest ancestor holding the file wins -/
theorem findFile_nearest (name : String) (ds : List (List String)) (i l : Nat)
    (h : findFile name ds i = some l) :
    i ≤ l ∧ (∀ j, j < l - i → ∀ d, ds[j]? = some d → d.contains name = false) ∧
      (∃ d, ds[l - i]? = some d ∧ d.contains name = true) := by
  induction ds generalizing i with
  | nil => simp [findFile] at h
  | cons d ds ih =>
    simp only [findFile] at h
    split at h
    · rename_i hc
      cases h
      exact ⟨Nat.le_refl _, fun j hj => by omega, d, by simp, hc⟩
    · rename_i hc
      obtain ⟨h1, h2, h3⟩ := ih (i + 1) h
      refine ⟨by omega, ?_, ?_⟩
      · intro j hj d' hd'
        cases j with
        | zero => simp at hd'; subst hd'; simpa using hc
        | succ j => simp at hd'; exact h2 j (by omega) d' hd'
      · obtain ⟨d', hd', hcd⟩ := h3
        have : l - i = (l - (i + 1)) + 1 := by omega
        exact ⟨d', by rw [this]; simpa using hd', hcd⟩

/-- **a missing file is an error only under dotenv-required** -/
theorem missing_error_iff_required (c : Cfg) (fs : FS) :
    load c fs = .errorRequired →
      c.setRequired = true ∧ c.noDotenv = false ∧
        findFile ((filenameOf c).getD Generated.defaultDotenvName) fs.ancestors 0 = none := by
  unfold load
  intro h
  by_cases hn : c.noDotenv = true
  · simp [hn] at h
  · simp only [hn, Bool.false_eq_true, if_false] at h
    by_cases ha : active c = true
    · simp only [ha, Bool.not_true, Bool.false_eq_true, if_false] at h
      have key : ∀ r : Res, r = .errorRequired →
          r = (match findFile ((filenameOf c).getD Generated.defaultDotenvName) fs.ancestors 0 with
            | some l => .loadedFile l ((filenameOf c).getD Generated.defaultDotenvName)
            | none => if c.setRequired then .errorRequired else .empty) →
          c.setRequired = true ∧ findFile ((filenameOf c).getD Generated.defaultDotenvName) fs.ancestors 0 = none := by
        intro r hr heq
        subst hr
        cases hf : findFile ((filenameOf c).getD Generated.defaultDotenvName) fs.ancestors 0 with
        | some l => rw [hf] at heq; cases heq
        | none =>
          rw [hf] at heq
          cases hreq : c.setRequired with
          | true => exact ⟨rfl, rfl⟩
          | false => rw [hreq] at heq; simp at heq
      cases hp : pathOf c with
      | none =>
        rw [hp] at h
        have := key _ h rfl
        exact ⟨this.1, by simpa using hn, this.2⟩
      | some p =>
        rw [hp] at h
        simp only at h
        split at h
        · cases h
        · have := key _ h rfl
          exact ⟨this.1, by simpa using hn, this.2⟩
    · simp [ha] at h

/-- **loaded entries never override a variable already present in just's environment** -/
theorem environment_wins (environment : String → Option String) (file : List (String × String))
    (name v : String) (h : environment name = some v) : visible environment file name = some v := by
  simp [visible, h]

/-- and entries for new names are visible with the file's value (first entry wins) -/
theorem new_entries_visible (environment : String → Option String) (file : List (String × String))
    (name : String) (h : environment name = none) :
    visible environment file name = (file.filter (fun kv => (environment kv.1).isNone)).lookup name := by
  simp [visible, h, merge]

/-- non-vacuity: `set dotenv-path` pointing nowhere falls back to `.env` of the parent directory -/
example : load { setPath := some "missing.env" } ⟨fun _ => false, [["justfile"], [".env", "x"]]⟩ = .loadedFile 1 ".env" := by
  decide

/-- the file searched for when no name is given is `.env` (read from src/load_dotenv.rs on every run) -/
theorem default_name_is_documented : Generated.defaultDotenvName = ".env" := by decide

end Just.Props.C18
